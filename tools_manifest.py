"""Regenerate MANIFEST.json from the rule modules that exist (run: /venv/bin/python tools_manifest.py)."""
import importlib, json, os, sys
sys.path.insert(0, os.path.dirname(os.path.abspath(__file__)))
PY = "/venv/bin/python"
ALL = [f"C{i:02d}" for i in range(1, 21)]
NA_FIXED = {
    "C01": "purely numerical: bounds on floating-point global error / convergence order against an external reference; no sound static argument in reach bounds the error of a nonlinear filter (structural ingredients are decided under C06/C07)",
}
checks, na = [], []
for pid in ALL:
    if pid in NA_FIXED:
        na.append({"property_id": pid, "reason": NA_FIXED[pid]})
        continue
    try:
        mod = importlib.import_module(f"pdqverif.rules.{pid.lower()}")
    except ModuleNotFoundError:
        na.append({"property_id": pid, "reason": "static rules for this property are not built yet in this revision (planned, see DESIGN.md section 5); not claimed until they exist"})
        continue
    checks.append({
        "property_id": pid,
        "quick_cmd": f"{PY} -m pdqverif check {pid} --tier quick",
        "thorough_cmd": f"{PY} -m pdqverif check {pid} --tier thorough",
        "evidence_file": f"/verif/evidence/{pid}.json",
        "replay_cmd_template": f"{PY} -m pdqverif replay {{path}}",
        "engine": "pdqverif",
        "level_claimed": {"category": getattr(mod, "LEVEL", "other"), "text": mod.LEVEL_TEXT, "design_ref": f"DESIGN.md section 5, {pid}"},
        "level_note": mod.LEVEL_NOTE + "  The probdiffeq.backend wrappers met while interpreting are decided against the meaning the domains give them (rule R-%s-TB); the interpreter's models of the underlying library routines remain trusted." % pid,
        "technique": mod.TECHNIQUE,
    })
m = {
    "version": 1,
    "setup_cmd": f"{PY} -c \"import ast,sys; sys.path.insert(0,'/verif'); import pdqverif.__main__\"",
    "hooks": {"guard": "PROBDIFFEQ_VERIF", "enable": "none needed: the checks parse /repo/probdiffeq with ast and never import or run it; no hook exists in /repo", "baseline_off_cmd": "cd /repo && /venv/bin/python -m pytest -ra -q -p no:cacheprovider --timeout=900 --continue-on-collection-errors", "source_commits": [], "add_only": True},
    "engines": [{"name": "pdqverif", "path": "/verif/pdqverif", "serves_properties": [c["property_id"] for c in checks], "kind_free_text": "static analysis: stdlib-ast abstract interpreter (concrete statics, hash-consed abstract terms) with provenance, value-numbering normal form, interval/symbolic bounds, zones, units/shapes, typestate and guard-dominance analyses; no repository code is imported or executed"}],
    "checks": checks,
    "not_applicable": na,
    "notes": "All checks are static analyses of /repo's current working tree (family: static analysis). Exit 0 = all obligations discharged; 1 = refuted obligation (VIOLATION line + replay file); 2 = analysis could not be carried out (ANALYSIS-ERROR). Known findings: /verif/known_findings.json. Thorough tier = quick rules + in-memory source-variant self-test of the checker.",
}
json.dump(m, open(os.path.join(os.path.dirname(os.path.abspath(__file__)), "MANIFEST.json"), "w"), indent=1)
print("checks:", [c["property_id"] for c in checks], "n/a:", [n["property_id"] for n in na])
