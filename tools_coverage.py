"""Function-coverage report of the abstract interpreter: which repository functions were interpreted by at least one check.

usage: tools_coverage.py            (runs every quick check with evidence redirected to a scratch directory; prints the report)
The report is an audit aid (it found the blind spots that led to F7/F8 and to R-C11-6, R-C14-4, R-C15-3); it decides nothing.
"""
import ast, glob, json, os, subprocess, sys, tempfile

VERIF = os.path.dirname(os.path.abspath(__file__))
REPO = os.environ.get("PDQVERIF_REPO", "/repo")


def all_functions():
    out = []
    for root, _, files in os.walk(os.path.join(REPO, "probdiffeq")):
        for fn in files:
            if not fn.endswith(".py"):
                continue
            path = os.path.join(root, fn)
            mod = os.path.relpath(path, REPO)[:-3].replace("/", ".")
            if mod.endswith(".__init__"):
                mod = mod[:-9]
            tree = ast.parse(open(path).read())

            def walk(node, prefix):
                for ch in ast.iter_child_nodes(node):
                    if isinstance(ch, ast.FunctionDef):
                        stub = all(isinstance(s, (ast.Raise, ast.Pass)) or (isinstance(s, ast.Expr) and isinstance(s.value, ast.Constant)) for s in ch.body)
                        out.append((prefix + "." + ch.name, stub))
                        walk(ch, prefix + "." + ch.name)
                    elif isinstance(ch, ast.ClassDef):
                        walk(ch, prefix + "." + ch.name)
                    elif not isinstance(ch, ast.Lambda):
                        walk(ch, prefix)

            walk(tree, mod)
    return out


def main():
    man = json.load(open(os.path.join(VERIF, "MANIFEST.json")))
    ids = [c["property_id"] for c in man["checks"]]
    seen = set()
    with tempfile.TemporaryDirectory(prefix="pdq_cov_") as d:
        env = dict(os.environ, PDQVERIF_EVIDENCE_DIR=d)
        procs = [subprocess.Popen(["/venv/bin/python", "-m", "pdqverif", "check", i], cwd=VERIF, env=env, stdout=subprocess.DEVNULL) for i in ids]
        for p in procs:
            p.wait()
        for f in glob.glob(os.path.join(d, "C*.json")):
            seen |= set(json.load(open(f))["coverage"]["analysed"].get("functions_interpreted", []))
    fns = all_functions()
    groups = {"backend (primitives by design)": [], "abstract stubs / docstring-only": [], "__repr__": [], "matfree (approximate model, only its guards are in scope: C20)": [],
              "util.benchmark_util / util.test_util (helpers, not anchored by a property)": [], "other": []}
    n_cov = 0
    for q, stub in fns:
        if q in seen:
            n_cov += 1
            continue
        if ".backend." in q:
            groups["backend (primitives by design)"].append(q)
        elif stub:
            groups["abstract stubs / docstring-only"].append(q)
        elif q.endswith("__repr__"):
            groups["__repr__"].append(q)
        elif "ssm_impl_matfree" in q:
            groups["matfree (approximate model, only its guards are in scope: C20)"].append(q)
        elif ".util.benchmark_util" in q or ".util.test_util" in q:
            groups["util.benchmark_util / util.test_util (helpers, not anchored by a property)"].append(q)
        else:
            groups["other"].append(q)
    print(f"functions in probdiffeq/: {len(fns)}; interpreted by at least one check: {n_cov}")
    for g, qs in groups.items():
        print(f"  not interpreted -- {g}: {len(qs)}")
    print("  'other' in full:")
    for q in groups["other"]:
        print("   ", q)


if __name__ == "__main__":
    sys.exit(main())
