"""Run every quick check against behaviour-preserving refactorings delivered by sub-agents.

usage: tools_refactors.py <worktree> [<worktree> ...]     (each has refactor*/patch.diff; patches are applied one at a time
       inside the worktree, checks run with PDQVERIF_REPO=<worktree>, then reverted)
"""
import glob, json, os, shutil, subprocess, sys
VERIF = os.path.dirname(os.path.abspath(__file__))
PY = "/venv/bin/python"

def sh(cmd, cwd=None, env=None):
    r = subprocess.run(cmd, shell=True, cwd=cwd, env=env, capture_output=True, text=True)
    return r.returncode, r.stdout + r.stderr

man = json.load(open(os.path.join(VERIF, "MANIFEST.json")))
checks = [c["property_id"] for c in man["checks"]]
results = {}
for wt in sys.argv[1:]:
    for d in sorted(glob.glob(os.path.join(wt, "refactor*"))):
        rid = f"{os.path.basename(wt)}-{os.path.basename(d)}"
        sh("git checkout -- probdiffeq", cwd=wt)
        rc, out = sh(f"git apply {d}/patch.diff", cwd=wt)
        if rc != 0:
            results[rid] = {"error": "patch does not apply"}
            continue
        env = dict(os.environ, PDQVERIF_REPO=wt, PDQVERIF_EVIDENCE_DIR="/tmp/scratch/evidence_refactor")
        alarms = {}
        for p in checks:
            rc, out = sh(f"{PY} -m pdqverif check {p} --tier quick", cwd=VERIF, env=env)
            if rc != 0:
                alarms[p] = [l[:300] for l in out.splitlines() if l.startswith(("REFUTED", "ANALYSIS-ERROR"))][:3]
        sh("git checkout -- probdiffeq", cwd=wt)
        results[rid] = alarms
        print(rid, "->", "silent" if not alarms else json.dumps(alarms, indent=1))
        # keep the refactoring with the result
        dest = os.path.join(VERIF, "seeded", "benign", rid)
        os.makedirs(dest, exist_ok=True)
        shutil.copy(f"{d}/patch.diff", dest)
        if os.path.exists(f"{d}/notes.md"):
            shutil.copy(f"{d}/notes.md", dest)
        json.dump({"kind": "behaviour-preserving refactoring (sub-agent; full suite passes with all six of its batch applied)", "alarms": alarms}, open(os.path.join(dest, "meta.json"), "w"), indent=1)
print("summary:", sum(1 for v in results.values() if not v), "silent of", len(results))
