"""Confirm a sub-agent seed and run the checks against it.

usage: tools_seeds.py confirm <src_seed_dir> <dest_id> <property>     (runs suite + demo in a scratch worktree, stores under /verif/seeded/<dest_id>)
       tools_seeds.py run [<dest_id> ...]                              (apply each stored patch to /repo, run all quick checks, undo)
"""
import json, os, shutil, subprocess, sys, time
VERIF = os.path.dirname(os.path.abspath(__file__))
PY = "/venv/bin/python"

def sh(cmd, cwd=None, env=None, timeout=3000):
    r = subprocess.run(cmd, shell=True, cwd=cwd, env=env, capture_output=True, text=True, timeout=timeout)
    return r.returncode, r.stdout + r.stderr

def confirm(src, dest_id, prop):
    wt = f"/tmp/wt/confirm_{dest_id}"
    sh(f"git -C /repo worktree remove --force {wt}")
    rc, out = sh(f"git -C /repo worktree add -q --detach {wt} HEAD")
    assert rc == 0, out
    shutil.copy("/repo/probdiffeq/_version.py", f"{wt}/probdiffeq/_version.py")
    env = dict(os.environ, PYTHONPATH=wt)
    res = {"property": prop, "source": src}
    rebased = None
    # demos may assert the worktree they were written in: retarget them to the scratch worktree
    origin_root = os.path.dirname(os.path.abspath(src))
    demo_txt = open(f"{src}/demo.py").read().replace(origin_root, wt)
    os.makedirs(f"{wt}/_seed", exist_ok=True)
    open(f"{wt}/_seed/demo.py", "w").write(demo_txt)
    src_demo = f"{wt}/_seed"
    try:
        rc, out = sh(f"{PY} {src_demo}/demo.py", cwd=wt, env=env)
        res["demo_unchanged"] = {"exit": rc, "tail": out[-300:]}
        rc, out = sh(f"git apply {src}/patch.diff", cwd=wt)
        if rc != 0:
            # the seed was written against an earlier HEAD (before a later fix: commit touched a context line): re-apply with fuzz and regenerate the diff
            rc, out = sh(f"patch -p1 -F3 -s < {src}/patch.diff", cwd=wt)
            assert rc == 0, "patch does not apply: " + out
            rc, newdiff = sh("git diff -- probdiffeq", cwd=wt)
            res["rebased"] = "patch re-applied with fuzz onto the current HEAD (a later fix: commit had changed a context line)"
            rebased = newdiff
        rc, out = sh(f"{PY} {src_demo}/demo.py", cwd=wt, env=env)
        res["demo_with_change"] = {"exit": rc, "tail": out[-300:]}
        rc, out = sh(f"{PY} -m pytest -q -p no:cacheprovider --timeout=900 -n 8 -x", cwd=wt, env=env)
        res["suite_with_change"] = {"exit": rc, "tail": out.strip().splitlines()[-1] if out.strip() else ""}
    finally:
        sh(f"git -C /repo worktree remove --force {wt}")
    ok = res["demo_unchanged"]["exit"] == 0 and res["demo_with_change"]["exit"] != 0 and res["suite_with_change"]["exit"] == 0
    res["confirmed"] = ok
    print(json.dumps(res, indent=1))
    if ok:
        d = os.path.join(VERIF, "seeded", dest_id)
        os.makedirs(d, exist_ok=True)
        if rebased is not None:
            open(f"{d}/patch.diff", "w").write(rebased)
        else:
            shutil.copy(f"{src}/patch.diff", f"{d}/patch.diff")
        shutil.copy(f"{src}/demo.py", f"{d}/demo.py")
        notes = open(f"{src}/notes.md").read() if os.path.exists(f"{src}/notes.md") else ""
        open(f"{d}/notes.md", "w").write(notes)
        meta = {"property": prop, "needs_to_manifest": notes[:1500], "confirmed_by": "tools_seeds.py confirm (scratch worktree): demo passes unchanged, fails with the change, full suite passes with the change",
                "ran": res}
        json.dump(meta, open(f"{d}/meta.json", "w"), indent=1)
    return ok

def run(ids):
    base = os.path.join(VERIF, "seeded")
    ids = ids or sorted(os.listdir(base))
    man = json.load(open(os.path.join(VERIF, "MANIFEST.json")))
    checks = [c["property_id"] for c in man["checks"]]
    summary = {}
    for i in ids:
        d = os.path.join(base, i)
        rc, out = sh(f"git -C /repo status --porcelain")
        assert out.strip() == "", "/repo not clean: " + out
        rc, out = sh(f"git -C /repo apply {d}/patch.diff")
        if rc != 0:
            # the tree has moved on since the seed was written (later fix: commits changed context lines): re-apply with fuzz and refresh the stored diff
            rc, out = sh(f"patch -p1 -F3 -s --no-backup-if-mismatch < {d}/patch.diff", cwd="/repo")
            if rc != 0:
                sh("git -C /repo checkout -- . && git -C /repo clean -fdq -- probdiffeq")
                summary[i] = {"error": "patch does not apply"}
                print(i, "-> PATCH DOES NOT APPLY")
                continue
            rc2, newdiff = sh("git -C /repo diff -- probdiffeq")
            open(f"{d}/patch.diff", "w").write(newdiff)
        try:
            hits = {}
            env = dict(os.environ, PDQVERIF_EVIDENCE_DIR="/tmp/scratch/ev_seed")  # evidence of a seeded tree never lands in /verif/evidence
            from concurrent.futures import ThreadPoolExecutor
            with ThreadPoolExecutor(8) as ex:
                outs = list(ex.map(lambda p: (p, *sh(f"{PY} -m pdqverif check {p} --tier quick", cwd=VERIF, env=env)), checks))
            for p, rc, out in outs:
                if rc != 0:
                    lines = [l for l in out.splitlines() if l.startswith(("REFUTED", "ANALYSIS-ERROR"))]
                    hits[p] = {"exit": rc, "first": lines[:2]}
        finally:
            sh("git -C /repo checkout -- . && git -C /repo clean -fdq -- probdiffeq")
        meta = json.load(open(f"{d}/meta.json"))
        summary[i] = {"property": meta["property"], "detected_by": hits}
        meta["checks_result"] = hits
        json.dump(meta, open(f"{d}/meta.json", "w"), indent=1)
        print(i, meta["property"], "->", {k: v["exit"] for k, v in hits.items()} or "MISSED")
    return summary

def note(sid, key, text):
    f = os.path.join(VERIF, "seeded", sid, "meta.json")
    m = json.load(open(f))
    m[key] = text
    json.dump(m, open(f, "w"), indent=1)


if __name__ == "__main__":
    if sys.argv[1] == "note":
        note(sys.argv[2], sys.argv[3], sys.argv[4])
    elif sys.argv[1] == "confirm":
        sys.exit(0 if confirm(sys.argv[2], sys.argv[3], sys.argv[4]) else 1)
    else:
        run(sys.argv[2:])
