import jax
jax.config.update("jax_enable_x64", True)
import jax.numpy as jnp
import numpy as onp
from math import factorial
from probdiffeq import probdiffeq as pde

def ref_iwp(num, h):
    q = num - 1
    Phi = onp.zeros((num, num)); Q = onp.zeros((num, num))
    for i in range(num):
        for j in range(num):
            if j >= i:
                Phi[i, j] = h ** (j - i) / factorial(j - i)
            e = 2 * q + 1 - i - j
            Q[i, j] = h ** e / (e * factorial(q - i) * factorial(q - j))
    return Phi, Q

rng = onp.random.default_rng(0)
worst = 0
for trial in range(300):
    num = int(rng.integers(1, 12)); d = int(rng.integers(1, 6))
    h = 10 ** rng.uniform(-6, 2)
    lam = 10 ** rng.uniform(-3, 3, size=d)
    c = 10 ** rng.uniform(-3, 3)
    nd = int(rng.integers(0, 3))
    base = max(1, num - nd)
    nd = num - base
    tc = [jnp.asarray(rng.standard_normal(d)) for _ in range(base)]
    Phi1, Q1 = ref_iwp(num, h)
    p = h ** onp.arange(num - 1, -1, -1.0)
    for name in ["dense", "iso", "bd"]:
        if name == "dense":
            ssm = pde.state_space_model_dense()
            prior = ssm.prior_wiener_integrated(tc, output_scale=jnp.asarray(lam), diffuse_derivatives=nd)
            tr = prior.transition(dt=h, output_scale=jnp.asarray(c)).preconditioner_apply()
            A = onp.asarray(tr.A); L = onp.asarray(tr.noise.cholesky_flat)
            Aref = onp.kron(Phi1, onp.eye(d)); Qref = c**2 * onp.kron(Q1, onp.diag(lam**2))
            pp = onp.repeat(p, d); ll = onp.tile(lam, num)
        elif name == "iso":
            ssm = pde.state_space_model_isotropic()
            prior = ssm.prior_wiener_integrated(tc, output_scale=lam[0], diffuse_derivatives=nd)
            tr = prior.transition(dt=h, output_scale=jnp.asarray(c)).preconditioner_apply()
            A = onp.asarray(tr.A); L = onp.asarray(tr.noise.cholesky_flat)
            Aref = Phi1; Qref = c**2 * lam[0]**2 * Q1
            pp = p; ll = onp.ones(num) * lam[0]
        else:
            ssm = pde.state_space_model_blockdiag()
            prior = ssm.prior_wiener_integrated(tc, output_scale=jnp.asarray(lam), diffuse_derivatives=nd)
            cs = 10 ** rng.uniform(-3, 3, size=d)
            tr = prior.transition(dt=h, output_scale=jnp.asarray(cs)).preconditioner_apply()
            A = onp.asarray(tr.A); L = onp.asarray(tr.noise.cholesky_flat)
            for k in range(d):
                Qk = L[k] @ L[k].T
                eQ = onp.max(onp.abs(Qk - (cs[k]*lam[k])**2 * Q1) / onp.outer(p, p)) / (cs[k]*lam[k])**2 / h
                eA = onp.max(onp.abs(A[k] - Phi1) / onp.outer(p, 1/p))
                worst = max(worst, eQ, eA)
                if max(eQ, eA) > 1e-10: print("BAD bd", num, d, h, eQ, eA)
            continue
        Q = L @ L.T
        eQ = onp.max(onp.abs(Q - Qref) / onp.outer(pp * ll, pp * ll)) / c**2 / h
        eA = onp.max(onp.abs(A - Aref) / onp.outer(pp, 1/pp))
        worst = max(worst, eQ, eA)
        if max(eQ, eA) > 1e-10: print("BAD", name, num, d, h, eQ, eA)
        # init check
print("worst", worst)
