import jax
jax.config.update("jax_enable_x64", True)
import jax.numpy as jnp
import numpy as onp
from scipy.integrate import solve_ivp
from probdiffeq import probdiffeq as pde, ivpsolve

def f(u, t):
    return -jnp.sqrt(u) * (1 + 0.5 * jnp.sin(5 * t))
@pde.ode
def vf(u, *, t):
    return f(u, t)
u0 = jnp.asarray([1.0, 0.8])
ref = solve_ivp(lambda t, y: onp.asarray(f(jnp.asarray(y), t)), (0, 1.5), onp.asarray(u0), rtol=1e-12, atol=1e-14, dense_output=True)
save_at = jnp.linspace(0, 1.5, 7)
for ssm in [pde.state_space_model_dense(), pde.state_space_model_isotropic(), pde.state_space_model_blockdiag()]:
  for num in [2, 4]:
    tc, _ = pde.jetexpand_ode_padded_scan(num=num)(vf, [u0], t=0.0)
    prior = ssm.prior_wiener_integrated(tc)
    c = ssm.constraint_ode_ts0(vf)
    solver = pde.solver_mle(strategy=pde.strategy_filter(), constraint=c)
    error = pde.error_residual_std(constraint=c)
    for dt0 in [0.01, 0.5, 2.0]:
        solve = ivpsolve.solve_adaptive_save_at(solver=solver, error=error)
        sol = jax.jit(lambda p: solve(p, save_at=save_at, atol=1e-5, rtol=1e-5, dt0=dt0))(prior)
        err = onp.abs(onp.asarray(sol.u.mean[0]) - ref.sol(onp.asarray(save_at)).T).max(axis=1)
        print(type(ssm).__name__, "num", num, "dt0", dt0, "steps", onp.asarray(sol.num_steps), "maxerr", onp.array2string(err, precision=2))
