"""C06: an attempt whose error estimate is NaN is ACCEPTED by the rejection loop.

Property: "time advances only through attempts whose scaled error estimate passed the
acceptance test; a rejected attempt ... is followed by a strictly smaller attempt".

RejectionLoop.step loops `while acceptance_factor_proposed < 1.0`.  For a NaN estimate the
comparison is False, the loop exits, and the NaN attempt becomes the new state.  Worse, the
checkpoints inside that step are then served by interpolating from the *old* state, so the
caller receives finite but completely wrong numbers with num_steps == 1 and no NaN anywhere
in `solution.u.mean[0]`.

Setup: u' = -sqrt(u) (1 + sin(5t)/2), u0 = (1.0, 0.8), t in [0, 1.5], nu = 2, atol = rtol = 1e-5.
dt0 = 2.0 is larger than the checkpoint spacing (allowed by the property); the first attempt
extrapolates to a negative u, sqrt gives NaN, the error estimate is NaN.  A correct loop
rejects, shrinks dt by factor_min and succeeds (as the runs with dt0 = 0.5 show).
"""
import sys
import jax
jax.config.update("jax_enable_x64", True)
import jax.numpy as jnp
import numpy as onp
from scipy.integrate import solve_ivp
import probdiffeq
from probdiffeq import probdiffeq as pde, ivpsolve

print("library:", probdiffeq.__file__)


def f(u, t):
    return -jnp.sqrt(u) * (1 + 0.5 * jnp.sin(5 * t))


@pde.ode
def vf(u, *, t):
    return f(u, t)


u0 = jnp.asarray([1.0, 0.8])
save_at = jnp.linspace(0, 1.5, 7)
ref = solve_ivp(lambda t, y: onp.asarray(f(jnp.asarray(y), t)), (0, 1.5), onp.asarray(u0),
                rtol=1e-12, atol=1e-14, dense_output=True).sol(onp.asarray(save_at)).T

ssm = pde.state_space_model_dense()
tc, _ = pde.jetexpand_ode_padded_scan(num=2)(vf, [u0], t=0.0)
prior = ssm.prior_wiener_integrated(tc)
c = ssm.constraint_ode_ts0(vf)
solver = pde.solver_mle(strategy=pde.strategy_filter(), constraint=c)
error = pde.error_residual_std(constraint=c)

# 1. the acceptance quantity of the first attempt
s0 = solver.init(t=0.0, u=prior, damp=0.0)
s1 = solver.step(state=s0, dt=2.0, damp=0.0)
ep, _ = error.estimate_error_norm(error.init_error(), previous=s0, proposed=s1, dt=2.0, atol=1e-5, rtol=1e-5, damp=0.0)
print("acceptance quantity of the first attempt (dt=2.0):", float(ep), "-> must be rejected")

bad = False
for control in [ivpsolve.control_integral(), ivpsolve.control_proportional_integral()]:
    for clip in [False, True]:
        for dt0 in [0.5, 2.0]:
            solve = ivpsolve.solve_adaptive_save_at(solver=solver, error=error, control=control, clip_dt=clip)
            sol = jax.jit(lambda p: solve(p, save_at=save_at, atol=1e-5, rtol=1e-5, dt0=dt0))(prior)
            u = onp.asarray(sol.u.mean[0])
            err = onp.abs(u - ref).max()
            print(f"{type(control).__name__:30s} clip_dt={clip!s:5s} dt0={dt0}: num_steps={onp.asarray(sol.num_steps)}"
                  f" max|u-ref|={err:.2e} finite={bool(onp.all(onp.isfinite(u)))}")
            if not err < 1e-3:
                bad = True
print("expected: every run rejects NaN attempts and reaches max|u-ref| ~ 1e-6")
if bad:
    print("DEFECT PRESENT: NaN attempt accepted; checkpoints silently filled by extrapolation")
    sys.exit(1)
print("no defect")
