import itertools, sys, warnings
import jax
jax.config.update("jax_enable_x64", True)
import jax.numpy as jnp
import numpy as onp
from probdiffeq import probdiffeq as pde, ivpsolve

d = 3
Wm = jnp.asarray(onp.random.default_rng(0).standard_normal((d, d)))

@pde.ode
def vf(u, *, t):
    return jnp.tanh(Wm @ u) * (1 + 0.3 * jnp.sin(t)) + 0.1 * u**2

u0 = jnp.asarray([0.5, -0.3, 1.2])

def mvn(rv):
    m, C = rv.to_multivariate_normal()
    return onp.asarray(m), onp.asarray(C)

def run(ssm_name, solver_name, strat_name, num, damp, est, norm, norm_order, relin, epus, control, clip, vec_tol):
    ssm = {"dense": pde.state_space_model_dense, "iso": pde.state_space_model_isotropic, "bd": pde.state_space_model_blockdiag}[ssm_name]()
    tc, _ = pde.jetexpand_ode_padded_scan(num=num - 1)(vf, [u0], t=0.0)
    prior = ssm.prior_wiener_integrated(tc)
    constraint = ssm.constraint_ode_ts0(vf)
    strat = {"filter": pde.strategy_filter, "fp": pde.strategy_smoother_fixedpoint}[strat_name]()
    mk = {"plain": pde.solver, "mle": pde.solver_mle, "dyn": pde.solver_dynamic}[solver_name]
    solver = mk(strategy=strat, constraint=constraint)
    nrm = {"s_rms": pde.error_norm_scale_then_rms, "rms_s": pde.error_norm_rms_then_scale}[norm](norm_order=norm_order)
    if est == "res":
        error = pde.error_residual_std(constraint=constraint, error_norm=nrm, re_linearize_before_error=relin, error_per_unit_step=epus)
    else:
        error = pde.error_state_std(constraint=constraint, error_norm=nrm, re_linearize_before_error=relin, error_per_unit_step=epus)
    ctrl = {"I": ivpsolve.control_integral(safety=0.8, factor_min=0.3, factor_max=4.0), "PI": ivpsolve.control_proportional_integral(safety=0.9, factor_min=0.1, factor_max=5.0, exponent_integral=0.4, exponent_proportional=0.2)}[control]
    solve = ivpsolve.solve_adaptive_save_at(solver=solver, error=error, control=ctrl, clip_dt=clip)
    save_at = jnp.linspace(0.0, 2.0, 7)
    atol, rtol = 1e-4, 1e-3
    if vec_tol and norm == "s_rms":
        atol = jnp.asarray([1e-4, 1e-5, 1e-3]); rtol = jnp.asarray([1e-3, 1e-2, 1e-4])
    sol = jax.jit(lambda p: solve(p, save_at=save_at, atol=atol, rtol=rtol, dt0=0.1, damp=damp))(prior)
    return sol

bad = 0
def rel(a, b):
    return onp.max(onp.abs(a - b)) / (1e-300 + max(onp.max(onp.abs(a)), onp.max(onp.abs(b))))
combos = list(itertools.product(["plain", "mle", "dyn"], ["filter", "fp"], [3], [0.0, 1e-3], ["res", "state"], ["s_rms", "rms_s"], [None, 1, jnp.inf], [False, True], [False, True], ["I", "PI"], [False, True], [False, True]))
rng = onp.random.default_rng(int(sys.argv[1]))
rng.shuffle(combos)
for c in combos[: int(sys.argv[2])]:
    (solver_name, strat_name, num, damp, est, norm, norm_order, relin, epus, control, clip, vec_tol) = c
    sD = run("dense", *c); sI = run("iso", *c)
    mD, CD = mvn(sD.u); mI, CI = mvn(sI.u)
    msgs = []
    if not onp.array_equal(onp.asarray(sD.num_steps), onp.asarray(sI.num_steps)): msgs.append(f"num_steps {onp.asarray(sD.num_steps)} vs {onp.asarray(sI.num_steps)}")
    e = (rel(mD, mI), rel(CD, CI), rel(onp.asarray(sD.output_scale), onp.asarray(sI.output_scale)))
    if not all(x < 1e-6 for x in e): msgs.append(f"mean/cov/scale {e}")
    if msgs:
        bad += 1
        print(c, "|", "; ".join(msgs))
print("bad", bad)
