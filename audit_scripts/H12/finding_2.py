"""C19: lstsq_constrained_gauss_newton returns an INFEASIBLE point without exhausting its
iteration budget when the constraint is badly scaled (but only mildly nonlinear).

Property: "returns, within its iteration budget, a point that satisfies the constraint to
the stated tolerance (or exhausts the budget and says so)".

Observed: the loop also stops as soon as the last increment is below `tol` (cond3 in
cond_fun), although ||g(x)||_rms is still orders of magnitude above `tol` and the budget is
far from exhausted.  For g = c * (affine + 0.08 * quadratic), c ~ 1e8, the residual after the
early stop is >100x the tolerance; continuing the very same iteration (tol=0) reduces the
residual by five more orders of magnitude, i.e. the point is neither feasible nor is the
budget exhausted.
"""
import sys
import jax
jax.config.update("jax_enable_x64", True)
import jax.numpy as jnp
import numpy as onp
import probdiffeq
from probdiffeq import probdiffeq as pde

print("library:", probdiffeq.__file__)
rng = onp.random.default_rng(0)
hits = []
for trial in range(300):
    D = int(rng.integers(2, 6)); m = int(rng.integers(1, D))
    mean = rng.standard_normal(D)
    L = onp.tril(rng.standard_normal((D, D)))
    Jm = rng.standard_normal((m, D)); c = rng.standard_normal(m); T3 = rng.standard_normal((m, D, D))
    cs = 10 ** rng.uniform(5, 9); nl = 10 ** rng.uniform(-2, -1)
    tol = 10 ** rng.uniform(-6, -4); maxiter = 50
    Jj, cj, T3j = map(jnp.asarray, (Jm, c, T3))

    def g(x, cs=cs, nl=nl, Jj=Jj, cj=cj, T3j=T3j):
        return cs * (Jj @ x - cj + nl * jnp.einsum("mij,i,j->m", T3j, x, x))

    x, st = pde.lstsq_constrained_gauss_newton(maxiter=maxiter, tol=tol)(
        g, jnp.asarray(mean), jnp.asarray(mean), jnp.asarray(L))
    grms = float(jnp.linalg.norm(g(x)) / onp.sqrt(m)); it = int(st["iters"])
    rounding_floor = 1e-15 * cs * (1 + float(jnp.linalg.norm(x))) ** 2
    if grms > 100 * tol and it < maxiter and grms > 1000 * rounding_floor:
        _, st0 = pde.lstsq_constrained_gauss_newton(maxiter=maxiter, tol=0.0)(
            g, jnp.asarray(mean), jnp.asarray(mean), jnp.asarray(L))
        g0 = float(jnp.linalg.norm(st0["final_constraint"]) / onp.sqrt(m))
        hits.append((trial, D, m, cs, nl, tol, it, grms, float(jnp.linalg.norm(st["final_increment"]) / onp.sqrt(D)), g0))

print("expected: every returned point has ||g(x)||_rms <= tol, or iters == maxiter (=50)")
for h in hits:
    print("trial %d (D=%d, m=%d, scale=%.1e, nonlinearity=%.2f, tol=%.1e): iters=%d < 50, ||g||_rms=%.2e (= %.0f x tol),"
          " last increment rms=%.1e; same iteration with tol=0 reaches ||g||_rms=%.1e" % (*h[:8], h[7] / h[5], h[8], h[9]))
if hits:
    print(f"DEFECT PRESENT in {len(hits)} of 300 random badly scaled problems")
    sys.exit(1)
print("no defect")
