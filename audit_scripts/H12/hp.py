"""High-precision expm / Gramian reference with decimal objects."""
import decimal
import numpy as onp
decimal.getcontext().prec = 80
D = decimal.Decimal

def to_dec(M):
    M = onp.asarray(M, dtype=onp.float64)
    out = onp.empty(M.shape, dtype=object)
    for idx in onp.ndindex(*M.shape):
        out[idx] = D(float(M[idx]))
    return out

def eye(n):
    out = onp.empty((n, n), dtype=object)
    for i in range(n):
        for j in range(n):
            out[i, j] = D(1) if i == j else D(0)
    return out

def expm_dec(M):
    n = M.shape[0]
    nrm = max(sum(abs(x) for x in M[:, j]) for j in range(n))
    s = 0
    while nrm > D("0.25"):
        nrm /= 2; s += 1
    Ms = M / D(2) ** s
    term = eye(n); out = eye(n)
    k = 1
    while True:
        term = term.dot(Ms) / D(k)
        out = out + term
        mx = max(abs(x) for x in term.flat)
        if mx < D(10) ** (-75):
            break
        k += 1
    for _ in range(s):
        out = out.dot(out)
    return out

def expm_gram(A, B, h):
    """Return expm(A h), int_0^h e^{As} B B^T e^{A^T s} ds as float64 arrays."""
    A = to_dec(A); B = to_dec(B); h = D(float(h))
    n = A.shape[0]
    M = onp.empty((2 * n, 2 * n), dtype=object)
    M[:n, :n] = A * h
    M[:n, n:] = B.dot(B.T) * h
    M[n:, :n] = to_dec(onp.zeros((n, n)))
    M[n:, n:] = -A.T * h
    E = expm_dec(M)
    eA = E[:n, :n]
    G = E[:n, n:].dot(eA.T)
    return onp.array(eA, dtype=onp.float64), onp.array(G, dtype=onp.float64)
