import jax
jax.config.update("jax_enable_x64", True)
import jax.numpy as jnp
import numpy as onp
from hunt import hp
from probdiffeq import probdiffeq as pde



def ref_expm_gram(A, B, h):
    return hp.expm_gram(A, B, h)

def sde_matrices(kind, num, d, lam, rng):
    # returns A (n,n), B (n,d): state ordering: coefficient-major (kron(a, I_d))
    a = onp.diag(onp.ones(num - 1), 1)
    A = onp.kron(a, onp.eye(d))
    if kind == "ioup":
        W = rng.standard_normal((d, d))
        A[-d:, -d:] = W
        extra = W
    elif kind == "matern":
        ell = 10 ** rng.uniform(-1, 1)
        D = num
        z = onp.sqrt(2 * (D - 0.5)) / ell
        from math import comb
        for i in range(D):
            A[-d:, i * d:(i + 1) * d] = -comb(D, i) * z ** (D - i) * onp.eye(d)
        extra = ell
    B = onp.zeros((num * d, d))
    B[-d:, :] = onp.diag(lam)
    return A, B, extra

rng = onp.random.default_rng(1)
ssm = pde.state_space_model_dense()
worst = {}
for trial in range(150):
    num = int(rng.integers(1, 8))  # number of taylor coefficients (q = num-1)
    d = int(rng.integers(1, 4))
    if num * d > 14:
        continue
    kind = ["ioup", "matern"][trial % 2]
    lam = 10 ** rng.uniform(-2, 2, size=d)
    A, B, extra = sde_matrices(kind, num, d, lam, rng)
    h = 10 ** rng.uniform(-6, 2)
    # limit ||A h|| ~ 50
    nrm = onp.linalg.norm(A, 1) * h
    if nrm > 50:
        h = h * 50 / nrm
    tcoeffs = [jnp.asarray(rng.standard_normal(d)) for _ in range(num)]
    if kind == "ioup":
        W = jnp.asarray(extra)
        prior = ssm.prior_ornstein_uhlenbeck_integrated(lambda u: W @ u, tcoeffs, output_scale=jnp.asarray(lam))
    else:
        prior = ssm.prior_matern(extra, tcoeffs, output_scale=jnp.asarray(lam))
    c = 10 ** rng.uniform(-2, 2)
    tr = prior.transition(dt=h, output_scale=jnp.asarray(c)).preconditioner_apply()
    Phi = onp.asarray(tr.A); L = onp.asarray(tr.noise.cholesky_flat)
    Q = L @ L.T
    eA, G = ref_expm_gram(A, B, h)
    G = c**2 * G
    # check SDE matrices agree
    assert onp.allclose(onp.asarray(prior.A), A), (kind, prior.A, A)
    sc = onp.sqrt(onp.diag(G))
    errQ = onp.max(onp.abs(Q - G) / onp.outer(sc, sc))
    # scale Phi entries: Phi_ij relative to sqrt(G_ii)/sqrt(G_jj)?? use plain relative to ref magnitude rowwise with h-powers
    p = onp.repeat(h ** onp.arange(num - 1, -1, -1.0), d)
    errP = onp.max(onp.abs(Phi - eA) / onp.outer(p, 1 / p) / max(1.0, onp.max(onp.abs(eA / onp.outer(p, 1 / p)))))
    key = (kind,)
    if errQ > worst.get(key + ("Q",), (0,))[0]:
        worst[key + ("Q",)] = (errQ, num, d, h, nrm)
    if errP > worst.get(key + ("P",), (0,))[0]:
        worst[key + ("P",)] = (errP, num, d, h, nrm)
    if errQ > 1e-8 or errP > 1e-8:
        print("BAD", kind, "num", num, "d", d, "h", h, "|Ah|", onp.linalg.norm(A, 1) * h, "errQ", errQ, "errP", errP)
print(worst)
