import itertools, sys, warnings
import jax
jax.config.update("jax_enable_x64", True)
import jax.numpy as jnp
import numpy as onp
from probdiffeq import probdiffeq as pde, ivpsolve

d = 3
coef = jnp.asarray([0.7, -1.3, 0.4])
jac = pde.jacobian_materialize()

def f_dec(u, *, t):
    return coef * jnp.sin(u) + 0.2 * u**2 * jnp.cos(t) + t

def f_iso(u, *, t):
    return -0.8 * (1 + t) * u + jnp.asarray([1.0, 2.0, -1.0]) * jnp.cos(t)

u0 = jnp.asarray([0.5, -0.3, 1.2])

def mvn(rv):
    m, C = rv.to_multivariate_normal()
    return onp.asarray(m), onp.asarray(C)

def solve_one(ssm, vf_raw, u0_, solver_name, strat_name, num, damp, grid, use_init, scale=None):
    vf = pde.ode(vf_raw, jacobian=jac)
    if use_init:
        prior = ssm.prior_wiener_integrated([u0_], diffuse_derivatives=num - 1, output_scale=scale)
    else:
        tc, _ = pde.jetexpand_ode_padded_scan(num=num - 1)(vf, [u0_], t=grid[0])
        prior = ssm.prior_wiener_integrated(tc, output_scale=scale)
    constraint = ssm.constraint_ode_ts1(vf)
    strat = {"filter": pde.strategy_filter, "fi": pde.strategy_smoother_fixedinterval}[strat_name]()
    mk = {"plain": pde.solver, "mle": pde.solver_mle, "dyn": pde.solver_dynamic}[solver_name]
    solver = mk(strategy=strat, constraint=constraint, constraint_init=constraint if use_init else None)
    solve = ivpsolve.solve_fixed_grid(solver=solver)
    return jax.jit(lambda p: solve(p, grid=grid, damp=damp))(prior)

def rel(a, b):
    return onp.max(onp.abs(a - b)) / (1e-300 + max(onp.max(onp.abs(a)), onp.max(onp.abs(b))))

rng = onp.random.default_rng(0)
bad = 0
for solver_name, strat_name, num, damp, use_init in itertools.product(["plain", "mle", "dyn"], ["filter", "fi"], [2, 4], [0.0, 1e-2], [False, True]):
    grid = jnp.asarray(onp.concatenate([[0.0], onp.cumsum(rng.uniform(0.02, 0.3, size=6))]))
    tag = (solver_name, strat_name, num, damp, use_init)
    msgs = []
    # (a) blockdiag vs scalar dense
    bd = solve_one(pde.state_space_model_blockdiag(), f_dec, u0, solver_name, strat_name, num, damp, grid, use_init)
    means_bd = [onp.asarray(x) for x in bd.u.mean]   # list of (T, d)
    stds_bd = [onp.asarray(x) for x in bd.u.std]
    for k in range(d):
        fk = lambda u, *, t, k=k: coef[k] * jnp.sin(u) + 0.2 * u**2 * jnp.cos(t) + t
        dn = solve_one(pde.state_space_model_dense(), fk, u0[k:k+1], solver_name, strat_name, num, damp, grid, use_init)
        for i in range(num):
            e1 = rel(onp.asarray(dn.u.mean[i])[:, 0], means_bd[i][:, k])
            e2 = rel(onp.asarray(dn.u.std[i])[:, 0], stds_bd[i][:, k])
            if not (e1 < 1e-8 and e2 < 1e-6): msgs.append(f"bd vs scalar dense dim {k} coeff {i}: mean {e1:.2e} std {e2:.2e}")
        e3 = rel(onp.asarray(dn.output_scale), onp.asarray(bd.output_scale)[:, k])
        if not e3 < 1e-8: msgs.append(f"scale dim {k} {e3:.2e}")
    # (b) isotropic vs dense for scalar Jacobian
    sI = solve_one(pde.state_space_model_isotropic(), f_iso, u0, solver_name, strat_name, num, damp, grid, use_init)
    sD = solve_one(pde.state_space_model_dense(), f_iso, u0, solver_name, strat_name, num, damp, grid, use_init)
    mD, CD = mvn(sD.u); mI, CI = mvn(sI.u)
    e = (rel(mD, mI), rel(CD, CI), rel(onp.asarray(sD.output_scale), onp.asarray(sI.output_scale)))
    if not all(x < 1e-7 for x in e): msgs.append(f"iso vs dense {e}")
    if msgs:
        bad += 1; print(tag, "|", "; ".join(msgs[:4]))
print("bad", bad)
