import itertools
import jax
jax.config.update("jax_enable_x64", True)
import jax.numpy as jnp
import numpy as onp
from probdiffeq import probdiffeq as pde, ivpsolve
jac = pde.jacobian_materialize()
W = jnp.asarray(onp.random.default_rng(0).standard_normal((3, 3)))
def f(u, *, t):
    return jnp.tanh(W @ u) * (1 + t) + 0.2 * u**2 * jnp.cos(3 * t)
u0 = jnp.asarray([0.5, -0.3, 1.2])
vf = pde.ode(f, jacobian=jac)
bad = 0
for ssm_name, lin, solver_name, est, epus in itertools.product(["dense", "iso", "bd"], ["ts0", "ts1"], ["plain", "mle", "dyn"], ["res", "state"], [False, True]):
    ssm = {"dense": pde.state_space_model_dense, "iso": pde.state_space_model_isotropic, "bd": pde.state_space_model_blockdiag}[ssm_name]()
    tc, _ = pde.jetexpand_ode_padded_scan(num=3)(vf, [u0], t=0.0)
    res = []
    for s in [1.0, 1e3, 1e-4]:
        os = jnp.asarray(s) if ssm_name == "iso" else s * jnp.ones(3)
        prior = ssm.prior_wiener_integrated(tc, output_scale=os)
        c = ssm.constraint_ode_ts0(vf) if lin == "ts0" else ssm.constraint_ode_ts1(vf)
        solver = {"plain": pde.solver, "mle": pde.solver_mle, "dyn": pde.solver_dynamic}[solver_name](strategy=pde.strategy_filter(), constraint=c)
        E = pde.error_residual_std if est == "res" else pde.error_state_std
        error = E(constraint=c, error_per_unit_step=epus)
        solve = ivpsolve.solve_adaptive_save_at(solver=solver, error=error)
        sol = jax.jit(lambda p: solve(p, save_at=jnp.linspace(0, 2, 6), atol=1e-5, rtol=1e-4, dt0=0.1))(prior)
        res.append(sol)
    for b in res[1:]:
        a = res[0]
        same = onp.array_equal(onp.asarray(a.num_steps), onp.asarray(b.num_steps)) and onp.allclose(onp.asarray(a.u.mean[0]), onp.asarray(b.u.mean[0]), rtol=1e-7, atol=1e-10)
        if not same:
            bad += 1; print((ssm_name, lin, solver_name, est, epus), onp.asarray(a.num_steps), onp.asarray(b.num_steps))
print("bad", bad)
