import itertools
import jax
jax.config.update("jax_enable_x64", True)
import jax.numpy as jnp
import numpy as onp
from probdiffeq import probdiffeq as pde, ivpsolve
jac = pde.jacobian_materialize()
coef = jnp.asarray([0.7, -1.3, 0.4])
def f(u, *, t):
    return coef * jnp.sin(u) * (1 + t) + 0.2 * u**2 * jnp.cos(3 * t) + t
u0 = jnp.asarray([0.5, -0.3, 1.2])
vf = pde.ode(f, jacobian=jac)
bad = 0
for ssm_name, lin, solver_name, est, strat in itertools.product(["dense", "iso", "bd"], ["ts0", "ts1"], ["plain", "mle", "dyn", "dyn_relin"], ["res", "state"], ["filter", "fp"]):
    ssm = {"dense": pde.state_space_model_dense, "iso": pde.state_space_model_isotropic, "bd": pde.state_space_model_blockdiag}[ssm_name]()
    tc, _ = pde.jetexpand_ode_padded_scan(num=3)(vf, [u0], t=0.0)
    prior = ssm.prior_wiener_integrated(tc)
    c = ssm.constraint_ode_ts0(vf) if lin == "ts0" else ssm.constraint_ode_ts1(vf)
    st = {"filter": pde.strategy_filter, "fp": pde.strategy_smoother_fixedpoint}[strat]()
    if solver_name == "dyn_relin": solver = pde.solver_dynamic(strategy=st, constraint=c, re_linearize_after_calibration=True)
    else: solver = {"plain": pde.solver, "mle": pde.solver_mle, "dyn": pde.solver_dynamic}[solver_name](strategy=st, constraint=c)
    res = []
    for relin in [False, True]:
        E = pde.error_residual_std if est == "res" else pde.error_state_std
        error = E(constraint=c, re_linearize_before_error=relin)
        solve = ivpsolve.solve_adaptive_save_at(solver=solver, error=error)
        sol = jax.jit(lambda p: solve(p, save_at=jnp.linspace(0, 2, 6), atol=1e-5, rtol=1e-4, dt0=0.1))(prior)
        res.append(sol)
    a, b = res
    same = onp.array_equal(onp.asarray(a.num_steps), onp.asarray(b.num_steps)) and onp.allclose(onp.asarray(a.u.mean[0]), onp.asarray(b.u.mean[0]), rtol=1e-9, atol=1e-12)
    if not same:
        bad += 1; print((ssm_name, lin, solver_name, est, strat), onp.asarray(a.num_steps), onp.asarray(b.num_steps))
print("bad", bad)
