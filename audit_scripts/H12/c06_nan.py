import jax
jax.config.update("jax_enable_x64", True)
import jax.numpy as jnp
from probdiffeq import probdiffeq as pde, ivpsolve

@pde.ode
def vf(u, *, t):
    return -jnp.sqrt(u)          # Torricelli; exact solution (1 - t/2)^2 on [0, 2)

u0 = jnp.asarray([1.0, 1.0])
ssm = pde.state_space_model_dense()
tc, _ = pde.jetexpand_ode_padded_scan(num=1)(vf, [u0], t=0.0)
prior = ssm.prior_wiener_integrated(tc)
c = ssm.constraint_ode_ts0(vf)
solver = pde.solver(strategy=pde.strategy_filter(), constraint=c)
error = pde.error_residual_std(constraint=c)
for dt0 in [0.1, 1.5]:
    solve = ivpsolve.solve_adaptive_save_at(solver=solver, error=error)
    sol = solve(prior, save_at=jnp.asarray([0.0, 0.5, 1.0]), atol=1e-6, rtol=1e-6, dt0=dt0)
    print("dt0", dt0, "t", sol.t, "u", sol.u.mean[0][:, 0], "steps", sol.num_steps)
