import jax
jax.config.update("jax_enable_x64", True)
import jax.numpy as jnp
import numpy as onp
from math import factorial
from probdiffeq import probdiffeq as pde, ivpsolve
rng = onp.random.default_rng(0)
d = 3; num = 4
Am = jnp.asarray(rng.standard_normal((d, d))); bv = jnp.asarray(rng.standard_normal(d))
jac = pde.jacobian_materialize()
vf = pde.ode(lambda u, *, t: Am @ u + bv * jnp.cos(t), jacobian=jac)
u0 = jnp.asarray(rng.standard_normal(d))
tc, _ = pde.jetexpand_ode_padded_scan(num=num - 1)(vf, [u0], t=0.0)
ssm = pde.state_space_model_dense()
prior = ssm.prior_wiener_integrated(tc, is_exact=False, inexact_eps=0.3)
def iwp_ref(num, h):
    q = num - 1
    Phi = onp.zeros((num, num)); Q = onp.zeros((num, num))
    for i in range(num):
        for j in range(num):
            if j >= i: Phi[i, j] = h ** (j - i) / factorial(j - i)
            e = 2 * q + 1 - i - j
            Q[i, j] = h ** e / (e * factorial(q - i) * factorial(q - j))
    return onp.kron(Phi, onp.eye(d)), onp.kron(Q, onp.eye(d))
h = 0.3
Phi, Q = iwp_ref(num, h)
m0 = onp.asarray(prior.init.mean_flat); P0 = 0.09 * onp.eye(num * d)
mp = Phi @ m0; Pp = Phi @ P0 @ Phi.T + Q
H = onp.zeros((d, num * d)); H[:, d:2 * d] = onp.eye(d); H[:, :d] = -onp.asarray(Am)
z = H @ mp - onp.asarray(bv) * onp.cos(h)
S = H @ Pp @ H.T; K = Pp @ H.T @ onp.linalg.inv(S)
m_ref = mp - K @ z; P_ref = Pp - K @ S @ K.T
for name, tp in [("prior", None), ("map1", pde.taylor_point_maximum_a_posteriori(pde.lstsq_constrained_gauss_newton(maxiter=1))), ("map10", pde.taylor_point_maximum_a_posteriori(pde.lstsq_constrained_gauss_newton(maxiter=10, tol=1e-12)))]:
    c = ssm.constraint_ode_ts1(vf, taylor_point=tp)
    solver = pde.solver(strategy=pde.strategy_filter(), constraint=c)
    s0 = solver.init(t=0.0, u=prior, damp=0.0)
    s1 = solver.step(state=s0, dt=h, damp=0.0)
    m, C = s1.u.to_multivariate_normal()
    print(name, "mean err", onp.abs(onp.asarray(m) - m_ref).max(), "cov err", onp.abs(onp.asarray(C) - P_ref).max())
