import jax
jax.config.update("jax_enable_x64", True)
import jax.numpy as jnp
import numpy as onp
from probdiffeq import probdiffeq as pde

W = jnp.asarray(onp.random.default_rng(0).standard_normal((3, 3)))
def f(u, *, t):
    return jnp.tanh(W @ u) + 0.3 * u**2 * jnp.cos(t)
vf = pde.ode(f)
@pde.residual_velocity
def res(u, du, *, t):
    return du - f(u, t=t)
u0 = jnp.asarray([0.5, -0.3, 1.2])
for num in [1, 2, 4, 6, 8]:
    ref, _ = pde.jetexpand_ode_padded_scan(num=num)(vf, [u0], t=0.7)
    lifted = res.jet_lift(lift_by=num - 1)
    for maxiter, tol in [(10, 1e-6), (50, 1e-12)]:
        out, info = pde.jetexpand_residual(num, pde.lstsq_constrained_gauss_newton(maxiter=maxiter, tol=tol))(lifted, [u0], t=0.7)
        errs = [float(jnp.max(jnp.abs(a - b)) / (1 + jnp.max(jnp.abs(b)))) for a, b in zip(out, ref)]
        print("num", num, "maxiter", maxiter, "tol", tol, "iters", int(info["iters"]), "|g|", float(jnp.linalg.norm(info["final_constraint"])), "|dx|", float(jnp.linalg.norm(info["final_increment"])), "relerr per coeff", onp.array2string(onp.asarray(errs), precision=1))
