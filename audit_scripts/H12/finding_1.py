"""C14 / C07: dense and isotropic models disagree on the acceptance quantity (and hence
on the adaptive step sequence) for error_norm_rms_then_scale(norm_order != 2).

Theory: with TS0 linearisation and default scales, the dense and the isotropic model
are the same Gaussian model, so the acceptance quantity and the accepted step sequence
must coincide for every error estimator / error norm.  They do for
error_norm_scale_then_rms(norm_order=p) (any p) and for error_norm_rms_then_scale() (p=2),
but not for error_norm_rms_then_scale(norm_order=p), p != 2.
"""
import sys
import jax
jax.config.update("jax_enable_x64", True)
import jax.numpy as jnp
import numpy as onp
import probdiffeq
from probdiffeq import probdiffeq as pde, ivpsolve

print("library:", probdiffeq.__file__)
d = 4
W = jnp.asarray(onp.random.default_rng(0).standard_normal((d, d)))

@pde.ode
def vf(u, *, t):
    return jnp.tanh(W @ u) + 0.1 * u**2

u0 = jnp.asarray([0.5, -0.3, 1.2, 0.1])
num = 3  # Taylor coefficients (q + 1)
atol, rtol, dt = 1e-4, 1e-3, 0.05


def build(ssm, norm):
    tc, _ = pde.jetexpand_ode_padded_scan(num=num - 1)(vf, [u0], t=0.0)
    prior = ssm.prior_wiener_integrated(tc)
    c = ssm.constraint_ode_ts0(vf)
    solver = pde.solver(strategy=pde.strategy_filter(), constraint=c)
    error = pde.error_residual_std(constraint=c, error_norm=norm)
    return prior, solver, error


def acceptance_quantity(ssm, norm):
    prior, solver, error = build(ssm, norm)
    s0 = solver.init(t=0.0, u=prior, damp=0.0)
    s1 = solver.step(state=s0, dt=0.1, damp=0.0)
    s2 = solver.step(state=s1, dt=dt, damp=0.0)
    val, _ = error.estimate_error_norm(
        error.init_error(), previous=s1, proposed=s2, dt=dt, atol=atol, rtol=rtol, damp=0.0
    )
    return float(val), onp.asarray(s2.u.mean[0])


def num_steps(ssm, norm):
    prior, solver, error = build(ssm, norm)
    solve = ivpsolve.solve_adaptive_save_at(solver=solver, error=error)
    sol = jax.jit(lambda p: solve(p, save_at=jnp.linspace(0.0, 2.0, 5), atol=atol, rtol=rtol, dt0=0.1))(prior)
    return onp.asarray(sol.num_steps)


failed = False
for name, mk in [("scale_then_rms", pde.error_norm_scale_then_rms), ("rms_then_scale", pde.error_norm_rms_then_scale)]:
    for p in [None, 1, jnp.inf]:
        vD, mD = acceptance_quantity(pde.state_space_model_dense(), mk(norm_order=p))
        vI, mI = acceptance_quantity(pde.state_space_model_isotropic(), mk(norm_order=p))
        assert onp.allclose(mD, mI, rtol=1e-12), "states must agree (same model)"
        nD = num_steps(pde.state_space_model_dense(), mk(norm_order=p))
        nI = num_steps(pde.state_space_model_isotropic(), mk(norm_order=p))
        ok = abs(vD - vI) <= 1e-8 * abs(vD) and onp.array_equal(nD, nI)
        pp = 2 if p is None else float(p)
        predicted = d ** (-(1 / pp - 0.5) / num)  # ratio dense/isotropic if the bug is present
        print(f"{name:15s} norm_order={p!s:5s}: acceptance quantity dense={vD:.10f} isotropic={vI:.10f}"
              f" ratio={vD / vI:.6f} (expected 1; d^((1/2-1/p)/(q+1))={predicted:.6f});"
              f" num_steps dense={nD} isotropic={nI} -> {'ok' if ok else 'MISMATCH'}")
        failed |= not ok

if failed:
    print("DEFECT PRESENT: identical models, different acceptance quantity / step sequence.")
    sys.exit(1)
print("no defect")
