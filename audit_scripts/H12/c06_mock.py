import sys, dataclasses
import jax
jax.config.update("jax_enable_x64", True)
import jax.numpy as jnp
import numpy as onp
from probdiffeq import ivpsolve
from probdiffeq._probdiffeq import utilities
from probdiffeq.backend import tree, structs

@tree.register_dataclass
@structs.dataclass
class S:
    t: jax.Array
    num_steps: jax.Array
    tag: jax.Array  # 0: step, 1: interpolated, 2: at_t1

LOG = []
def log(kind, *vals):
    def cb(*v):
        LOG.append((kind, *[float(x) for x in v]))
    jax.debug.callback(cb, *vals, ordered=True)

class MockSolver:
    is_suitable_for_save_at = True
    def init(self, t, u, damp):
        return S(jnp.asarray(t, dtype=float), jnp.asarray(0), jnp.asarray(0))
    def step(self, state, dt, damp):
        log("step", state.t, dt)
        return S(state.t + dt, state.num_steps + 1, jnp.asarray(0))
    def interpolate_fwd(self, *, t, interp_from, interp_to):
        log("interp", t, interp_from.t, interp_to.t)
        sol = S(jnp.asarray(t, dtype=float), interp_to.num_steps, jnp.asarray(1))
        return sol, utilities.InterpResult(step_from=interp_to, interp_from=S(jnp.asarray(t, dtype=float), interp_from.num_steps, jnp.asarray(1)))
    def interpolate_fwd_at_t1(self, *, t, interp_from, interp_to):
        log("at_t1", t, interp_from.t, interp_to.t)
        sol = S(interp_to.t, interp_to.num_steps, jnp.asarray(2))
        return sol, utilities.InterpResult(step_from=interp_to, interp_from=S(interp_to.t, interp_from.num_steps, jnp.asarray(2)))
    def userfriendly_output(self, *, solution0, solution, solution1):
        return solution0, solution, solution1

class MockError:
    def __init__(self, breaks, hadm, rate):
        self.breaks = jnp.asarray(breaks); self.hadm = jnp.asarray(hadm); self.rate = rate
    def init_error(self):
        return ()
    def estimate_error_norm(self, state, previous, proposed, *, dt, atol, rtol, damp):
        idx = jnp.searchsorted(self.breaks, previous.t, side="right")
        h = self.hadm[idx]
        ep = (h / dt)  # error_power: accept iff dt <= h
        log("err", previous.t, dt, ep)
        return ep, state

def check(seed):
    rng = onp.random.default_rng(seed)
    global LOG
    LOG = []
    t0 = 0.0; T = 1.0
    nb = int(rng.integers(0, 6))
    breaks = onp.sort(rng.uniform(t0, T, size=nb))
    hadm = 10 ** rng.uniform(-3, 0.3, size=nb + 1)
    ncheck = int(rng.integers(1, 8))
    save_at = onp.concatenate([[t0], onp.sort(rng.uniform(t0, T, size=ncheck))])
    eps = 1e-8
    fmin = rng.uniform(0.05, 0.9); fmax = rng.uniform(1.1, 20); safety = rng.uniform(0.5, 1.0)
    if rng.integers(2):
        ctrl = ivpsolve.control_integral(safety=safety, factor_min=fmin, factor_max=fmax); cname = "I"
    else:
        ctrl = ivpsolve.control_proportional_integral(safety=safety, factor_min=fmin, factor_max=fmax, exponent_integral=rng.uniform(0.05, 1.0), exponent_proportional=rng.uniform(0.0, 0.8)); cname = "PI"
    clip = bool(rng.integers(2))
    dt0 = 10 ** rng.uniform(-3, 0.5)
    # make some checkpoints coincide (within eps) with predicted step ends: do a dry run to get accepted ends
    solver = MockSolver(); error = MockError(breaks, hadm, 1)
    def do(save_at):
        global LOG
        LOG = []
        solve = ivpsolve.solve_adaptive_save_at(solver=solver, error=error, control=ctrl, clip_dt=clip)
        out = solve(None, save_at=jnp.asarray(save_at), atol=1.0, rtol=1.0, dt0=dt0, eps=eps)
        jax.effects_barrier()
        return out, list(LOG)
    out, lg = do(save_at)
    # accepted ends
    ends = [e[1] + e[2] for e in lg if e[0] == "err" and e[3] >= 1.0]
    # move some checkpoints onto step ends +- fraction of eps
    ends_in = [e for e in ends if t0 < e < T]
    if ends_in and rng.integers(2):
        k = int(rng.integers(1, len(save_at)))
        e = ends_in[int(rng.integers(len(ends_in)))]
        save_at[k] = e + rng.choice([-0.9, -0.5, 0.0, 0.5, 0.9, -1.5, 1.5]) * eps
        save_at = onp.concatenate([[t0], onp.sort(save_at[1:])])
        save_at = save_at[onp.concatenate([[True], onp.diff(save_at) > 0])]
        out, lg = do(save_at)
    sol0, sol, sol1 = out
    msgs = []
    # replay log
    t_cur = t0; last = None; n_acc = 0; acc_ends = [t0]
    i_chk = 1
    prev_dt = None; prev_rej = False
    steps = [e for e in lg if e[0] == "step"]; errs = [e for e in lg if e[0] == "err"]
    assert len(steps) == len(errs)
    for (_, ts, dts), (_, te, dte, ep) in zip(steps, errs):
        if ts != t_cur: msgs.append(f"attempt from {ts} but current accepted time {t_cur}")
        if prev_dt is not None:
            ratio = dts / prev_dt
            if prev_rej and not dts < prev_dt: msgs.append(f"after reject dt {prev_dt} -> {dts}")
            if not clip and not (fmin * (1 - 1e-12) <= ratio <= fmax * (1 + 1e-12)): msgs.append(f"ratio {ratio} outside [{fmin},{fmax}]")
            if clip and not ratio <= fmax * (1 + 1e-12): msgs.append(f"ratio {ratio} > fmax")
        if clip:
            nxt = [s for s in save_at[1:] if s > ts + eps]
            if nxt and ts + dts > nxt[0] + eps: msgs.append(f"clip: step {ts}+{dts} beyond checkpoint {nxt[0]}")
        if ep >= 1.0:
            t_cur = ts + dts; n_acc += 1; acc_ends.append(t_cur); prev_rej = False
        else:
            prev_rej = True
        prev_dt = dts
    # reported
    tr = onp.asarray(sol.t); ns = onp.asarray(sol.num_steps)
    if len(tr) != len(save_at) - 1: msgs.append("wrong number of outputs")
    for k, (a, b) in enumerate(zip(tr, save_at[1:])):
        if abs(a - b) > eps * (1 + 1e-6): msgs.append(f"reported {a} for requested {b}")
        # number of accepted attempts needed: the first accepted end >= b - eps
        need = next(i for i, e in enumerate(acc_ends) if e + eps >= b)
        if ns[k] != need: msgs.append(f"num_steps {ns[k]} vs accepted {need} at {b}")
    for e in lg:
        if e[0] == "interp":
            _, t, a, b = e
            if not (a <= t <= b): msgs.append(f"interp {t} not in [{a},{b}]")
    if msgs:
        print("seed", seed, cname, "clip", clip, "dt0", dt0, "save_at", save_at, "|", msgs[:5])
    return len(msgs) > 0

bad = sum(check(s) for s in range(int(sys.argv[1]), int(sys.argv[2])))
print("bad", bad)
