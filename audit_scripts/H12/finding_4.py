"""C09 (float32 only, low severity): for small steps and nu >= 6 the discretised prior
transition is NaN in float32 although every entry of the exact transition is representable.

Property quantifier: h in [1e-6, 1e2], q = 0..10, float64 and float32.

The Taylor preconditioner computes p = h^k / k! and p_inv = h^(-k) k! separately
(utilities.preconditioner_taylor).  In float32, h = 1e-6 and k >= 6 give p_inv = inf
(1e42 > 3.4e38) and, for k >= 8, p = 0.  The transition keeps them as to_observed / to_latent;
removing the preconditioner multiplies 0 * 1 * inf = NaN on the diagonal (exact value: 1), and
inside the solver `to_latent * mean` is inf/NaN as well.  In float64 the same input is fine.
(This script deliberately runs WITHOUT jax_enable_x64, otherwise the system matrices are float64.)
"""
import sys
import jax
import jax.numpy as jnp
import numpy as onp
import probdiffeq
from probdiffeq import probdiffeq as pde

print("library:", probdiffeq.__file__, "| default dtype:", jnp.ones(()).dtype)
bad = False
for ssm in [pde.state_space_model_dense(), pde.state_space_model_isotropic(), pde.state_space_model_blockdiag()]:
    for num, h in [(7, 1e-6), (8, 1e-6), (11, 1e-6), (11, 1e-3), (11, 1e2)]:
        tc = [jnp.ones((2,), dtype=jnp.float32) * (k + 1) for k in range(num)]
        prior = ssm.prior_wiener_integrated(tc)
        os = jnp.ones((2,)) if isinstance(ssm, pde.state_space_model_blockdiag) else jnp.ones(())
        tr = prior.transition(dt=jnp.float32(h), output_scale=os)
        plain = tr.preconditioner_apply()
        A = onp.asarray(plain.A); A = A[0] if A.ndim == 3 else A
        pred = tr.marginalise(prior.init)
        ok = bool(onp.all(onp.isfinite(A))) and bool(onp.all(onp.isfinite(onp.asarray(pred.mean_flat))))
        print(f"{type(ssm).__name__:28s} nu={num - 1:2d} h={h:7.0e}: A[0,0]={A[0, 0]} (exact 1.0), "
              f"predicted mean finite={bool(onp.all(onp.isfinite(onp.asarray(pred.mean_flat))))} -> {'ok' if ok else 'NaN'}")
        bad |= not ok
if bad:
    print("DEFECT PRESENT (float32 range): NaN transition for h=1e-6, nu>=7")
    sys.exit(1)
print("no defect")
