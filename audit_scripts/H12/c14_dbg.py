import sys
sys.argv = ["x"]
import jax
jax.config.update("jax_enable_x64", True)
import jax.numpy as jnp
import numpy as onp
import importlib.util
src = open("/repo/hunt/c14_fixed_wild.py").read().split("rng = onp.random.default_rng(0)")[0]
exec(src)
rng = onp.random.default_rng(0)
import itertools
for solver_name, strat_name, num, damp, use_init, exact in itertools.product(["plain", "mle", "dyn"], ["filter", "fi"], [4, 7], [0.0, 1e-2], [False, True], [True]):
    grid = jnp.asarray(onp.concatenate([[0.0], onp.cumsum(10 ** rng.uniform(-5, 0.3, size=6))]))
    if (solver_name, strat_name, num, damp, use_init) == ("mle", "fi", 4, 0.0, True):
        print("grid", grid)
        sols = {k: run(k, solver_name, strat_name, num, damp, use_init, grid, exact) for k in ["dense", "iso", "bd"]}
        for k in sols:
            print(k, "u mean[0]\n", onp.asarray(sols[k].u.mean[0]))
            print(k, "u mean[3]\n", onp.asarray(sols[k].u.mean[3]))
            print(k, "std[0]\n", onp.asarray(sols[k].u.std[0]))
            print(k, "scale", onp.asarray(sols[k].output_scale)[-1])
