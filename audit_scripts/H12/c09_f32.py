import jax
import jax.numpy as jnp
import numpy as onp
from math import factorial, comb
from probdiffeq import probdiffeq as pde
from hunt import hp
assert jnp.ones(()).dtype == jnp.float32

def ref_iwp(num, h):
    q = num - 1
    Phi = onp.zeros((num, num)); Q = onp.zeros((num, num))
    for i in range(num):
        for j in range(num):
            if j >= i: Phi[i, j] = h ** (j - i) / factorial(j - i)
            e = 2 * q + 1 - i - j
            Q[i, j] = h ** e / (e * factorial(q - i) * factorial(q - j))
    return Phi, Q
rng = onp.random.default_rng(0)
print("IWP float32, preconditioned comparison (unit h so that no under/overflow):")
for num in range(1, 12):
    for ssm in [pde.state_space_model_dense(), pde.state_space_model_isotropic(), pde.state_space_model_blockdiag()]:
        tc = [jnp.asarray(rng.standard_normal(2), dtype=jnp.float32) for _ in range(num)]
        worst = 0
        for h in [1e-6, 1e-3, 0.1, 1.0, 10.0, 100.0]:
            prior = ssm.prior_wiener_integrated(tc)
            os = jnp.ones(()) if not isinstance(ssm, pde.state_space_model_blockdiag) else jnp.ones((2,))
            tr = prior.transition(dt=jnp.float32(h), output_scale=os)
            A = onp.asarray(tr.A, dtype=onp.float64); L = onp.asarray(tr.noise.cholesky_flat, dtype=onp.float64)
            if A.ndim == 3: A = A[0]; L = L[0]
            if A.shape[0] != num: A = A[::2, ::2]; L = None
            # preconditioned reference: binomials, h*Hilbert flipped
            Aref = onp.array([[comb(num - 1 - i, j - i) if j >= i else 0 for j in range(num)] for i in range(num)], dtype=float)
            eA = onp.abs(A - Aref).max() / onp.abs(Aref).max()
            worst = max(worst, eA)
            if L is not None:
                Qref = h * onp.array([[1.0 / (2 * (num - 1) + 1 - i - j) for j in range(num)] for i in range(num)])
                eQ = onp.abs(L @ L.T - Qref).max() / onp.abs(Qref).max()
                worst = max(worst, eQ)
        if worst > 1e-5: print("num", num, type(ssm).__name__, "worst", worst)
print("done IWP")
# unpreconditioned at extremes
ssm = pde.state_space_model_dense()
for num, h in [(8, 1e-6), (11, 1e-6), (11, 1e-3), (11, 100.0)]:
    tc = [jnp.asarray(rng.standard_normal(1), dtype=jnp.float32) for _ in range(num)]
    tr = ssm.prior_wiener_integrated(tc).transition(dt=jnp.float32(h), output_scale=jnp.ones(())).preconditioner_apply()
    print("num", num, "h", h, "diag(A) finite:", bool(jnp.all(jnp.isfinite(tr.A))), "A[0,0]=", tr.A[0, 0])
