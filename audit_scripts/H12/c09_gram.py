import jax
jax.config.update("jax_enable_x64", True)
import jax.numpy as jnp
import numpy as onp
import scipy.linalg as sla
import probdiffeq
print(probdiffeq.__file__)
from probdiffeq.util import gram_util
from probdiffeq.backend import linalg

def ref(A, B):
    n = A.shape[0]
    # Gramian by high-accuracy: Van Loan with scaling in mpmath? use scipy expm on block matrix
    M = onp.block([[A, B @ B.T], [onp.zeros_like(A), -A.T]])
    # For accuracy with large norm, subdivide: G(1) via doubling from G(1/2^k)
    k = max(0, int(onp.ceil(onp.log2(max(onp.linalg.norm(A, 1), 1e-16)))) + 2)
    E = sla.expm(M / 2**k)
    eA = E[:n, :n]
    G = E[:n, n:] @ eA.T
    for _ in range(k):
        G = G + eA @ G @ eA.T
        eA = eA @ eA
    return eA, G

rng = onp.random.default_rng(0)
orders = {3: gram_util.pade_and_legendre_3, 5: gram_util.pade_and_legendre_5, 7: gram_util.pade_and_legendre_7, 9: gram_util.pade_and_legendre_9, 13: gram_util.pade_and_legendre_13}
for dtype in [onp.float64, onp.float32]:
    for q, mk in orders.items():
        fn = jax.jit(gram_util.exp_gram_cholesky(pade_legendre=mk(), solve=linalg.solve_lu))
        worst = (0, None)
        worstE = (0, None)
        for trial in range(60):
            n = int(rng.integers(1, 12))
            m = int(rng.integers(1, n + 1))
            scale = 10 ** rng.uniform(-6, onp.log10(50))
            A = rng.standard_normal((n, n))
            if trial % 3 == 0:
                A = A - 1.0 * onp.eye(n) * onp.abs(A).sum() / n  # stable-ish
            A = A / max(onp.linalg.norm(A, 1), 1e-300) * scale
            B = rng.standard_normal((n, m))
            eA_ref, G_ref = ref(A, B)
            eA, L = fn(jnp.asarray(A, dtype=dtype), jnp.asarray(B, dtype=dtype))
            eA = onp.asarray(eA, dtype=onp.float64); L = onp.asarray(L, dtype=onp.float64)
            G = L @ L.T
            errE = onp.linalg.norm(eA - eA_ref) / max(onp.linalg.norm(eA_ref), 1e-300)
            errG = onp.linalg.norm(G - G_ref) / max(onp.linalg.norm(G_ref), 1e-300)
            if not onp.isfinite(errG) or errG > worst[0]:
                worst = (errG, (n, m, scale, trial))
            if not onp.isfinite(errE) or errE > worstE[0]:
                worstE = (errE, (n, m, scale, trial))
            # triangular check
            if onp.linalg.norm(onp.triu(L, 1)) > 0:
                print("not lower triangular", q, dtype)
        print(dtype.__name__, q, "worst G", worst, "worst eA", worstE)
