import itertools, sys, warnings
from math import factorial
import jax
jax.config.update("jax_enable_x64", True)
import jax.numpy as jnp
import numpy as onp
from probdiffeq import probdiffeq as pde, ivpsolve

d = 3
rngW = onp.random.default_rng(0)
Wm = jnp.asarray(rngW.standard_normal((d, d)))
jac = pde.jacobian_materialize()

def f1(u, *, t):
    return jnp.tanh(Wm @ u) * (1 + 0.3 * jnp.sin(t)) + 0.1 * u**2
def f2(u, du, *, t):
    return -jnp.sin(Wm @ u) - 0.1 * du * u + jnp.cos(t)

def iwp_ref(num, h):
    q = num - 1
    Phi = onp.zeros((num, num)); Q = onp.zeros((num, num))
    for i in range(num):
        for j in range(num):
            if j >= i: Phi[i, j] = h ** (j - i) / factorial(j - i)
            e = 2 * q + 1 - i - j
            Q[i, j] = h ** e / (e * factorial(q - i) * factorial(q - j))
    return Phi, Q

def pnorm(x, p):
    if p is None: return onp.linalg.norm(x)
    return onp.linalg.norm(x, ord=p)

def reference(ssm_name, order, lin, m_prev, m_prop, t_new, dt, num, base, damp, est, norm, p, epus, didx, atol, rtol):
    """m_prev: (num, d) previous mean; returns the acceptance quantity."""
    Phi1, Q1 = iwp_ref(num, dt)
    fraw = f1 if order == 1 else f2
    def resid_flat(x):  # x flattened coefficient-major (num*d,)
        X = x.reshape(num, d)
        if order == 1: return X[1] - fraw(X[0], t=t_new)
        return X[2] - fraw(X[0], X[1], t=t_new)
    if ssm_name == "dense":
        Phi = onp.kron(Phi1, onp.eye(d)); Q = onp.kron(Q1, onp.eye(d)) * base**2
        mp = Phi @ m_prev.reshape(-1)
        if lin == "ts0":
            H = onp.zeros((d, num * d)); H[:, order * d:(order + 1) * d] = onp.eye(d)
            b = onp.asarray(resid_flat(jnp.asarray(mp))) - H @ mp
        else:
            H = onp.asarray(jax.jacfwd(resid_flat)(jnp.asarray(mp)))
            b = onp.asarray(resid_flat(jnp.asarray(mp))) - H @ mp
        S = H @ Q @ H.T + damp**2 * onp.eye(d)
        z = H @ mp + b
        sig = onp.sqrt(z @ onp.linalg.solve(S, z) / d)
        if est == "res":
            err = sig * onp.sqrt(onp.diag(S)); n = order
        else:
            P = Q - Q @ H.T @ onp.linalg.solve(S, H @ Q)
            err = sig * onp.sqrt(onp.clip(onp.diag(P), 0, None))[didx * d:(didx + 1) * d]; n = didx
    elif ssm_name == "bd":
        # ts0 only: per dimension
        mp2 = Phi1 @ m_prev  # (num, d)
        z = onp.asarray(resid_flat(jnp.asarray(mp2.reshape(-1))))
        Hs = onp.zeros((num,)); Hs[order] = 1
        err = onp.zeros(d)
        for k in range(d):
            Qk = Q1 * base[k]**2
            S = Hs @ Qk @ Hs + damp**2
            sig = abs(z[k]) / onp.sqrt(S)
            if est == "res":
                err[k] = sig * onp.sqrt(S)
            else:
                P = Qk - onp.outer(Qk @ Hs, Hs @ Qk) / S
                err[k] = sig * onp.sqrt(max(P[didx, didx], 0))
        n = order if est == "res" else didx
    if epus: n += 1
    idx = 0 if est == "res" else didx
    ref = onp.maximum(onp.abs(m_prev[idx]), onp.abs(m_prop[idx]))
    ea = err * dt**n / factorial(n)
    if norm == "s_rms":
        val = pnorm(ea / (atol + rtol * ref), p) / onp.sqrt(d)
    else:
        val = (pnorm(ea, p) / onp.sqrt(d)) / (atol + rtol * pnorm(ref, p) / onp.sqrt(d))
    return val ** (-1.0 / num)

def library(ssm_name, order, lin, solver_name, num, base, damp, est, norm, p, epus, didx, relin, atol, rtol, dt_prev, dt, tc):
    ssm = {"dense": pde.state_space_model_dense, "bd": pde.state_space_model_blockdiag}[ssm_name]()
    vf = pde.ode(f1, jacobian=jac) if order == 1 else pde.ode_order_two(f2, jacobian=jac)
    os = jnp.asarray(base)
    if ssm_name == "dense": os = jnp.ones(d) * base
    prior = ssm.prior_wiener_integrated(tc, output_scale=os)
    constraint = ssm.constraint_ode_ts0(vf) if lin == "ts0" else ssm.constraint_ode_ts1(vf)
    mk = {"plain": pde.solver, "mle": pde.solver_mle, "dyn": pde.solver_dynamic}[solver_name]
    solver = mk(strategy=pde.strategy_filter(), constraint=constraint)
    nrm = {"s_rms": pde.error_norm_scale_then_rms, "rms_s": pde.error_norm_rms_then_scale}[norm](norm_order=p)
    kw = dict(constraint=constraint, error_norm=nrm, re_linearize_before_error=relin, error_per_unit_step=epus)
    error = pde.error_residual_std(**kw) if est == "res" else pde.error_state_std(derivative_idx=didx, **kw)
    s0 = solver.init(t=0.3, u=prior, damp=damp)
    s1 = solver.step(state=s0, dt=dt_prev, damp=damp)     # reach a non-trivial previous state
    s2 = solver.step(state=s1, dt=dt, damp=damp)
    val, _ = error.estimate_error_norm(error.init_error(), previous=s1, proposed=s2, dt=dt, atol=atol, rtol=rtol, damp=damp)
    m_prev = onp.stack([onp.asarray(x) for x in s1.u.mean]); m_prop = onp.stack([onp.asarray(x) for x in s2.u.mean])
    return float(val), m_prev, m_prop, float(s2.t)

rng = onp.random.default_rng(int(sys.argv[1]))
bad = 0; worst = 0
for trial in range(int(sys.argv[2])):
    ssm_name = ["dense", "bd"][rng.integers(2)]
    order = int(rng.integers(1, 3))
    lin = "ts0" if ssm_name == "bd" else ["ts0", "ts1"][rng.integers(2)]
    solver_name = ["plain", "mle", "dyn"][rng.integers(3)]
    num = int(rng.integers(order + 1, 7))
    base = 10 ** rng.uniform(-2, 2) if ssm_name == "dense" else 10 ** rng.uniform(-2, 2, size=d)
    damp = [0.0, 10 ** rng.uniform(-6, -1)][rng.integers(2)]
    est = ["res", "state"][rng.integers(2)]
    norm = ["s_rms", "rms_s"][rng.integers(2)]
    p = [None, 1, onp.inf, 3][rng.integers(4)]
    epus = bool(rng.integers(2)); relin = bool(rng.integers(2))
    didx = int(rng.integers(0, num))
    atol = 10 ** rng.uniform(-10, -1); rtol = 10 ** rng.uniform(-10, -1)
    if norm == "s_rms" and rng.integers(2):
        atol = 10 ** rng.uniform(-10, -1, size=d); rtol = 10 ** rng.uniform(-10, -1, size=d)
    dt = 10 ** rng.uniform(-5, 0); dt_prev = 10 ** rng.uniform(-3, -0.5)
    u0 = jnp.asarray(rng.standard_normal(d))
    if order == 1:
        tc, _ = pde.jetexpand_ode_padded_scan(num=num - 1)(pde.ode(f1), [u0], t=0.3)
    else:
        du0 = jnp.asarray(rng.standard_normal(d))
        tc, _ = pde.jetexpand_ode_padded_scan(num=num - 2)(pde.ode_order_two(f2), [u0, du0], t=0.3)
    cfg = dict(ssm=ssm_name, order=order, lin=lin, solver=solver_name, num=num, base=base, damp=damp, est=est, norm=norm, p=p, epus=epus, didx=didx, relin=relin, dt=dt)
    try:
        val, m_prev, m_prop, t_new = library(ssm_name, order, lin, solver_name, num, base, damp, est, norm, p, epus, didx, relin, jnp.asarray(atol), jnp.asarray(rtol), dt_prev, dt, tc)
    except Exception as e:
        print("EXC", cfg, repr(e)[:300]); continue
    ref = reference(ssm_name, order, lin, m_prev, m_prop, t_new, dt, num, base, damp, est, norm, p, epus, didx, atol, rtol)
    err = abs(val - ref) / abs(ref)
    worst = max(worst, err if onp.isfinite(err) else onp.inf)
    if not err < 1e-5:
        bad += 1; print("BAD", cfg, "lib", val, "ref", ref)
print("bad", bad, "worst", worst)
