import jax
jax.config.update("jax_enable_x64", True)
import jax.numpy as jnp
import numpy as onp
from probdiffeq import probdiffeq as pde
rng = onp.random.default_rng(0)
worst = 0
for trial in range(200):
    num = int(rng.integers(1, 9)); d = int(rng.integers(1, 4))
    h1, h2 = 10 ** rng.uniform(-4, 1, size=2)
    tc = [jnp.asarray(rng.standard_normal(d)) for _ in range(num)]
    lam = 10 ** rng.uniform(-1, 1, size=d)
    for name in ["dense", "iso", "bd", "ioup", "matern"]:
        if name in ["dense", "ioup", "matern"]:
            ssm = pde.state_space_model_dense(); os = jnp.asarray(1.3)
            if name == "dense": prior = ssm.prior_wiener_integrated(tc, output_scale=jnp.asarray(lam))
            elif name == "ioup":
                Wm = jnp.asarray(rng.standard_normal((d, d)))
                prior = ssm.prior_ornstein_uhlenbeck_integrated(lambda u: Wm @ u, tc, output_scale=jnp.asarray(lam))
            else: prior = ssm.prior_matern(2.0, tc, output_scale=jnp.asarray(lam))
        elif name == "iso":
            ssm = pde.state_space_model_isotropic(); os = jnp.asarray(1.3); prior = ssm.prior_wiener_integrated(tc, output_scale=lam[0])
        else:
            ssm = pde.state_space_model_blockdiag(); os = jnp.asarray(rng.uniform(0.5, 2, size=d)); prior = ssm.prior_wiener_integrated(tc, output_scale=jnp.asarray(lam))
        t1 = prior.transition(dt=h1, output_scale=os); t2 = prior.transition(dt=h2, output_scale=os)
        t12 = prior.transition(dt=h1 + h2, output_scale=os).preconditioner_apply()
        m = t2.merge(t1).preconditioner_apply()
        A, Ar = onp.asarray(m.A), onp.asarray(t12.A)
        L, Lr = onp.asarray(m.noise.cholesky_flat), onp.asarray(t12.noise.cholesky_flat)
        Q = L @ onp.swapaxes(L, -1, -2); Qr = Lr @ onp.swapaxes(Lr, -1, -2)
        h = h1 + h2
        p = (h ** onp.arange(num - 1, -1, -1.0))
        if A.ndim == 2 and A.shape[0] == num * d: p = onp.repeat(p, d)
        S_ = (p[:, None] / p[None, :]); eA = onp.max(onp.abs(A - Ar) / S_) / max(1.0, onp.max(onp.abs(Ar) / S_))
        sc = onp.sqrt(onp.diagonal(Qr, axis1=-2, axis2=-1))
        eQ = onp.max(onp.abs(Q - Qr) / (sc[..., :, None] * sc[..., None, :]))
        # also apply to a mean vector
        worst = max(worst, eA, eQ)
        if max(eA, eQ) > 1e-9: print("BAD", name, num, d, h1, h2, eA, eQ)
print("worst", worst)
