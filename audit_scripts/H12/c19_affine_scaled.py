import jax
jax.config.update("jax_enable_x64", True)
import jax.numpy as jnp
import numpy as onp
from probdiffeq import probdiffeq as pde
rng = onp.random.default_rng(5)
worst = 0
for trial in range(300):
    D = int(rng.integers(2, 11)); m = int(rng.integers(1, D))
    mean = rng.standard_normal(D)
    L = onp.tril(rng.standard_normal((D, D)))
    Jm = rng.standard_normal((m, D)); c = rng.standard_normal(m)
    rs = 10 ** rng.uniform(-6, 9, size=m)
    Jj, cj, rsj = map(jnp.asarray, (Jm, c, rs))
    g = lambda x: rsj * (Jj @ x - cj)
    tol = 1e-6
    x, st = pde.lstsq_constrained_gauss_newton(maxiter=20, tol=tol)(g, jnp.asarray(mean), jnp.asarray(mean), jnp.asarray(L))
    S = Jm @ L @ L.T @ Jm.T
    xr = mean - L @ L.T @ Jm.T @ onp.linalg.solve(S, Jm @ mean - c)
    e = onp.linalg.norm(onp.asarray(x) - xr) / (1 + onp.linalg.norm(xr))
    unscaled_res = onp.abs(Jm @ onp.asarray(x) - c).max()
    worst = max(worst, e)
    if e > 1e-8:
        print(f"D={D} m={m} log10 rowscale={onp.round(onp.log10(rs),1)} iters={int(st['iters'])} |x-xref|rel={e:.2e} unscaled residual max={unscaled_res:.2e} scaled rms={float(jnp.linalg.norm(st['final_constraint']))/onp.sqrt(m):.2e} cond(S)={onp.linalg.cond(S):.1e}")
print("worst", worst)
