import jax
jax.config.update("jax_enable_x64", True)
import jax.numpy as jnp
import numpy as onp
from probdiffeq import probdiffeq as pde
rng = onp.random.default_rng(0)
hits = 0
for trial in range(300):
    D = int(rng.integers(2, 6)); m = int(rng.integers(1, D))
    mean = rng.standard_normal(D)
    L = onp.tril(rng.standard_normal((D, D)))
    Jm = rng.standard_normal((m, D)); c = rng.standard_normal(m); T3 = rng.standard_normal((m, D, D))
    cs = 10 ** rng.uniform(5, 9); nl = 10 ** rng.uniform(-2, -1)
    tol = 10 ** rng.uniform(-6, -4); maxiter = 50
    Jj, cj, T3j = map(jnp.asarray, (Jm, c, T3))
    g = lambda x: cs * (Jj @ x - cj + nl * jnp.einsum("mij,i,j->m", T3j, x, x))
    x, st = pde.lstsq_constrained_gauss_newton(maxiter=maxiter, tol=tol)(g, jnp.asarray(mean), jnp.asarray(mean), jnp.asarray(L))
    grms = float(jnp.linalg.norm(st["final_constraint"]) / onp.sqrt(m)); it = int(st["iters"])
    floor = 1e-15 * cs * (1 + float(jnp.linalg.norm(x)))**2
    if grms > 10 * tol and it < maxiter and grms > 100 * floor:
        hits += 1
        # what would another iteration achieve?
        x2, st2 = pde.lstsq_constrained_gauss_newton(maxiter=maxiter, tol=0.0)(g, jnp.asarray(mean), jnp.asarray(mean), jnp.asarray(L))
        print(f"D={D} m={m} scale={cs:.1e} nl={nl:.2f} tol={tol:.1e}: iters={it}<{maxiter}, |g|rms={grms:.2e} ({grms/tol:.0f}x tol), |dx|rms={float(jnp.linalg.norm(st['final_increment']))/onp.sqrt(D):.2e}; with tol=0: |g|rms={float(jnp.linalg.norm(st2['final_constraint']))/onp.sqrt(m):.2e} iters={int(st2['iters'])}")
print("hits", hits)
