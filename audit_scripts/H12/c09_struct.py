import sys
import jax
X64 = sys.argv[1] == "64"
jax.config.update("jax_enable_x64", X64)
import jax.numpy as jnp
import numpy as onp
from math import comb, factorial
from hunt import hp
from probdiffeq.util import gram_util
from probdiffeq.backend import linalg

orders = {3: gram_util.pade_and_legendre_3, 5: gram_util.pade_and_legendre_5, 7: gram_util.pade_and_legendre_7, 9: gram_util.pade_and_legendre_9, 13: gram_util.pade_and_legendre_13}
fns = {q: jax.jit(gram_util.exp_gram_cholesky(pade_legendre=mk(), solve=linalg.solve_lu)) for q, mk in orders.items()}
rng = onp.random.default_rng(3)
dtype = onp.float64 if X64 else onp.float32
tol = 1e-10 if X64 else 2e-4
worst = {q: 0 for q in orders}
for trial in range(int(sys.argv[2])):
    num = int(rng.integers(1, 12)); d = int(rng.integers(1, 4))
    if num * d > 16: d = 1
    kind = ["ioup", "matern", "general"][trial % 3]
    a = onp.diag(onp.ones(num - 1), 1)
    A = onp.kron(a, onp.eye(d))
    if kind == "ioup":
        A[-d:, -d:] = rng.standard_normal((d, d)) * 10 ** rng.uniform(-2, 1.5)
    elif kind == "matern":
        ell = 10 ** rng.uniform(-1, 1)
        z = onp.sqrt(2 * (num - 0.5)) / ell
        for i in range(num):
            A[-d:, i * d:(i + 1) * d] = -comb(num, i) * z ** (num - i) * onp.eye(d)
    else:
        A[-d:, :] = rng.standard_normal((d, num * d)) * 10 ** rng.uniform(-2, 1)
    lam = 10 ** rng.uniform(-2, 2, size=d)
    B = onp.zeros((num * d, d)); B[-d:, :] = onp.diag(lam)
    h = 10 ** rng.uniform(-6, 2)
    powers = onp.arange(num - 1, -1, -1.0)
    def precon(h):
        p = onp.repeat(h ** powers / onp.array([factorial(int(k)) for k in powers]), d)
        return p
    p = precon(h)
    A_p = h * (1 / p)[:, None] * A * p[None, :]
    n1 = onp.linalg.norm(A_p, 1)
    if n1 > 50:
        # shrink h until norm <= 50
        for _ in range(200):
            h *= 0.9; p = precon(h); A_p = h * (1 / p)[:, None] * A * p[None, :]
            if onp.linalg.norm(A_p, 1) <= 50: break
    B_p = onp.sqrt(h) * (1 / p)[:, None] * B
    eA_ref, G_ref = hp.expm_gram(A_p, B_p, 1.0)
    sc = onp.sqrt(onp.diag(G_ref))
    for q, fn in fns.items():
        eA, L = fn(jnp.asarray(A_p, dtype=dtype), jnp.asarray(B_p, dtype=dtype))
        assert eA.dtype == dtype, eA.dtype
        eA = onp.asarray(eA, dtype=onp.float64); L = onp.asarray(L, dtype=onp.float64)
        G = L @ L.T
        eQ = onp.max(onp.abs(G - G_ref) / onp.outer(sc, sc))
        eP = onp.max(onp.abs(eA - eA_ref)) / max(1.0, onp.max(onp.abs(eA_ref)))
        e = max(eQ, eP) if onp.isfinite(eQ) and onp.isfinite(eP) else onp.inf
        worst[q] = max(worst[q], e)
        if e > tol:
            print("BAD", kind, "order", q, "num", num, "d", d, "h", h, "|A_p|", onp.linalg.norm(A_p, 1), "eQ", eQ, "eP", eP)
print(worst)
