import sys
import jax
jax.config.update("jax_enable_x64", True)
import jax.numpy as jnp
import numpy as onp
from probdiffeq import probdiffeq as pde

rng = onp.random.default_rng(int(sys.argv[1]))
bad = 0
for trial in range(int(sys.argv[2])):
    D = int(rng.integers(2, 11)); m = int(rng.integers(1, D))
    mean = rng.standard_normal(D) * 10 ** rng.uniform(-1, 1)
    kind = ["affine", "poly"][rng.integers(2)]
    sing = bool(rng.integers(2))
    L = onp.tril(rng.standard_normal((D, D))) * 10 ** rng.uniform(-2, 1)
    if sing:
        r = int(rng.integers(m, D + 1))  # rank >= m
        L = rng.standard_normal((D, r)) @ rng.standard_normal((r, D)) * 0  # placeholder
        Lr = rng.standard_normal((D, r))
        L = onp.concatenate([Lr, onp.zeros((D, D - r))], axis=1)
    Jm = rng.standard_normal((m, D)); c = rng.standard_normal(m)
    rowscale = 10 ** rng.uniform(3, 9, size=m) if rng.integers(2) else onp.ones(m)
    nl = 0.0 if kind == "affine" else 10 ** rng.uniform(-3, -1)
    T3 = rng.standard_normal((m, D, D))
    Jj, cj, rs, T3j = map(jnp.asarray, (Jm, c, rowscale, T3))
    def g(x):
        return rs * (Jj @ x - cj + nl * jnp.einsum("mij,i,j->m", T3j, x, x))
    tol = 10 ** rng.uniform(-6, -4); maxiter = int(rng.integers(1, 51))
    solver = pde.lstsq_constrained_gauss_newton(maxiter=maxiter, tol=tol)
    x, stats = solver(g, jnp.asarray(mean), jnp.asarray(mean), jnp.asarray(L))
    x = onp.asarray(x); it = int(stats["iters"]); fx = onp.asarray(stats["final_constraint"]); dx = onp.asarray(stats["final_increment"])
    msgs = []
    gx = onp.asarray(g(jnp.asarray(x)))
    if not onp.all(onp.abs(gx - fx) <= 1e-9 * onp.abs(fx) + 1e-11 * rowscale * D * (1 + onp.linalg.norm(x))**2 * (1 + onp.abs(Jm).max() + onp.abs(c).max())): msgs.append(f"final_constraint untruthful {gx} {fx}")
    feas = onp.linalg.norm(gx) <= tol * onp.sqrt(m)
    if not feas and it < maxiter and onp.linalg.norm(gx) > 100 * tol * onp.sqrt(m) and onp.linalg.norm(gx) > 1e-9 * rowscale.max() * (1 + onp.linalg.norm(x))**2: msgs.append(f"infeasible |g|rms={onp.linalg.norm(gx)/onp.sqrt(m):.2e} tol={tol:.1e} but iters {it} < maxiter {maxiter}; |dx|rms={onp.linalg.norm(dx)/onp.sqrt(D):.2e}")
    # range condition: x - mean in range(L L^T J(x_prev)^T) ~ up to dx: check with J at x
    Jx = onp.asarray(jax.jacfwd(g)(jnp.asarray(x)))
    Bm = L @ L.T @ Jx.T
    disp = x - mean
    coef, *_ = onp.linalg.lstsq(Bm, disp, rcond=None)
    res = onp.linalg.norm(Bm @ coef - disp)
    bound = 10 * (onp.linalg.norm(dx) * (1 + onp.linalg.norm(disp))) * max(1, nl * 50) + 1e-9 * (1 + onp.linalg.norm(disp))
    if kind == "affine":
        # conditional mean
        S = Jx @ L @ L.T @ Jx.T
        xr = mean - L @ L.T @ Jx.T @ onp.linalg.lstsq(S, onp.asarray(g(jnp.asarray(mean))), rcond=None)[0]
        e = onp.linalg.norm(x - xr) / (1 + onp.linalg.norm(xr))
        if e > 1e-6 and not sing: msgs.append(f"affine: differs from conditional mean by {e:.2e} (iters {it})")
        if it != 1 and onp.linalg.norm(gx) <= tol * onp.sqrt(m): pass
        if it != 1 and tol > 1e-9 * rowscale.max(): msgs.append(f"affine: iters {it} != 1, tol {tol:.1e}, |g| after {onp.linalg.norm(gx):.2e}")
    elif res > bound and feas:
        msgs.append(f"range residual {res:.2e} > bound {bound:.2e}")
    if msgs:
        bad += 1; print(dict(D=D, m=m, kind=kind, sing=sing, nl=nl, tol=tol, maxiter=maxiter, rowscale=onp.round(onp.log10(rowscale), 1)), msgs)
print("bad", bad)
