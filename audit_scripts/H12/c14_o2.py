import itertools, warnings
import jax
jax.config.update("jax_enable_x64", True)
import jax.numpy as jnp
import numpy as onp
from probdiffeq import probdiffeq as pde, ivpsolve

W = jnp.asarray(onp.random.default_rng(0).standard_normal((3, 3)))
@pde.ode_order_two
def vf(u, du, *, t):
    x = jnp.concatenate([u["a"], u["b"].reshape(-1)]); dx = jnp.concatenate([du["a"], du["b"].reshape(-1)])
    out = -jnp.sin(W @ x) - 0.1 * dx * x + jnp.cos(t)
    return {"a": out[:1], "b": out[1:].reshape(2, 1)}
u0 = {"a": jnp.asarray([0.5]), "b": jnp.asarray([[-0.3], [1.2]])}
du0 = {"a": jnp.asarray([0.1]), "b": jnp.asarray([[0.3], [-0.2]])}

def mvn(rv):
    m, C = rv.to_multivariate_normal(); return onp.asarray(m), onp.asarray(C)
def rel(a, b):
    return onp.max(onp.abs(a - b)) / (1e-300 + max(onp.max(onp.abs(a)), onp.max(onp.abs(b))))

def run(ssm_name, solver_name, strat_name, num, damp, use_init, grid):
    ssm = {"dense": pde.state_space_model_dense, "iso": pde.state_space_model_isotropic, "bd": pde.state_space_model_blockdiag}[ssm_name]()
    if use_init:
        prior = ssm.prior_wiener_integrated([u0, du0], diffuse_derivatives=num - 2, diffuse_eps=3.0)
    else:
        tc, _ = pde.jetexpand_ode_padded_scan(num=num - 2)(vf, [u0, du0], t=grid[0])
        prior = ssm.prior_wiener_integrated(tc)
    c = ssm.constraint_ode_ts0(vf)
    strat = {"filter": pde.strategy_filter, "fi": pde.strategy_smoother_fixedinterval}[strat_name]()
    mk = {"plain": pde.solver, "mle": pde.solver_mle, "dyn": pde.solver_dynamic}[solver_name]
    solver = mk(strategy=strat, constraint=c, constraint_init=c if use_init else None)
    solve = ivpsolve.solve_fixed_grid(solver=solver)
    return jax.jit(lambda p: solve(p, grid=grid, damp=damp))(prior)

rng = onp.random.default_rng(1); bad = 0
for solver_name, strat_name, num, damp, use_init in itertools.product(["plain", "mle", "dyn"], ["filter", "fi"], [3, 5], [0.0, 1e-2], [False, True]):
    grid = jnp.asarray(onp.concatenate([[0.0], onp.cumsum(rng.uniform(0.02, 0.3, size=6))]))
    s = {k: run(k, solver_name, strat_name, num, damp, use_init, grid) for k in ["dense", "iso", "bd"]}
    mD, CD = mvn(s["dense"].u); mI, CI = mvn(s["iso"].u); mB, CB = mvn(s["bd"].u)
    msgs = []
    e = (rel(mD, mI), rel(CD, CI), rel(onp.asarray(s["dense"].output_scale), onp.asarray(s["iso"].output_scale)))
    if not all(x < 1e-7 for x in e): msgs.append(f"D-I {e}")
    if solver_name != "dyn" and not rel(mD, mB) < 1e-8: msgs.append(f"D-B mean {rel(mD, mB)}")
    if solver_name == "plain" and not rel(CD, CB) < 1e-7: msgs.append(f"D-B cov {rel(CD, CB)}")
    if solver_name == "mle":
        sD = onp.asarray(s["dense"].output_scale)[-1]; sB = onp.asarray(s["bd"].output_scale)[-1]
        if not abs(onp.sqrt(onp.mean(sB**2)) - sD) / sD < 1e-8: msgs.append(f"scale split {sD} {sB}")
    if msgs: bad += 1; print((solver_name, strat_name, num, damp, use_init), msgs)
print("bad", bad)
