import itertools, sys
import jax
jax.config.update("jax_enable_x64", True)
import jax.numpy as jnp
import numpy as onp
from probdiffeq import probdiffeq as pde, ivpsolve

d = 3
Wm = jnp.asarray(onp.random.default_rng(0).standard_normal((d, d)))

@pde.ode
def vf(u, *, t):
    return jnp.tanh(Wm @ u) * (1 + 0.3 * jnp.sin(t)) + 0.1 * u**2

u0 = jnp.asarray([0.5, -0.3, 1.2])

def mvn(rv):
    m, C = rv.to_multivariate_normal()
    return onp.asarray(m), onp.asarray(C)

def run(ssm_name, solver_name, strat_name, num, damp, use_init, grid, exact=True):
    ssm = {"dense": pde.state_space_model_dense, "iso": pde.state_space_model_isotropic, "bd": pde.state_space_model_blockdiag}[ssm_name]()
    if use_init:
        prior = ssm.prior_wiener_integrated([u0], diffuse_derivatives=num - 1, diffuse_eps=2.0, is_exact=exact, inexact_eps=1e-3)
    else:
        tc, _ = pde.jetexpand_ode_padded_scan(num=num - 1)(vf, [u0], t=grid[0])
        prior = ssm.prior_wiener_integrated(tc, is_exact=exact, inexact_eps=1e-3)
    constraint = ssm.constraint_ode_ts0(vf)
    strat = {"filter": pde.strategy_filter, "fi": pde.strategy_smoother_fixedinterval, "fp": pde.strategy_smoother_fixedpoint}[strat_name]()
    mk = {"plain": pde.solver, "mle": pde.solver_mle, "dyn": pde.solver_dynamic}[solver_name]
    solver = mk(strategy=strat, constraint=constraint, constraint_init=constraint if use_init else None)
    import warnings
    with warnings.catch_warnings():
        warnings.simplefilter("ignore")
        solve = ivpsolve.solve_fixed_grid(solver=solver)
    sol = jax.jit(lambda p: solve(p, grid=grid, damp=damp))(prior)
    return sol

def reorder_bd_to_dense(m, C, num, d):
    return m, C

rng = onp.random.default_rng(0)
bad = 0
for solver_name, strat_name, num, damp, use_init, exact in itertools.product(["plain", "mle", "dyn"], ["filter", "fi"], [4, 7], [0.0, 1e-2], [False, True], [True]):
    if use_init and num < 2: continue
    grid = jnp.asarray(onp.concatenate([[0.0], onp.cumsum(10 ** rng.uniform(-5, 0.3, size=6))]))
    sols = {k: run(k, solver_name, strat_name, num, damp, use_init, grid, exact) for k in ["dense", "iso", "bd"]}
    mD, CD = mvn(sols["dense"].u); mI, CI = mvn(sols["iso"].u); mB, CB = mvn(sols["bd"].u)
    tag = (solver_name, strat_name, num, damp, use_init, exact)
    def rel(a, b):
        return onp.max(onp.abs(a - b)) / (1e-300 + max(onp.max(onp.abs(a)), onp.max(onp.abs(b))))
    e_m_DI = rel(mD, mI); e_C_DI = rel(CD, CI)
    e_s_DI = rel(onp.asarray(sols["dense"].output_scale), onp.asarray(sols["iso"].output_scale))
    msgs = []
    if not (e_m_DI < 1e-8 and e_C_DI < 1e-7 and e_s_DI < 1e-8): msgs.append(f"D-I mean {e_m_DI:.2e} cov {e_C_DI:.2e} scale {e_s_DI:.2e}")
    if solver_name in ["plain", "mle"]:
        e_m_DB = rel(mD, mB)
        if not e_m_DB < 1e-8: msgs.append(f"D-B mean {e_m_DB:.2e}")
    if solver_name == "plain":
        e_C_DB = rel(CD, CB)
        if not e_C_DB < 1e-7: msgs.append(f"D-B cov {e_C_DB:.2e}")
    if solver_name == "mle":
        sD = onp.asarray(sols["dense"].output_scale)[-1]; sB = onp.asarray(sols["bd"].output_scale)[-1]
        e = abs(onp.sqrt(onp.mean(sB**2)) - sD) / sD
        if not e < 1e-8: msgs.append(f"mle scale split {e:.2e} dense {sD} bd {sB}")
    if not all(onp.all(onp.isfinite(x)) for x in [mD, CD, mI, CI, mB, CB]): msgs.append("non-finite")
    if msgs:
        bad += 1
        print(tag, "|", "; ".join(msgs))
print("bad", bad)
