import jax

jax.config.update("jax_enable_x64", True)
import jax.numpy as jnp
import numpy as onp

import probdiffeq
from probdiffeq import ivpsolve
from probdiffeq import probdiffeq as pdq
from probdiffeq.util import test_util

assert "/repo/" in probdiffeq.__file__, probdiffeq.__file__

SSMS = {
    "dense": pdq.state_space_model_dense,
    "isotropic": pdq.state_space_model_isotropic,
    "blockdiag": pdq.state_space_model_blockdiag,
}


def mvn(rv):
    m, C = rv.to_multivariate_normal()
    return onp.asarray(m), onp.asarray(C)


def maxdiff(a, b):
    a, b = onp.asarray(a), onp.asarray(b)
    return float(onp.max(onp.abs(a - b)))


def reldiff(a, b):
    a, b = onp.asarray(a), onp.asarray(b)
    return float(onp.max(onp.abs(a - b)) / (1e-300 + onp.max(onp.abs(b))))
