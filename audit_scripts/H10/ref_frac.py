"""Exact (rational, rounded to 2^-BITS) KF + RTS smoother for ill-conditioned cases."""
import math
from fractions import Fraction as Fr

import numpy as onp

BITS = 1200
ONE = 1 << BITS


def rnd(x):
    return Fr(round(x * ONE), ONE)


def mat(a):
    a = onp.asarray(a, dtype=float)
    if a.ndim == 1:
        return [[Fr(float(v))] for v in a]
    return [[Fr(float(v)) for v in row] for row in a]


def mm(A, B):
    n, k, m = len(A), len(B), len(B[0])
    return [[rnd(sum(A[i][l] * B[l][j] for l in range(k))) for j in range(m)] for i in range(n)]


def tr(A):
    return [list(r) for r in zip(*A)]


def add(A, B, s=1):
    return [[a + s * b for a, b in zip(ra, rb)] for ra, rb in zip(A, B)]


def inv(A):
    n = len(A)
    M = [list(r) + [Fr(int(i == j)) for j in range(n)] for i, r in enumerate(A)]
    for c in range(n):
        p = max(range(c, n), key=lambda r: abs(M[r][c]))
        M[c], M[p] = M[p], M[c]
        pv = M[c][c]
        M[c] = [rnd(v / pv) for v in M[c]]
        for r in range(n):
            if r != c and M[r][c] != 0:
                fct = M[r][c]
                M[r] = [rnd(a - fct * b) for a, b in zip(M[r], M[c])]
    return [r[n:] for r in M]


def tofloat(A):
    return onp.asarray([[float(v) for v in r] for r in A])


def iwp_AQ(q, d, dt, sigma=1.0):
    dt = Fr(float(dt))
    n = q + 1
    sig = [Fr(float(s)) for s in (onp.ones(d) * onp.asarray(sigma, float))]
    A = [[Fr(0)] * (n * d) for _ in range(n * d)]
    Q = [[Fr(0)] * (n * d) for _ in range(n * d)]
    for i in range(n):
        for j in range(n):
            a = dt ** (j - i) / math.factorial(j - i) if j >= i else Fr(0)
            p = 2 * q + 1 - i - j
            qq = dt**p / (p * math.factorial(q - i) * math.factorial(q - j))
            for k in range(d):
                A[i * d + k][j * d + k] = a
                Q[i * d + k][j * d + k] = qq * sig[k] ** 2
    return A, Q


def run(q, d, lin, m0, P0, ts, observed, base_scale=1.0):
    """lin(m_float, t) -> (H, b) float arrays. Returns filter + smoother (as floats)."""
    m, P = mat(m0), mat(P0)
    ms_f, Ps_f, mps, Pps, As = [m], [P], [], [], []
    for k in range(len(ts) - 1):
        A, Q = iwp_AQ(q, d, Fr(float(ts[k + 1])) - Fr(float(ts[k])), base_scale)
        mp = mm(A, m)
        Pp = add(mm(mm(A, P), tr(A)), Q)
        if observed[k + 1]:
            H, b = lin(tofloat(mp)[:, 0], ts[k + 1])
            H, b = mat(H), mat(b)
            z = add(mm(H, mp), b)
            PHt = mm(Pp, tr(H))
            S = mm(H, PHt)
            K = mm(PHt, inv(S))
            m = add(mp, mm(K, z), -1)
            P = add(Pp, mm(mm(K, S), tr(K)), -1)
        else:
            m, P = mp, Pp
        As.append(A), mps.append(mp), Pps.append(Pp), ms_f.append(m), Ps_f.append(P)
    N = len(ts) - 1
    ms_s, Ps_s = [None] * (N + 1), [None] * (N + 1)
    ms_s[N], Ps_s[N] = ms_f[N], Ps_f[N]
    for k in range(N - 1, -1, -1):
        G = mm(mm(Ps_f[k], tr(As[k])), inv(Pps[k]))
        ms_s[k] = add(ms_f[k], mm(G, add(ms_s[k + 1], mps[k], -1)))
        Ps_s[k] = add(Ps_f[k], mm(mm(G, add(Ps_s[k + 1], Pps[k], -1)), tr(G)))
    f = lambda L: [tofloat(x) for x in L]
    return dict(ms_f=[x[:, 0] for x in f(ms_f)], Ps_f=f(Ps_f), ms_s=[x[:, 0] for x in f(ms_s)], Ps_s=f(Ps_s))
