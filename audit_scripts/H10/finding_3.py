"""[C03/C05] solve_adaptive_terminal_values + smoother returns a corrupted Markov factorisation.

solve_adaptive_terminal_values computes `tree_map(lambda s: s[-1], solution)` on the save_at
solution. For smoothers, `solution.solution_full.posterior.marginal` is the single (un-batched)
terminal marginal, so `s[-1]` does not select 'the last time point' but chops the *state*
dimension: the mean collapses to its last entry and the Cholesky factor to its last row.

Expected: posterior.marginal == terminal marginal (same arrays as `solution.u`, which for a
smoother is the terminal smoothing marginal), so that the returned backward factorisation
(marginal at t1 + conditional t1->t0) reproduces the marginals at (t0, t1).
Observed: a 'normal distribution' with a scalar / truncated mean; evaluate_marginals() is unusable.
"""
import sys
import warnings

import jax

jax.config.update("jax_enable_x64", True)
import jax.numpy as jnp
import numpy as np

import probdiffeq
from probdiffeq import ivpsolve
from probdiffeq import probdiffeq as pdq

assert "/repo/" in probdiffeq.__file__, probdiffeq.__file__
warnings.filterwarnings("ignore")

SSMS = {
    "dense": pdq.state_space_model_dense,
    "isotropic": pdq.state_space_model_isotropic,
    "blockdiag": pdq.state_space_model_blockdiag,
}
defect = False
for name, factory in SSMS.items():
    for sname, strat in [("fixedpoint", pdq.strategy_smoother_fixedpoint), ("fixedinterval", pdq.strategy_smoother_fixedinterval)]:
        ssm = factory()
        vf = pdq.ode(lambda u, *, t: 1.5 * u * (1 - u), jacobian=pdq.jacobian_materialize())
        tcoeffs, _ = pdq.jetexpand_ode_padded_scan(num=2)(vf, (jnp.asarray([0.1, 0.3]),), t=0.0)
        prior = ssm.prior_wiener_integrated(tcoeffs)
        con = ssm.constraint_ode_ts1(vf)
        solver = pdq.solver(strategy=strat(), constraint=con)
        error = pdq.error_residual_std(constraint=con)
        solve = ivpsolve.solve_adaptive_terminal_values(solver=solver, error=error)
        sol = jax.jit(lambda p: solve(p, t0=0.0, t1=2.0, atol=1e-3, rtol=1e-3))(prior)

        # reference code path: the same solve via save_at; its posterior is a valid factorisation
        solve2 = ivpsolve.solve_adaptive_save_at(solver=solver, error=error, clip_dt=True, warn=False)
        sol2 = jax.jit(lambda p: solve2(p, save_at=jnp.asarray([0.0, 2.0]), atol=1e-3, rtol=1e-3))(prior)
        good = sol2.solution_full.posterior
        m_good, _ = good.evaluate_marginals().to_multivariate_normal()
        m_u, _ = sol2.u.to_multivariate_normal()
        assert np.allclose(m_good, m_u)

        post = sol.solution_full.posterior
        exp_shape = sol.u.mean_flat.shape
        got_shape = post.marginal.mean_flat.shape
        print(f"{name:9s} {sname:13s}: u.mean_flat {exp_shape}, u.cholesky_flat {sol.u.cholesky_flat.shape}")
        print(f"      expected posterior.marginal.mean_flat shape {exp_shape} (== save_at route {good.marginal.mean_flat.shape}); observed {got_shape}, cholesky {post.marginal.cholesky_flat.shape}")
        print(f"      observed marginal 'mean' = {np.asarray(post.marginal.mean_flat)}  vs terminal mean = {np.asarray(sol.u.mean_flat).ravel()}")
        try:
            mm = post.evaluate_marginals()
            res = f"returned mean_flat of shape {mm.mean_flat.shape}"
        except Exception as e:  # noqa: BLE001
            res = f"raises {type(e).__name__}: {str(e)[:90]!r}"
        print(f"      posterior.evaluate_marginals(): expected 2 marginals reproducing u at (t0,t1); observed: {res}")
        defect |= got_shape != exp_shape

print("\nDEFECT PRESENT" if defect else "\nno defect")
sys.exit(1 if defect else 0)
