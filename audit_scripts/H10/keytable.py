"""Replace the library's PRNG by a lookup table so that samples are an explicit function of the draws.

Keys become integer 'heap indices': split(key, 2) -> (2k+1, 2k+2); general num -> base-B digits.
normal(key, shape) = TABLE[key, :size].reshape(shape).
"""
import contextlib

import jax
import jax.numpy as jnp

from probdiffeq.backend import random as pd_random

STATE = {"table": None, "base": 2}


def _split(key, num):
    B = STATE["base"]
    assert num <= B
    return key * B + 1 + jnp.arange(num)


def _normal(key, /, shape, dtype=None):
    size = 1
    for s in shape:
        size *= s
    tab = STATE["table"]
    return tab[key, :size].reshape(shape)


@contextlib.contextmanager
def patched(table, base=2):
    old = (pd_random.split, pd_random.normal)
    STATE["table"] = table
    STATE["base"] = base
    pd_random.split, pd_random.normal = _split, _normal
    try:
        yield
    finally:
        pd_random.split, pd_random.normal = old


def sample_fn(seq, rows, width, shape=(), base=2):
    """Return f(table)->flattened sample, for jacobians."""

    def f(table):
        with patched(table, base):
            smp = seq.sample(jnp.asarray(0), shape=shape)
        return smp

    return f
