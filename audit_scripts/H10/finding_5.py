"""[C03/C05/C13] Smoothing means of the higher Taylor coefficients lose ALL digits for small steps:
the backward Markov factorisation stores its offset in preconditioned coordinates, where the
state mean is of size |u| * q! / dt^q, and is evaluated as (A @ x + xi) -- catastrophic cancellation.

Part 1 (tiny first step; grid = [0, 1e-6, 1.1e-5, ..., 0.111] = the accepted steps of an adaptive
   run with dt0=1e-6, atol=rtol=1e-2, q=3; the fixed-point run below really is that adaptive run):
   exact smoothing mean of u''' at t=1e-6 (rational arithmetic) : [0.1397, -0.0278], posterior std 6e-4
   textbook float64 covariance-form RTS                         : error ~2e-5 (conditioning limit)
   library (fixed-interval and fixed-point, all factorisations) : [0, 0], [0, -1], [0, 2], [-0.5, -1]
                                                                   i.e. errors 0.1 ... 2 (10^2..10^3 sigma)
   -> the value is the difference of two numbers of size ~1e15 (ulp 0.125 ... 1): pure rounding noise.
Part 2 (translation invariance): u' = f(u) from u0  versus  v' = f(v - c) from u0 + c, c = 100,
   uniform grid dt = 1e-2, q = 5. Exactly: v^(k) = u^(k) for k >= 1. The library's smoothing mean
   of the 5th coefficient moves by ~1 (8 posterior standard deviations); its *filtering* mean and
   a textbook float64 RTS move by < 5e-3.
"""
import math
import sys
import warnings
from fractions import Fraction as Fr

import jax

jax.config.update("jax_enable_x64", True)
import jax.numpy as jnp
import numpy as np

import probdiffeq
from probdiffeq import ivpsolve
from probdiffeq import probdiffeq as pdq

assert "/repo/" in probdiffeq.__file__, probdiffeq.__file__
warnings.filterwarnings("ignore")
np.set_printoptions(precision=4, linewidth=160)
d = 2
a = np.array([1.5, 0.8])


# ---------------------------------------------------------------- references
def iwp(q, dt, num=float):
    n = q + 1
    A = [[num(0)] * (n * d) for _ in range(n * d)]
    Q = [[num(0)] * (n * d) for _ in range(n * d)]
    for i in range(n):
        for j in range(n):
            aij = dt ** (j - i) / math.factorial(j - i) if j >= i else num(0)
            p = 2 * q + 1 - i - j
            qij = dt**p / (p * math.factorial(q - i) * math.factorial(q - j))
            for k in range(d):
                A[i * d + k][j * d + k] = aij
                Q[i * d + k][j * d + k] = qij
    return A, Q


def rts_float(q, f, m0, grid):
    """Textbook covariance-form EK0 filter + RTS smoother, float64."""
    H = np.kron(np.eye(q + 1)[[1]], np.eye(d))
    m, P = np.asarray(m0, float), np.zeros((m0.size, m0.size))
    mf, Pf, mp, Pp, As = [m], [P], [], [], []
    for k in range(len(grid) - 1):
        A, Q = (np.asarray(x, float) for x in iwp(q, float(grid[k + 1] - grid[k])))
        m_, P_ = A @ m, A @ P @ A.T + Q
        z = H @ m_ - f(m_[:d])
        S = H @ P_ @ H.T
        K = P_ @ H.T @ np.linalg.inv(S)
        m, P = m_ - K @ z, P_ - K @ S @ K.T
        mf.append(m), Pf.append(P), mp.append(m_), Pp.append(P_), As.append(A)
    ms, Ps = [mf[-1]], [Pf[-1]]
    for k in range(len(As) - 1, -1, -1):
        G = Pf[k] @ As[k].T @ np.linalg.pinv(Pp[k], hermitian=True, rcond=1e-300)
        ms.insert(0, mf[k] + G @ (ms[0] - mp[k]))
        Ps.insert(0, Pf[k] + G @ (Ps[0] - Pp[k]) @ G.T)
    return np.stack(mf), np.stack(ms), np.stack(Ps)


BITS = 1200


def rnd(x):
    return Fr(round(x * (1 << BITS)), 1 << BITS)


def mm(A, B):
    return [[rnd(sum(A[i][l] * B[l][j] for l in range(len(B)))) for j in range(len(B[0]))] for i in range(len(A))]


def tr(A):
    return [list(r) for r in zip(*A)]


def add(A, B, s=1):
    return [[x + s * y for x, y in zip(ra, rb)] for ra, rb in zip(A, B)]


def inv(A):
    n = len(A)
    M = [list(r) + [Fr(int(i == j)) for j in range(n)] for i, r in enumerate(A)]
    for c in range(n):
        p = max(range(c, n), key=lambda r: abs(M[r][c]))
        M[c], M[p] = M[p], M[c]
        pv = M[c][c]
        M[c] = [rnd(v / pv) for v in M[c]]
        for r in range(n):
            if r != c and M[r][c] != 0:
                fc = M[r][c]
                M[r] = [rnd(x - fc * y) for x, y in zip(M[r], M[c])]
    return [r[n:] for r in M]


def rts_exact(q, f, m0, grid):
    """Same model in (1200-bit rounded) rational arithmetic; f is evaluated in float64 at the predicted mean."""
    D = (q + 1) * d
    H = [[Fr(int(j == d + i)) for j in range(D)] for i in range(d)]
    m, P = [[Fr(float(v))] for v in m0], [[Fr(0)] * D for _ in range(D)]
    mf, Pf, mp, Pp, As = [m], [P], [], [], []
    for k in range(len(grid) - 1):
        A, Q = iwp(q, Fr(float(grid[k + 1])) - Fr(float(grid[k])), Fr)
        m_, P_ = mm(A, m), add(mm(mm(A, P), tr(A)), Q)
        fx = f(np.asarray([float(v[0]) for v in m_[:d]]))
        z = add(mm(H, m_), [[Fr(float(v))] for v in fx], -1)
        PHt = mm(P_, tr(H))
        S = mm(H, PHt)
        K = mm(PHt, inv(S))
        m, P = add(m_, mm(K, z), -1), add(P_, mm(mm(K, S), tr(K)), -1)
        mf.append(m), Pf.append(P), mp.append(m_), Pp.append(P_), As.append(A)
    ms, Ps = [mf[-1]], [Pf[-1]]
    for k in range(len(As) - 1, -1, -1):
        G = mm(mm(Pf[k], tr(As[k])), inv(Pp[k]))
        ms.insert(0, add(mf[k], mm(G, add(ms[0], mp[k], -1))))
        Ps.insert(0, add(Pf[k], mm(mm(G, add(Ps[0], Pp[k], -1)), tr(G))))
    tof = lambda L: np.asarray([[[float(v) for v in r] for r in X] for X in L])
    return tof(mf)[..., 0], tof(ms)[..., 0], tof(Ps)


# ---------------------------------------------------------------- library
def library(ssm_name, strategy, q, c, grid):
    ssm = getattr(pdq, f"state_space_model_{ssm_name}")()
    vf = pdq.ode(lambda u, *, t: jnp.asarray(a) * (u - c) * (1 - (u - c)))
    u0 = jnp.asarray([0.1, 0.3]) + c
    tcoeffs, _ = pdq.jetexpand_ode_padded_scan(num=q)(vf, (u0,), t=0.0)
    prior = ssm.prior_wiener_integrated(tcoeffs)
    con = ssm.constraint_ode_ts0(vf)
    m0 = np.concatenate([np.asarray(x) for x in tcoeffs])
    if strategy == "fixedinterval":
        solver = pdq.solver(strategy=pdq.strategy_smoother_fixedinterval(), constraint=con)
        sol = jax.jit(ivpsolve.solve_fixed_grid(solver=solver))(prior, grid=jnp.asarray(grid))
    else:  # fixed-point smoother, adaptive, checkpoints = the accepted steps (dt0 = grid[1])
        solver = pdq.solver(strategy=pdq.strategy_smoother_fixedpoint(), constraint=con)
        error = pdq.error_residual_std(constraint=con)
        solve = ivpsolve.solve_adaptive_save_at(solver=solver, error=error, clip_dt=True)
        sol = jax.jit(lambda p: solve(p, save_at=jnp.asarray(grid), atol=1e-2, rtol=1e-2, dt0=float(grid[1])))(prior)
        # every checkpoint is reached by exactly one accepted step (growth factor 10 per step)
        assert np.array_equal(np.asarray(sol.num_steps), np.arange(1, len(grid))), sol.num_steps
    ms, _ = sol.u.to_multivariate_normal()
    mf, _ = sol.solution_full.filtering.to_multivariate_normal()
    return m0, np.asarray(mf), np.asarray(ms)


defect = False
print("=== Part 1: grid with a tiny first step (accepted steps of an adaptive run with dt0=1e-6), q=3 ===")
q = 3
grid = np.asarray([0.0, 1e-6, 1.1e-5, 1.11e-4, 1.111e-3, 1.1111e-2, 1.11111e-1])
f0 = lambda u: a * u * (1 - u)
for ssm_name in ["dense", "isotropic", "blockdiag"]:
    for strategy in ["fixedinterval", "fixedpoint"]:
        m0, mf, ms = library(ssm_name, strategy, q, 0.0, grid)
        if ssm_name == "dense" and strategy == "fixedinterval":
            ex_f, ex_s, ex_P = rts_exact(q, f0, m0, grid)
            fl_f, fl_s, _ = rts_float(q, f0, m0, grid)
            sd = np.sqrt(np.abs(np.diagonal(ex_P, axis1=1, axis2=2)))
            print(f"exact smoothing mean of u''' at t=1e-6: {ex_s[1, -d:]}, posterior std {sd[1, -d:]}")
            print(f"textbook float64 RTS                   : {fl_s[1, -d:]}  (error {np.max(np.abs(fl_s[1, -d:] - ex_s[1, -d:])):.1e})")
        err = np.max(np.abs(ms[1, -d:] - ex_s[1, -d:]))
        err_f = np.max(np.abs(mf[1, -d:] - ex_f[1, -d:]))
        print(f"library {ssm_name:9s} {strategy:13s}         : {ms[1, -d:]}  (error {err:.1e} = {err / sd[1, -1]:.0f} sigma; its filtering mean: error {err_f:.1e})")
        defect |= err > 100 * sd[1, -1]

print("\n=== Part 2: translation invariance, uniform dt=1e-2, q=5, c=100, fixed-interval smoother ===")
q, c = 5, 100.0
grid = np.arange(7) * 1e-2
for ssm_name in ["dense", "isotropic", "blockdiag"]:
    m0, mf_0, ms_0 = library(ssm_name, "fixedinterval", q, 0.0, grid)
    _, mf_c, ms_c = library(ssm_name, "fixedinterval", q, c, grid)
    if ssm_name == "dense":
        _, fl0, P0 = rts_float(q, f0, m0, grid)
        mc = m0.copy()
        mc[:d] += c
        _, flc, _ = rts_float(q, lambda u: a * (u - c) * (1 - (u - c)), mc, grid)
        sd5 = np.sqrt(np.max(np.diagonal(P0, axis1=1, axis2=2)[:, -d:]))
        print(f"posterior std of the 5th coefficient ~ {sd5:.2e}; textbook float64 RTS moves by {np.max(np.abs(flc[:, -d:] - fl0[:, -d:])):.1e}")
    shift_s = np.max(np.abs(ms_c[:, -d:] - ms_0[:, -d:]))
    shift_f = np.max(np.abs(mf_c[:, -d:] - mf_0[:, -d:]))
    print(f"library {ssm_name:9s}: smoothing mean of u^(5) moves by {shift_s:.2e} (expected ~0; = {shift_s / sd5:.1f} sigma); filtering mean moves by {shift_f:.1e}")
    defect |= shift_s > 3 * sd5

print("\nDEFECT PRESENT" if defect else "\nno defect")
sys.exit(1 if defect else 0)
