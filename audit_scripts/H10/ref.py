"""Independent numpy reference: IWP prior + (E)KF + RTS smoother in covariance form."""

import math

import numpy as onp


def iwp_AQ(q, d, dt, sigma=1.0):
    """Return A(dt), Q(dt) for a q-times integrated Wiener process, coefficient-major."""
    n = q + 1
    A = onp.zeros((n, n))
    Q = onp.zeros((n, n))
    for i in range(n):
        for j in range(n):
            if j >= i:
                A[i, j] = dt ** (j - i) / math.factorial(j - i)
            p = 2 * q + 1 - i - j
            Q[i, j] = dt**p / (p * math.factorial(q - i) * math.factorial(q - j))
    sig = onp.asarray(sigma, dtype=float)
    if sig.ndim == 0:
        S = sig**2 * onp.eye(d)
    else:
        S = onp.diag(sig**2)
    return onp.kron(A, onp.eye(d)), onp.kron(Q, S)


def E(i, q, d):
    n = q + 1
    e = onp.zeros((1, n))
    e[0, i] = 1.0
    return onp.kron(e, onp.eye(d))


def condition(m, P, H, b, R=None):
    """Condition N(m,P) on H x + b = 0 (plus noise R). pinv for singular S."""
    z = H @ m + b
    S = H @ P @ H.T
    if R is not None:
        S = S + R
    Sinv = onp.linalg.pinv(S, hermitian=True, rcond=1e-14)
    K = P @ H.T @ Sinv
    m_new = m - K @ z
    P_new = P - K @ S @ K.T
    return m_new, P_new, z, S


class KF:
    """Run (E)KF on a grid and keep everything needed for smoothing."""

    def __init__(self, q, d, lin, m0, P0, base_scale=1.0, per_dim=False):
        self.per_dim = per_dim
        self.q, self.d, self.lin = q, d, lin
        self.m0, self.P0 = onp.asarray(m0, float), onp.asarray(P0, float)
        self.base_scale = base_scale

    def run(self, ts, mode="none", lin_init=None, damp=0.0, observed=None, interval_scales=None):
        """observed[k] says whether node k (k>=1) carries an ODE observation.

        interval_scales[k]: prescribed diffusion scale for interval k (overrides dynamic).
        """
        q, d = self.q, self.d
        m, P = self.m0.copy(), self.P0.copy()
        ms_f, Ps_f = [], []
        self.z_init = None
        if lin_init is not None:
            H, b = lin_init(m, ts[0])
            R = damp**2 * onp.eye(H.shape[0])
            m, P, z, S = condition(m, P, H, b, R)
            self.z_init, self.S_init = z, S
        ms_f.append(m)
        Ps_f.append(P)
        if observed is None:
            observed = [True] * len(ts)
        As, Qs, mps, Pps, scales, zs, Ss = [], [], [], [], [], [], []
        for k in range(len(ts) - 1):
            dt = ts[k + 1] - ts[k]
            A, Q = iwp_AQ(q, d, dt, self.base_scale)
            if interval_scales is not None:
                _, Q = iwp_AQ(q, d, dt, self.base_scale * onp.asarray(interval_scales[k]))
                scales.append(interval_scales[k])
                mp = A @ m
                Pp = A @ P @ A.T + Q
                if observed[k + 1]:
                    H, b = self.lin(mp, ts[k + 1])
            elif mode == "dynamic":
                assert observed[k + 1]
                mp0 = A @ m
                H, b = self.lin(mp0, ts[k + 1])
                z0 = H @ mp0 + b
                S0 = H @ Q @ H.T + damp**2 * onp.eye(H.shape[0])
                if self.per_dim:
                    s2 = z0**2 / onp.diag(S0)
                else:
                    s2 = z0 @ onp.linalg.solve(S0, z0) / z0.size
                _, Q = iwp_AQ(q, d, dt, self.base_scale * onp.sqrt(s2))
                scales.append(onp.sqrt(s2))
                mp = A @ m
                Pp = A @ P @ A.T + Q
            else:
                scales.append(1.0)
                mp = A @ m
                Pp = A @ P @ A.T + Q
                if observed[k + 1]:
                    H, b = self.lin(mp, ts[k + 1])
            if observed[k + 1]:
                R = damp**2 * onp.eye(H.shape[0])
                m, P, z, S = condition(mp, Pp, H, b, R)
                zs.append(z), Ss.append(S)
            else:
                m, P = mp, Pp
            As.append(A), Qs.append(Q), mps.append(mp), Pps.append(Pp)
            ms_f.append(m), Ps_f.append(P)
        self.ts = onp.asarray(ts)
        self.As, self.Qs, self.mps, self.Pps = As, Qs, mps, Pps
        self.ms_f, self.Ps_f = ms_f, Ps_f
        self.scales, self.zs, self.Ss = scales, zs, Ss
        return self

    def mle_scale(self, correct=True):
        # sigma^2 = mean_k z_k^T S_k^-1 z_k / dim(z)
        zs, Ss = list(self.zs), list(self.Ss)
        if self.z_init is not None:
            zs, Ss = [self.z_init] + zs, [self.S_init] + Ss
        if self.per_dim:
            terms = [z**2 / onp.diag(S) for z, S in zip(zs, Ss)]
        else:
            terms = [z @ onp.linalg.solve(S, z) / z.size for z, S in zip(zs, Ss)]
        s2 = onp.mean(terms, axis=0)
        if correct:
            s2 = s2 / len(self.zs)
        return onp.sqrt(s2)

    def smooth(self):
        N = len(self.ts) - 1
        ms, Ps = [None] * (N + 1), [None] * (N + 1)
        Gs = [None] * N
        ms[N], Ps[N] = self.ms_f[N], self.Ps_f[N]
        for k in range(N - 1, -1, -1):
            G = self.Ps_f[k] @ self.As[k].T @ onp.linalg.pinv(
                self.Pps[k], hermitian=True, rcond=1e-14
            )
            ms[k] = self.ms_f[k] + G @ (ms[k + 1] - self.mps[k])
            Ps[k] = self.Ps_f[k] + G @ (Ps[k + 1] - self.Pps[k]) @ G.T
            Gs[k] = G
        self.ms_s, self.Ps_s, self.Gs = ms, Ps, Gs
        return ms, Ps

    def joint(self, idx=None):
        """Joint smoothing mean/cov over all grid points (or subset idx)."""
        N = len(self.ts) - 1
        D = self.m0.size
        C = onp.zeros((N + 1, N + 1, D, D))
        for l in range(N + 1):
            C[l, l] = self.Ps_s[l]
            M = self.Ps_s[l]
            for k in range(l - 1, -1, -1):
                M = self.Gs[k] @ M
                C[k, l] = M
                C[l, k] = M.T
        if idx is None:
            idx = list(range(N + 1))
        mean = onp.concatenate([self.ms_s[i] for i in idx])
        cov = onp.block([[C[i, j] for j in idx] for i in idx])
        return mean, cov


def lin_ts1_linear(Amat, q, d, order=1):
    """TS1 for u^(order) = Amat @ [u, u', ...] (linear)."""

    def lin(m, t):
        H = E(order, q, d)
        for i in range(order):
            H = H - Amat[:, i * d : (i + 1) * d] @ E(i, q, d)
        return H, onp.zeros(d)

    return lin


def lin_ts0(f, q, d, order=1):
    def lin(m, t):
        H = E(order, q, d)
        args = [E(i, q, d) @ m for i in range(order)]
        return H, -onp.asarray(f(*args, t=t))

    return lin


def lin_ts1(f, jac, q, d):
    def lin(m, t):
        u = E(0, q, d) @ m
        J = onp.asarray(jac(u, t=t))
        H = E(1, q, d) - J @ E(0, q, d)
        b = -onp.asarray(f(u, t=t)) + J @ u
        return H, b

    return lin


def mvn_logpdf(x, mean, cov):
    x = onp.asarray(x, float)
    L = onp.linalg.cholesky(cov)
    w = onp.linalg.solve(L, x - mean)
    return -0.5 * w @ w - onp.sum(onp.log(onp.diag(L))) - 0.5 * x.size * onp.log(2 * onp.pi)
