"""[C05] Duplicate checkpoints inside an accepted step turn the solution into NaN.

save_at = [t0, c, c, t1] (c strictly inside a solver step, i.e. not a step end) must
reproduce the values of save_at = [t0, c, t1] at t0, c, t1 and repeat the value at c.

Observed: the repeated checkpoint is NaN for filters; for fixed-point smoothers the NaN
backward factor poisons the marginals at *all* checkpoints. The same happens for a repeated
final time [.., t1, t1] whenever the last step oversteps t1 (the default, clip_dt=False).
Checkpoints that are 1e-10 apart (instead of identical) work fine.
"""
import sys
import warnings

import jax

jax.config.update("jax_enable_x64", True)
import jax.numpy as jnp
import numpy as np

import probdiffeq
from probdiffeq import ivpsolve
from probdiffeq import probdiffeq as pdq

assert "/repo/" in probdiffeq.__file__, probdiffeq.__file__
warnings.filterwarnings("ignore")


def vf_(u, *, t):
    return 1.5 * u * (1 - u) + 0.3 * jnp.sin(2 * t)


SSMS = {
    "dense": pdq.state_space_model_dense,
    "isotropic": pdq.state_space_model_isotropic,
    "blockdiag": pdq.state_space_model_blockdiag,
}
t0, t1, c = 0.0, 2.0, 0.66
defect = False
for ssm_name, ssm_factory in SSMS.items():
    for strat_name, strat in [("filter", pdq.strategy_filter), ("fixedpoint", pdq.strategy_smoother_fixedpoint)]:
        ssm = ssm_factory()
        vf = pdq.ode(vf_, jacobian=pdq.jacobian_materialize())
        tcoeffs, _ = pdq.jetexpand_ode_padded_scan(num=2)(vf, (jnp.asarray([0.1, 0.3]),), t=t0)
        prior = ssm.prior_wiener_integrated(tcoeffs)
        con = ssm.constraint_ode_ts1(vf)
        solver = pdq.solver(strategy=strat(), constraint=con)
        error = pdq.error_residual_std(constraint=con)
        solve = jax.jit(ivpsolve.solve_adaptive_save_at(solver=solver, error=error), static_argnames=())

        def run(cps):
            sol = solve(prior, save_at=jnp.asarray(cps), atol=1e-3, rtol=1e-3)
            m, C = sol.u.to_multivariate_normal()
            return np.asarray(m), np.asarray(C)

        m_ref, C_ref = run([t0, c, t1])
        for label, cps, sel in [
            ("duplicate inside a step", [t0, c, c, t1], [0, 1, 1, 2]),
            ("1e-10 apart (works)   ", [t0, c, c + 1e-10, t1], [0, 1, 1, 2]),
            ("duplicate final time  ", [t0, c, t1, t1], [0, 1, 2, 2]),
        ]:
            m, C = run(cps)
            n_nan = int(np.isnan(m).any(axis=1).sum())
            with np.errstate(invalid="ignore"):
                err = np.nanmax(np.abs(m - m_ref[sel])) if n_nan < len(cps) else np.nan
            bad = n_nan > 0 or not err < 1e-6
            if bad and "works" not in label:
                defect = True
            print(
                f"{ssm_name:9s} {strat_name:10s} {label}: expected 0 NaN checkpoints & deviation < 1e-6 from the"
                f" run without the duplicate; observed {n_nan}/{len(cps)} NaN checkpoints, max deviation of finite entries {err:.1e}"
            )

print("\nDEFECT PRESENT" if defect else "\nno defect")
sys.exit(1 if defect else 0)
