"""[C12] loss_lml_timeseries rejects the only valid `std` when the posterior still carries filtering marginals.

`MarkovSequence.sample`, `.evaluate_marginals` and `loss_lml_timeseries` all document/implement the
branch "the sequence still carries its (unnecessary) filtering marginals -> strip them first".
sample() and evaluate_marginals() handle it (bit-identical to the stripped sequence), but the loss
validates `std` against `posterior.marginal.std[...]` BEFORE stripping, i.e. against a batched
marginal. Expected: same value as for the stripped sequence (= exact Gaussian log-density).
Observed: ValueError asking for a std of shape (N, N-1, d); passing that shape fails as well.
"""
import sys
import warnings

import jax

jax.config.update("jax_enable_x64", True)
import jax.numpy as jnp
import numpy as np

import probdiffeq
from probdiffeq import ivpsolve
from probdiffeq import probdiffeq as pdq

assert "/repo/" in probdiffeq.__file__, probdiffeq.__file__
warnings.filterwarnings("ignore")

SSMS = {
    "dense": pdq.state_space_model_dense,
    "isotropic": pdq.state_space_model_isotropic,
    "blockdiag": pdq.state_space_model_blockdiag,
}
grid = jnp.asarray([0.0, 0.1, 0.15, 0.4, 0.45, 0.9, 1.0])
defect = False
for name, factory in SSMS.items():
    ssm = factory()
    vf = pdq.ode(lambda u, *, t: -0.7 * u, jacobian=pdq.jacobian_materialize())
    tcoeffs, _ = pdq.jetexpand_ode_padded_scan(num=2)(vf, (jnp.asarray([1.0, 0.5]),), t=0.0)
    prior = ssm.prior_wiener_integrated(tcoeffs)
    con = ssm.constraint_ode_ts1(vf)
    solver = pdq.solver(strategy=pdq.strategy_smoother_fixedinterval(), constraint=con)
    sol = ivpsolve.solve_fixed_grid(solver=solver)(prior, grid=grid)

    stripped = sol.solution_full.posterior  # one terminal marginal + N backward conditionals
    filt = jax.tree.map(lambda s: s[1:], sol.solution_full.filtering)  # N filtering marginals
    carrying = pdq.MarkovSequence(filt, stripped.conditional, reverse=True)
    assert carrying.marginal.mean_flat.ndim == carrying.conditional.noise.mean_flat.ndim

    # the two documented sister branches work:
    a = stripped.evaluate_marginals().to_multivariate_normal()
    b = carrying.evaluate_marginals().to_multivariate_normal()
    same_marg = all(bool(jnp.array_equal(x, y)) for x, y in zip(a, b))
    key = jax.random.PRNGKey(0)
    same_smp = all(
        bool(jnp.array_equal(x, y))
        for x, y in zip(jax.tree.leaves(stripped.sample(key, shape=(3, 2))), jax.tree.leaves(carrying.sample(key, shape=(3, 2))))
    )

    data = sol.u.mean[0] + 0.01
    N = data.shape[0]
    std = 0.1 * jnp.ones((N,)) if name == "isotropic" else 0.1 * jnp.ones_like(data)
    loss = pdq.loss_lml_timeseries()
    expected = float(loss(data, posterior=stripped, std=std))
    try:
        observed = float(loss(data, posterior=carrying, std=std))
        ok = abs(observed - expected) < 1e-10
        msg = f"{observed!r}"
    except Exception as e:  # noqa: BLE001
        ok = False
        msg = f"{type(e).__name__}: {str(e)[:170]}"
    # follow the error message literally:
    std2 = jnp.stack([std[:-1]] * N) if name == "isotropic" else jnp.stack([std[:-1]] * N)
    try:
        obs2 = f"{float(loss(data, posterior=carrying, std=std2))!r}"
    except Exception as e:  # noqa: BLE001
        obs2 = f"{type(e).__name__}"
    print(f"{name:9s}: evaluate_marginals identical={same_marg}, sample identical={same_smp}")
    print(f"           loss expected {expected!r}; observed -> {msg}")
    print(f"           loss with the std-shape demanded by the message {tuple(std2.shape)} -> {obs2}")
    defect |= not ok

print("\nDEFECT PRESENT" if defect else "\nno defect")
sys.exit(1 if defect else 0)
