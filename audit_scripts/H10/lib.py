"""Helpers to build library solvers + matching numpy references."""
import sys

sys.path.insert(0, "/repo/hunt")
from common import *
import ref

A_COEF = onp.array([1.5, 0.8, 2.0])


def f_np(u, t):
    d = u.size
    return A_COEF[:d] * u * (1 - u) + 0.3 * onp.sin(2 * t)


def jac_np(u, t):
    d = u.size
    return onp.diag(A_COEF[:d] * (1 - 2 * u))


def f_jax(u, *, t):
    d = u.size
    return jnp.asarray(A_COEF[:d]) * u * (1 - u) + 0.3 * jnp.sin(2 * t)


SOLVERS = {"solver": pdq.solver, "mle": pdq.solver_mle, "dynamic": pdq.solver_dynamic}
STRATS = {
    "filter": pdq.strategy_filter,
    "fixedpoint": pdq.strategy_smoother_fixedpoint,
    "fixedinterval": pdq.strategy_smoother_fixedinterval,
}


def make_lin(ssm_name, cname, q, d):
    if cname == "ts0":
        return ref.lin_ts0(lambda u, t: f_np(u, t), q, d)

    def jac(u, t):
        J = jac_np(u, t)
        if ssm_name == "isotropic":
            return onp.mean(onp.diag(J)) * onp.eye(d)
        return J

    return ref.lin_ts1(lambda u, t: f_np(u, t), jac, q, d)


class Case:
    def __init__(self, ssm_name, solver_name, strat_name, cname, q=2, d=2, exact=True, base=1.0, t0=0.0, solver_kwargs=None, u0=None):
        self.ssm_name, self.solver_name, self.strat_name, self.cname = ssm_name, solver_name, strat_name, cname
        self.q, self.d, self.exact, self.base = q, d, exact, base
        ssm = SSMS[ssm_name]()
        self.ssm = ssm
        self.vf = pdq.ode(f_jax, jacobian=pdq.jacobian_materialize())
        if u0 is None:
            u0 = jnp.asarray([0.1, 0.3, 0.2][:d])
        self.tcoeffs, _ = pdq.jetexpand_ode_padded_scan(num=q)(self.vf, (u0,), t=t0)
        if ssm_name == "isotropic":
            os_ = base
        else:
            os_ = base * jnp.ones((d,))
        self.prior = ssm.prior_wiener_integrated(self.tcoeffs, is_exact=exact, inexact_eps=1e-2, output_scale=os_)
        self.con = ssm.constraint_ode_ts0(self.vf) if cname == "ts0" else ssm.constraint_ode_ts1(self.vf)
        self.strategy = STRATS[strat_name]()
        self.solver = SOLVERS[solver_name](strategy=self.strategy, constraint=self.con, **(solver_kwargs or {}))
        self.error = pdq.error_residual_std(constraint=self.con)
        self.m0 = onp.concatenate([onp.asarray(c) for c in self.tcoeffs])
        D = self.m0.size
        self.P0 = onp.zeros((D, D)) if exact else 1e-4 * onp.eye(D)
        self.lin = make_lin(ssm_name, cname, q, d)

    def step_grid(self, t0, t1, atol, rtol, dt0=0.1, eps=1e-8, damp=0.0, control=None):
        """The accepted step ends (incl. the final overstep) of the adaptive run."""
        if control is None:
            control = ivpsolve.control_integral()
        loop = ivpsolve.RejectionLoop(solver=self.solver, clip_dt=False, control=control, error=self.error, while_loop=jax.lax.while_loop)
        sol0 = self.solver.init(t=jnp.asarray(t0), u=self.prior, damp=damp)
        state = loop.init(sol0, dt=dt0)
        ts = [float(t0)]
        step = jax.jit(lambda s: loop.step((s, t1, atol, rtol, damp)))
        while float(state.step_from.t) + eps < t1:
            state = step(state)
            ts.append(float(state.step_from.t))
        return onp.asarray(ts)

    def reference(self, steps, checkpoints, damp=0.0, eps=1e-8):
        """KF/RTS on steps U checkpoints; returns kf, index of checkpoints in the union grid."""
        steps = onp.asarray(steps, float)
        nodes = [(float(s), True) for s in steps]
        for c in onp.asarray(checkpoints, float):
            if onp.min(onp.abs(steps - c)) > eps:
                nodes.append((float(c), False))
        nodes = sorted(set(nodes))
        ts = onp.asarray([n[0] for n in nodes])
        obs = [n[1] for n in nodes]
        # scale per step
        kf_steps = ref.KF(self.q, self.d, self.lin, self.m0, self.P0, base_scale=self.base, per_dim=(self.ssm_name == 'blockdiag'))
        kf_steps.run(steps, mode="dynamic" if self.solver_name == "dynamic" else "none", damp=damp)
        step_scales = kf_steps.scales
        # interval k of union grid lies in the step j with steps[j] < ts[k+1] <= steps[j+1]
        interval_scales = []
        for k in range(len(ts) - 1):
            j = int(onp.searchsorted(steps, ts[k + 1] - 1e-14, side="left")) - 1
            j = min(max(j, 0), len(step_scales) - 1)
            interval_scales.append(step_scales[j])
        kf = ref.KF(self.q, self.d, self.lin, self.m0, self.P0, base_scale=self.base, per_dim=(self.ssm_name == 'blockdiag'))
        kf.run(ts, observed=obs, interval_scales=interval_scales, damp=damp)
        kf.smooth()
        self.kf_steps = kf_steps
        idx = [int(onp.argmin(onp.abs(ts - c))) for c in onp.asarray(checkpoints, float)]
        scale = kf_steps.mle_scale() if self.solver_name == "mle" else 1.0
        if onp.ndim(scale) > 0:
            # per-dimension scale -> matrix that scales covariances: kron(ones(n,n), outer)
            sv = onp.tile(onp.asarray(scale), self.q + 1)
            scale = _CovScale(sv)
        return kf, idx, scale


class _CovScale:
    """scale**2 * C := diag(sv) C diag(sv)."""

    def __init__(self, sv):
        self.sv = sv

    def __pow__(self, p):
        assert p == 2
        return self

    def __rmul__(self, C):
        return C * onp.outer(self.sv, self.sv)

    __mul__ = __rmul__
    __array_priority__ = 1000
