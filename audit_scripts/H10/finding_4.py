"""[C03] solver_mle + constraint_init: NaN posterior covariances when the initial constraint is
already satisfied with zero uncertainty (exactly known constrained Taylor coefficients).

The three solvers deliberately use `lstsq_svd` in the initial update so that a singular
innovation covariance (noise-free initial coefficients) is fine; `solver` and `solver_dynamic`
indeed return the exact smoothing posterior (checked against a numpy Kalman filter/RTS smoother).
`solver_mle.init` additionally evaluates the whitened residual of that datum, which is 0/0 = NaN;
the NaN enters the running output scale and finalize() multiplies *every* covariance with it.

Configurations (both legitimate):
  (a) exact jet-expanded coefficients + constraint_init=<ODE constraint>  (redundant, harmless)
  (b) prior_wiener_integrated([u0, f(u0)], diffuse_derivatives=1) + constraint_init=<ODE constraint>
Expected: smoothing covariances = sigma_hat^2 * (RTS covariances) with a finite sigma_hat.
Observed: output_scale = NaN, all covariances NaN (means are right).
"""
import math
import sys
import warnings

import jax

jax.config.update("jax_enable_x64", True)
import jax.numpy as jnp
import numpy as np

import probdiffeq
from probdiffeq import ivpsolve
from probdiffeq import probdiffeq as pdq

assert "/repo/" in probdiffeq.__file__, probdiffeq.__file__
warnings.filterwarnings("ignore")

a, d, q = -0.7, 2, 2
grid = np.asarray([0.0, 0.1, 0.15, 0.4, 0.45, 0.9, 1.0])
u0 = np.asarray([1.0, 0.5])


def iwp(dt):
    n = q + 1
    A, Q = np.zeros((n, n)), np.zeros((n, n))
    for i in range(n):
        for j in range(n):
            if j >= i:
                A[i, j] = dt ** (j - i) / math.factorial(j - i)
            p = 2 * q + 1 - i - j
            Q[i, j] = dt**p / (p * math.factorial(q - i) * math.factorial(q - j))
    return np.kron(A, np.eye(d)), np.kron(Q, np.eye(d))


def rts(m0, P0):
    """Textbook KF + RTS for the (linear) model u' = a u, observation E1 x - a E0 x = 0."""
    E0 = np.kron(np.eye(q + 1)[[0]], np.eye(d))
    E1 = np.kron(np.eye(q + 1)[[1]], np.eye(d))
    H = E1 - a * E0

    def update(m, P):
        S = H @ P @ H.T
        K = P @ H.T @ np.linalg.pinv(S, hermitian=True)
        return m - K @ (H @ m), P - K @ S @ K.T

    m, P = update(m0, P0)  # constraint_init
    mf, Pf, mp, Pp, As = [m], [P], [], [], []
    for dt in np.diff(grid):
        A, Q = iwp(dt)
        m_, P_ = A @ m, A @ P @ A.T + Q
        m, P = update(m_, P_)
        mf.append(m), Pf.append(P), mp.append(m_), Pp.append(P_), As.append(A)
    ms, Ps = [mf[-1]], [Pf[-1]]
    for k in range(len(As) - 1, -1, -1):
        G = Pf[k] @ As[k].T @ np.linalg.pinv(Pp[k], hermitian=True)
        ms.insert(0, mf[k] + G @ (ms[0] - mp[k]))
        Ps.insert(0, Pf[k] + G @ (Ps[0] - Pp[k]) @ G.T)
    return np.stack(ms), np.stack(Ps)


SSMS = {
    "dense": pdq.state_space_model_dense,
    "isotropic": pdq.state_space_model_isotropic,
    "blockdiag": pdq.state_space_model_blockdiag,
}
defect = False
for name, factory in SSMS.items():
    for cfg in ["(a) exact jet", "(b) [u0,f(u0)]+diffuse"]:
        ssm = factory()
        vf = pdq.ode(lambda u, *, t: a * u, jacobian=pdq.jacobian_materialize())
        if cfg.startswith("(a)"):
            tcoeffs, _ = pdq.jetexpand_ode_padded_scan(num=q)(vf, (jnp.asarray(u0),), t=0.0)
            prior = ssm.prior_wiener_integrated(tcoeffs)
            m0 = np.concatenate([np.asarray(c) for c in tcoeffs])
            P0 = np.zeros((m0.size, m0.size))
        else:
            prior = ssm.prior_wiener_integrated([jnp.asarray(u0), jnp.asarray(a * u0)], diffuse_derivatives=1)
            m0 = np.concatenate([u0, a * u0, np.zeros(d)])
            P0 = np.diag(np.concatenate([np.zeros(2 * d), np.ones(d)]))
        con = ssm.constraint_ode_ts1(vf)
        m_ref, C_ref = rts(m0, P0)
        for sname, S in [("solver", pdq.solver), ("solver_dynamic", pdq.solver_dynamic), ("solver_mle", pdq.solver_mle)]:
            solver = S(strategy=pdq.strategy_smoother_fixedinterval(), constraint=con, constraint_init=con)
            sol = jax.jit(ivpsolve.solve_fixed_grid(solver=solver))(prior, grid=jnp.asarray(grid))
            m, C = (np.asarray(x) for x in sol.u.to_multivariate_normal())
            scale = np.asarray(sol.output_scale)[-1]
            nan_cov = bool(np.isnan(C).any())
            e_mean = np.max(np.abs(m - m_ref))
            if sname == "solver":
                e_cov = np.max(np.abs(C - C_ref)) / np.max(np.abs(C_ref))
                txt = f"cov rel.err vs numpy RTS {e_cov:.1e}"
            else:
                txt = f"cov has NaN: {nan_cov}"
            print(f"{name:9s} {cfg:24s} {sname:14s}: mean err vs numpy RTS {e_mean:.1e}; output_scale[-1]={scale}; {txt}")
            if sname == "solver_mle" and nan_cov:
                defect = True

print("\nDEFECT PRESENT (solver_mle: NaN covariances, expected finite sigma^2 * RTS covariances)" if defect else "\nno defect")
sys.exit(1 if defect else 0)
