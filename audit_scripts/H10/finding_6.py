"""[C03, calibration mode 'dynamic'] solver_dynamic returns NaN as soon as a predicted ODE residual is exactly zero.

(a) u' = -u, u(0) = 0 (solution identically zero): all three factorisations.
(b) u = (x, y), x' = -x, y' = 0 * y, y(0) = 0: block-diagonal factorisation (per-dimension scale).
The calibrated scale of such a step is 0, the next prediction has a singular covariance and the
triangular solves in revert() produce 0/0. solver / solver_mle return the exact (finite) answer.
Expected: finite posterior (mean 0 for the zero component, covariance 0 or finite). Observed: NaN.
"""
import sys
import warnings

import jax

jax.config.update("jax_enable_x64", True)
import jax.numpy as jnp
import numpy as np

import probdiffeq
from probdiffeq import ivpsolve
from probdiffeq import probdiffeq as pdq

assert "/repo/" in probdiffeq.__file__, probdiffeq.__file__
warnings.filterwarnings("ignore")
grid = jnp.linspace(0, 1, 6)
defect = False
for case, u0, f in [("(a) u0=0, u'=-u", jnp.zeros((2,)), lambda u, *, t: -u), ("(b) x'=-x, y'=0, y0=0", jnp.asarray([1.0, 0.0]), lambda u, *, t: jnp.asarray([-1.0, 0.0]) * u)]:
    for name in ["dense", "isotropic", "blockdiag"]:
        for sname, S in [("solver", pdq.solver), ("solver_mle", pdq.solver_mle), ("solver_dynamic", pdq.solver_dynamic)]:
            for stname, st in [("filter", pdq.strategy_filter), ("fixedinterval", pdq.strategy_smoother_fixedinterval)]:
                ssm = getattr(pdq, f"state_space_model_{name}")()
                vf = pdq.ode(f, jacobian=pdq.jacobian_materialize())
                tcoeffs, _ = pdq.jetexpand_ode_padded_scan(num=2)(vf, (u0,), t=0.0)
                prior = ssm.prior_wiener_integrated(tcoeffs)
                solver = S(strategy=st(), constraint=ssm.constraint_ode_ts1(vf))
                sol = jax.jit(ivpsolve.solve_fixed_grid(solver=solver))(prior, grid=grid)
                m, C = (np.asarray(x) for x in sol.u.to_multivariate_normal())
                nan = bool(np.isnan(m).any() or np.isnan(C).any())
                if nan or sname == "solver_dynamic":
                    print(f"{case:24s} {name:9s} {sname:14s} {stname:13s}: expected finite; observed NaN={nan}; u(t1) mean = {m[-1, :2]}")
                defect |= nan
print("\nDEFECT PRESENT" if defect else "\nno defect")
sys.exit(1 if defect else 0)
