import runpy
import jax; jax.config.update("jax_enable_x64", True)
import jax.numpy as jnp
from probdiffeq.backend import linalg
_orig = linalg.solve_triu
def safe(matrix, rhs, /, *, trans=0):
    # zero pivots <=> exactly-known observed directions: gain 0 there (pseudo-inverse convention)
    diag = jnp.diagonal(matrix)
    ok = diag != 0
    mat = jnp.where(ok[:, None] | ok[None, :], matrix, 0.0) + jnp.diag(jnp.where(ok, 0.0, 1.0))
    sol = _orig(mat, jnp.where(ok[:, None], rhs, 0.0) if rhs.ndim == 2 else jnp.where(ok, rhs, 0.0), trans=trans)
    return sol
linalg.solve_triu = safe
runpy.run_path("/repo/hunt/finding_2.py", run_name="__main__")
