import sys, itertools
sys.path.insert(0, "/repo/hunt")
from harness import *
import ref, cmp, libjoint
rng = np.random.default_rng(4)
d = 2
grid = np.array([0.0, 0.1, 0.25, 0.3, 0.5, 0.9])
def jerr(Cl, Cr):
    sd = np.sqrt(np.abs(np.diag(Cr))); s = np.where(sd > 1e-30*sd.max(), sd, 1e-8*sd.max())
    return np.max(np.abs(Cl-Cr)/np.outer(s, s))
for fact, order, q, mode, calib, damp, init in itertools.product(["dense","iso","blockdiag"], [1,2], [2,4], ["ts0","ts1"], ["none","mle","dynamic"], [0.0, 0.05], ["exact","inexact"]):
    tc = [jnp.asarray(rng.normal(size=d)) for _ in range(q+1)]
    sol, prior, solver = run_lib(fact, order, q, grid, tc, mode=mode, calib=calib, damp=damp, init=init, strategy="fixedinterval")
    m0 = np.concatenate([np.asarray(t) for t in tc])
    P0 = np.zeros((len(m0),)*2) if init=="exact" else np.eye(len(m0))*1e-6
    res = run_ref(fact, order, q, grid, m0, P0, mode=mode, calib=calib, damp=damp)
    s2 = res.get("sigma2")
    sm, sP, G = ref.rts(res)
    ml, Cl = sol.u.to_multivariate_normal()
    wm, wc = cmp.compare_seq(ml, Cl, sm, sP, s2, d, [res["P"][0]]+list(res["Pp"]))
    # filtering
    mf, Cf = sol.solution_full.filtering.to_multivariate_normal()
    fm, fc = cmp.compare_seq(mf, Cf, res["m"], res["P"], s2, d, [res["P"][0]]+list(res["Pp"]))
    # joint
    jm, jC = ref.joint(sm, [cmp.scaled(P, s2, d) for P in sP], G)
    lm, lC, _, _ = libjoint.lib_joint(sol.solution_full.posterior, fact, d)
    je = jerr(lC, ref.Fm(jC)); jme = np.max(np.abs(lm-ref.Fm(jm))/(np.abs(ref.Fm(jm))+1e-8))
    # smoothed var <= filtered var
    viol = np.max(np.diagonal(Cl, axis1=1, axis2=2) - np.diagonal(Cf, axis1=1, axis2=2) * (1+1e-9))
    flag = "  <<<<<" if not (max(wm, wc, fm, fc, je, jme) < 1e-6) else ""
    print(f"{fact:9s} ord{order} q{q} {mode} {calib:7s} damp{damp} {init:7s} sm {wm:.1e} {wc:.1e} filt {fm:.1e} {fc:.1e} joint {jme:.1e} {je:.1e} viol {viol:.1e}{flag}", flush=True)
