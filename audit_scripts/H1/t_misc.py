import sys, itertools
sys.path.insert(0, "/repo/hunt")
import harness
from harness import *
import ref, cmp
rng = np.random.default_rng(14)
d = 2
for fact, order, q, mode, calib, relin, scale_u, lamv in itertools.product(["dense","iso","blockdiag"], [1,2], [3], ["res","ts0"], ["none","mle","dynamic"], [True], [1.0, 1e5, 1e-5], [1.0, 1e-4, 1e4]):
    harness.SCALE[0] = scale_u
    jax.clear_caches()
    grid = np.concatenate([[-1.5], -1.5+np.cumsum(10.0**rng.uniform(-3, 0, size=6))])
    tc = [jnp.asarray(rng.normal(size=d))*scale_u for _ in range(q+1)]
    std0 = [jnp.asarray(10.0**rng.uniform(-4, 0, size=d))*scale_u for _ in range(q+1)]
    std0[0] = jnp.zeros(d)
    if fact == "iso":
        std0 = [s[0] for s in std0]
    lam = {"dense": jnp.asarray([0.7, 1.9])*lamv, "iso": jnp.asarray(1.3*lamv), "blockdiag": jnp.asarray([0.7, 1.9])*lamv}[fact]
    sol, prior, solver = run_lib(fact, order, q, grid, tc, mode=mode, calib=calib, init=std0, output_scale=lam, relin=relin, autonomous="lin", jit=False)
    m0 = np.concatenate([np.asarray(t) for t in tc])
    sd0 = np.concatenate([np.ones(d)*np.asarray(s) for s in std0])
    P0 = np.diag(sd0**2)
    res = run_ref(fact, order, q, grid, m0, P0, mode=mode, calib=calib, lam=np.asarray(lam), autonomous="lin")
    wm, wc = cmp.compare_filter(sol, res, res.get("sigma2"))
    flag = "  <<<<<" if not (max(wm, wc) < 1e-6) else ""
    print(f"{fact:9s} ord{order} q{q} {mode} {calib:7s} su{scale_u} lam{lamv} mean {wm:.1e} cov {wc:.1e}{flag}", flush=True)
