import sys, itertools
sys.path.insert(0, "/repo/hunt")
from harness import *
import ref, cmp, adapt
rng = np.random.default_rng(10)
d = 2
grid = np.array([0.0, 0.1, 0.25, 0.3, 0.5, 0.9])
T = len(grid)
dts = [0.13, 0.05, 0.31, 0.1, 0.27, 0.4, 0.4]
cnt = 0
for fact, strat, order, q, calib, init, stdkind, avg in itertools.product(["dense","iso","blockdiag"], ["fixedinterval","fixedpoint"], [1,2], [2,3], ["none","mle","dynamic"], ["exact","inexact"], ["small","big","mixed"], [True, False]):
    tc = [jnp.asarray(rng.normal(size=d)) for _ in range(q+1)]
    mode = "ts1" if rng.random() < 0.5 else "ts0"
    if strat == "fixedinterval":
        sol, prior, solver = run_lib(fact, order, q, grid, tc, mode=mode, calib=calib, init=init, strategy=strat)
        times = list(grid); observe = [False] + [True]*(T-1); saved = [True]*T
    else:
        _, prior, solver = run_lib(fact, order, q, None, tc, mode=mode, calib=calib, init=init, strategy=strat)
        sol = adapt.solve_save_at(solver, prior, grid, dts, False)
        steps = adapt.simulate_save_at(grid, dts, False)
        times, observe, saved = adapt.nodes_from(grid, steps)
    m0 = np.concatenate([np.asarray(t) for t in tc])
    P0 = np.zeros((len(m0),)*2) if init=="exact" else np.eye(len(m0))*1e-6
    res = run_ref(fact, order, q, times, m0, P0, mode=mode, calib=calib, observe=observe)
    s2 = res.get("sigma2")
    sm, sP, G = ref.rts(res)
    jm, jC = ref.joint(sm, [cmp.scaled(P, s2, d) for P in sP], G)
    n = len(m0)
    idx = [k for k in range(len(times)) if saved[k]]
    for ti in range(q+1):
        # std
        if stdkind == "small": base = 10.0**rng.uniform(-6, -4, size=(T, d))
        elif stdkind == "big": base = 10.0**rng.uniform(0, 3, size=(T, d))
        else: base = 10.0**rng.uniform(-6, 3, size=(T, d))
        if fact == "iso":
            base = np.repeat(base[:, :1], d, axis=1); std_lib = jnp.asarray(base[:, 0])
        else:
            std_lib = jnp.asarray(base)
        data = np.asarray(sol.u.mean[ti]) + rng.normal(size=(T, d)) * (base + np.asarray(sol.u.std[ti]).reshape(T, -1))
        loss = pdq.loss_lml_timeseries(average_pdfs=avg, tcoeff_index=ti)
        val = float(jax.jit(loss)(jnp.asarray(data), posterior=sol.solution_full.posterior, std=std_lib))
        sel = np.concatenate([k*n + ti*d + np.arange(d) for k in idx])
        mean = jm[sel]; C = jC[np.ix_(sel, sel)].copy()
        for a, v in enumerate(base.reshape(-1)): C[a, a] = C[a, a] + ref.D(v)**2
        expected = ref.logpdf(ref.Dm(data.reshape(-1)), mean, C)
        if avg: expected = expected / T
        expected = float(expected)
        # terminal values
        lossT = pdq.loss_lml_terminal_values(tcoeff_index=ti)
        margT = jax.tree.map(lambda s: s[-1], sol.u)
        stdT = std_lib[-1]
        valT = float(jax.jit(lossT)(jnp.asarray(data[-1]), marginals=margT, std=stdT))
        selT = idx[-1]*n + ti*d + np.arange(d)
        CT = jC[np.ix_(selT, selT)].copy()
        for a in range(d): CT[a, a] = CT[a, a] + ref.D(base[-1, a])**2
        expT = float(ref.logpdf(ref.Dm(data[-1]), jm[selT], CT))
        e1 = abs(val-expected)/(abs(expected)+1); e2 = abs(valT-expT)/(abs(expT)+1)
        cnt += 1
        flag = "  <<<<<" if not (max(e1, e2) < 1e-6) else ""
        print(f"{fact:9s} {strat:13s} ord{order} q{q} {mode} {calib:7s} {init:7s} {stdkind:5s} avg{avg} ti{ti} ts {val:.8e} vs {expected:.8e} ({e1:.1e}) term {valT:.6e} vs {expT:.6e} ({e2:.1e}){flag}", flush=True)
print(cnt)
