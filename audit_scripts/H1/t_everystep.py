import sys, itertools
sys.path.insert(0, "/repo/hunt")
from harness import *
import ref, cmp, libjoint, adapt
rng = np.random.default_rng(6)
d = 2
def jerr(Cl, Cr):
    sd = np.sqrt(np.abs(np.diag(Cr))); s = np.where(sd > 1e-30*sd.max(), sd, 1e-8*sd.max())
    return np.max(np.abs(Cl-Cr)/np.outer(s, s))
t0, t1 = 0.0, 1.0
scripts = {"over": [0.13, 0.05, 0.31, 0.1, 0.27, 0.4, 0.4], "hit": [0.25, 0.25, 0.125, 0.125, 0.25, 0.5], "one": [1.7, 1.0], "onehit": [1.0, 1.0]}
def simulate(dts, clip, eps=1e-8):
    t = t0; i = 0; nodes=[(t0, False, True)]
    while t < t1:
        if t + eps < t1:
            dt = dts[i]; 
            if clip: dt = min(dt, t1 - t)
            t += dt; i += 1
        if t + eps < t1: nodes.append((t, True, True))
        elif t > t1 + eps: nodes.append((t1, False, True)); nodes.append((t, True, False))
        else: nodes.append((t, True, True))
    return [n[0] for n in nodes], [n[1] for n in nodes], [n[2] for n in nodes]
for strat, fact, order, q, mode, calib, damp, clip, sname in itertools.product(["fixedinterval", "filter"], ["dense","iso","blockdiag"], [1,2], [3], ["ts0","ts1"], ["none","mle","dynamic"], [0.0, 0.05], [False, True], list(scripts)):
    dts = scripts[sname]
    tc = [jnp.asarray(rng.normal(size=d)) for _ in range(q+1)]
    _, prior, solver = run_lib(fact, order, q, None, tc, mode=mode, calib=calib, damp=damp, init="inexact", strategy=strat)
    sol = adapt.solve_every_step(solver, prior, t0, t1, dts, clip, damp=damp)
    times, observe, saved = simulate(dts, clip)
    m0 = np.concatenate([np.asarray(t) for t in tc]); P0 = np.eye(len(m0))*1e-6
    res = run_ref(fact, order, q, times, m0, P0, mode=mode, calib=calib, damp=damp, observe=observe)
    s2 = res.get("sigma2")
    idx = [k for k in range(len(times)) if saved[k]]
    assert np.allclose(np.asarray(sol.t), np.array(times)[idx], atol=1e-7), (sol.t, times, saved)
    ml, Cl = sol.u.to_multivariate_normal()
    nat = [res["P"][0]]+list(res["Pp"])
    if strat == "filter":
        wm, wc = cmp.compare_seq(ml, Cl, [res["m"][k] for k in idx], [res["P"][k] for k in idx], s2, d, [nat[k] for k in idx])
        flag = "  <<<<<" if not (max(wm, wc) < 1e-6) else ""
        print(f"{strat:10s} {fact:9s} ord{order} {mode} {calib:7s} damp{damp} clip{clip} {sname:4s} filt {wm:.1e} {wc:.1e}{flag}", flush=True)
        continue
    sm, sP, G = ref.rts(res)
    wm, wc = cmp.compare_seq(ml, Cl, [sm[k] for k in idx], [sP[k] for k in idx], s2, d, [nat[k] for k in idx])
    mf, Cf = sol.solution_full.filtering.to_multivariate_normal()
    fm, fc = cmp.compare_seq(mf, Cf, [res["m"][k] for k in idx], [res["P"][k] for k in idx], s2, d, [nat[k] for k in idx])
    jm, jC = ref.joint(sm, [cmp.scaled(P, s2, d) for P in sP], G)
    n = len(m0)
    sel = np.concatenate([np.arange(k*n, (k+1)*n) for k in idx])
    jm = ref.Fm(jm)[sel]; jC = ref.Fm(jC)[np.ix_(sel, sel)]
    lm, lC, _, _ = libjoint.lib_joint(sol.solution_full.posterior, fact, d)
    je = jerr(lC, jC); jme = np.max(np.abs(lm-jm)/(np.abs(jm)+1e-8))
    flag = "  <<<<<" if not (max(wm, wc, fm, fc, je, jme) < 1e-6) else ""
    print(f"{strat:10s} {fact:9s} ord{order} {mode} {calib:7s} damp{damp} clip{clip} {sname:4s} sm {wm:.1e} {wc:.1e} filt {fm:.1e} {fc:.1e} joint {jme:.1e} {je:.1e}{flag}", flush=True)
