import sys, itertools
sys.path.insert(0, "/repo/hunt")
from harness import *
import ref, cmp, libjoint
rng = np.random.default_rng(15)
d = 2
def jerr(Cl, Cr):
    sd = np.sqrt(np.abs(np.diag(Cr))); s = np.where(sd > 1e-30*sd.max(), sd, 1e-8*sd.max())
    return np.max(np.abs(Cl-Cr)/np.outer(s, s))
for q, h in itertools.product([5, 6, 8], [0.3, 0.03, 0.003]):
  for fact, mode, calib, order, init in [("dense","ts1","none",1,"exact"),("iso","ts0","mle",2,"inexact"),("blockdiag","ts1","mle",1,"inexact"),("dense","ts0","none",2,"inexact"),("blockdiag","ts0","none",1,"exact")]:
    grid = np.cumsum(np.concatenate([[0.0], h*np.array([1.0, 0.5, 0.8, 1.0, 0.3, 0.9])]))
    tc = [jnp.asarray(rng.normal(size=d)) for _ in range(q+1)]
    sol, prior, solver = run_lib(fact, order, q, grid, tc, mode=mode, calib=calib, init=init, inexact_eps=1e-3, strategy="fixedinterval", autonomous="lin")
    m0 = np.concatenate([np.asarray(t) for t in tc]); P0 = np.zeros((len(m0),)*2) if init=="exact" else np.eye(len(m0))*1e-6
    res = run_ref(fact, order, q, grid, m0, P0, mode=mode, calib=calib, autonomous="lin")
    s2 = res.get("sigma2")
    sm, sP, G = ref.rts(res)
    ml, Cl = sol.u.to_multivariate_normal()
    nat = [res["P"][0]]+list(res["Pp"])
    wm, wc = cmp.compare_seq(ml, Cl, sm, sP, s2, d, nat)
    jm, jC = ref.joint(sm, [cmp.scaled(P, s2, d) for P in sP], G)
    lm, lC, _, _ = libjoint.lib_joint(sol.solution_full.posterior, fact, d)
    je = jerr(lC, ref.Fm(jC))
    flag = "  <<<<<" if not (max(wm, wc, je) < 1e-6) else ""
    print(f"q{q} h{h} {fact:9s} ord{order} {mode} {calib:5s} {init:7s} sm mean {wm:.1e} cov {wc:.1e} joint {je:.1e}{flag}", flush=True)
