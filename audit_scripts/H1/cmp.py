import numpy as np
import ref

def scaled(P, scale2, d):
    if scale2 is None:
        return P
    if isinstance(scale2, np.ndarray):
        n = P.shape[0] // d
        sc = np.array([scale2[i % d].sqrt() for i in range(n * d)], dtype=object)
        return sc[:, None] * P * sc[None, :]
    return P * scale2

def _sd(P):
    return np.array([abs(P[i, i]).sqrt() for i in range(P.shape[0])], dtype=object)

def err_moments(m_lib, C_lib, m_ref, P_ref, P_nat=None):
    """Errors in Decimal-safe fashion. P_nat: 'natural scale' covariance (e.g. predicted) used
    as the yardstick for directions whose exact posterior variance is zero."""
    n = len(m_ref)
    sd = _sd(P_ref)
    sdmax = max(sd)
    nat = _sd(P_nat) if P_nat is not None else sd
    s = np.empty(n, dtype=object)
    for i in range(n):
        if sd[i] > ref.Decimal("1e-40") * (sdmax if sdmax > 0 else 1):
            s[i] = sd[i]
        else:
            s[i] = ref.Decimal("1e-8") * nat[i] if nat[i] > 0 else ref.Decimal("1e-12") * (abs(m_ref[i]) + 1)
    ml = ref.Dm(np.asarray(m_lib)); Cl = ref.Dm(np.asarray(C_lib))
    em = max(abs(ml[i] - m_ref[i]) / (abs(m_ref[i]) + s[i]) for i in range(n))
    ec = max(abs(Cl[i, j] - P_ref[i, j]) / (s[i] * s[j]) for i in range(n) for j in range(n))
    return float(em), float(ec)

def compare_seq(means_lib, covs_lib, ms, Ps, scale2=None, d=2, Pnat=None):
    wm = wc = 0.0
    for k in range(len(ms)):
        nat = None if Pnat is None else scaled(Pnat[k], scale2, d)
        em, ec = err_moments(means_lib[k], covs_lib[k], ms[k], scaled(Ps[k], scale2, d), nat)
        wm = max(wm, em); wc = max(wc, ec)
    return wm, wc

def compare_filter(sol, res, scale2=None, d=2):
    ml, Cl = sol.u.to_multivariate_normal()
    if not (np.all(np.isfinite(np.asarray(ml))) and np.all(np.isfinite(np.asarray(Cl)))):
        return np.nan, np.nan
    Pnat = [res["P"][0]] + list(res["Pp"])
    return compare_seq(ml, Cl, res["m"], res["P"], scale2, d, Pnat)
