import sys, itertools
sys.path.insert(0, "/repo/hunt")
from harness import *
import ref, sampling
rng = np.random.default_rng(8)
d = 2
grid = jnp.array([0.0, 0.1, 0.25, 0.3, 0.5])
def flatten_samples(smp):
    arr = np.stack([np.asarray(s) for s in smp], axis=1)
    return arr.reshape(-1)
for fact, q in itertools.product(["dense","iso","blockdiag"], [1,3]):
    tc = [jnp.asarray(rng.normal(size=d)) for _ in range(q+1)]
    lam = {"dense": jnp.asarray([0.7, 1.9]), "iso": jnp.asarray(1.3), "blockdiag": jnp.asarray([0.7, 1.9])}[fact]
    ssm = FACT[fact]()
    prior = ssm.prior_wiener_integrated(tc, is_exact=False, inexact_eps=0.3, output_scale=lam)
    for reverse in [False]:
        seq = pdq.MarkovSequence.from_grid(prior, grid=grid, reverse=reverse)
        off, L, shapes = sampling.affine_map(lambda: seq.sample(jax.random.PRNGKey(0)), flatten_samples)
        # reference prior joint
        n = (q+1)*d
        m = np.concatenate([np.asarray(t) for t in tc]); P = np.eye(n)*0.09
        lamv = np.ones(d)*np.asarray(lam)
        means=[m]; T=len(grid); C = np.zeros((T*n, T*n)); C[:n,:n]=P
        Phi = [np.eye(n)]
        covs=[P]
        As=[]
        for k in range(T-1):
            A, Q = ref.iwp_AQ(q, d, float(grid[k+1]-grid[k]), lamv); A=ref.Fm(A); Q=ref.Fm(Q)
            As.append(A); means.append(A@means[-1]); covs.append(A@covs[-1]@A.T+Q)
        for i in range(T):
            blk = covs[i]
            C[i*n:(i+1)*n, i*n:(i+1)*n] = blk
            for j in range(i+1, T):
                blk = As[j-1] @ blk
                C[j*n:(j+1)*n, i*n:(i+1)*n] = blk; C[i*n:(i+1)*n, j*n:(j+1)*n] = blk.T
        mean = np.concatenate(means)
        sd = np.sqrt(np.diag(C))
        print(fact, q, reverse, "mean", np.max(np.abs(off-mean)/(np.abs(mean)+sd)), "gram", np.max(np.abs(L@L.T-C)/np.outer(sd,sd)), "ndraws", L.shape[1])
        # marginals
        mm, CC = seq.evaluate_marginals().to_multivariate_normal()
        print("   marginals", np.max(np.abs(np.asarray(mm).reshape(-1)-mean)), max(np.max(np.abs(np.asarray(CC[k])-covs[k])/np.outer(sd[k*n:(k+1)*n], sd[k*n:(k+1)*n])) for k in range(T)))
