import sys, itertools
sys.path.insert(0, "/repo/hunt")
from harness import *
import ref, cmp
rng = np.random.default_rng(17)
d = 2
def f3(u, du, ddu, *, t):
    return -0.5*u + 0.1*du*u[::-1] - 0.3*ddu + 0.2*ddu[::-1]*du + t
jac = pdq.jacobian_materialize()
ode3 = pdq.ode_order_arbitrary(f3, num_tcoeffs_in_args=3, jacobian=jac)
def fref(ms, t): return np.asarray(f3(*[jnp.asarray(m) for m in ms], t=t))
def jref(ms, t):
    a = [jnp.asarray(m) for m in ms]
    return [np.asarray(jax.jacfwd(lambda x: f3(*(a[:i]+[x]+a[i+1:]), t=t))(a[i])) for i in range(3)]
grid = np.array([0.0, 0.1, 0.25, 0.3, 0.5, 0.9])
for fact, q, mode, calib, strat in itertools.product(["dense","iso","blockdiag"], [3, 5], ["ts0","ts1"], ["none","mle","dynamic"], ["filter", "fixedinterval"]):
    ssm = FACT[fact]()
    tc = [jnp.asarray(rng.normal(size=d)) for _ in range(q+1)]
    prior = ssm.prior_wiener_integrated(tc)
    con = ssm.constraint_ode_ts0(ode3) if mode=="ts0" else ssm.constraint_ode_ts1(ode3)
    st = pdq.strategy_filter() if strat=="filter" else pdq.strategy_smoother_fixedinterval()
    S = {"none": pdq.solver, "mle": lambda **k: pdq.solver_mle(correct_asymptotic_underconfidence=False, **k), "dynamic": pdq.solver_dynamic}[calib]
    sol = jax.jit(ivpsolve.solve_fixed_grid(solver=S(strategy=st, constraint=con)))(prior, grid=jnp.asarray(grid))
    lin = ref.Lin(fref, 3, q, d, mode, fact, jref)
    m0 = np.concatenate([np.asarray(t) for t in tc]); P0 = np.zeros((len(m0),)*2)
    res = ref.ekf(m0, P0, grid, lin, lambda dt: ref.iwp_AQ(q, d, dt, np.ones(d)), calib=calib, d=d, blockdiag_scale=(fact=="blockdiag"))
    s2 = res.get("sigma2")
    ml, Cl = sol.u.to_multivariate_normal()
    nat = [res["P"][0]]+list(res["Pp"])
    if strat == "filter": wm, wc = cmp.compare_seq(ml, Cl, res["m"], res["P"], s2, d, nat)
    else:
        sm, sP, G = ref.rts(res); wm, wc = cmp.compare_seq(ml, Cl, sm, sP, s2, d, nat)
    flag = "  <<<<<" if not (max(wm, wc) < 1e-6) else ""
    print(f"{fact:9s} q{q} {mode} {calib:7s} {strat:13s} mean {wm:.1e} cov {wc:.1e}{flag}", flush=True)
