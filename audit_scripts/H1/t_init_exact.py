import sys, itertools
sys.path.insert(0, "/repo/hunt")
from harness import *
d=2
grid = np.array([0.0, 0.1, 0.25, 0.3])
u0 = jnp.array([1.0, 0.5])
f0 = vf1(u0, t=0.0)
tc = [u0, f0, jnp.array([0.3, -0.2])]
for fact, calib, mode, damp in itertools.product(["dense","iso","blockdiag"], ["none","mle","dynamic"], ["ts0","ts1"], [0.0, 1e-3]):
    sol, prior, solver = run_lib(fact, 1, 2, grid, tc, mode=mode, calib=calib, damp=damp, use_init_constraint=True, init="exact")
    m, C = sol.u.to_multivariate_normal()
    print(fact, calib, mode, damp, "NaN" if bool(jnp.any(jnp.isnan(m))|jnp.any(jnp.isnan(C))) else "ok", np.asarray(sol.output_scale)[-1], np.asarray(sol.u.std[0][-1]))
