import sys, itertools
sys.path.insert(0, "/repo/hunt")
from harness import *
import ref, cmp
rng = np.random.default_rng(1)
d = 2
for q, h in itertools.product([5, 6, 7, 8], [1.0, 0.1, 0.01, 1e-3]):
  for fact, mode, calib in [("dense","ts0","none"),("dense","ts1","mle"),("iso","ts1","dynamic"),("blockdiag","ts1","mle"),("blockdiag","ts0","dynamic"),("iso","ts0","none")]:
    for order in [1,2]:
        grid = np.cumsum(np.concatenate([[0.0], h*np.array([1.0, 0.5, 0.8, 1.0, 0.3, 0.9, 1.0, 1.0])]))
        tc = [jnp.asarray(rng.normal(size=d)) for _ in range(q+1)]
        sol, prior, solver = run_lib(fact, order, q, grid, tc, mode=mode, calib=calib)
        m0 = np.concatenate([np.asarray(t) for t in tc]); P0 = np.zeros((len(m0),)*2)
        res = run_ref(fact, order, q, grid, m0, P0, mode=mode, calib=calib)
        ml, Cl = sol.u.to_multivariate_normal()
        wm, wc = cmp.compare_filter(sol, res, res.get("sigma2"))
        flag = "  <<<<<" if not (max(wm, wc) < 1e-6) else ""
        print(f"q{q} h{h} {fact:9s} ord{order} {mode} {calib:7s} mean {wm:.1e} cov {wc:.1e}{flag}", flush=True)
