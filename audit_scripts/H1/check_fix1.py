import runpy, sys
import jax; jax.config.update("jax_enable_x64", True)
from probdiffeq._probdiffeq import ssm_impl_isotropic as iso
from probdiffeq.backend import random
def sample_flat(self, key):
    base = random.normal(key, shape=self.mean_flat.shape)
    return self.mean_flat + self.cholesky_flat @ base
iso.IsotropicNormal.sample_flat = sample_flat
runpy.run_path("/repo/hunt/finding_1.py", run_name="__main__")
