import sys, itertools
sys.path.insert(0, "/repo/hunt")
from harness import *
import ref, cmp, libjoint, adapt, sampling
rng = np.random.default_rng(7)
d = 2
grid = np.array([0.0, 0.1, 0.25, 0.3, 0.5])
def flatten_samples(smp):
    # smp: list over tcoeffs of arrays (T, d) -> ordering time-major, then coefficient, then dim
    arr = np.stack([np.asarray(s) for s in smp], axis=1)  # (T, n, d)
    return arr.reshape(-1)
for fact, order, q, mode, calib in itertools.product(["dense","iso","blockdiag"], [1,2], [2,3], ["ts0","ts1"], ["none","mle","dynamic"]):
    tc = [jnp.asarray(rng.normal(size=d)) for _ in range(q+1)]
    sol, prior, solver = run_lib(fact, order, q, grid, tc, mode=mode, calib=calib, init="inexact", strategy="fixedinterval")
    post = sol.solution_full.posterior
    key = jax.random.PRNGKey(0)
    off, L, shapes = sampling.affine_map(lambda: post.sample(key), flatten_samples)
    lm, lC, means, covs = libjoint.lib_joint(post, fact, d)
    sd = np.sqrt(np.abs(np.diag(lC))); sd = np.maximum(sd, 1e-7*np.max(sd))
    e_mean = np.max(np.abs(off - lm)/(np.abs(lm)+sd))
    e_cov = np.max(np.abs(L@L.T - lC)/np.outer(sd, sd))
    ml, _ = sol.u.to_multivariate_normal()
    e_mean2 = np.max(np.abs(off - np.asarray(ml).reshape(-1))/(np.abs(lm)+sd))
    print(f"{fact:9s} ord{order} q{q} {mode} {calib:7s} mean {e_mean:.1e} {e_mean2:.1e} gram {e_cov:.1e} ndraws {L.shape[1]} dim {L.shape[0]}", "<<<<" if max(e_mean, e_cov, e_mean2) > 1e-7 else "", flush=True)
