import sys, itertools
sys.path.insert(0, "/repo/hunt")
import harness
from harness import *
import ref, cmp
np.set_printoptions(linewidth=220, precision=4)
rng = np.random.default_rng(14)
d = 2
target = ("dense", 2, 3, "ts0", "none", True, 1e5, 1e-4)
for cfg in itertools.product(["dense","iso","blockdiag"], [1,2], [3], ["res","ts0"], ["none","mle","dynamic"], [True], [1.0, 1e5, 1e-5], [1.0, 1e-4, 1e4]):
    fact, order, q, mode, calib, relin, scale_u, lamv = cfg
    harness.SCALE[0] = scale_u
    grid = np.concatenate([[-1.5], -1.5+np.cumsum(10.0**rng.uniform(-3, 0, size=6))])
    tc = [jnp.asarray(rng.normal(size=d))*scale_u for _ in range(q+1)]
    std0 = [jnp.asarray(10.0**rng.uniform(-4, 0, size=d))*scale_u for _ in range(q+1)]
    std0[0] = jnp.zeros(d)
    if fact == "iso":
        std0 = [s[0] for s in std0]
    if cfg != target: continue
    lam = jnp.asarray([0.7, 1.9])*lamv
    print("grid", grid, "std0", [np.asarray(s) for s in std0])
    sol, prior, solver = run_lib(fact, order, q, grid, tc, mode=mode, calib=calib, init=std0, output_scale=lam, relin=relin, autonomous="lin", jit=False)
    m0 = np.concatenate([np.asarray(t) for t in tc])
    sd0 = np.concatenate([np.ones(d)*np.asarray(s) for s in std0])
    res = run_ref(fact, order, q, grid, m0, np.diag(sd0**2), mode=mode, calib=calib, lam=np.asarray(lam), autonomous="lin")
    ml, Cl = sol.u.to_multivariate_normal()
    for k in range(len(grid)):
        mr = ref.Fm(res["m"][k]); Pr = ref.Fm(res["P"][k])
        print(k, "ref m", mr); print("  lib m", np.asarray(ml[k])); print("  ref sd", np.sqrt(np.abs(np.diag(Pr)))); print("  lib sd", np.sqrt(np.abs(np.diag(Cl[k]))))
    break
# conditioning analysis in Decimal
_, fref, jref = make_problem(order, "lin")
lin = ref.Lin(fref, order, q, d, "ts0", fact, jref)
for k in range(1, len(grid)):
    mp, Pp = res["mp"][k-1], res["Pp"][k-1]
    H, b = lin(mp, grid[k])
    z = H @ mp + b
    S = H @ Pp @ H.T
    K = ref.solve(S, H @ Pp).T
    print(k, "z", ref.Fm(z), "S diag", ref.Fm(np.diag(S)), "max|K|", np.max(np.abs(ref.Fm(K))), "|f|", np.abs(ref.Fm(b)))
