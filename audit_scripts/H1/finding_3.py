"""Finding 3 (C02): `solver_mle(..., constraint_init=...)` returns an all-NaN output scale and all-NaN
covariances when the initial Taylor coefficients are exact (is_exact=True, the default) and damp = 0.

The initial-constraint update is then degenerate (S_0 = H P_0 H^T = 0, residual z_0 = 0).  The update
itself is computed with a least-squares solve and is fine (it leaves the state untouched; `solver` and
`solver_dynamic` handle the very same input without problems), but solver_mle.init additionally whitens
the residual with a *triangular* solve against the zero Cholesky factor, 0/0 = NaN, and this NaN is
carried through the running quasi-MLE mean into the final calibration.

Expected (limit damp -> 0+ of the library itself, and the textbook quasi-MLE): the initial residual
contributes 0 to the running mean of the whitened squared residuals, i.e.
    sigma^2 = N/(N+1) * sigma^2(without constraint_init)
and the means equal those of the uncalibrated solver.

Run:  cd /repo && PYTHONPATH=/repo /venv/bin/python hunt/finding_3.py
Exit code 1 <=> defect present.
"""

import sys

import jax

jax.config.update("jax_enable_x64", True)
import jax.numpy as jnp
import numpy as np

import probdiffeq

print("using", probdiffeq.__file__)
from probdiffeq import ivpsolve
from probdiffeq import probdiffeq as pdq


def vf(u, *, t):
    return jnp.stack([0.5 * u[0] - 0.7 * u[0] * u[1] + t, -0.3 * u[1] + 0.4 * u[0] * u[1] + 0.3 * t**2])


grid = jnp.array([0.0, 0.1, 0.25, 0.3, 0.5])
N = len(grid) - 1
u0 = jnp.array([1.0, 0.5])
tcoeffs = [u0, vf(u0, t=0.0), jnp.array([0.3, -0.2])]  # u'(0) = f(u0) exactly

defect = False
for name, fac in [
    ("dense", pdq.state_space_model_dense),
    ("isotropic", pdq.state_space_model_isotropic),
    ("blockdiag", pdq.state_space_model_blockdiag),
]:
    ssm = fac()
    prior = ssm.prior_wiener_integrated(tcoeffs)  # exact
    ts0 = ssm.constraint_ode_ts0(pdq.ode(vf))
    flt = pdq.strategy_filter()

    def run(solver, damp=0.0):
        return ivpsolve.solve_fixed_grid(solver=solver)(prior, grid=grid, damp=damp)

    kw = dict(strategy=flt, constraint=ts0, correct_asymptotic_underconfidence=False)
    sol = run(pdq.solver_mle(constraint_init=ts0, **kw))
    sol_noinit = run(pdq.solver_mle(**kw))
    sol_damped = run(pdq.solver_mle(constraint_init=ts0, **kw), damp=1e-150)
    sol_plain = run(pdq.solver(strategy=flt, constraint=ts0, constraint_init=ts0))
    expected_scale = np.sqrt(N / (N + 1)) * np.asarray(sol_noinit.output_scale)[-1]
    m, C = sol.u.to_multivariate_normal()
    print(f"--- {name}")
    print("   observed output scale            :", np.asarray(sol.output_scale)[-1])
    print("   expected sqrt(N/(N+1))*scale_noinit:", expected_scale)
    print("   library itself with damp=1e-150  :", np.asarray(sol_damped.output_scale)[-1])
    print("   observed std of u(t_end)         :", np.asarray(sol.u.std[0])[-1])
    print("   expected std of u(t_end)         :", expected_scale * np.asarray(sol_plain.u.std[0])[-1])
    print("   means finite:", bool(np.all(np.isfinite(np.asarray(m)))),
          "| covariances finite:", bool(np.all(np.isfinite(np.asarray(C)))))
    if not (np.all(np.isfinite(np.asarray(C))) and np.all(np.isfinite(np.asarray(sol.output_scale)))):
        defect = True

if defect:
    print("\nDEFECT PRESENT: solver_mle + constraint_init + exact initial condition gives NaN calibration.")
    sys.exit(1)
print("\nno defect")
sys.exit(0)
