import sys
sys.path.insert(0, "/repo/hunt")
from harness import *
import ref
rng = np.random.default_rng(0)
d=2; q=4; order=1
grid = np.array([0.0, 0.1, 0.25, 0.3, 0.5, 0.9])
tc = [jnp.asarray(rng.normal(size=d)) for _ in range(q+1)]
lam = jnp.asarray([0.7,1.9])
sol, prior, solver = run_lib("dense", order, q, grid, tc, mode="ts0", calib="dynamic", damp=0.0, init="exact", output_scale=lam)
m0 = np.concatenate([np.asarray(t) for t in tc]); P0 = np.zeros((10,10))
res = run_ref("dense", order, q, grid, m0, P0, mode="ts0", calib="dynamic", lam=np.asarray(lam))
m_lib, C_lib = sol.u.to_multivariate_normal()
np.set_printoptions(linewidth=200, precision=3)
for k in [1,5]:
    P = ref.Fm(res["P"][k])
    print("ref diag", np.diag(P)); print("lib diag", np.diag(C_lib[k]))
    print("absdiff max", np.abs(P-C_lib[k]).max())
