import sys
sys.path.insert(0, "/repo/hunt")
from harness import *
ode_a = pdq.ode_autonomous(lambda u: -u)
for fact in FACT:
    ssm = FACT[fact]()
    for name in ["constraint_ode_ts0", "constraint_ode_ts1"]:
        try:
            getattr(ssm, name)(ode_a); print(fact, name, "accepted")
        except Exception as e:
            print(fact, name, type(e).__name__, str(e)[:100])
