"""Finding 1 (C13): posterior samples of the ISOTROPIC state-space model are not affine images
of independent normal draws with the joint smoothing covariance as Gram matrix.

`IsotropicNormal.sample_flat` draws ONE standard-normal vector of shape (n,) and broadcasts
`cholesky @ base` over all d ODE dimensions.  The isotropic model's covariance is  C (x) I_d,
so every dimension needs its own draw.  Consequently all d components of a sample share the
same randomness (correlation +1 between dimensions instead of 0), and the linear map
draws -> sample has Gram matrix  C (x) 1 1^T  instead of  C (x) I_d.

Reference: a textbook covariance-form Kalman filter + RTS smoother in plain numpy for the 1-d
twice-integrated Wiener process with the zeroth-order (TS0) ODE observation u' = f(m); in the isotropic
model with TS0 the covariance recursion is data-independent and identical for each dimension.

Run:  cd /repo && PYTHONPATH=/repo /venv/bin/python hunt/finding_1.py
Exit code 1 <=> defect present.
"""

import sys
from math import factorial

import jax

jax.config.update("jax_enable_x64", True)
import jax.numpy as jnp
import numpy as np

import probdiffeq

print("using", probdiffeq.__file__)
from probdiffeq import ivpsolve
from probdiffeq import probdiffeq as pdq
from probdiffeq.backend import flow as bflow
from probdiffeq.backend import random as brandom

# ---------------------------------------------------------------- problem
d, q = 2, 2
n = q + 1
grid = np.array([0.0, 0.1, 0.25, 0.3, 0.5])
T = len(grid)
eps0 = 1e-2  # inexact initial condition: std of every Taylor coefficient


def vf(u, *, t):
    return jnp.stack([0.5 * u[0] - 0.7 * u[0] * u[1] + t, -0.3 * u[1] + 0.4 * u[0] * u[1]])


u0 = jnp.array([1.0, 0.5])
tcoeffs = [u0, vf(u0, t=0.0), jnp.array([0.3, -0.2])]

ssm = pdq.state_space_model_isotropic()
prior = ssm.prior_wiener_integrated(tcoeffs, is_exact=False, inexact_eps=eps0)
ts0 = ssm.constraint_ode_ts0(pdq.ode(vf))
solver = pdq.solver(strategy=pdq.strategy_smoother_fixedinterval(), constraint=ts0)
sol = ivpsolve.solve_fixed_grid(solver=solver)(prior, grid=jnp.asarray(grid))
posterior = sol.solution_full.posterior


# ---------------------------------------------------------------- expose the affine map
def py_scan(step, /, init, xs, *, reverse=False, length=None):
    N = jax.tree_util.tree_leaves(xs)[0].shape[0]
    order = range(N - 1, -1, -1) if reverse else range(N)
    carry, ys = init, [None] * N
    for i in order:
        carry, ys[i] = step(carry, jax.tree.map(lambda s: s[i], xs))
    return carry, jax.tree.map(lambda *a: jnp.stack(a), *ys)


class Recorder:
    def __init__(self):
        self.shapes, self.feed, self.pos = [], None, 0

    def normal(self, key, /, shape, dtype=None):
        size = int(np.prod(shape)) if len(shape) else 1
        if self.feed is None:
            self.shapes.append(tuple(shape))
            return jnp.zeros(shape)
        out = self.feed[self.pos : self.pos + size].reshape(shape)
        self.pos += size
        return jnp.asarray(out)


def flatten(smp):  # list over coefficients of (T, d) -> (T, n, d) -> flat
    return np.stack([np.asarray(s) for s in smp], axis=1).reshape(-1)


rec = Recorder()
old = brandom.normal, bflow.scan
brandom.normal, bflow.scan = rec.normal, py_scan
try:
    key = jax.random.PRNGKey(0)
    offset = flatten(posterior.sample(key))  # all draws zero
    M = sum(int(np.prod(s)) for s in rec.shapes)
    cols = []
    for j in range(M):
        rec.feed, rec.pos = np.eye(M)[j], 0
        cols.append(flatten(posterior.sample(key)) - offset)
    Lmap = np.stack(cols, axis=1)  # sample = offset + Lmap @ draws
finally:
    brandom.normal, bflow.scan = old
gram = Lmap @ Lmap.T


# ---------------------------------------------------------------- independent reference (1-d model)
def iwp(dt):
    A = np.zeros((n, n))
    Q = np.zeros((n, n))
    for i in range(n):
        for j in range(n):
            if j >= i:
                A[i, j] = dt ** (j - i) / factorial(j - i)
            e = 2 * q + 1 - i - j
            Q[i, j] = dt**e / (e * factorial(q - i) * factorial(q - j))
    return A, Q


H = np.zeros((1, n))
H[0, 1] = 1.0  # TS0 for a first-order ODE observes u'
P = np.eye(n) * eps0**2
Pf, Pp, As = [P], [], []
for dt in np.diff(grid):
    A, Q = iwp(dt)
    Ppred = A @ P @ A.T + Q
    S = H @ Ppred @ H.T
    K = Ppred @ H.T / S
    P = Ppred - K @ S @ K.T
    Pf.append(P), Pp.append(Ppred), As.append(A)
Ps, G = [None] * T, [None] * (T - 1)
Ps[-1] = Pf[-1]
for k in range(T - 2, -1, -1):
    G[k] = Pf[k] @ As[k].T @ np.linalg.inv(Pp[k])
    Ps[k] = Pf[k] + G[k] @ (Ps[k + 1] - Pp[k]) @ G[k].T
C1 = np.zeros((T * n, T * n))  # joint smoothing covariance of the 1-d model
for j in range(T):
    blk = Ps[j]
    C1[j * n : (j + 1) * n, j * n : (j + 1) * n] = blk
    for i in range(j - 1, -1, -1):
        blk = G[i] @ blk
        C1[i * n : (i + 1) * n, j * n : (j + 1) * n] = blk
        C1[j * n : (j + 1) * n, i * n : (i + 1) * n] = blk.T
expected = np.kron(C1, np.eye(d))  # ordering (time, coefficient, dimension)
sd = np.sqrt(np.abs(np.diag(expected)))
sd = np.maximum(sd, 1e-7 * sd.max())

# ---------------------------------------------------------------- report
mean_lib, _ = sol.u.to_multivariate_normal()
err_mean = np.max(np.abs(offset - np.asarray(mean_lib).reshape(-1)))
err_gram = np.max(np.abs(gram - expected) / np.outer(sd, sd))
err_gram_bcast = np.max(np.abs(gram - np.kron(C1, np.ones((d, d)))) / np.outer(sd, sd))
_, cov_lib = sol.u.to_multivariate_normal()
err_marg = max(
    np.max(np.abs(np.asarray(cov_lib[k]) - np.kron(Ps[k], np.eye(d))) / np.outer(sd[: n * d], sd[: n * d]))
    for k in range(T)
)

print("shapes of the standard-normal draws requested by posterior.sample():", rec.shapes)
print(f"number of scalar draws: {M};   dimension of the joint state (T*n*d): {T * n * d}")
print(f"zero draws reproduce the smoothing means:            max abs err = {err_mean:.2e}  (fine)")
print(f"library marginal covariances vs numpy RTS reference:  max rel err = {err_marg:.2e}  (fine)")
i0 = (2 * n + 0) * d  # time index 2, coefficient 0
print("Gram matrix block for u(t_2)  [rows/cols = ODE dimensions 0,1]:")
print("   observed:\n", gram[i0 : i0 + d, i0 : i0 + d])
print("   expected (C (x) I_d):\n", expected[i0 : i0 + d, i0 : i0 + d])
print(f"rank of the affine map: {np.linalg.matrix_rank(Lmap)}  expected: {np.linalg.matrix_rank(expected)}")
print(f"max scaled |Gram - C(x)I_d|   = {err_gram:.3e}   (expected ~1e-10)")
print(f"max scaled |Gram - C(x)11^T| = {err_gram_bcast:.3e}   (what the code implements)")

# statistical cross-check with genuine random draws
smp = posterior.sample(jax.random.PRNGKey(1), shape=(4000,))
x = np.asarray(smp[0])[:, 2, :]
print("empirical correlation between the two ODE dimensions of u(t_2) over 4000 samples:",
      np.corrcoef(x.T)[0, 1], "(expected ~0)")

if not (err_gram < 1e-6):
    print("DEFECT PRESENT: isotropic posterior samples are perfectly correlated across ODE dimensions.")
    sys.exit(1)
print("no defect")
sys.exit(0)
