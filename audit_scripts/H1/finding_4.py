"""Finding 4 (C12, minor / input validation): for the DENSE factorisation both marginal-likelihood
losses silently accept data whose shape does not match the state (e.g. a scalar datum for a
2-dimensional ODE) and return a finite number that is not the log-density of anything.

Only the shape of `std` is validated; the data array is raveled and broadcast against the mean
(`dx = u - self.mean_flat`) while the normalisation constant uses `u.size` of the *un-broadcast*
data.  The isotropic and block-diagonal models raise for the same input.

Expected: a ValueError (as for a wrongly shaped `std`), or at the very least the density of the
broadcast datum.  Observed: value = logpdf(broadcast datum) + (d - size(u))/2 * log(2 pi).

Run:  cd /repo && PYTHONPATH=/repo /venv/bin/python hunt/finding_4.py
Exit code 1 <=> defect present.
"""

import sys

import jax

jax.config.update("jax_enable_x64", True)
import jax.numpy as jnp
import numpy as np
from scipy.stats import multivariate_normal

import probdiffeq

print("using", probdiffeq.__file__)
from probdiffeq import ivpsolve
from probdiffeq import probdiffeq as pdq


def vf(u, *, t):
    return jnp.stack([0.5 * u[0] - 0.7 * u[0] * u[1] + t, -0.3 * u[1] + 0.4 * u[0] * u[1]])


grid = jnp.array([0.0, 0.1, 0.25, 0.3, 0.5, 0.9])
T, d = len(grid), 2
u0 = jnp.array([1.0, 0.5])
tcoeffs = [u0, vf(u0, t=0.0), jnp.array([0.3, -0.2])]
ssm = pdq.state_space_model_dense()
prior = ssm.prior_wiener_integrated(tcoeffs)
ts0 = ssm.constraint_ode_ts0(pdq.ode(vf))
solver = pdq.solver(strategy=pdq.strategy_smoother_fixedinterval(), constraint=ts0)
sol = ivpsolve.solve_fixed_grid(solver=solver)(prior, grid=grid)

defect = False

# terminal-value loss with a SCALAR datum for a 2-d state
marg = jax.tree.map(lambda s: s[-1], sol.u)
std = jnp.array([0.3, 0.7])
datum = jnp.asarray(1.234)  # shape (), state has shape (2,)
try:
    val = float(pdq.loss_lml_terminal_values()(datum, marginals=marg, std=std))
    m, C = marg.to_multivariate_normal()
    m, C = np.asarray(m)[:d], np.asarray(C)[:d, :d] + np.diag(np.asarray(std) ** 2)
    bro = float(multivariate_normal(m, C).logpdf(np.full(d, float(datum))))
    print(f"terminal loss, datum shape () for a state of shape ({d},): ACCEPTED, returned {val:.12f}")
    print(f"   log-density of the broadcast datum [y, y]           : {bro:.12f}")
    print(f"   difference {val - bro:.12f}  ==  0.5*log(2 pi) = {0.5 * np.log(2 * np.pi):.12f}")
    print("   expected: ValueError (malformed data)")
    defect = True
except (ValueError, TypeError) as e:
    print("terminal loss raises", type(e).__name__)

# time-series loss with data of shape (T,) for a 2-d state
data = jnp.linspace(1.0, 2.0, T)  # shape (T,), expected (T, 2)
std_ts = jnp.ones((T, d)) * 0.5
try:
    val = float(pdq.loss_lml_timeseries()(data, posterior=sol.solution_full.posterior, std=std_ts))
    print(f"time-series loss, data shape ({T},) instead of ({T}, {d}): ACCEPTED, returned {val:.12f}")
    print("   expected: ValueError (malformed data)")
    defect = True
except (ValueError, TypeError) as e:
    print("time-series loss raises", type(e).__name__)

for name, fac in [("isotropic", pdq.state_space_model_isotropic), ("blockdiag", pdq.state_space_model_blockdiag)]:
    ssm2 = fac()
    prior2 = ssm2.prior_wiener_integrated(tcoeffs)
    solver2 = pdq.solver(strategy=pdq.strategy_smoother_fixedinterval(), constraint=ssm2.constraint_ode_ts0(pdq.ode(vf)))
    sol2 = ivpsolve.solve_fixed_grid(solver=solver2)(prior2, grid=grid)
    std2 = jnp.asarray(0.3) if name == "isotropic" else std
    try:
        pdq.loss_lml_terminal_values()(datum, marginals=jax.tree.map(lambda s: s[-1], sol2.u), std=std2)
        print(f"({name}: accepted as well)")
    except Exception as e:
        print(f"(for comparison, {name} raises {type(e).__name__} for the same malformed datum)")

if defect:
    print("\nDEFECT PRESENT: dense LML losses silently accept wrongly shaped data.")
    sys.exit(1)
print("\nno defect")
sys.exit(0)
