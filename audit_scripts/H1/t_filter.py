import sys, itertools
sys.path.insert(0, "/repo/hunt")
from harness import *
import ref

rng = np.random.default_rng(0)
d = 2

def compare(sol, res, scale2=None, label=""):
    m_lib, C_lib = sol.u.to_multivariate_normal()
    m_lib, C_lib = np.asarray(m_lib), np.asarray(C_lib)
    worst_m, worst_c = 0.0, 0.0
    for k in range(len(res["m"])):
        m = ref.Fm(res["m"][k]); P = res["P"][k]
        if scale2 is not None:
            if isinstance(scale2, np.ndarray):
                n = P.shape[0]//d
                sc = np.array([scale2[i % d].sqrt() for i in range(n*d)], dtype=object)
                P = sc[:, None]*P*sc[None, :]
            else:
                P = P*scale2
        P = ref.Fm(P)
        sd = np.sqrt(np.abs(np.diag(P)))
        em = np.abs(m_lib[k]-m)/(np.abs(m)+sd+1e-300)
        den = np.outer(sd, sd)
        ec = np.abs(C_lib[k]-P)/np.where(den>0, den, 1.0)
        ec = np.where(den>0, ec, np.abs(C_lib[k]-P))
        worst_m = max(worst_m, em.max()); worst_c = max(worst_c, ec.max())
    return worst_m, worst_c

grid = np.array([0.0, 0.1, 0.25, 0.3, 0.5, 0.9])
cnt=0
for fact, order, q, mode, calib, damp, init in itertools.product(
    ["dense", "iso", "blockdiag"], [1, 2], [2, 4], ["ts0", "ts1"], ["none", "mle", "dynamic"], [0.0, 0.05], ["exact", "inexact"]):
    if q < order: continue
    tc = [jnp.asarray(rng.normal(size=d)) for _ in range(q+1)]
    lam = {"dense": jnp.asarray([0.7, 1.9]), "iso": jnp.asarray(1.3), "blockdiag": jnp.asarray([0.7, 1.9])}[fact]
    try:
        sol, prior, solver = run_lib(fact, order, q, grid, tc, mode=mode, calib=calib, damp=damp, init=init, output_scale=lam)
    except Exception as e:
        print("LIBFAIL", fact, order, q, mode, calib, damp, init, type(e).__name__, str(e)[:200]); continue
    m0 = np.concatenate([np.asarray(t) for t in tc])
    P0 = np.zeros((len(m0), len(m0))) if init=="exact" else np.eye(len(m0))*1e-6
    res = run_ref(fact, order, q, grid, m0, P0, mode=mode, calib=calib, damp=damp, lam=np.asarray(lam))
    s2 = res.get("sigma2") if calib=="mle" else None
    wm, wc = compare(sol, res, s2)
    # output scale
    os_err = 0.0
    if calib == "mle":
        osl = np.asarray(sol.output_scale)[-1]
        osr = np.array([float(x.sqrt()) for x in np.atleast_1d(s2)])
        os_err = np.max(np.abs(osl-osr)/osr)
    if calib == "dynamic":
        osl = np.asarray(sol.output_scale)[1:]
        osr = np.array([[float(x.sqrt()) for x in np.atleast_1d(s)] for s in res["sig_dyn"]]).reshape(osl.shape)
        os_err = np.max(np.abs(osl-osr)/osr)
    flag = "  <<<<<" if max(wm, wc, os_err) > 1e-7 or not np.isfinite(wm+wc+os_err) else ""
    cnt+=1
    print(f"{fact:9s} ord{order} q{q} {mode} {calib:7s} damp{damp} {init:7s} mean {wm:.1e} cov {wc:.1e} scale {os_err:.1e}{flag}")
print(cnt)
