import sys, itertools
sys.path.insert(0, "/repo/hunt")
from harness import *
import ref, cmp, f64
rng = np.random.default_rng(15)
d = 2
def errs(ms, Ps, rm, rP):
    wm = wc = 0
    for k in range(len(rm)):
        m = ref.Fm(rm[k]); P = ref.Fm(rP[k]); sd = np.sqrt(np.abs(np.diag(P))); s = np.maximum(sd, 1e-8*sd.max())
        wm = max(wm, np.max(np.abs(ms[k]-m)/(np.abs(m)+s))); wc = max(wc, np.max(np.abs(Ps[k]-P)/np.outer(s,s)))
    return wm, wc
for q, h, eps in itertools.product([5, 6], [0.03, 0.003], [1e-3, 1e-6]):
  for fact, mode, order in [("dense","ts0",2), ("dense", "ts1", 1)]:
    grid = np.cumsum(np.concatenate([[0.0], h*np.array([1.0, 0.5, 0.8, 1.0, 0.3, 0.9])]))
    tc = [jnp.asarray(rng.normal(size=d)) for _ in range(q+1)]
    m0 = np.concatenate([np.asarray(t) for t in tc]); n = len(m0); P0 = np.eye(n)*eps**2
    res = run_ref(fact, order, q, grid, m0, P0, mode=mode, calib="none", autonomous="lin")
    sm, sP, G = ref.rts(res)
    _, fref, jref = make_problem(order, "lin")
    linD = ref.Lin(fref, order, q, d, "ts0" if mode=="ts0" else "ts1", fact, jref)
    def linf(mp, t):
        H, b = linD(ref.Dm(mp), t); return ref.Fm(H), ref.Fm(b)
    # library
    for strat in ["filter", "fixedinterval"]:
        sol, _, _ = run_lib(fact, order, q, grid, tc, mode=mode, calib="none", init="inexact", inexact_eps=eps, strategy=strat, autonomous="lin")
        ml, Cl = sol.u.to_multivariate_normal()
        if strat == "filter": e_lib_f = errs(np.asarray(ml), np.asarray(Cl), res["m"], res["P"])
        else: e_lib_s = errs(np.asarray(ml), np.asarray(Cl), sm, sP)
    oc = f64.kf_cov(m0, P0, grid, linf, q, d, np.ones(d)); e_cov_f = errs(oc["m"], oc["P"], res["m"], res["P"])
    scm, scP = f64.rts_cov(oc); e_cov_s = errs(scm, scP, sm, sP)
    ms, Ls, bw = f64.kf_sqrt(m0, np.eye(n)*eps, grid, linf, q, d, np.ones(d)); e_sq_f = errs(ms, [L@L.T for L in Ls], res["m"], res["P"])
    ssm_, ssL = f64.rts_sqrt(ms, Ls, bw); e_sq_s = errs(ssm_, [L@L.T for L in ssL], sm, sP)
    fmt = lambda e: f"({e[0]:.0e},{e[1]:.0e})"
    print(f"q{q} h{h} eps{eps} {mode} ord{order} | filter: lib {fmt(e_lib_f)} covform {fmt(e_cov_f)} sqrt {fmt(e_sq_f)} | smoother: lib {fmt(e_lib_s)} covform {fmt(e_cov_s)} sqrt {fmt(e_sq_s)}", flush=True)
