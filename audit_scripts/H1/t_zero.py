import sys, itertools
sys.path.insert(0, "/repo/hunt")
from harness import *
grid = jnp.linspace(0., 1., 6)
jac = pdq.jacobian_materialize()
def f(u, *, t): return u*(1-u)
ode = pdq.ode(f, jacobian=jac)
for u0 in [jnp.array([0.0, 0.0]), jnp.array([1.0, 1.0]), jnp.array([0.0, 0.5])]:
  for fact, calib, mode, strat in itertools.product(["dense","iso","blockdiag"], ["none","mle","dynamic"], ["ts0","ts1"], ["filter", "fixedinterval"]):
    ssm = FACT[fact]()
    tc = [u0, f(u0, t=0.), jnp.zeros(2)]  # for equilibrium: exact Taylor coefficients are zeros
    prior = ssm.prior_wiener_integrated(tc)
    con = ssm.constraint_ode_ts0(ode) if mode=="ts0" else ssm.constraint_ode_ts1(ode)
    st = pdq.strategy_filter() if strat=="filter" else pdq.strategy_smoother_fixedinterval()
    S = {"none": pdq.solver, "mle": pdq.solver_mle, "dynamic": pdq.solver_dynamic}[calib]
    sol = ivpsolve.solve_fixed_grid(solver=S(strategy=st, constraint=con))(prior, grid=grid)
    m, C = sol.u.to_multivariate_normal()
    bad = bool(jnp.any(jnp.isnan(m)) | jnp.any(jnp.isnan(C)))
    print(np.asarray(u0), fact, calib, mode, strat, "NaN" if bad else "ok", "scale", np.asarray(sol.output_scale)[-1], "u(T)", np.asarray(sol.u.mean[0][-1]), "std", np.asarray(sol.u.std[0][-1]))
