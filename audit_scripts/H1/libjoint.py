import jax, jax.numpy as jnp, numpy as np

def dense_cond(cond, fact, d):
    """Return list of (G, xi, Sigma) dense numpy arrays (standard ordering i*d+k) for stacked conditionals."""
    c = jax.vmap(lambda c: c.preconditioner_apply())(cond)
    A = np.asarray(c.A); mean = np.asarray(c.noise.mean_flat); chol = np.asarray(c.noise.cholesky_flat)
    out = []
    N = A.shape[0]
    for k in range(N):
        if fact == "dense":
            G = A[k]; xi = mean[k]; Sig = chol[k] @ chol[k].T
        elif fact == "iso":
            G = np.kron(A[k], np.eye(d)); xi = mean[k].reshape(-1); Sig = np.kron(chol[k] @ chol[k].T, np.eye(d))
        else:
            n = A.shape[-1]
            G = np.zeros((n*d, n*d)); Sig = np.zeros((n*d, n*d)); xi = np.zeros(n*d)
            for j in range(d):
                idx = np.arange(n)*d + j
                G[np.ix_(idx, idx)] = A[k, j]
                Sig[np.ix_(idx, idx)] = chol[k, j] @ chol[k, j].T
                xi[idx] = mean[k, j]
        out.append((G, xi, Sig))
    return out

def lib_joint(posterior, fact, d):
    """Joint mean and covariance over all times from terminal marginal + backward conditionals."""
    assert posterior.reverse
    marg = posterior.marginal
    mT, CT = marg.to_multivariate_normal()
    mT = np.asarray(mT); CT = np.asarray(CT)
    if mT.ndim == 2:  # stacked marginals (filtering distributions not removed)
        mT, CT = mT[-1], CT[-1]
    conds = dense_cond(posterior.conditional, fact, d)
    N = len(conds); n = mT.shape[0]
    means = [None]*(N+1); covs = [None]*(N+1)
    means[N] = mT; covs[N] = CT
    for k in range(N-1, -1, -1):
        G, xi, Sig = conds[k]
        means[k] = G @ means[k+1] + xi
        covs[k] = G @ covs[k+1] @ G.T + Sig
    C = np.zeros(((N+1)*n, (N+1)*n))
    for j in range(N+1):
        blk = covs[j]
        C[j*n:(j+1)*n, j*n:(j+1)*n] = blk
        for i in range(j-1, -1, -1):
            blk = conds[i][0] @ blk
            C[i*n:(i+1)*n, j*n:(j+1)*n] = blk
            C[j*n:(j+1)*n, i*n:(i+1)*n] = blk.T
    return np.concatenate(means), C, means, covs
