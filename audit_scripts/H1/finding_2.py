"""Finding 2 (C02): `solver_dynamic` returns NaN means/covariances whenever the ODE residual at the
predicted mean is exactly zero in a calibrated block (initial value at an equilibrium, e.g. u0 = 0,
with exact initial conditions and damp = 0).

The dynamically calibrated scale is then sigma_n = 0, the predicted covariance is exactly 0 and the
correction computes the gain with a triangular solve against R_Y = 0  ->  0/0 = NaN.
The exact Gaussian posterior of the linearised model is perfectly well defined here: a Dirac at the
predicted mean (mean = prediction, covariance = 0, output scale = 0).  `solver` and `solver_mle`
return exactly that for the same inputs.

For the block-diagonal model ONE stationary component is enough (the calibration is per dimension)
and the NaN then contaminates all components through the vector-field evaluation.

Run:  cd /repo && PYTHONPATH=/repo /venv/bin/python hunt/finding_2.py
Exit code 1 <=> defect present.
"""

import sys

import jax

jax.config.update("jax_enable_x64", True)
import jax.numpy as jnp
import numpy as np

import probdiffeq

print("using", probdiffeq.__file__)
from probdiffeq import ivpsolve
from probdiffeq import probdiffeq as pdq

grid = jnp.linspace(0.0, 1.0, 6)
defect = False


def solve(ssm, vf, tcoeffs, solver_factory, **kw):
    prior = ssm.prior_wiener_integrated(tcoeffs)  # exact initial condition
    ts0 = ssm.constraint_ode_ts0(pdq.ode(vf))
    solver = solver_factory(strategy=pdq.strategy_filter(), constraint=ts0, **kw)
    return ivpsolve.solve_fixed_grid(solver=solver)(prior, grid=grid)


# ------------------------------------------------------------------ case A: scalar logistic ODE at u0 = 0
print("=== case A: logistic ODE u' = u(1-u), u0 = 0 (equilibrium), dense model, IWP(2), TS0 ===")


def logistic(u, *, t):
    return u * (1 - u)


u0 = jnp.array([0.0])
tc = [u0, logistic(u0, t=0.0), jnp.array([0.0])]  # exact Taylor coefficients (all zero)
for name, fac in [("solver", pdq.solver), ("solver_mle", pdq.solver_mle), ("solver_dynamic", pdq.solver_dynamic)]:
    sol = solve(pdq.state_space_model_dense(), logistic, tc, fac)
    m, C = sol.u.to_multivariate_normal()
    print(f"{name:15s} mean(t_end) = {np.asarray(m[-1])}  var(t_end) = {np.diag(np.asarray(C[-1]))}"
          f"  output_scale(t_end) = {np.asarray(sol.output_scale)[-1]}")
    if name == "solver_dynamic":
        print("   expected (exact posterior of the linearised model): mean = [0 0 0], var = [0 0 0], output_scale = 0")
        if not (np.all(np.isfinite(np.asarray(m))) and np.all(np.isfinite(np.asarray(C)))):
            defect = True

# ------------------------------------------------------------------ case B: one stationary component, block-diagonal model
print()
print("=== case B: Lotka-Volterra with extinct predator, u0 = [1, 0], block-diagonal model ===")


def lv(u, *, t):
    return jnp.stack([0.5 * u[0] * (1 - u[1]), -0.3 * u[1] * (1 - u[0])])


u0 = jnp.array([1.0, 0.0])
du0 = lv(u0, t=0.0)
ddu0 = jax.jvp(lambda x: lv(x, t=0.0), (u0,), (du0,))[1]
tc = [u0, du0, ddu0]  # exact Taylor coefficients: [1, 0], [0.5, 0], [0.25, 0]
sol = solve(pdq.state_space_model_blockdiag(), lv, tc, pdq.solver_dynamic)
m, C = sol.u.to_multivariate_normal()


# second code path that must agree: with y == 0 the prey equation decouples into x' = 0.5 x
def prey(u, *, t):
    return 0.5 * u


sol1 = solve(pdq.state_space_model_blockdiag(), prey, [c[:1] for c in tc], pdq.solver_dynamic)
m1, C1 = sol1.u.to_multivariate_normal()
print("observed  prey  mean u_0(t):", np.asarray(sol.u.mean[0])[:, 0])
print("expected  prey  mean u_0(t):", np.asarray(sol1.u.mean[0])[:, 0], "(decoupled scalar problem x' = 0.5 x)")
print("observed  predator mean u_1(t):", np.asarray(sol.u.mean[0])[:, 1])
print("expected  predator mean u_1(t): [0. 0. 0. 0. 0. 0.]  with zero variance")
print("observed  output scales:\n", np.asarray(sol.output_scale))
print("expected  output scales: column 0 =", np.asarray(sol1.output_scale)[:, 0], ", column 1 = 0 (after t0)")
if not (np.all(np.isfinite(np.asarray(m))) and np.all(np.isfinite(np.asarray(C)))):
    defect = True

if defect:
    print("\nDEFECT PRESENT: solver_dynamic produces NaN for zero ODE residuals (sigma = 0 -> 0/0 in the gain).")
    sys.exit(1)
print("\nno defect")
sys.exit(0)
