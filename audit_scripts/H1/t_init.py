import sys, itertools
sys.path.insert(0, "/repo/hunt")
from harness import *
import ref, cmp
rng = np.random.default_rng(2)
d = 2
grid = np.array([0.0, 0.1, 0.25, 0.3, 0.5, 0.9])
for fact, order, qd, mode, calib, damp, eps, mc in itertools.product(["dense","iso","blockdiag"], [1,2], [1,3], ["ts0","ts1"], ["none","mle","dynamic"], [0.0, 0.1], [1.0, 30.0], [False, True]):
    if mc and calib != "mle": continue
    tc = [jnp.asarray(rng.normal(size=d)) for _ in range(order)]
    q = order - 1 + qd
    try:
        sol, prior, solver = run_lib(fact, order, q, grid, tc, mode=mode, calib=calib, damp=damp, use_init_constraint=True, diffuse=qd, diffuse_eps=eps, mle_correct=mc)
    except Exception as e:
        print("LIBFAIL", fact, order, qd, mode, calib, damp, type(e).__name__, str(e)[:300]); continue
    m0 = np.concatenate([np.asarray(t) for t in tc] + [np.zeros(d)]*qd)
    P0 = np.diag(np.concatenate([np.zeros(d*order), np.ones(d*qd)*eps**2]))
    res = run_ref(fact, order, q, grid, m0, P0, mode=mode, calib=calib, damp=damp, use_init_constraint=True)
    s2 = res.get("sigma2")
    if mc: s2 = s2 / (len(grid)-1)
    wm, wc = cmp.compare_filter(sol, res, s2)
    flag = "  <<<<<" if not (max(wm, wc) < 1e-7) else ""
    print(f"{fact:9s} ord{order} qd{qd} {mode} {calib:7s} damp{damp} eps{eps} mc{mc} mean {wm:.1e} cov {wc:.1e}{flag}", flush=True)
