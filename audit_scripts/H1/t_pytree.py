import sys, itertools
sys.path.insert(0, "/repo/hunt")
from harness import *
rng = np.random.default_rng(3)
grid = jnp.array([0.0, 0.1, 0.25, 0.3, 0.5, 0.9])
def f_flat(x, *, t):
    return jnp.stack([0.5*x[0]-0.7*x[0]*x[1]+t, -0.3*x[1]+0.4*x[0]*x[2], 0.1*x[2]*x[0] - 0.2*t])
def f_tree(u, *, t):
    x = jnp.concatenate([u["a"], u["b"][0]])
    y = f_flat(x, t=t)
    return {"a": y[:2], "b": y[2:].reshape(1,1)}
jac = pdq.jacobian_materialize()
for fact, mode, calib, strat in itertools.product(["dense","iso","blockdiag"], ["ts0","ts1"], ["none","mle","dynamic"], ["filter","fixedinterval"]):
    q = 3
    flat = [jnp.asarray(rng.normal(size=3)) for _ in range(q+1)]
    tr = [{"a": x[:2], "b": x[2:].reshape(1,1)} for x in flat]
    outs = []
    for tc, f in [(flat, f_flat), (tr, f_tree)]:
        ssm = FACT[fact]()
        ode = pdq.ode(f, jacobian=jac)
        prior = ssm.prior_wiener_integrated(tc, is_exact=False, inexact_eps=1e-2)
        con = ssm.constraint_ode_ts0(ode) if mode=="ts0" else ssm.constraint_ode_ts1(ode)
        st = pdq.strategy_filter() if strat=="filter" else pdq.strategy_smoother_fixedinterval()
        S = {"none": pdq.solver, "mle": pdq.solver_mle, "dynamic": pdq.solver_dynamic}[calib]
        try:
            sol = ivpsolve.solve_fixed_grid(solver=S(strategy=st, constraint=con))(prior, grid=grid)
            outs.append(sol)
        except Exception as e:
            print("FAIL", fact, mode, calib, strat, type(e).__name__, str(e)[:300]); outs=None; break
    if outs is None: continue
    a, b = outs
    ma, Ca = a.u.to_multivariate_normal(); mb, Cb = b.u.to_multivariate_normal()
    e1 = float(jnp.max(jnp.abs(ma-mb))); e2 = float(jnp.max(jnp.abs(Ca-Cb)/(jnp.abs(Ca)+1e-300)))
    # mean/std tree
    mt = b.u.mean[0]; st_ = b.u.std[0]
    e3 = float(jnp.max(jnp.abs(jnp.concatenate([mt["a"], mt["b"].reshape(-1,1)], axis=1) - a.u.mean[0])))
    sa = a.u.std[0]
    if fact == "iso":
        e4 = float(jnp.max(jnp.abs(st_ - sa)))
    else:
        e4 = float(jnp.max(jnp.abs(jnp.concatenate([st_["a"], st_["b"].reshape(-1,1)], axis=1) - sa)))
    print(fact, mode, calib, strat, e1, e2, e3, e4, "<<<<" if max(e1,e2,e3,e4)>1e-9 else "")
