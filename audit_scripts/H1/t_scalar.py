import sys, itertools
sys.path.insert(0, "/repo/hunt")
from harness import *
grid = jnp.array([0.0, 0.1, 0.25, 0.3, 0.5])
T = len(grid)
jac = pdq.jacobian_materialize()
def f0(u, *, t): return u*(1-u) + 0.1*t
res = {}
for shape in [(), (1,)]:
  for fact, calib in itertools.product(["dense","iso","blockdiag"], ["none", "mle", "dynamic"]):
    try:
        ssm = FACT[fact]()
        u0 = jnp.full(shape, 0.3)
        tc = [u0, f0(u0, t=0.0), jnp.full(shape, 0.05)]
        prior = ssm.prior_wiener_integrated(tc, is_exact=False, inexact_eps=1e-2)
        con = ssm.constraint_ode_ts1(pdq.ode(f0, jacobian=jac))
        S = {"none": pdq.solver, "mle": pdq.solver_mle, "dynamic": pdq.solver_dynamic}[calib]
        sol = ivpsolve.solve_fixed_grid(solver=S(strategy=pdq.strategy_smoother_fixedinterval(), constraint=con))(prior, grid=grid)
        m, C = sol.u.to_multivariate_normal()
        smp = sol.solution_full.posterior.sample(jax.random.PRNGKey(0), shape=(3,))
        data = sol.u.mean[0] + 0.01
        std = jnp.ones((T,)) if fact == "iso" else jnp.ones((T,)+shape)
        l = pdq.loss_lml_timeseries()(data, posterior=sol.solution_full.posterior, std=std*0.1)
        lt = pdq.loss_lml_terminal_values()(data[-1], marginals=jax.tree.map(lambda s: s[-1], sol.u), std=(std*0.1)[-1])
        res[(shape, fact, calib)] = (np.asarray(m), np.asarray(C), float(l), float(lt))
        print(shape, fact, calib, "ok", smp[0].shape, sol.u.mean[0].shape, jax.tree.map(jnp.shape, sol.u.std[0]), float(l), float(lt))
    except Exception as e:
        import traceback
        print(shape, fact, calib, "EXC", type(e).__name__, str(e)[:300])
for fact, calib in itertools.product(["dense","iso","blockdiag"], ["none", "mle", "dynamic"]):
    a = res.get(((), fact, calib)); b = res.get(((1,), fact, calib)); c = res.get(((1,), "dense", calib))
    if a and b:
        print(fact, calib, "() vs (1,)", np.max(np.abs(a[0]-b[0])), np.max(np.abs(a[1]-b[1])), abs(a[2]-b[2]), abs(a[3]-b[3]), " vs dense", np.max(np.abs(b[0]-c[0])), np.max(np.abs(b[1]-c[1])/np.abs(c[1]).max()), abs(b[2]-c[2]), abs(b[3]-c[3]))
