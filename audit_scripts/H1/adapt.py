"""Adaptive solver loops with *prescribed* step sizes (always-accept error, scripted controller)."""
import jax, jax.numpy as jnp, numpy as np
from probdiffeq import ivpsolve
from probdiffeq.util import test_util

class ScriptedControl(ivpsolve.Control):
    def __init__(self, dts):
        self.dts = jnp.asarray(dts)
    def init(self, dt, /):
        return jnp.asarray(0)
    def apply(self, dt, state, /, *, error_power):
        nxt = state + 1
        return self.dts[jnp.minimum(nxt, len(self.dts) - 1)], nxt

class AcceptAll:
    def init_error(self):
        return ()
    def estimate_error_norm(self, state, previous, proposed, *, dt, atol, rtol, damp):
        return jnp.asarray(2.0), state

def simulate_save_at(save_at, dts, clip, eps=1e-8):
    t = float(save_at[0]); i = 0; steps = []
    for tn in save_at[1:]:
        tn = float(tn)
        while t + eps < tn:
            dt = float(dts[min(i, len(dts)-1)])
            if clip: dt = min(dt, tn - t)
            t = t + dt; i += 1; steps.append(t)
    return steps

def nodes_from(save_at, steps, eps=1e-8):
    """Union of save points and step ends; a save point within eps of a step end is that step end."""
    nodes = [(float(save_at[0]), False, True)]
    allp = [(s, True, False) for s in steps]
    for t in save_at[1:]:
        t = float(t)
        hit = [j for j, (s, _, _) in enumerate(allp) if abs(s - t) <= eps]
        if hit:
            s, o, _ = allp[hit[0]]; allp[hit[0]] = (s, True, True)
        else:
            allp.append((t, False, True))
    allp.sort(key=lambda x: x[0])
    nodes += allp
    times = [n[0] for n in nodes]; observe = [n[1] for n in nodes]; saved = [n[2] for n in nodes]
    return times, observe, saved

def solve_save_at(solver, prior, save_at, dts, clip, damp=0.0, jit=True):
    solve = ivpsolve.solve_adaptive_save_at(solver=solver, error=AcceptAll(), control=ScriptedControl(dts), clip_dt=clip, warn=False)
    if jit: solve = jax.jit(solve, static_argnames=())
    return solve(prior, save_at=jnp.asarray(save_at), atol=1e-3, rtol=1e-3, dt0=float(dts[0]), damp=damp)

def solve_every_step(solver, prior, t0, t1, dts, clip, damp=0.0):
    solve = test_util.solve_adaptive_save_every_step(solver=solver, error=AcceptAll(), control=ScriptedControl(dts), clip_dt=clip)
    return solve(prior, t0=t0, t1=t1, atol=1e-3, rtol=1e-3, dt0=float(dts[0]), damp=damp)
