import sys, itertools
sys.path.insert(0, "/repo/hunt")
from harness import *
import ref, cmp
from math import factorial
rng = np.random.default_rng(12)
d = 2
jac = pdq.jacobian_materialize()
def expo_AQ_dec(F, B, dt, terms=40):
    F = ref.Dm(F); BB = ref.Dm(B@B.T); dt = ref.D(dt); n = F.shape[0]
    pows = [ref.eye(n)]
    for k in range(1, terms): pows.append(pows[-1] @ F)
    A = ref.zeros(n, n)
    for k in range(terms): A = A + pows[k] * (dt**k / factorial(k))
    Q = ref.zeros(n, n)
    left = [p @ BB for p in pows]
    for j in range(terms):
        for k in range(terms):
            if j + k > terms: continue
            Q = Q + (left[j] @ pows[k].T) * (dt**(j+k+1) / (factorial(j)*factorial(k)*(j+k+1)))
    return A, Q
for q, kind, mode, calib, h, init in itertools.product([4, 6], ["general","ou", "matern"], ["ts0","ts1"], ["none","dynamic"], [0.05, 0.005], ["exact"]):
    n = (q+1)*d
    tc = [jnp.asarray(rng.normal(size=d)) for _ in range(q+1)]
    lam = jnp.asarray([0.7, 1.9])
    ssm = pdq.state_space_model_dense()
    kw = dict(is_exact=(init=="exact"), inexact_eps=1e-3, output_scale=lam)
    if kind == "general":
        Ws = [rng.normal(size=(d,d))*0.5 for _ in range(q+1)]
        def lin_f(*args):
            return sum(jnp.asarray(W)@a for W,a in zip(Ws,args))
        pode = pdq.ode_autonomous_order_arbitrary(lin_f, num_tcoeffs_in_args=q+1, jacobian=jac)
        prior = ssm.prior_exponential(pode, tc, **kw)
        bottom = np.concatenate(Ws, axis=1)
    elif kind == "ou":
        W = rng.normal(size=(d,d))
        prior = ssm.prior_ornstein_uhlenbeck_integrated(lambda x: jnp.asarray(W)@x, tc, **kw)
        bottom = np.concatenate([np.zeros((d,d))]*q + [W], axis=1)
    else:
        ell = 0.7
        prior = ssm.prior_matern(ell, tc, **kw)
        from math import comb
        D_ = q+1; z = np.sqrt(2*(D_-0.5))/ell
        bottom = np.concatenate([-comb(D_, i)*z**(D_-i)*np.eye(d) for i in range(D_)], axis=1)
    F = np.kron(np.diag(np.ones(q), k=1), np.eye(d)); F[-d:, :] = bottom
    B = np.zeros((n, d)); B[-d:, :] = np.diag(np.asarray(lam))
    grid = np.cumsum(np.concatenate([[0.3], h*np.array([1.0, 0.5, 0.8, 1.3])]))
    ode, fref, jref = make_problem(1)
    con = ssm.constraint_ode_ts0(ode) if mode=="ts0" else ssm.constraint_ode_ts1(ode)
    S = {"none": pdq.solver, "dynamic": pdq.solver_dynamic}[calib]
    for strat in ["filter", "fixedinterval"]:
        st = pdq.strategy_filter() if strat=="filter" else pdq.strategy_smoother_fixedinterval()
        sol = jax.jit(ivpsolve.solve_fixed_grid(solver=S(strategy=st, constraint=con)))(prior, grid=jnp.asarray(grid))
        lin = ref.Lin(fref, 1, q, d, mode, "dense", jref)
        trans = lambda dt: expo_AQ_dec(F, B, dt)
        m0 = np.concatenate([np.asarray(t) for t in tc]); P0 = np.zeros((n,n))
        res = ref.ekf(m0, P0, grid, lin, trans, calib=calib, d=d)
        ml, Cl = sol.u.to_multivariate_normal()
        nat = [res["P"][0]]+list(res["Pp"])
        if strat == "filter":
            wm, wc = cmp.compare_seq(ml, Cl, res["m"], res["P"], None, d, nat)
        else:
            sm, sP, G = ref.rts(res)
            wm, wc = cmp.compare_seq(ml, Cl, sm, sP, None, d, nat)
        flag = "  <<<<<" if not (max(wm, wc) < 1e-6) else ""
        print(f"q{q} {kind:8s} {mode} {calib:7s} h{h} {init:7s} {strat:13s} mean {wm:.1e} cov {wc:.1e}{flag}", flush=True)
