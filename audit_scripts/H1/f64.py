"""Plain float64 numpy implementations: covariance-form KF/RTS and unpreconditioned square-root KF/RTS."""
import numpy as np
from math import factorial

def iwp_AQ(q, d, dt, lam):
    n = q+1
    A1 = np.zeros((n,n)); Q1 = np.zeros((n,n))
    for i in range(n):
        for j in range(n):
            if j >= i: A1[i,j] = dt**(j-i)/factorial(j-i)
            e = 2*q+1-i-j
            Q1[i,j] = dt**e/(e*factorial(q-i)*factorial(q-j))
    return np.kron(A1, np.eye(d)), np.kron(Q1, np.diag(np.asarray(lam, float)**2))

def iwp_A_sqrtQ(q, d, dt, lam):
    """A and a left square root of Q computed stably: Q1 = P H P with H Hilbert-like; chol(H) is dt-free."""
    n = q+1
    A1 = np.zeros((n,n)); Hm = np.zeros((n,n)); p = np.zeros(n)
    for i in range(n):
        p[i] = dt**(q-i+0.5)/factorial(q-i)
        for j in range(n):
            if j >= i: A1[i,j] = dt**(j-i)/factorial(j-i)
            Hm[i,j] = 1.0/(2*q+1-i-j)
    # cholesky of Hm reversed ordering for accuracy
    L = np.linalg.cholesky(Hm[::-1, ::-1])[::-1, ::-1]  # Hm = L L^T with L upper-anti... still a valid sqrt
    S1 = p[:, None]*L
    return np.kron(A1, np.eye(d)), np.kron(S1, np.diag(np.asarray(lam, float)))

def kf_cov(m0, P0, grid, linf, q, d, lam, damp=0.0):
    m, P = m0.copy(), P0.copy()
    out = dict(m=[m], P=[P], mp=[], Pp=[], A=[])
    for t0, t1 in zip(grid[:-1], grid[1:]):
        A, Q = iwp_AQ(q, d, t1-t0, lam)
        mp = A@m; Pp = A@P@A.T + Q
        H, b = linf(mp, t1)
        z = H@mp + b; S = H@Pp@H.T + damp**2*np.eye(len(z))
        K = np.linalg.solve(S, H@Pp).T
        m = mp - K@z; P = Pp - K@S@K.T
        out["m"].append(m); out["P"].append(P); out["mp"].append(mp); out["Pp"].append(Pp); out["A"].append(A)
    return out

def rts_cov(out):
    N = len(out["m"])-1
    sm=[None]*(N+1); sP=[None]*(N+1); sm[N]=out["m"][N]; sP[N]=out["P"][N]
    for k in range(N-1,-1,-1):
        G = np.linalg.solve(out["Pp"][k], out["A"][k]@out["P"][k]).T
        sm[k] = out["m"][k] + G@(sm[k+1]-out["mp"][k]); sP[k] = out["P"][k] + G@(sP[k+1]-out["Pp"][k])@G.T
    return sm, sP

def _revert(A, L, LQ, solve):
    """Square-root revert: x~N(.,LL^T), y = A x + N(0, LQ LQ^T). Returns L_y, L_{x|y}, G."""
    n = L.shape[0]; k = A.shape[0]
    R = np.block([[LQ.T, np.zeros((LQ.shape[1], n))], [(A@L).T, L.T]])
    R = np.linalg.qr(R, mode="r")
    Ry = R[:k,:k]; R12 = R[:k,k:]; Rxy = R[k:k+n, k:]
    G = solve(Ry, R12).T
    return Ry.T, Rxy.T, G

def kf_sqrt(m0, L0, grid, linf, q, d, lam, damp=0.0):
    import scipy.linalg as sla
    solve = lambda R, B: sla.solve_triangular(R, B, lower=False)
    m, L = m0.copy(), L0.copy()
    ms=[m]; Ls=[L]; bw=[]
    for t0, t1 in zip(grid[:-1], grid[1:]):
        A, SQ = iwp_A_sqrtQ(q, d, t1-t0, lam)
        Lp, Lb, Gb = _revert(A, L, SQ, solve)   # predicted chol, backward noise chol, smoothing gain
        mp = A@m
        bw.append((Gb, m - Gb@mp, Lb))
        H, b = linf(mp, t1)
        Ly, Lc, K = _revert(H, Lp, damp*np.eye(H.shape[0]), solve)
        z = H@mp + b
        m = mp - K@z; L = Lc
        ms.append(m); Ls.append(L)
    return ms, Ls, bw

def rts_sqrt(ms, Ls, bw):
    N = len(ms)-1
    sm=[None]*(N+1); sL=[None]*(N+1); sm[N]=ms[N]; sL[N]=Ls[N]
    for k in range(N-1,-1,-1):
        G, xi, Lb = bw[k]
        sm[k] = G@sm[k+1] + xi
        R = np.linalg.qr(np.concatenate([(G@sL[k+1]).T, Lb.T]), mode="r")
        sL[k] = R.T
    return sm, sL
