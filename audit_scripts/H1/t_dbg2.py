import sys, itertools
sys.path.insert(0, "/repo/hunt")
from harness import *
import ref, cmp
np.set_printoptions(linewidth=200, precision=6)
d = 2
for fact in ["dense", "iso", "blockdiag"]:
  for q,h in [(5, 0.1),(5,1.0)]:
    rng = np.random.default_rng(1)
    order=1; mode="ts0"; calib="dynamic"
    grid = np.cumsum(np.concatenate([[0.0], h*np.array([1.0, 0.5, 0.8, 1.0, 0.3, 0.9, 1.0, 1.0])]))
    tc = [jnp.asarray(rng.normal(size=d)) for _ in range(q+1)]
    sol, prior, solver = run_lib(fact, order, q, grid, tc, mode=mode, calib=calib)
    m0 = np.concatenate([np.asarray(t) for t in tc]); P0 = np.zeros((len(m0),)*2)
    res = run_ref(fact, order, q, grid, m0, P0, mode=mode, calib=calib)
    ml, Cl = sol.u.to_multivariate_normal()
    print(fact, q, h, cmp.compare_seq(ml, Cl, res["m"], res["P"]))
    osl = np.asarray(sol.output_scale)[1:]
    osr = np.array([[float(x.sqrt()) for x in np.atleast_1d(s)] for s in res["sig_dyn"]]).reshape(osl.shape)
    print(" scale relerr per step", (np.abs(osl-osr)/osr).reshape(len(osl), -1).max(axis=1))
    print(" scales", osr.reshape(len(osl), -1)[:, 0])
    for k in range(1, len(grid)):
        em, ec = cmp.err_moments(ml[k], Cl[k], res["m"][k], res["P"][k])
        print("  step", k, "mean", em, "cov", ec)
