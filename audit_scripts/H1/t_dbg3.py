import sys, itertools
sys.path.insert(0, "/repo/hunt")
from harness import *
import ref, cmp
d = 2
for fact in ["dense", "blockdiag"]:
  for q,h in [(5, 0.1)]:
    rng = np.random.default_rng(1)
    order=1; mode="ts0"; calib="dynamic"
    grid = np.cumsum(np.concatenate([[0.0], h*np.array([1.0, 0.5, 0.8, 1.0, 0.3, 0.9, 1.0, 1.0])]))
    tc = [jnp.asarray(rng.normal(size=d)) for _ in range(q+1)]
    sol, prior, solver = run_lib(fact, order, q, grid, tc, mode=mode, calib=calib)
    m0 = np.concatenate([np.asarray(t) for t in tc]); P0 = np.zeros((len(m0),)*2)
    _, fref, jref = make_problem(order)
    lin = ref.Lin(fref, order, q, d, "ts0", fact, jref)
    osl = np.asarray(sol.output_scale)[1:]
    res = ref.ekf(m0, P0, grid, lin, lambda dt: ref.iwp_AQ(q, d, dt, np.ones(d)), calib="dynamic", d=d, blockdiag_scale=(fact=="blockdiag"), scale_override=osl)
    ml, Cl = sol.u.to_multivariate_normal()
    for k in range(1, len(grid)):
        em, ec = cmp.err_moments(ml[k], Cl[k], res["m"][k], res["P"][k])
        print(fact, "  step", k, "mean", em, "cov", ec)
