"""Independent high-precision (Decimal) textbook EKF / RTS reference.

State ordering: index = i*d + k  (Taylor coefficient i, dimension k), which is the
ordering of `to_multivariate_normal()` for all three factorisations.
"""

from decimal import Decimal, getcontext
from math import factorial

import numpy as np

getcontext().prec = 120

ZERO = Decimal(0)
ONE = Decimal(1)


def D(x):
    return Decimal(float(x))


def Dm(a):
    a = np.asarray(a, dtype=float)
    out = np.empty(a.shape, dtype=object)
    for idx in np.ndindex(a.shape):
        out[idx] = Decimal(float(a[idx]))
    return out


def Fm(a):
    a = np.asarray(a, dtype=object)
    out = np.empty(a.shape, dtype=float)
    for idx in np.ndindex(a.shape):
        out[idx] = float(a[idx])
    return out


def zeros(*shape):
    out = np.empty(shape, dtype=object)
    out[...] = ZERO
    return out


def eye(n):
    out = zeros(n, n)
    for i in range(n):
        out[i, i] = ONE
    return out


def kron(a, b):
    ra, ca = a.shape
    rb, cb = b.shape
    out = zeros(ra * rb, ca * cb)
    for i in range(ra):
        for j in range(ca):
            out[i * rb : (i + 1) * rb, j * cb : (j + 1) * cb] = a[i, j] * b
    return out


def solve(S, B):
    """Solve S X = B by Gaussian elimination with partial pivoting (Decimal)."""
    S = S.copy()
    B = B.copy()
    n = S.shape[0]
    vec = B.ndim == 1
    if vec:
        B = B[:, None]
    for c in range(n):
        p = max(range(c, n), key=lambda r: abs(S[r, c]))
        if S[p, c] == 0:
            raise ZeroDivisionError("singular")
        if p != c:
            S[[c, p]] = S[[p, c]]
            B[[c, p]] = B[[p, c]]
        for r in range(c + 1, n):
            f = S[r, c] / S[c, c]
            if f != 0:
                S[r, c:] = S[r, c:] - f * S[c, c:]
                B[r] = B[r] - f * B[c]
    X = zeros(*B.shape)
    for r in range(n - 1, -1, -1):
        acc = B[r].copy()
        for c in range(r + 1, n):
            acc = acc - S[r, c] * X[c]
        X[r] = acc / S[r, r]
    return X[:, 0] if vec else X


def iwp_AQ(q, d, dt, lam):
    """Closed-form IWP(q) transition over step dt; lam = per-dim diffusion std."""
    dt = D(dt)
    n = q + 1
    A1 = zeros(n, n)
    Q1 = zeros(n, n)
    for i in range(n):
        for j in range(n):
            if j >= i:
                A1[i, j] = dt ** (j - i) / factorial(j - i)
            e = 2 * q + 1 - i - j
            Q1[i, j] = dt**e / (e * factorial(q - i) * factorial(q - j))
    L2 = zeros(d, d)
    for k in range(d):
        L2[k, k] = D(lam[k]) ** 2
    return kron(A1, eye(d)), kron(Q1, L2)


class Lin:
    """Linearisation rules. f takes list of k float arrays (d,), and t -> (d,)."""

    def __init__(self, f, order, q, d, mode, fact, jac=None):
        self.f, self.k, self.q, self.d = f, order, q, d
        self.mode, self.fact = mode, fact  # mode in ts0/ts1; fact in dense/iso/blockdiag
        self.jac = jac  # jac(ms, t) -> list of k (d,d) arrays

    def __call__(self, m, t):
        d, k, q = self.d, self.k, self.q
        n = (q + 1) * d
        mf = Fm(m)
        ms = [mf[i * d : (i + 1) * d] for i in range(k)]
        fx = Dm(np.asarray(self.f(ms, float(t)), dtype=float))
        H = zeros(d, n)
        for r in range(d):
            H[r, k * d + r] = ONE
        b = -fx
        if self.mode == "ts1":
            Js = self.jac(ms, float(t))
            for i in range(k):
                J = np.asarray(Js[i], dtype=float)
                if self.fact == "iso":
                    J = np.eye(d) * np.trace(J) / d
                elif self.fact == "blockdiag":
                    J = np.diag(np.diag(J))
                JD = Dm(J)
                H[:, i * d : (i + 1) * d] = H[:, i * d : (i + 1) * d] - JD
                b = b + JD @ m[i * d : (i + 1) * d]
        return H, b


def update(m, P, H, b, damp):
    z = H @ m + b
    S = H @ P @ H.T + eye(H.shape[0]) * (D(damp) ** 2)
    K = solve(S, H @ P).T  # P symmetric: K = P H^T S^-1
    m_new = m - K @ z
    P_new = P - K @ S @ K.T
    return m_new, P_new, z, S


def quad(z, S):
    return z @ solve(S, z)


def ekf(
    m0,
    P0,
    grid,
    lin,
    trans,
    damp=0.0,
    calib="none",
    lin_init=None,
    d=None,
    blockdiag_scale=False,
    scale_override=None,
    observe=None,
):
    """Textbook EKF. trans(dt) -> (A, Q) with unit scale.

    calib: none | mle | dynamic
    Returns dict with filtering means/covs (uncalibrated for mle + sigma2),
    predicted moments and transition matrices for the smoother.
    """
    m, P = Dm(m0), Dm(P0)
    sig_acc = None
    ndata = 0
    if lin_init is not None:
        H, b = lin_init(m, grid[0])
        m, P, z, S = update(m, P, H, b, damp)
        if calib == "mle":
            sig_acc = _sig(z, S, blockdiag_scale)
            ndata = 1
    ms, Ps = [m], [P]
    mps, Pps, As, sig_dyn = [], [], [], []
    for t0, t1 in zip(grid[:-1], grid[1:]):
        dt = float(t1) - float(t0)
        A, Q = trans(dt)
        mp = A @ m
        H, b = lin(mp, t1)
        if calib == "dynamic":
            z = H @ mp + b
            S = H @ Q @ H.T + eye(H.shape[0]) * (D(damp) ** 2)
            s2 = _sig(z, S, blockdiag_scale)
            if scale_override is not None:
                so = scale_override[len(sig_dyn)]
                s2 = (np.array([D(x) ** 2 for x in so], dtype=object)
                      if np.ndim(so) > 0 else D(so) ** 2)
            sig_dyn.append(s2)
            Q = _scaleQ(Q, s2, d)
        Pp = A @ P @ A.T + Q
        m, P, z, S = update(mp, Pp, H, b, damp)
        if calib == "mle":
            s2 = _sig(z, S, blockdiag_scale)
            sig_acc = s2 if sig_acc is None else sig_acc + s2
            ndata += 1
        ms.append(m)
        Ps.append(P)
        mps.append(mp)
        Pps.append(Pp)
        As.append(A)
    out = {"m": ms, "P": Ps, "mp": mps, "Pp": Pps, "A": As, "sig_dyn": sig_dyn}
    if calib == "mle":
        out["sigma2"] = sig_acc / ndata
        out["ndata"] = ndata
    return out


def _sig(z, S, blockdiag_scale):
    nobs = z.shape[0]
    if blockdiag_scale:
        # one scale per dimension (S is diagonal for block-diagonal models)
        return np.array([z[k] ** 2 / S[k, k] for k in range(nobs)], dtype=object)
    return quad(z, S) / nobs


def _scaleQ(Q, s2, d):
    if isinstance(s2, np.ndarray):
        n = Q.shape[0] // d
        sc = np.array([s2[i % d].sqrt() for i in range(n * d)], dtype=object)
        return sc[:, None] * Q * sc[None, :]
    return Q * s2


def rts(res):
    ms, Ps, mps, Pps, As = res["m"], res["P"], res["mp"], res["Pp"], res["A"]
    N = len(ms) - 1
    sm, sP = [None] * (N + 1), [None] * (N + 1)
    G = [None] * N
    sm[N], sP[N] = ms[N], Ps[N]
    for k in range(N - 1, -1, -1):
        Gk = solve(Pps[k], As[k] @ Ps[k]).T
        G[k] = Gk
        sm[k] = ms[k] + Gk @ (sm[k + 1] - mps[k])
        sP[k] = Ps[k] + Gk @ (sP[k + 1] - Pps[k]) @ Gk.T
    return sm, sP, G


def joint(sm, sP, G):
    """Joint smoothing mean/cov over all times (float64 output is produced by caller)."""
    T = len(sm)
    n = sm[0].shape[0]
    mean = np.concatenate(sm)
    C = zeros(T * n, T * n)
    for j in range(T):
        blk = sP[j]
        C[j * n : (j + 1) * n, j * n : (j + 1) * n] = blk
        for i in range(j - 1, -1, -1):
            blk = G[i] @ blk
            C[i * n : (i + 1) * n, j * n : (j + 1) * n] = blk
            C[j * n : (j + 1) * n, i * n : (i + 1) * n] = blk.T
    return mean, C


def relerr(a, b, floor=0.0):
    a = np.asarray(a, dtype=float)
    b = np.asarray(b, dtype=float)
    return np.max(np.abs(a - b) / (np.abs(b) + floor))


def ekf_nodes(
    m0,
    P0,
    nodes,
    observe,
    lin,
    trans,
    damp=0.0,
    calib="none",
    lin_init=None,
    d=None,
    blockdiag_scale=False,
):
    """EKF over `nodes` (times); observe[k] says whether node k (k>=1) is a solver step end.

    Unobserved nodes are interpolation points (prediction only). Dynamic calibration
    computes one scale per solver step (from the previous step end to the next one).
    """
    m, P = Dm(m0), Dm(P0)
    sig_acc, ndata = None, 0
    if lin_init is not None:
        H, b = lin_init(m, nodes[0])
        m, P, z, S = update(m, P, H, b, damp)
        if calib == "mle":
            sig_acc, ndata = _sig(z, S, blockdiag_scale), 1
    ms, Ps, mps, Pps, As, sig_dyn = [m], [P], [], [], [], []
    cur = None
    last_obs = 0
    for k in range(1, len(nodes)):
        dt = float(nodes[k]) - float(nodes[k - 1])
        A, Q = trans(dt)
        if calib == "dynamic":
            if k - 1 == last_obs:
                j = next(j for j in range(k, len(nodes)) if observe[j])
                Af, Qf = trans(float(nodes[j]) - float(nodes[k - 1]))
                mpf = Af @ m
                H, b = lin(mpf, nodes[j])
                z = H @ mpf + b
                S = H @ Qf @ H.T + eye(H.shape[0]) * (D(damp) ** 2)
                cur = _sig(z, S, blockdiag_scale)
            sig_dyn.append(cur)
            Q = _scaleQ(Q, cur, d)
        mp = A @ m
        Pp = A @ P @ A.T + Q
        if observe[k]:
            H, b = lin(mp, nodes[k])
            m, P, z, S = update(mp, Pp, H, b, damp)
            last_obs = k
            if calib == "mle":
                s2 = _sig(z, S, blockdiag_scale)
                sig_acc = s2 if sig_acc is None else sig_acc + s2
                ndata += 1
        else:
            m, P = mp, Pp
        ms.append(m); Ps.append(P); mps.append(mp); Pps.append(Pp); As.append(A)
    out = {"m": ms, "P": Ps, "mp": mps, "Pp": Pps, "A": As, "sig_dyn": sig_dyn}
    if calib == "mle":
        out["sigma2"] = sig_acc / ndata
        out["ndata"] = ndata
    return out


def logpdf(y, mean, C):
    """Gaussian log-density in Decimal arithmetic (C SPD)."""
    n = len(y)
    r = y - mean
    S = C.copy()
    b = r.copy()
    logdet = ZERO
    # Gaussian elimination with symmetric (diagonal) pivoting is unnecessary for SPD
    for c in range(n):
        piv = S[c, c]
        if piv <= 0:
            raise ZeroDivisionError("not SPD")
        logdet += piv.ln()
        for rr in range(c + 1, n):
            f = S[rr, c] / piv
            if f != 0:
                S[rr, c:] = S[rr, c:] - f * S[c, c:]
                b[rr] = b[rr] - f * b[c]
    # back substitution for x = C^{-1} r
    x = zeros(n)
    for rr in range(n - 1, -1, -1):
        acc = b[rr]
        for c in range(rr + 1, n):
            acc = acc - S[rr, c] * x[c]
        x[rr] = acc / S[rr, rr]
    quad_ = sum(r[i] * x[i] for i in range(n))
    two_pi = Decimal("6.283185307179586476925286766559005768394338798750211641949889184615632812572417997256069650684234136")
    return -(quad_ + logdet + n * two_pi.ln()) / 2
