import sys
sys.path.insert(0, "/repo/hunt")
from harness import *
rng = np.random.default_rng(0)
d=2; q=2
grid = np.array([0.0, 0.1, 0.25, 0.3, 0.5, 0.9]); T=len(grid)
tc = [jnp.asarray(rng.normal(size=d)) for _ in range(q+1)]
for fact in FACT:
    sol, prior, solver = run_lib(fact, 1, q, grid, tc, strategy="fixedinterval")
    post = sol.solution_full.posterior
    for N in [T-1, T+1, 1]:
        data = jnp.zeros((N, d)); std = jnp.ones((N,)) if fact=="iso" else jnp.ones((N,d))
        try:
            v = pdq.loss_lml_timeseries()(data, posterior=post, std=std)
            print(fact, "N", N, "ACCEPTED ->", v)
        except Exception as e:
            print(fact, "N", N, "raises", type(e).__name__, str(e)[:80].replace("\n"," "))
    # wrong data dimension
    try:
        v = pdq.loss_lml_timeseries()(jnp.zeros((T, d+1)), posterior=post, std=jnp.ones((T,)) if fact=="iso" else jnp.ones((T,d)))
        print(fact, "wrong d ACCEPTED ->", v)
    except Exception as e:
        print(fact, "wrong d raises", type(e).__name__, str(e)[:80].replace("\n"," "))
    # data (T,) for d=2?
    try:
        v = pdq.loss_lml_timeseries()(jnp.zeros((T,)), posterior=post, std=jnp.ones((T,)) if fact=="iso" else jnp.ones((T,d)))
        print(fact, "data (T,) ACCEPTED ->", v)
    except Exception as e:
        print(fact, "data (T,) raises", type(e).__name__, str(e)[:80].replace("\n"," "))
    # terminal: wrong data shape
    margT = jax.tree.map(lambda s: s[-1], sol.u)
    for dat in [jnp.zeros((d+1,)), jnp.zeros(()), jnp.zeros((1,))]:
        try:
            v = pdq.loss_lml_terminal_values()(dat, marginals=margT, std=jnp.ones(()) if fact=="iso" else jnp.ones((d,)))
            print(fact, "terminal data", dat.shape, "ACCEPTED ->", v)
        except Exception as e:
            print(fact, "terminal data", dat.shape, "raises", type(e).__name__, str(e)[:80].replace("\n"," "))
