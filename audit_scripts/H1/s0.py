import jax
jax.config.update("jax_enable_x64", True)
import jax.numpy as jnp
import probdiffeq
print(probdiffeq.__file__)
from probdiffeq import ivpsolve, probdiffeq as pdq
from probdiffeq.backend import random as brandom

def vf(u, *, t):
    return jnp.array([u[0]*(1-u[1]), -u[1]*(1-u[0])]) * 0.5 + t
ode = pdq.ode(vf)
u0 = jnp.array([1.0, 0.5])
tc = [u0, vf(u0, t=0.0), jnp.array([0.1, 0.2])]
for fac in [pdq.state_space_model_dense, pdq.state_space_model_isotropic, pdq.state_space_model_blockdiag]:
    ssm = fac()
    iwp = ssm.prior_wiener_integrated(tc)
    ts0 = ssm.constraint_ode_ts0(ode)
    solver = pdq.solver(strategy=pdq.strategy_smoother_fixedinterval(), constraint=ts0)
    solve = ivpsolve.solve_fixed_grid(solver=solver)
    grid = jnp.array([0., 0.1, 0.3, 0.35, 0.6])
    sol = solve(iwp, grid=grid)
    key = jax.random.PRNGKey(1)
    smp = sol.solution_full.posterior.sample(key, shape=(20000,))
    s0 = smp[0]  # (20000, T, d)
    print(fac.__name__, s0.shape)
    m, C = sol.u.to_multivariate_normal()
    # empirical covariance at time index 2 of u (both dims)
    x = s0[:, 2, :]
    print("emp cov\n", jnp.cov(x.T))
    n = 3; d = 2
    Ct = C[2]
    print("expected cov u block\n", Ct[:d,:d])
