"""Tools to expose the affine map  draws -> posterior sample."""
import jax, jax.numpy as jnp, numpy as np
from probdiffeq.backend import random as brandom, flow as bflow

def py_scan(step_func, /, init, xs, *, reverse=False, length=None):
    leaves = jax.tree_util.tree_leaves(xs)
    N = leaves[0].shape[0] if length is None else length
    order = range(N-1, -1, -1) if reverse else range(N)
    carry = init; ys = [None]*N
    for i in order:
        x = jax.tree.map(lambda s: s[i], xs)
        carry, y = step_func(carry, x)
        ys[i] = y
    ys = jax.tree.map(lambda *a: jnp.stack(a), *ys)
    return carry, ys

class Recorder:
    def __init__(self):
        self.shapes = []; self.feed = None; self.pos = 0
    def normal(self, key, /, shape, dtype=None):
        size = int(np.prod(shape)) if len(shape) else 1
        if self.feed is None:
            self.shapes.append(tuple(shape)); return jnp.zeros(shape)
        out = self.feed[self.pos:self.pos+size].reshape(shape); self.pos += size
        return jnp.asarray(out)

def affine_map(sample_fn, flatten):
    """sample_fn(): calls posterior.sample(key) (shape=()); flatten: sample pytree -> 1d numpy.
    Returns (offset, L, shapes)."""
    rec = Recorder()
    old_normal, old_scan = brandom.normal, bflow.scan
    brandom.normal = rec.normal; bflow.scan = py_scan
    try:
        off = flatten(sample_fn())
        M = sum(int(np.prod(s)) if len(s) else 1 for s in rec.shapes)
        cols = []
        for j in range(M):
            z = np.zeros(M); z[j] = 1.0
            rec.feed = z; rec.pos = 0
            cols.append(flatten(sample_fn()) - off)
            assert rec.pos == M
    finally:
        brandom.normal, bflow.scan = old_normal, old_scan
    return off, np.stack(cols, axis=1), rec.shapes
