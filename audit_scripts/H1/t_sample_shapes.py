import sys, itertools
sys.path.insert(0, "/repo/hunt")
from harness import *
import sampling, libjoint, adapt
rng = np.random.default_rng(9)
grid = jnp.array([0.0, 0.1, 0.25, 0.3, 0.5])
def f_flat(x, *, t):
    return jnp.stack([0.5*x[0]-0.7*x[0]*x[1]+t, -0.3*x[1]+0.4*x[0]*x[2], 0.1*x[2]*x[0] - 0.2*t])
def f_tree(u, *, t):
    x = jnp.concatenate([u["a"], u["b"][0]])
    y = f_flat(x, t=t)
    return {"a": y[:2], "b": y[2:].reshape(1,1)}
jac = pdq.jacobian_materialize()
for fact, strat in itertools.product(["dense","iso","blockdiag"], ["fixedinterval", "fixedpoint"]):
    q = 2
    flat = [jnp.asarray(rng.normal(size=3)) for _ in range(q+1)]
    tr = [{"a": x[:2], "b": x[2:].reshape(1,1)} for x in flat]
    ssm = FACT[fact]()
    ode = pdq.ode(f_tree, jacobian=jac)
    prior = ssm.prior_wiener_integrated(tr, is_exact=False, inexact_eps=1e-2)
    con = ssm.constraint_ode_ts1(ode)
    if strat == "fixedinterval":
        sol = ivpsolve.solve_fixed_grid(solver=pdq.solver(strategy=pdq.strategy_smoother_fixedinterval(), constraint=con))(prior, grid=grid)
    else:
        solver = pdq.solver(strategy=pdq.strategy_smoother_fixedpoint(), constraint=con)
        sol = adapt.solve_save_at(solver, prior, np.asarray(grid), [0.13, 0.05, 0.31, 0.1, 0.27], False)
    post = sol.solution_full.posterior
    for shape in [(), (3,), (3, 2)]:
        smp = post.sample(jax.random.PRNGKey(3), shape=shape)
        shp = jax.tree.map(lambda s: s.shape, smp)
        exp = jax.tree.map(lambda s: shape + s.shape, sol.u.mean)
        ok = shp == exp
        # distinct samples?
        if shape:
            a = np.asarray(smp[0]["a"]).reshape((-1,) + np.asarray(sol.u.mean[0]["a"]).shape)
            distinct = len(np.unique(np.round(a[:, 2, 0], 14))) == a.shape[0]
        else: distinct = True
        print(fact, strat, shape, "shape ok", ok, "distinct", distinct)
    # affine map for pytree & fixedpoint
    def flatten_samples(smp):
        arr = np.stack([np.concatenate([np.asarray(s["a"]), np.asarray(s["b"]).reshape(-1,1)], axis=1) for s in smp], axis=1)
        return arr.reshape(-1)
    off, L, shapes = sampling.affine_map(lambda: post.sample(jax.random.PRNGKey(0)), flatten_samples)
    lm, lC, _, _ = libjoint.lib_joint(post, fact, 3)
    sd = np.sqrt(np.abs(np.diag(lC))); sd = np.maximum(sd, 1e-7*sd.max())
    ml, _ = sol.u.to_multivariate_normal()
    print("   affine: mean", np.max(np.abs(off-lm)/(np.abs(lm)+sd)), np.max(np.abs(off-np.asarray(ml).reshape(-1))/(np.abs(lm)+sd)), "gram", np.max(np.abs(L@L.T-lC)/np.outer(sd,sd)))
