import jax

jax.config.update("jax_enable_x64", True)
import jax.numpy as jnp
import numpy as np

import probdiffeq

print("using", probdiffeq.__file__)
from probdiffeq import ivpsolve
from probdiffeq import probdiffeq as pdq

import ref

FACT = {
    "dense": pdq.state_space_model_dense,
    "iso": pdq.state_space_model_isotropic,
    "blockdiag": pdq.state_space_model_blockdiag,
}


def vf1(u, *, t):
    return jnp.stack(
        [0.5 * u[0] - 0.7 * u[0] * u[1] + t, -0.3 * u[1] + 0.4 * u[0] * u[1] + 0.3 * t**2]
    )


def vf1_auto(u, *, t):
    return jnp.stack([0.5 * u[0] - 0.7 * u[0] * u[1], -0.3 * u[1] + 0.4 * u[0] * u[1]])


SCALE = [1.0]


def vf1_lin(u, *, t):
    return jnp.stack([0.5 * u[0] - 0.7 * u[1] + SCALE[0] * t, -0.3 * u[1] + 0.4 * u[0] + 0.3 * SCALE[0] * t**2])


def vf2_lin(u, du, *, t):
    return -u + 0.2 * du[::-1] + SCALE[0] * t


def vf2(u, du, *, t):
    return -u + 0.1 * du * u[::-1] + 0.2 * du + t


def make_problem(order, autonomous=False):
    jac = pdq.jacobian_materialize()
    if order == 1:
        f = vf1_auto if autonomous else vf1
        if autonomous == "lin":
            f = vf1_lin
        ode = pdq.ode(f, jacobian=jac)

        def fref(ms, t):
            return np.asarray(f(jnp.asarray(ms[0]), t=t))

        def jref(ms, t):
            return [np.asarray(jax.jacfwd(lambda x: f(x, t=t))(jnp.asarray(ms[0])))]

    else:
        f = vf2_lin if autonomous == "lin" else vf2
        ode = pdq.ode_order_two(f, jacobian=jac)

        def fref(ms, t):
            return np.asarray(f(jnp.asarray(ms[0]), jnp.asarray(ms[1]), t=t))

        def jref(ms, t):
            a, b = jnp.asarray(ms[0]), jnp.asarray(ms[1])
            return [
                np.asarray(jax.jacfwd(lambda x: f(x, b, t=t))(a)),
                np.asarray(jax.jacfwd(lambda x: f(a, x, t=t))(b)),
            ]

    return ode, fref, jref


def run_lib(
    fact,
    order,
    q,
    grid,
    tcoeffs,
    *,
    mode="ts0",
    calib="none",
    damp=0.0,
    strategy="filter",
    init="exact",
    inexact_eps=1e-3,
    output_scale=None,
    use_init_constraint=False,
    diffuse=0,
    diffuse_eps=1.0,
    mle_correct=False,
    relin=False,
    autonomous=False,
    jit=True,
):
    ssm = FACT[fact]()
    ode, _, _ = make_problem(order, autonomous)
    kw = dict(output_scale=output_scale, diffuse_derivatives=diffuse, diffuse_eps=diffuse_eps)
    if init == "exact":
        prior = ssm.prior_wiener_integrated(tcoeffs, is_exact=True, **kw)
    elif init == "inexact":
        prior = ssm.prior_wiener_integrated(
            tcoeffs, is_exact=False, inexact_eps=inexact_eps, **kw
        )
    else:  # explicit std list
        prior = ssm.prior_wiener_integrated_diffuse(tcoeffs, init, **kw)
    if mode == "ts0":
        con = ssm.constraint_ode_ts0(ode)
    elif mode == "ts1":
        con = ssm.constraint_ode_ts1(ode)
    else:
        con = ssm.constraint_residual(pdq.residual_from_ode(ode))
    strat = {
        "filter": pdq.strategy_filter,
        "fixedinterval": pdq.strategy_smoother_fixedinterval,
        "fixedpoint": pdq.strategy_smoother_fixedpoint,
    }[strategy]()
    ci = con if use_init_constraint else None
    if calib == "none":
        solver = pdq.solver(strategy=strat, constraint=con, constraint_init=ci)
    elif calib == "mle":
        solver = pdq.solver_mle(
            strategy=strat,
            constraint=con,
            constraint_init=ci,
            correct_asymptotic_underconfidence=mle_correct,
        )
    else:
        solver = pdq.solver_dynamic(
            strategy=strat,
            constraint=con,
            constraint_init=ci,
            re_linearize_after_calibration=relin,
        )
    if grid is None:
        return None, prior, solver
    solve = ivpsolve.solve_fixed_grid(solver=solver)
    if jit:
        solve = jax.jit(solve)
    sol = solve(prior, grid=jnp.asarray(grid), damp=damp)
    return sol, prior, solver


def run_ref(
    fact,
    order,
    q_total,
    grid,
    m0,
    P0,
    *,
    mode="ts0",
    calib="none",
    damp=0.0,
    lam=None,
    use_init_constraint=False,
    autonomous=False,
    d=2,
    observe=None,
):
    _, fref, jref = make_problem(order, autonomous)
    lam = np.ones(d) if lam is None else np.asarray(lam, dtype=float) * np.ones(d)
    lin = ref.Lin(fref, order, q_total, d, "ts0" if mode == "ts0" else "ts1", fact, jref)

    def trans(dt):
        return ref.iwp_AQ(q_total, d, dt, lam)

    if observe is not None:
        return ref.ekf_nodes(
            m0, P0, grid, observe, lin, trans, damp=damp, calib=calib,
            lin_init=lin if use_init_constraint else None, d=d,
            blockdiag_scale=(fact == "blockdiag"),
        )
    return ref.ekf(
        m0,
        P0,
        grid,
        lin,
        trans,
        damp=damp,
        calib=calib,
        lin_init=lin if use_init_constraint else None,
        d=d,
        blockdiag_scale=(fact == "blockdiag"),
    )
