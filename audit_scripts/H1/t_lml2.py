import sys, itertools
sys.path.insert(0, "/repo/hunt")
from harness import *
import ref, cmp, adapt
rng = np.random.default_rng(11)
d = 2
# N = 2 output times, and 12 output times; fixed grid with huge/small steps
for fact, T, init in itertools.product(["dense","iso","blockdiag"], [2, 12], ["exact", "inexact"]):
    grid = np.concatenate([[0.0], np.cumsum(10.0**rng.uniform(-3, 0, size=T-1))])
    q = 3; order = 1; mode = "ts1"; calib="mle"
    tc = [jnp.asarray(rng.normal(size=d)) for _ in range(q+1)]
    sol, prior, solver = run_lib(fact, order, q, grid, tc, mode=mode, calib=calib, init=init, strategy="fixedinterval", mle_correct=True)
    m0 = np.concatenate([np.asarray(t) for t in tc])
    P0 = np.zeros((len(m0),)*2) if init=="exact" else np.eye(len(m0))*1e-6
    res = run_ref(fact, order, q, grid, m0, P0, mode=mode, calib=calib)
    s2 = res["sigma2"]/(T-1)
    sm, sP, G = ref.rts(res)
    jm, jC = ref.joint(sm, [cmp.scaled(P, s2, d) for P in sP], G)
    n = len(m0)
    for ti, avg in itertools.product([0, 2], [True, False]):
        base = 10.0**rng.uniform(-6, 3, size=(T, d))
        if fact == "iso":
            base = np.repeat(base[:, :1], d, axis=1); std_lib = jnp.asarray(base[:, 0])
        else: std_lib = jnp.asarray(base)
        data = np.asarray(sol.u.mean[ti]) + rng.normal(size=(T, d)) * (base + np.asarray(sol.u.std[ti]).reshape(T, -1))
        loss = pdq.loss_lml_timeseries(average_pdfs=avg, tcoeff_index=ti)
        val = float(loss(jnp.asarray(data), posterior=sol.solution_full.posterior, std=std_lib))
        sel = np.concatenate([k*n + ti*d + np.arange(d) for k in range(T)])
        C = jC[np.ix_(sel, sel)].copy()
        for a, v in enumerate(base.reshape(-1)): C[a, a] = C[a, a] + ref.D(v)**2
        expected = ref.logpdf(ref.Dm(data.reshape(-1)), jm[sel], C)
        if avg: expected = expected / T
        expected = float(expected)
        print(fact, T, init, ti, avg, val, expected, abs(val-expected)/(abs(expected)+1))
