import sys, itertools
sys.path.insert(0, "/repo/hunt")
from harness import *
rng = np.random.default_rng(13)
grid = jnp.array([0.0, 0.1, 0.25, 0.3, 0.5, 0.9])
T = len(grid)
def f_flat(x, *, t):
    return jnp.stack([0.5*x[0]-0.7*x[0]*x[1]+t, -0.3*x[1]+0.4*x[0]*x[2], 0.1*x[2]*x[0] - 0.2*t])
def f_tree(u, *, t):
    x = jnp.concatenate([u["a"], u["b"][0]])
    y = f_flat(x, t=t)
    return {"a": y[:2], "b": y[2:].reshape(1,1)}
jac = pdq.jacobian_materialize()
for fact, ti, avg in itertools.product(["dense","iso","blockdiag"], [0, 1, 2], [True, False]):
    q = 2
    flat = [jnp.asarray(rng.normal(size=3)) for _ in range(q+1)]
    tr = [{"a": x[:2], "b": x[2:].reshape(1,1)} for x in flat]
    vals = []
    base = 10.0**rng.uniform(-3, 1, size=(T, 3))
    if fact == "iso": base = np.repeat(base[:, :1], 3, axis=1)
    noise = rng.normal(size=(T,3))
    for tc, f, tree in [(flat, f_flat, False), (tr, f_tree, True)]:
        ssm = FACT[fact]()
        ode = pdq.ode(f, jacobian=jac)
        prior = ssm.prior_wiener_integrated(tc)
        con = ssm.constraint_ode_ts1(ode)
        sol = ivpsolve.solve_fixed_grid(solver=pdq.solver_mle(strategy=pdq.strategy_smoother_fixedinterval(), constraint=con))(prior, grid=grid)
        if not tree:
            data = np.asarray(sol.u.mean[ti]) + noise*base
            std = jnp.asarray(base[:,0]) if fact=="iso" else jnp.asarray(base)
            d_in = jnp.asarray(data)
        else:
            std = jnp.asarray(base[:,0]) if fact=="iso" else {"a": jnp.asarray(base[:, :2]), "b": jnp.asarray(base[:, 2:]).reshape(T,1,1)}
            d_in = {"a": jnp.asarray(data[:, :2]), "b": jnp.asarray(data[:, 2:]).reshape(T,1,1)}
        loss = pdq.loss_lml_timeseries(average_pdfs=avg, tcoeff_index=ti)
        v = float(loss(d_in, posterior=sol.solution_full.posterior, std=std))
        lossT = pdq.loss_lml_terminal_values(tcoeff_index=ti)
        vT = float(lossT(jax.tree.map(lambda s: s[-1], d_in), marginals=jax.tree.map(lambda s: s[-1], sol.u), std=jax.tree.map(lambda s: s[-1], std)))
        vals.append((v, vT))
    print(fact, ti, avg, vals, "<<<<" if abs(vals[0][0]-vals[1][0])>1e-8*abs(vals[0][0]) or abs(vals[0][1]-vals[1][1])>1e-8*abs(vals[0][1]) else "")
