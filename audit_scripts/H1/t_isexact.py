import sys, itertools
sys.path.insert(0, "/repo/hunt")
from harness import *
d=2
tc = [jnp.array([1.0, 2.0]), jnp.array([0.1, 0.2]), jnp.array([0.3, -0.2])]
for fact in ["dense","iso","blockdiag"]:
    ssm = FACT[fact]()
    cands = [[True, False, False], [False, True, False]]
    if fact != "iso":
        cands += [[jnp.array([True, False]), True, jnp.array([False, False])], [jnp.array([True, False]), jnp.array(True), False]]
    else:
        cands += [[jnp.array(True), jnp.array(False), False]]
    for ie in cands:
        try:
            prior = ssm.prior_wiener_integrated(tc, is_exact=ie, inexact_eps=0.5)
            m, C = prior.init.to_multivariate_normal()
            print(fact, ie, "-> sd", np.sqrt(np.diag(np.asarray(C))))
        except Exception as e:
            print(fact, ie, "EXC", type(e).__name__, str(e)[:150])
    for dd in [1, 2]:
        prior = ssm.prior_wiener_integrated(tc[:1], diffuse_derivatives=dd, diffuse_eps=3.0)
        m, C = prior.init.to_multivariate_normal()
        print(fact, "diffuse", dd, np.asarray(m), np.sqrt(np.diag(np.asarray(C))))
