import sys, itertools
sys.path.insert(0, "/repo/hunt")
from harness import *
import ref, cmp, libjoint, sampling
rng = np.random.default_rng(16)
d = 2
grid = np.array([0.0, 0.1, 0.25, 0.3, 0.5, 0.9])
T = len(grid)
def jerr(Cl, Cr):
    sd = np.sqrt(np.abs(np.diag(Cr))); s = np.where(sd > 1e-30*sd.max(), sd, 1e-8*sd.max())
    return np.max(np.abs(Cl-Cr)/np.outer(s, s))
for fact, order, qd, mode, calib, damp in itertools.product(["dense","iso","blockdiag"], [1,2], [2], ["ts0","ts1"], ["none","mle","dynamic"], [0.0, 0.05]):
    tc = [jnp.asarray(rng.normal(size=d)) for _ in range(order)]
    q = order - 1 + qd
    sol, prior, solver = run_lib(fact, order, q, grid, tc, mode=mode, calib=calib, damp=damp, use_init_constraint=True, diffuse=qd, diffuse_eps=2.0, strategy="fixedinterval")
    m0 = np.concatenate([np.asarray(t) for t in tc] + [np.zeros(d)]*qd)
    P0 = np.diag(np.concatenate([np.zeros(d*order), np.ones(d*qd)*4.0]))
    res = run_ref(fact, order, q, grid, m0, P0, mode=mode, calib=calib, damp=damp, use_init_constraint=True)
    s2 = res.get("sigma2")
    sm, sP, G = ref.rts(res)
    ml, Cl = sol.u.to_multivariate_normal()
    nat = [res["P"][0]]+list(res["Pp"])
    wm, wc = cmp.compare_seq(ml, Cl, sm, sP, s2, d, nat)
    jm, jC = ref.joint(sm, [cmp.scaled(P, s2, d) for P in sP], G)
    lm, lC, _, _ = libjoint.lib_joint(sol.solution_full.posterior, fact, d)
    je = jerr(lC, ref.Fm(jC))
    # LML
    n = len(m0)
    ti = 0
    base = 10.0**rng.uniform(-3, 1, size=(T, d))
    if fact == "iso": base = np.repeat(base[:, :1], d, axis=1); std_lib = jnp.asarray(base[:, 0])
    else: std_lib = jnp.asarray(base)
    data = np.asarray(sol.u.mean[ti]) + rng.normal(size=(T, d)) * base
    val = float(pdq.loss_lml_timeseries(average_pdfs=False)(jnp.asarray(data), posterior=sol.solution_full.posterior, std=std_lib))
    sel = np.concatenate([k*n + ti*d + np.arange(d) for k in range(T)])
    C = jC[np.ix_(sel, sel)].copy()
    for a, v in enumerate(base.reshape(-1)): C[a, a] = C[a, a] + ref.D(v)**2
    expected = float(ref.logpdf(ref.Dm(data.reshape(-1)), jm[sel], C))
    le = abs(val-expected)/(abs(expected)+1)
    flag = "  <<<<<" if not (max(wm, wc, je, le) < 1e-6) else ""
    print(f"{fact:9s} ord{order} {mode} {calib:7s} damp{damp} sm {wm:.1e} {wc:.1e} joint {je:.1e} lml {le:.1e}{flag}", flush=True)
