import warnings
warnings.filterwarnings("ignore")
from common import *
def f(u, t): return -0.1 * jnp.exp(u)
u0 = jnp.asarray([0.0])
for dt0 in [0.1, 10.0, 100.0, 1e3]:
  for solver_name in ["none", "dynamic", "mle"]:
    S = setup("dense", f, u0, 0.0, 2, "ts1", solver_name, "filter")
    solve = ivpsolve.solve_adaptive_save_at(solver=S["solver"], error=S["error"])
    sol = jax.jit(lambda p: solve(p, save_at=jnp.asarray([0.0, 1.0, 2.0]), atol=1e-4, rtol=1e-4, dt0=dt0))(S["prior"])
    print(dt0, solver_name, "u(t) =", onp.asarray(sol.u.mean[0]).ravel(), "exact", -onp.log(1 + 0.1*onp.asarray([0.0,1.0,2.0])), "num_steps", onp.asarray(sol.num_steps))
