import warnings
warnings.filterwarnings("ignore")
from e2lib import *
u0 = jnp.asarray([0.4, 0.8]); t0, t1 = 0.0, 2.0; nu = 2; eps=1e-8
damp = 1e-3; ieps = 1e-2
for ssm_name in ["dense", "isotropic", "blockdiag"]:
  for solver_name in ["none", "dynamic"]:
    for strat in ["filter", "fixedpoint"]:
        ssm = SSMS[ssm_name]()
        f = f_coupled
        vf = pdq.ode(lambda y, *, t: f(y, t), jacobian=pdq.jacobian_materialize())
        tcoeffs, _ = pdq.jetexpand_ode_padded_scan(num=nu)(vf, (u0,), t=t0)
        prior = ssm.prior_wiener_integrated(tcoeffs, is_exact=False, inexact_eps=ieps)
        c = ssm.constraint_ode_ts0(vf)
        solver = SOLVERS[solver_name](strategy=STRATS[strat](), constraint=c)
        error = pdq.error_residual_std(constraint=c)
        m0 = onp.concatenate([onp.asarray(x) for x in tcoeffs]); D = len(m0); P0 = ieps**2 * onp.eye(D)
        model = ref.Model(f, nu, 2, mode="ts0", damp=damp); model.blockdiag = ssm_name == "blockdiag"
        calib = "dynamic" if solver_name == "dynamic" else "none"
        ts_ref, _ = ref.adaptive_steps(model, m0, P0, t0, t1, atol=1e-3, rtol=1e-3, dt0=0.1, calib=calib)
        save_at = onp.asarray([t0, 0.3, ts_ref[3], 0.9, 1.4, 1.41, t1])
        E = expected(model, m0, P0, ts_ref, save_at, eps, smoother=(strat == "fixedpoint"), calib=calib, D=D)
        solve = ivpsolve.solve_adaptive_save_at(solver=solver, error=error)
        sol = jax.jit(lambda s: solve(prior, save_at=s, atol=1e-3, rtol=1e-3, dt0=0.1, damp=damp))(jnp.asarray(save_at))
        mlib, Clib = mvn(sol.u)
        em = max(maxdiff(mlib[i], E["rv"][i][0]) for i in range(len(save_at)))
        eC = max(reldiff(Clib[i], E["rv"][i][1]) for i in range(len(save_at)))
        print(ssm_name, solver_name, strat, "nsteps", int(sol.num_steps[-1]), len(ts_ref)-1, "mean", f"{em:.1e}", "cov", f"{eC:.1e}")
