"""Independent numpy reference: textbook Kalman filter / RTS smoother for ODE filters.

State ordering: derivative-major, x = (u, u', ..., u^(nu)) each of dimension d.
First-order ODE u' = f(u, t).
"""

from math import factorial

import jax
import jax.numpy as jnp
import numpy as onp


def iwp_1d(nu, h):
    n = nu + 1
    Phi = onp.zeros((n, n))
    Q = onp.zeros((n, n))
    for i in range(n):
        for j in range(n):
            if j >= i:
                Phi[i, j] = h ** (j - i) / factorial(j - i)
            p = 2 * nu + 1 - i - j
            Q[i, j] = h**p / (p * factorial(nu - i) * factorial(nu - j))
    return Phi, Q


def iwp(nu, d, h, Lambda=None):
    Phi, Q = iwp_1d(nu, h)
    if Lambda is None:
        Lambda = onp.eye(d)
    return onp.kron(Phi, onp.eye(d)), onp.kron(Q, Lambda @ Lambda.T)


class Model:
    """Linearised observation model for u' = f(u, t)."""

    def __init__(self, f, nu, d, mode="ts1", damp=0.0, Lambda=None, jac_mode="full"):
        self.f = f
        self.nu = nu
        self.d = d
        self.mode = mode
        self.damp = damp
        self.Lambda = Lambda
        self.jac_mode = jac_mode
        n = nu + 1
        self.E0 = onp.kron(onp.eye(n)[0:1], onp.eye(d))
        self.E1 = onp.kron(onp.eye(n)[1:2], onp.eye(d))

    def trans(self, h):
        return iwp(self.nu, self.d, h, self.Lambda)

    def linearize(self, m, t):
        u = self.E0 @ m
        fu = onp.asarray(self.f(jnp.asarray(u), t))
        if self.mode == "ts0":
            H = self.E1
            b = -fu
        else:
            J = onp.asarray(jax.jacfwd(lambda s: self.f(s, t))(jnp.asarray(u)))
            if self.jac_mode == "diag":
                J = onp.diag(onp.diag(J))
            elif self.jac_mode == "trace":
                J = onp.eye(self.d) * onp.trace(J) / self.d
            H = self.E1 - J @ self.E0
            b = -(fu - J @ u)
        R = self.damp**2 * onp.eye(self.d)
        return H, b, R


def scaled_Q(model, h, sigma):
    """Process noise with (possibly per-dimension) scale sigma."""
    sigma = onp.asarray(sigma, dtype=float)
    if sigma.ndim == 0:
        return sigma**2 * model.trans(h)[1]
    _, Q1 = iwp_1d(model.nu, h)
    return onp.kron(Q1, onp.diag(sigma**2))


def kf_step(model, m, P, t, h, calib="none"):
    """One solver step. Returns dict with everything."""
    Phi, Q = model.trans(h)
    mp = Phi @ m
    H, b, R = model.linearize(mp, t + h)
    z = H @ mp + b
    bd = getattr(model, "blockdiag", False)
    sigma = onp.ones(model.d) if bd else 1.0
    S_Q = H @ Q @ H.T + R
    if calib == "dynamic":
        if bd:
            sigma = onp.abs(z) / onp.sqrt(onp.diag(S_Q))
        else:
            sigma = onp.sqrt(z @ onp.linalg.solve(S_Q, z) / z.size)
    Pp = Phi @ P @ Phi.T + scaled_Q(model, h, sigma)
    S = H @ Pp @ H.T + R
    K = Pp @ H.T @ onp.linalg.inv(S)
    mn = mp - K @ z
    Pn = Pp - K @ S @ K.T
    Pn = 0.5 * (Pn + Pn.T)
    if bd:
        mle_term = onp.abs(z) / onp.sqrt(onp.diag(S))
        sigma_loc = onp.abs(z) / onp.sqrt(onp.diag(S_Q))
    else:
        mle_term = onp.sqrt(z @ onp.linalg.solve(S, z) / z.size)
        # local error estimate quantities
        sigma_loc = onp.sqrt(z @ onp.linalg.solve(S_Q, z) / z.size)
    err = sigma_loc * onp.sqrt(onp.diag(S_Q))
    return dict(
        m=mn, P=Pn, mp=mp, Pp=Pp, Phi=Phi, Q=Q, sigma=sigma, mle_term=mle_term, err=err, z=z
    )


def adaptive_steps(
    model,
    m0,
    P0,
    t0,
    t1,
    *,
    atol,
    rtol,
    dt0,
    eps=1e-8,
    calib="none",
    clip_to=None,
    safety=0.95,
    fmin=0.2,
    fmax=10.0,
    pi=None,
):
    """Independent adaptive loop (integral controller). Returns the accepted step grid and attempts.

    clip_to: None (no clipping) or sorted array of checkpoints to clip at.
    """
    ts = [t0]
    t, m, P, dt = t0, m0, P0, dt0
    attempts = []
    n_coeffs = model.nu + 1
    prev = 1.0
    while t + eps < t1:
        while True:
            h = dt
            if clip_to is not None:
                nxt = [c for c in clip_to if t + eps < c]
                h = min(h, nxt[0] - t)
            res = kf_step(model, m, P, t, h, calib=calib)
            u0 = onp.abs(model.E0 @ m)
            u1 = onp.abs(model.E0 @ res["m"])
            ref = onp.maximum(u0, u1)
            err_abs = res["err"] * h
            rel = err_abs / (atol + rtol * ref)
            norm = onp.linalg.norm(rel) / onp.sqrt(rel.size)
            power = norm ** (-1.0 / n_coeffs)
            if pi is None:
                factor = max(fmin, min(safety * power, fmax))
            else:
                ei, ep = pi
                pw = min(power, 1.0 / onp.finfo(float).eps)
                factor = max(fmin, min(safety * pw**ei * (pw / prev) ** ep, fmax))
                if pw >= 1.0:
                    prev = pw
            dt = factor * h
            attempts.append((t, h, power >= 1.0))
            if power >= 1.0:
                break
        t, m, P = t + h, res["m"], res["P"]
        ts.append(t)
    return onp.asarray(ts), attempts


def filter_smoother(model, m0, P0, step_ts, query_ts=(), calib="none", sigmas=None, eps=0.0):
    """Run KF over the step grid, plus unobserved query nodes; then RTS.

    Returns dict: times (merged), is_step, filt (m,P), smooth (m,P), sigmas per step, mle terms.
    Query times equal (within eps) to a step end are mapped onto the step end.
    """
    step_ts = onp.asarray(step_ts)
    # First pass over steps only: get per-step sigma and linearisations
    m, P = m0, P0
    steps = []
    for k in range(len(step_ts) - 1):
        h = step_ts[k + 1] - step_ts[k]
        res = kf_step(model, m, P, step_ts[k], h, calib=calib)
        steps.append(res)
        m, P = res["m"], res["P"]
    step_sig = onp.asarray([s["sigma"] for s in steps])
    if sigmas is not None:
        step_sig = onp.asarray(sigmas)

    # merged nodes
    nodes = [(t, True, k) for k, t in enumerate(step_ts)]
    for q in query_ts:
        k = onp.searchsorted(step_ts, q)  # step_ts[k-1] < q <= step_ts[k]
        nodes.append((q, False, k))
    nodes.sort(key=lambda s: (s[0], s[1]))  # query before step if equal time
    # Forward
    filt = []
    preds = []
    m, P = m0, P0
    tprev = step_ts[0]
    filt.append((m, P))
    preds.append(None)
    assert nodes[0][1] and nodes[0][2] == 0
    last_step_state = (m0, P0, step_ts[0])
    for t, is_step, k in nodes[1:]:
        h = t - tprev
        Phi, Q = model.trans(h) if h != 0 else (onp.eye(len(m0)), onp.zeros((len(m0),) * 2))
        sig = step_sig[k - 1]
        mp = Phi @ m
        Pp = Phi @ P @ Phi.T + (scaled_Q(model, h, sig) if h != 0 else Q)
        if is_step:
            # linearise at the prediction from the previous step end (== mp by Chapman-Kolmogorov)
            H, b, R = model.linearize(mp, t)
            z = H @ mp + b
            S = H @ Pp @ H.T + R
            K = Pp @ H.T @ onp.linalg.inv(S)
            mn = mp - K @ z
            Pn = Pp - K @ S @ K.T
            Pn = 0.5 * (Pn + Pn.T)
        else:
            mn, Pn = mp, Pp
        preds.append((mp, Pp, Phi))
        filt.append((mn, Pn))
        m, P, tprev = mn, Pn, t
    # Backward (RTS)
    N = len(nodes)
    smooth = [None] * N
    gains = [None] * N
    smooth[-1] = filt[-1]
    for i in range(N - 2, -1, -1):
        mp, Pp, Phi = preds[i + 1]
        mf, Pf = filt[i]
        G = Pf @ Phi.T @ onp.linalg.pinv(Pp, hermitian=True)
        ms, Ps = smooth[i + 1]
        mi = mf + G @ (ms - mp)
        Pi = Pf + G @ (Ps - Pp) @ G.T
        smooth[i] = (mi, 0.5 * (Pi + Pi.T))
        gains[i] = G
    return dict(
        times=onp.asarray([n[0] for n in nodes]),
        is_step=onp.asarray([n[1] for n in nodes]),
        filt=filt,
        smooth=smooth,
        gains=gains,
        sigmas=step_sig,
        mle_terms=onp.asarray([s["mle_term"] for s in steps]),
    )
