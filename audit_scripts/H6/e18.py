import warnings
warnings.filterwarnings("ignore")
from common import *
u0 = jnp.asarray([0.4, 0.8])
sa = jnp.asarray([0.0, 0.5, 0.7, 1.0])
for ssm_name in ["dense", "blockdiag"]:
  for solver_name in ["none", "mle", "dynamic"]:
    S = setup(ssm_name, f_coupled, u0, 0.0, 2, "ts0", solver_name, "fixedpoint")
    solve = ivpsolve.solve_adaptive_save_at(solver=S["solver"], error=S["error"])
    sol = solve(S["prior"], save_at=sa, atol=1e-3, rtol=1e-3, dt0=0.1)
    print(ssm_name, solver_name, "t", sol.t.shape, "u", sol.u.mean_flat.shape, "output_scale", sol.output_scale.shape, "num_steps", sol.num_steps.shape)
