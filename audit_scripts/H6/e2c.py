import warnings
warnings.filterwarnings("ignore")
import sys
sys.argv = ["x", "2", "dense", "coincide"]
from e2 import *
for solver_name in ["none","dynamic","mle"]:
  for strat in ["fixedpoint","filter"]:
    sol, E = run("dense", "ts1", solver_name, strat, "coincide")
    S = setup("dense", f_coupled, u0, t0, nu, "ts1", solver_name, strat)
    solve = ivpsolve.solve_adaptive_save_at(solver=S["solver"], error=S["error"], clip_dt=False)
    save_at = onp.asarray(sol.t)
    # NOTE sol.t are reported times; use the requested: recompute
    import e2
    mlib, Clib = mvn(sol.u)
    for drop in [[6], [2,3,5,6,7], list(range(1,13))]:
        keep = [i for i in range(len(save_at)) if i not in drop]
        sub = jax.jit(lambda p, s: solve(p, save_at=s, atol=atol, rtol=rtol, dt0=0.1, eps=eps))(S["prior"], jnp.asarray(save_at[keep]))
        ms, Cs = mvn(sub.u)
        print(solver_name, strat, drop, "mean", maxdiff(ms, mlib[keep]), "cov", maxdiff(Cs, Clib[keep]), "nsteps", maxdiff(sub.num_steps, onp.asarray(sol.num_steps)[onp.asarray(keep[1:])-1]), "scale", maxdiff(sub.output_scale[-1], sol.output_scale[-1]))
