import jax

jax.config.update("jax_enable_x64", True)
import jax.numpy as jnp
import numpy as onp

import probdiffeq
from probdiffeq import ivpsolve
from probdiffeq import probdiffeq as pdq
from probdiffeq.util import test_util

print("using", probdiffeq.__file__)

import ref


def f_coupled(u, t):
    # Nonlinear, coupled, time-dependent
    return jnp.stack([u[0] * (1.0 - u[1]) + 0.1 * jnp.sin(t), -0.5 * u[1] * (1 - u[0]) * (1 + 0.2 * t)])


def f_decoupled(u, t):
    # decoupled logistic (diagonal Jacobian)
    return jnp.stack([2.0 * u[0] * (1.0 - u[0]), -1.5 * u[1] * (1 + 0.3 * u[1]) + 0.0 * t])


def f_linear_iso(u, t):
    # Jacobian is a multiple of the identity
    return -0.7 * u + jnp.cos(t) * jnp.ones_like(u)


SSMS = {
    "dense": pdq.state_space_model_dense,
    "isotropic": pdq.state_space_model_isotropic,
    "blockdiag": pdq.state_space_model_blockdiag,
}
SOLVERS = {"none": pdq.solver, "mle": pdq.solver_mle, "dynamic": pdq.solver_dynamic}
STRATS = {
    "filter": pdq.strategy_filter,
    "fixedinterval": pdq.strategy_smoother_fixedinterval,
    "fixedpoint": pdq.strategy_smoother_fixedpoint,
}


def setup(ssm_name, f, u0, t0, nu, mode, solver_name, strat_name, **solver_kw):
    ssm = SSMS[ssm_name]()
    vf = pdq.ode(lambda y, *, t: f(y, t), jacobian=pdq.jacobian_materialize())
    jetexpand = pdq.jetexpand_ode_padded_scan(num=nu)
    tcoeffs, _ = jetexpand(vf, (u0,), t=t0)
    prior = ssm.prior_wiener_integrated(tcoeffs)
    if mode == "ts0":
        constraint = ssm.constraint_ode_ts0(vf)
    else:
        constraint = ssm.constraint_ode_ts1(vf)
    strategy = STRATS[strat_name]()
    solver = SOLVERS[solver_name](strategy=strategy, constraint=constraint, **solver_kw)
    error = pdq.error_residual_std(constraint=constraint)
    m0 = onp.concatenate([onp.asarray(c).reshape(-1) for c in tcoeffs])
    return dict(ssm=ssm, vf=vf, prior=prior, constraint=constraint, solver=solver, error=error, m0=m0, tcoeffs=tcoeffs)


def mvn(rv):
    m, C = rv.to_multivariate_normal()
    return onp.asarray(m), onp.asarray(C)


def maxdiff(a, b):
    a, b = onp.asarray(a), onp.asarray(b)
    return float(onp.max(onp.abs(a - b)))


def reldiff(a, b):
    a, b = onp.asarray(a), onp.asarray(b)
    return float(onp.max(onp.abs(a - b)) / (onp.max(onp.abs(b)) + 1e-300))
