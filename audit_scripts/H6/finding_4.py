"""Finding 4 (C05 / C06): a repeated checkpoint strictly inside a step yields NaN (silently).

`save_at = [0, 0.5, 0.5, 1]`: the two equal checkpoints are "separated by less than eps".  If they lie within eps
of a step end the library handles them (both report the step-end state).  If they lie strictly inside a step,
the second one takes the `interp_beyond_t1` branch with interp_from.t == t, i.e. a transition with dt = 0,
whose Taylor preconditioner contains 0**(-k) = inf -> NaN.
  * filter: the duplicated entry is NaN (the other entries are fine);
  * fixed-point smoother: the NaN conditional enters the backward pass and ALL outputs (even at t0) become NaN.
Expected: the duplicated checkpoint reproduces the value of its twin and the other checkpoints are unaffected
(or the malformed grid is rejected with an error).  Checkpoints that differ by 1e-12 work fine.
"""

import sys
import warnings

import jax

jax.config.update("jax_enable_x64", True)
import jax.numpy as jnp
import numpy as np

import probdiffeq
from probdiffeq import ivpsolve
from probdiffeq import probdiffeq as pdq

print("probdiffeq from", probdiffeq.__file__)
warnings.filterwarnings("ignore")


def f(u, *, t):
    return jnp.stack([u[0] * (1.0 - u[1]) + 0.1 * jnp.sin(t), -0.5 * u[1] * (1 - u[0])])


u0 = jnp.asarray([0.4, 0.8])
defect = False
for name, strategy in [("filter", pdq.strategy_filter()), ("fixedpoint", pdq.strategy_smoother_fixedpoint())]:
    ssm = pdq.state_space_model_dense()
    vf = pdq.ode(f)
    tcoeffs, _ = pdq.jetexpand_ode_padded_scan(num=2)(vf, (u0,), t=0.0)
    prior = ssm.prior_wiener_integrated(tcoeffs)
    ts0 = ssm.constraint_ode_ts0(vf)
    solver = pdq.solver(strategy=strategy, constraint=ts0)
    error = pdq.error_residual_std(constraint=ts0)
    solve = ivpsolve.solve_adaptive_save_at(solver=solver, error=error)

    base = solve(prior, save_at=jnp.asarray([0.0, 0.5, 1.0]), atol=1e-3, rtol=1e-3)
    near = solve(prior, save_at=jnp.asarray([0.0, 0.5, 0.5 + 1e-12, 1.0]), atol=1e-3, rtol=1e-3)
    dup = solve(prior, save_at=jnp.asarray([0.0, 0.5, 0.5, 1.0]), atol=1e-3, rtol=1e-3)
    ub = np.asarray(base.u.mean[0])
    un = np.asarray(near.u.mean[0])
    ud = np.asarray(dup.u.mean[0])
    print(f"\n[{name}]")
    print("  save_at=[0, .5, 1]            u =", ub.tolist())
    print("  save_at=[0, .5, .5+1e-12, 1]  u =", un.tolist())
    print("  save_at=[0, .5, .5, 1]        u =", ud.tolist(), " reported t =", np.asarray(dup.t).tolist())
    if np.isnan(ud).any():
        defect = True

if defect:
    print("\nDEFECT PRESENT: duplicate checkpoint inside a step -> NaN")
    sys.exit(1)
print("\nno defect")
