import warnings
warnings.filterwarnings("ignore")
from common import *
lam = 1e4
def f(u, t): return -lam * jnp.exp(u)
u0 = jnp.asarray([0.0])
save_at = jnp.asarray([0.0, 0.5, 1.0])
for strat in ["filter", "fixedpoint"]:
  for dt0 in [0.1, 1e-3, 1e-5]:
    S = setup("dense", f, u0, 0.0, 2, "ts1", "none", strat)
    solve = ivpsolve.solve_adaptive_save_at(solver=S["solver"], error=S["error"])
    sol = solve(S["prior"], save_at=save_at, atol=1e-6, rtol=1e-6, dt0=dt0)
    print(strat, "dt0", dt0, "u:", onp.asarray(sol.u.mean[0]).ravel(), "exact", -onp.log(1 + lam*onp.asarray(save_at)), "num_steps", sol.num_steps)
