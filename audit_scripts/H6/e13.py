import warnings, sys
warnings.filterwarnings("ignore")
from e2lib import *
import refhp
from refhp import Dm, inv, tofloat
from probdiffeq.backend import linalg
onp.set_printoptions(linewidth=220, precision=2)
t0=0.0; u0 = jnp.asarray([0.4, 0.8]); nu=5; f=f_coupled
fnp = lambda u, t: onp.asarray(f(jnp.asarray(u), t))
grid = onp.asarray([0.0, 0.25, 0.5, 0.75, 1.0])
S = setup("dense", f, u0, t0, nu, "ts0", "none", "fixedinterval")
sol = jax.jit(ivpsolve.solve_fixed_grid(solver=S["solver"]))(S["prior"], grid=jnp.asarray(grid))
rv = jax.tree_util.tree_map(lambda s: s[-1], sol.solution_full.filtering)
R = refhp.filter_smoother(fnp, nu, 2, S["m0"], grid, [])
# HP filtering cov at t=1 (decimal)
import decimal
# recompute in decimal: reuse function internals by rerunning quickly
def hp_filter():
    D = (nu+1)*2
    E0 = refhp.kron(Dm(onp.eye(nu+1)[0:1]), refhp.eye(2)); E1 = refhp.kron(Dm(onp.eye(nu+1)[1:2]), refhp.eye(2))
    m = Dm(S["m0"]); P = Dm(onp.zeros((D,D))); t = 0.0
    for tn in grid[1:]:
        Phi, Q = refhp.iwp(nu, 2, decimal.Decimal(float(tn)) - decimal.Decimal(float(t)))
        mp = Phi @ m; Pp = Phi @ P @ Phi.T + Q
        fu = Dm(fnp(tofloat(E0 @ mp), tn)); z = E1 @ mp - fu; Sm = E1 @ Pp @ E1.T
        K = Pp @ E1.T @ inv(Sm); m = mp - K @ z; P = Pp - K @ Sm @ K.T; t = tn
    return m, P
mH, PH = hp_filter()
print("lib filtering vs HP: mean", maxdiff(rv.mean_flat, tofloat(mH)), "cov rel", reldiff(rv.cholesky_flat @ rv.cholesky_flat.T, tofloat(PH)))
for dt in [1e-1, 1e-2, 1e-3, 1e-4, 1e-5]:
    Phi, Q = refhp.iwp(nu, 2, dt)
    Pp = Phi @ PH @ Phi.T + Q
    G = PH @ Phi.T @ inv(Pp)
    Cb = PH - G @ Pp @ G.T
    bH = mH - G @ (Phi @ mH)
    tr = S["prior"].transition(dt=dt, output_scale=jnp.ones(()))
    # (a) library: preconditioned revert
    _, cond = tr.revert(rv, solve_triu=linalg.solve_triu)
    c = cond.preconditioner_apply()
    Ga = onp.asarray(c.A); ba = onp.asarray(c.noise.mean_flat); Ca = onp.asarray(c.noise.cholesky_flat @ c.noise.cholesky_flat.T)
    # (b) same algorithm, no preconditioner
    tr_np = tr.preconditioner_apply()
    _, cond2 = tr_np.revert(rv, solve_triu=linalg.solve_triu)
    Gb = onp.asarray(cond2.A); bb = onp.asarray(cond2.noise.mean_flat); Cb2 = onp.asarray(cond2.noise.cholesky_flat @ cond2.noise.cholesky_flat.T)
    rng = onp.random.default_rng(0)
    Lf = onp.asarray(rv.cholesky_flat); LQ = onp.asarray(tr_np.noise.cholesky_flat)
    sdf = onp.sqrt(onp.abs(onp.diag(tofloat(PH))))
    mask = sdf > 1e-30
    worst_a = worst_b = 0.0
    for _ in range(20):
        x = Phi @ (mH + Dm(Lf @ rng.normal(size=Lf.shape[1]))) + Dm(LQ @ rng.normal(size=LQ.shape[1]))
        ref_val = tofloat(G @ x + bH)
        xf = tofloat(x)
        ea = onp.abs(Ga @ xf + ba - ref_val)[mask] / sdf[mask]
        eb = onp.abs(Gb @ xf + bb - ref_val)[mask] / sdf[mask]
        worst_a = max(worst_a, ea.max()); worst_b = max(worst_b, eb.max())
    print(f"dt={dt:.0e} precond: smoothing-update err/std {worst_a:.1e} noise-cov relerr {reldiff(Ca, tofloat(Cb)):.1e} | no-precond: err/std {worst_b:.1e} noise-cov relerr {reldiff(Cb2, tofloat(Cb)):.1e}")
