import warnings
warnings.filterwarnings("ignore")
from common import *
u0 = jnp.asarray([0.4, 0.8])
for strat in ["filter", "fixedpoint"]:
  for sa in [[0.0, 0.5, 0.5, 1.0], [0.0, 0.5, 0.5 + 1e-12, 1.0], [0.0, 0.5, 0.5+1e-9, 1.0]]:
    S = setup("dense", f_coupled, u0, 0.0, 3, "ts0", "none", strat)
    solve = ivpsolve.solve_adaptive_save_at(solver=S["solver"], error=S["error"])
    sol = solve(S["prior"], save_at=jnp.asarray(sa), atol=1e-3, rtol=1e-3, dt0=0.1)
    base = solve(S["prior"], save_at=jnp.asarray([0.0, 0.5, 1.0]), atol=1e-3, rtol=1e-3, dt0=0.1)
    m, C = mvn(sol.u); mb, Cb = mvn(base.u)
    print(strat, sa, "t", onp.asarray(sol.t), "nan:", bool(onp.isnan(m).any() or onp.isnan(C).any()), "diff to no-duplicate run (idx 0,1,3):", maxdiff(m[[0,1,3]], mb), "dup diff", maxdiff(m[1], m[2]), "num_steps", sol.num_steps)
