"""from_grid prior: sample law and marginals."""
import warnings
warnings.filterwarnings("ignore")
from common import *
from jax.experimental import io_callback
from probdiffeq.backend import random as pd_random
QUEUE = []
def _host_next(m): return QUEUE.pop(0).reshape(m.shape)
def patched_normal(key, /, shape, dtype=None):
    return io_callback(_host_next, jax.ShapeDtypeStruct(shape, jnp.float64), jnp.zeros(shape), ordered=True)
grid = jnp.asarray([0.0, 0.1, 0.5, 0.55, 1.5])
N = len(grid)
nu, d = 2, 2
tcoeffs = [jnp.asarray([0.3, -1.0]), jnp.asarray([2.0, 0.5])]
for ssm_name in ["dense", "isotropic", "blockdiag"]:
    ssm = SSMS[ssm_name]()
    if ssm_name == "isotropic":
        os_ = 3.0; Lam = 3.0 * onp.eye(d)
    else:
        os_ = jnp.asarray([3.0, 0.5]); Lam = onp.diag([3.0, 0.5])
    prior = ssm.prior_wiener_integrated(tcoeffs, is_exact=False, inexact_eps=0.2, diffuse_derivatives=1, diffuse_eps=2.0, output_scale=os_)
    m0 = onp.concatenate([onp.asarray(c) for c in tcoeffs] + [onp.zeros(d)])
    P0 = onp.diag(onp.concatenate([0.2**2 * onp.ones(2 * d), 4.0 * onp.ones(d)]))
    # reference joint law
    D = (nu + 1) * d
    means = [m0]; Ps = [P0]; Phis = []
    for h in onp.diff(onp.asarray(grid)):
        Phi, Q = ref.iwp(nu, d, h, Lam)
        Phis.append(Phi); means.append(Phi @ means[-1]); Ps.append(Phi @ Ps[-1] @ Phi.T + Q)
    C = [[None]*N for _ in range(N)]
    for a in range(N):
        C[a][a] = Ps[a]; T = onp.eye(D)
        for b in range(a + 1, N):
            T = Phis[b - 1] @ T
            C[b][a] = T @ Ps[a]; C[a][b] = C[b][a].T
    Cref = onp.block(C); Mref = onp.concatenate(means)
    mseq = pdq.MarkovSequence.from_grid(prior, grid=grid, reverse=False)
    marg = mseq.evaluate_marginals()
    mm, CC = mvn(marg)
    print(ssm_name, "marginals: mean", maxdiff(mm.reshape(-1), Mref), "cov", max(reldiff(CC[i], Ps[i]) for i in range(N)))
    orig = pd_random.normal; pd_random.normal = patched_normal
    try:
        def flat_sample():
            smp = mseq.sample(jax.random.PRNGKey(0))
            return onp.concatenate([onp.asarray(c).reshape(N, -1) for c in smp], axis=1).reshape(-1)
        QUEUE[:] = [onp.zeros(D) for _ in range(N)]
        s0 = flat_sample()
        L = onp.zeros((N * D, N * D))
        for k in range(N * D):
            z = onp.zeros(N * D); z[k] = 1
            QUEUE[:] = [z[i*D:(i+1)*D] for i in range(N)]
            L[:, k] = flat_sample() - s0
    finally:
        pd_random.normal = orig
    print("   sample0 vs mean", maxdiff(s0, Mref), "gram vs prior joint cov", reldiff(L @ L.T, Cref))
    for shape in [(), (3,), (3, 2)]:
        smp = mseq.sample(jax.random.PRNGKey(0), shape=shape)
        print("   shape", shape, [c.shape for c in smp])
