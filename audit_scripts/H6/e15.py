"""PI controller, nonstandard parameters, clip on/off: step grid + checkpoints vs reference."""
import warnings
warnings.filterwarnings("ignore")
from e2lib import *
t0, t1 = 0.0, 3.0
u0 = jnp.asarray([0.4, 0.8]); nu = 2; eps = 1e-8
rng = onp.random.default_rng(5)
for trial in range(6):
    safety = rng.uniform(0.6, 1.0); fmin = rng.uniform(0.05, 0.5); fmax = rng.uniform(1.5, 20.0)
    ei, ep = rng.uniform(0.1, 0.7), rng.uniform(0.0, 0.6)
    tol = 10 ** rng.uniform(-5, -2); dt0 = 10 ** rng.uniform(-3, 1)
    use_pi = trial % 2 == 0
    clip = trial % 3 == 0
    solver_name = ["none", "dynamic", "mle"][trial % 3]
    ssm_name = ["dense", "blockdiag", "isotropic"][trial % 3]
    strat = ["fixedpoint", "filter"][trial % 2]
    f = f_coupled
    S = setup(ssm_name, f, u0, t0, nu, "ts0", solver_name, strat)
    model = ref.Model(f, nu, 2, mode="ts0"); model.blockdiag = ssm_name == "blockdiag"
    D = len(S["m0"]); P0 = onp.zeros((D, D))
    calib = "dynamic" if solver_name == "dynamic" else "none"
    save_at = onp.concatenate([[t0], onp.sort(rng.uniform(t0, t1, size=7)), [t1]])
    if use_pi:
        control = ivpsolve.control_proportional_integral(safety=safety, factor_min=fmin, factor_max=fmax, exponent_integral=ei, exponent_proportional=ep)
    else:
        control = ivpsolve.control_integral(safety=safety, factor_min=fmin, factor_max=fmax)
    ts_ref, attempts = ref.adaptive_steps(model, S["m0"], P0, t0, t1, atol=tol, rtol=tol, dt0=dt0, calib=calib, safety=safety, fmin=fmin, fmax=fmax,
                                   pi=(ei, ep) if use_pi else None, clip_to=list(save_at[1:]) if clip else None)
    E = expected(model, S["m0"], P0, ts_ref, save_at, eps, smoother=(strat == "fixedpoint"), calib=calib, D=D)
    solve = ivpsolve.solve_adaptive_save_at(solver=S["solver"], error=S["error"], clip_dt=clip, control=control)
    sol = jax.jit(lambda p, s: solve(p, save_at=s, atol=tol, rtol=tol, dt0=dt0, eps=eps))(S["prior"], jnp.asarray(save_at))
    mlib, Clib = mvn(sol.u)
    em = max(maxdiff(mlib[i], E["rv"][i][0]) for i in range(len(save_at)))
    nrej = sum(1 for a in attempts if not a[2])
    print(f"trial {trial} pi={use_pi} clip={clip} {ssm_name} {solver_name} {strat} tol={tol:.1e} dt0={dt0:.1e} steps={len(ts_ref)-1} rejected={nrej}: mean err {em:.1e}, t err {maxdiff(sol.t, E['t']):.1e}, nsteps err {maxdiff(sol.num_steps, E['nsteps'][1:]):.0f}", flush=True)
