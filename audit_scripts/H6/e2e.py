import warnings
warnings.filterwarnings("ignore")
from e2lib import *
onp.set_printoptions(linewidth=200, precision=3)
t0=0.0; t1=3.0; u0 = jnp.asarray([0.4, 0.8]); atol=rtol=1e-3
nu=4; ssm_name="dense"; f=f_coupled
S = setup(ssm_name, f, u0, t0, nu, "ts0", "none", "fixedpoint")
model = ref.Model(f, nu, 2, mode="ts0")
D = len(S["m0"])
ts_ref, _ = ref.adaptive_steps(model, S["m0"], onp.zeros((D,D)), t0, t1, atol=atol, rtol=rtol, dt0=0.1)
print("steps", ts_ref)
solve = ivpsolve.solve_adaptive_save_at(solver=S["solver"], error=S["error"], clip_dt=False)
run = jax.jit(lambda p, s, e: solve(p, save_at=s, atol=atol, rtol=rtol, dt0=0.1, eps=e))
k = len(ts_ref)//2
base = onp.asarray([t0, 0.5, 1.0, ts_ref[k]-0.01, t1])
sol0 = run(S["prior"], jnp.asarray(base), 1e-8)
m0_, C0_ = mvn(sol0.u)
for gap in [1e-2, 1e-3, 1e-4, 1e-5]:
    sa = onp.sort(onp.concatenate([base, [ts_ref[k] + gap]]))
    idx = [i for i in range(len(sa)) if sa[i] in base]
    sol = run(S["prior"], jnp.asarray(sa), 1e-8)
    m, C = mvn(sol.u)
    print("gap", gap)
    for j,i in enumerate(idx):
        sd = onp.sqrt(onp.diag(C0_[j]))
        print("  t=%.3f"%sa[i], "absdiff", onp.abs(m[i]-m0_[j]), "\n        in std units", onp.abs(m[i]-m0_[j])/(sd+1e-300))
