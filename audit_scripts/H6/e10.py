import warnings, sys
warnings.filterwarnings("ignore")
from e2lib import *
t0=0.0; t1=3.0; u0 = jnp.asarray([0.4, 0.8])
f=f_coupled
for nu, tol in [(3,1e-3),(5,1e-4),(6,1e-6),(8,1e-8)]:
  for ssm_name in ["dense","blockdiag"]:
    S = setup(ssm_name, f, u0, t0, nu, "ts0", "none", "fixedpoint")
    solve = ivpsolve.solve_adaptive_save_at(solver=S["solver"], error=S["error"], clip_dt=False)
    run = jax.jit(lambda p, s: solve(p, save_at=s, atol=tol, rtol=tol, dt0=0.1))
    # find step ends via the filter/fixedinterval save-every-step run
    S2 = setup(ssm_name, f, u0, t0, nu, "ts0", "none", "filter")
    every = test_util.solve_adaptive_save_every_step(solver=S2["solver"], error=S2["error"])(S2["prior"], t0, t1, atol=tol, rtol=tol, dt0=0.1)
    ts = onp.asarray(every.t)
    k = len(ts)//2
    base = [t0, 0.5, 1.0, ts[k]-0.01, t1]
    sol0 = run(S["prior"], jnp.asarray(base))
    m0_, C0_ = mvn(sol0.u)
    sd = onp.sqrt(onp.abs(onp.stack([onp.diag(c) for c in C0_])))+1e-300
    out = []
    for gap in [1e-2,1e-3,1e-4,1e-5,1e-6,1e-7]:
        sa = onp.sort(onp.asarray(base + [ts[k]+gap]))
        idx = [i for i in range(len(sa)) if sa[i] in base]
        sol = run(S["prior"], jnp.asarray(sa))
        m, C = mvn(sol.u)
        e = onp.abs(m[idx]-m0_)/sd
        out.append(f"{gap:.0e}: all {onp.nanmax(e[1:-1]):.1e} u {onp.nanmax(e[1:-1,:2]):.1e} abs_u {onp.nanmax(onp.abs(m[idx]-m0_)[1:-1,:2]):.1e} nan={bool(onp.isnan(m).any())}")
    print(f"nu={nu} tol={tol} {ssm_name} nsteps={len(ts)-1} h={ts[k+1]-ts[k]:.3f} | " + " | ".join(out), flush=True)
