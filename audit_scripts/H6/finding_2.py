"""Finding 2 (C05 / C03): a short sub-step right after a step end destroys the smoothing posterior
at all EARLIER output times (rounding errors amplified by ~1e12 and more).

Part A (C05, checkpoint-set independence).  Fixed-point smoother, solve_adaptive_save_at, clip_dt=False.
  Checkpoint set B = A + {one extra checkpoint 1e-4 after an accepted step end}.  The step sequence is
  identical (same num_steps), hence the values at the checkpoints of A must agree up to rounding.
  Observed: the smoothing means at the earlier checkpoints move by many posterior standard deviations.

Part B (C03, exact RTS posterior on non-uniform grids).  Fixed-interval smoother on a fixed grid that
  contains one short step (1.0 -> 1.0001) is compared with a textbook Kalman filter / RTS smoother evaluated
  in 120-digit decimal arithmetic (same TS0 linearisation, uncalibrated solver, exact initial condition).
  Without the short step the library agrees to ~1e-9 posterior std; with it, the smoothed means at all grid
  points BEFORE the short step are off by O(0.1) posterior std (filter results stay accurate).
"""

import decimal
import sys
import warnings
from decimal import Decimal
from math import factorial

import jax

jax.config.update("jax_enable_x64", True)
import jax.numpy as jnp
import numpy as np

import probdiffeq
from probdiffeq import ivpsolve
from probdiffeq import probdiffeq as pdq
from probdiffeq.util import test_util

print("probdiffeq from", probdiffeq.__file__)
warnings.filterwarnings("ignore")
np.set_printoptions(precision=3, linewidth=200)
decimal.getcontext().prec = 120

NU = 5
u0 = jnp.asarray([0.4, 0.8])
t0 = 0.0


def f(u, *, t):
    return jnp.stack([u[0] * (1.0 - u[1]) + 0.1 * jnp.sin(t), -0.5 * u[1] * (1 - u[0]) * (1 + 0.2 * t)])


def make(ssm_factory, strategy):
    ssm = ssm_factory()
    vf = pdq.ode(f)
    tcoeffs, _ = pdq.jetexpand_ode_padded_scan(num=NU)(vf, (u0,), t=t0)
    prior = ssm.prior_wiener_integrated(tcoeffs)
    ts0 = ssm.constraint_ode_ts0(vf)
    solver = pdq.solver(strategy=strategy, constraint=ts0)
    error = pdq.error_residual_std(constraint=ts0)
    m0 = np.concatenate([np.asarray(c).reshape(-1) for c in tcoeffs])
    return prior, solver, error, m0


defect = False

# ----------------------------------------------------------------------------------------------
# Part A
# ----------------------------------------------------------------------------------------------
print("\n=== Part A: superset of checkpoints vs subset (fixed-point smoother, save_at) ===")
tol, t1 = 1e-4, 3.0
for name, factory in [("blockdiag", pdq.state_space_model_blockdiag), ("dense", pdq.state_space_model_dense)]:
    prior, solver_f, error, _ = make(factory, pdq.strategy_filter())
    every = test_util.solve_adaptive_save_every_step(solver=solver_f, error=error)(
        prior, t0, t1, atol=tol, rtol=tol, dt0=0.1
    )
    steps = np.asarray(every.t)
    k = len(steps) // 2
    s_k, h = steps[k], steps[k + 1] - steps[k]

    prior, solver, error, _ = make(factory, pdq.strategy_smoother_fixedpoint())
    solve = ivpsolve.solve_adaptive_save_at(solver=solver, error=error, clip_dt=False)
    run = jax.jit(lambda s: solve(prior, save_at=s, atol=tol, rtol=tol, dt0=0.1))
    A = np.asarray([t0, 0.5, 1.0, s_k - 0.01, t1])
    solA = run(jnp.asarray(A))
    mA, CA = (np.asarray(x) for x in solA.u.to_multivariate_normal())
    print(f"[{name}] accepted step ends around the extra checkpoint: {s_k:.6f} -> {steps[k + 1]:.6f} (h={h:.3f})")
    for gap in [1e-3, 1e-4, 1e-5]:
        B = np.sort(np.concatenate([A, [s_k + gap]]))
        idx = [int(np.where(B == a)[0][0]) for a in A]
        solB = run(jnp.asarray(B))
        mB, _ = (np.asarray(x) for x in solB.u.to_multivariate_normal())
        same_steps = int(solA.num_steps[-1]) == int(solB.num_steps[-1])
        i = 2  # checkpoint t = 1.0
        std = np.sqrt(np.diag(CA[i]))[:2]
        diff = np.abs(mB[idx[i]] - mA[i])[:2]
        print(
            f"   extra checkpoint at step end + {gap:.0e}: num_steps equal: {same_steps};"
            f" u(1.0) subset {mA[i][:2]}, superset {mB[idx[i]][:2]}; |diff| = {diff}, posterior std = {std},"
            f" |diff|/std = {diff / std}   (expected: ~1e-9 or less)"
        )
        if same_steps and np.max(diff / std) > 1e-2:
            defect = True


# ----------------------------------------------------------------------------------------------
# Part B: high-precision textbook Kalman filter + RTS smoother
# ----------------------------------------------------------------------------------------------
def Dm(a):
    a = np.asarray(a, dtype=float)
    out = np.empty(a.shape, dtype=object)
    for ix in np.ndindex(a.shape):
        out[ix] = Decimal(float(a[ix]))
    return out


def eye(n):
    return Dm(np.eye(n))


def inv(A):
    n = A.shape[0]
    M = np.concatenate([A.copy(), eye(n)], axis=1)
    for c in range(n):
        p = max(range(c, n), key=lambda r: abs(M[r, c]))
        if p != c:
            M[[c, p]] = M[[p, c]]
        M[c] = M[c] / M[c, c]
        for r in range(n):
            if r != c and M[r, c] != 0:
                M[r] = M[r] - M[r, c] * M[c]
    return M[:, n:]


def kron(A, B):
    n, m = A.shape
    p, q = B.shape
    out = np.empty((n * p, m * q), dtype=object)
    for i in range(n):
        for j in range(m):
            out[i * p : (i + 1) * p, j * q : (j + 1) * q] = A[i, j] * B
    return out


def iwp(nu, d, h):
    n = nu + 1
    Phi = np.empty((n, n), dtype=object)
    Q = np.empty((n, n), dtype=object)
    for i in range(n):
        for j in range(n):
            Phi[i, j] = h ** (j - i) / Decimal(factorial(j - i)) if j >= i else Decimal(0)
            p = 2 * nu + 1 - i - j
            Q[i, j] = h**p / (Decimal(p) * Decimal(factorial(nu - i)) * Decimal(factorial(nu - j)))
    return kron(Phi, eye(d)), kron(Q, eye(d))


def reference(m0, grid, nu=NU, d=2):
    """Textbook KF (TS0: z = E1 x - f(E0 m^-), noise-free) and RTS smoother in 120-digit arithmetic."""
    D = (nu + 1) * d
    E0 = kron(Dm(np.eye(nu + 1)[0:1]), eye(d))
    E1 = kron(Dm(np.eye(nu + 1)[1:2]), eye(d))
    m, P = Dm(m0), Dm(np.zeros((D, D)))
    filt, preds = [(m, P)], [None]
    for a, b in zip(grid[:-1], grid[1:]):
        Phi, Q = iwp(nu, d, Decimal(float(b)) - Decimal(float(a)))
        mp, Pp = Phi @ m, Phi @ P @ Phi.T + Q
        fu = Dm(np.asarray(f(jnp.asarray(np.asarray(E0 @ mp, dtype=float)), t=float(b))))
        z, S = E1 @ mp - fu, E1 @ Pp @ E1.T
        K = Pp @ E1.T @ inv(S)
        m, P = mp - K @ z, Pp - K @ S @ K.T
        preds.append((mp, Pp, Phi))
        filt.append((m, P))
    smooth = [None] * len(grid)
    smooth[-1] = filt[-1]
    for i in range(len(grid) - 2, -1, -1):
        mp, Pp, Phi = preds[i + 1]
        mf, Pf = filt[i]
        G = Pf @ Phi.T @ inv(Pp)
        ms, Ps = smooth[i + 1]
        smooth[i] = (mf + G @ (ms - mp), Pf + G @ (Ps - Pp) @ G.T)
    tofloat = lambda x: np.asarray(x, dtype=float)
    return [(tofloat(a), tofloat(b)) for a, b in filt], [(tofloat(a), tofloat(b)) for a, b in smooth]


print("\n=== Part B: fixed grid with one short step vs exact (120-digit) RTS smoother ===")
for name, factory in [("dense", pdq.state_space_model_dense), ("isotropic", pdq.state_space_model_isotropic)]:
    for gap in [None, 1e-3, 1e-4]:
        grid = [0.0, 0.25, 0.5, 0.75, 1.0] + ([1.0 + gap] if gap else []) + [1.25, 1.5, 1.75, 2.0]
        grid = np.asarray(grid)
        for sname, strategy in [("filter", pdq.strategy_filter()), ("fixedinterval", pdq.strategy_smoother_fixedinterval())]:
            prior, solver, error, m0 = make(factory, strategy)
            sol = jax.jit(ivpsolve.solve_fixed_grid(solver=solver))(prior, grid=jnp.asarray(grid))
            m, C = (np.asarray(x) for x in sol.u.to_multivariate_normal())
            filt, smooth = reference(m0, grid)
            which = smooth if sname == "fixedinterval" else filt
            errs = []
            for i in range(1, len(grid)):
                mr, Pr = which[i]
                sd = np.sqrt(np.abs(np.diag(Pr)))[:2]
                errs.append(np.max(np.abs(m[i] - mr)[:2] / sd))
            errs = np.asarray(errs)
            print(f"[{name}] short step: {gap}, {sname:13s}: |mean(u) - exact| / exact std at grid points 1..N: {errs}")
            if sname == "fixedinterval" and gap is not None and errs.max() > 1e-2:
                defect = True

if defect:
    print("\nDEFECT PRESENT: smoothing marginals depend on the checkpoint set / deviate from the exact RTS posterior")
    sys.exit(1)
print("\nno defect")
