import warnings, sys
warnings.filterwarnings("ignore")
from e2lib import *
import refhp
onp.set_printoptions(linewidth=220, precision=2)
t0=0.0; u0 = jnp.asarray([0.4, 0.8])
nu=int(sys.argv[1]); ssm_name=sys.argv[2]
f=f_coupled
fnp = lambda u, t: onp.asarray(f(jnp.asarray(u), t))
for gap in [None, 1e-3, 1e-4]:
    grid = [0.0, 0.25, 0.5, 0.75, 1.0] + ([1.0 + gap] if gap else []) + [1.25, 1.5, 1.75, 2.0]
    grid = onp.asarray(grid)
    for strat in ["fixedinterval", "filter"]:
        S = setup(ssm_name, f, u0, t0, nu, "ts0", "none", strat)
        sol = jax.jit(ivpsolve.solve_fixed_grid(solver=S["solver"]))(S["prior"], grid=jnp.asarray(grid))
        m, C = mvn(sol.u)
        R = refhp.filter_smoother(fnp, nu, 2, S["m0"], grid, [])
        which = R["smooth"] if strat == "fixedinterval" else R["filt"]
        errs = []
        for i in range(1, len(grid)):
            mr, Pr = which[i]
            sd = onp.sqrt(onp.abs(onp.diag(Pr)))
            errs.append(onp.max((onp.abs(m[i]-mr)/(sd+1e-300))[:2]))
        print("gap", gap, strat, "err/std(u) per grid point:", onp.asarray(errs))
