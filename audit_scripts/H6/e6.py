import warnings
warnings.filterwarnings("ignore")
from common import *
t0, t1 = 0.0, 1.0
u0 = jnp.asarray([0.4, 0.8])
for solver_name in ["none", "mle", "dynamic"]:
  for strat in ["filter", "fixedpoint"]:
    S = setup("dense", f_coupled, u0, t0, 2, "ts0", solver_name, strat)
    sa = ivpsolve.solve_adaptive_save_at(solver=S["solver"], error=S["error"])
    try:
        b = sa(S["prior"], save_at=jnp.asarray([t0]), atol=1e-3, rtol=1e-3)
        print(solver_name, strat, "OK t", b.t, "u mean", mvn(b.u)[0], "scale", b.output_scale, "nsteps", b.num_steps)
    except Exception as e:
        print(solver_name, strat, "EXC", type(e).__name__, str(e)[:200])
