"""Helpers for save_at experiments."""
from common import *


def classify(step_ts, save_at, eps):
    """Map each checkpoint (save_at[1:]) to ('at', k) or ('in', k) (strictly inside step k-1 -> k)."""
    out = []
    for q in save_at[1:]:
        # first step end s with not (s + eps < q)
        k = 0
        while step_ts[k] + eps < q:
            k += 1
        s = step_ts[k]
        if s > q + eps:
            out.append(("in", k))
        else:
            out.append(("at", k))
    return out


def expected(model, m0, P0, step_ts, save_at, eps, *, smoother, calib, D):
    cls = classify(step_ts, save_at, eps)
    queries = sorted({float(q) for q, (kind, k) in zip(save_at[1:], cls) if kind == "in"})
    R = ref.filter_smoother(model, m0, P0, step_ts, queries, calib=calib)
    times, is_step = R["times"], R["is_step"]
    which = R["smooth"] if smoother else R["filt"]
    res = [which[0]]
    tt = [save_at[0]]
    nsteps = [0]
    for q, (kind, k) in zip(save_at[1:], cls):
        if kind == "at":
            j = int(onp.where(is_step & (times == step_ts[k]))[0][0])
            tt.append(step_ts[k])
        else:
            j = int(onp.where((~is_step) & (times == float(q)))[0][0])
            tt.append(q)
        res.append(which[j])
        nsteps.append(k)
    return dict(t=onp.asarray(tt), rv=res, nsteps=onp.asarray(nsteps), R=R, cls=cls)
