"""Finding 3 (C06): a step attempt whose error estimate is NaN is ACCEPTED (and time advances through it).

RejectionLoop.step loops `while acceptance_factor_proposed < 1.0`.  For a NaN error estimate the
comparison is False, so the loop exits and the NaN attempt is accepted; the controller then proposes dt=NaN.
NaN error estimates arise for perfectly legitimate inputs: an over-ambitious first step (dt0 larger than the
interval, or just the default dt0=0.1 on a fast problem) extrapolates the state to a point where the user's
vector field overflows.  A safe controller rejects such an attempt and retries with a smaller step.

Scenario 1: u' = -0.1 exp(u), u(0)=0 on [0, 2], dt0 = 1000 (larger than the interval), filter:
   the solver reports num_steps = 1 and returns the *prior Taylor extrapolation* at the checkpoints
   (finite, plausible numbers whose error is 3..20x the tolerance); the fixed-point smoother returns NaN.
Scenario 2: u' = -1e4 exp(u), u(0)=0 on [0, 1] with the DEFAULT dt0: all outputs are NaN after two "accepted"
   steps, although the same call with dt0=1e-3 solves the problem to 1e-6.
"""

import sys
import warnings

import jax

jax.config.update("jax_enable_x64", True)
import jax.numpy as jnp
import numpy as np

import probdiffeq
from probdiffeq import ivpsolve
from probdiffeq import probdiffeq as pdq
from probdiffeq.backend import flow

print("probdiffeq from", probdiffeq.__file__)
warnings.filterwarnings("ignore")


def make(lam, strategy):
    def f(u, *, t):
        return -lam * jnp.exp(u)

    ssm = pdq.state_space_model_dense()
    vf = pdq.ode(f, jacobian=pdq.jacobian_materialize())
    tcoeffs, _ = pdq.jetexpand_ode_padded_scan(num=2)(vf, (jnp.asarray([0.0]),), t=0.0)
    prior = ssm.prior_wiener_integrated(tcoeffs)
    ts1 = ssm.constraint_ode_ts1(vf)
    solver = pdq.solver(strategy=strategy, constraint=ts1)
    error = pdq.error_residual_std(constraint=ts1)
    return prior, solver, error


defect = False

print("\n--- direct look at one attempt (dt = 1000, u' = -0.1 exp(u)) ---")
prior, solver, error = make(0.1, pdq.strategy_filter())
loop = ivpsolve.RejectionLoop(
    solver=solver, clip_dt=False, control=ivpsolve.control_integral(), error=error, while_loop=flow.while_loop
)
sol0 = solver.init(t=jnp.asarray(0.0), u=prior, damp=0.0)
state = loop.init(sol0, dt=1000.0)
attempt = loop.step_attempt(loop.step_init_loopstate(state), t1=2.0, atol=1e-4, rtol=1e-4, damp=0.0)
print("scaled error estimate (as acceptance factor):", attempt.acceptance_factor_proposed)
print("next proposal:", attempt.dt, "| proposed mean:", np.asarray(attempt.proposed.u.mean_flat))
accepted = loop.step(((state), 2.0, 1e-4, 1e-4, 0.0))
print("RejectionLoop.step advanced time to t =", float(accepted.step_from.t), "(expected: NaN attempt rejected, t stays < 2 + small)")
if float(accepted.step_from.t) == 1000.0:
    defect = True

print("\n--- Scenario 1: dt0 = 1000 on [0, 2] ---")
save_at = jnp.asarray([0.0, 1.0, 2.0])
exact = -np.log(1 + 0.1 * np.asarray(save_at))
for name, strat in [("filter", pdq.strategy_filter()), ("fixedpoint", pdq.strategy_smoother_fixedpoint())]:
    prior, solver, error = make(0.1, strat)
    solve = ivpsolve.solve_adaptive_save_at(solver=solver, error=error)
    good = solve(prior, save_at=save_at, atol=1e-4, rtol=1e-4, dt0=0.1)
    bad = solve(prior, save_at=save_at, atol=1e-4, rtol=1e-4, dt0=1000.0)
    ub, ug = np.asarray(bad.u.mean[0]).ravel(), np.asarray(good.u.mean[0]).ravel()
    print(f"[{name}] exact        :", exact)
    print(f"[{name}] dt0=0.1      :", ug, "num_steps", np.asarray(good.num_steps))
    print(f"[{name}] dt0=1000     :", ub, "num_steps", np.asarray(bad.num_steps), "| abs error", np.abs(ub - exact), "(tolerance 1e-4)")
    if np.isnan(ub).any() or np.max(np.abs(ub - exact)) > 1e-3:
        defect = True

print("\n--- Scenario 2: default dt0 on u' = -1e4 exp(u), [0, 1] ---")
save_at = jnp.asarray([0.0, 0.5, 1.0])
exact = -np.log(1 + 1e4 * np.asarray(save_at))
prior, solver, error = make(1e4, pdq.strategy_filter())
solve = ivpsolve.solve_adaptive_save_at(solver=solver, error=error)
default = solve(prior, save_at=save_at, atol=1e-6, rtol=1e-6)
small = solve(prior, save_at=save_at, atol=1e-6, rtol=1e-6, dt0=1e-3)
print("exact             :", exact)
print("default dt0 (0.1) :", np.asarray(default.u.mean[0]).ravel(), "num_steps", np.asarray(default.num_steps))
print("dt0 = 1e-3        :", np.asarray(small.u.mean[0]).ravel(), "num_steps", np.asarray(small.num_steps))
if np.isnan(np.asarray(default.u.mean[0])).any():
    defect = True

if defect:
    print("\nDEFECT PRESENT: attempts with a NaN error estimate are accepted")
    sys.exit(1)
print("\nno defect")
