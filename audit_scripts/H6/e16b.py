import warnings
warnings.filterwarnings("ignore")
from common import *
from probdiffeq.backend import flow
def f(u, t): return -0.1 * jnp.exp(u)
u0 = jnp.asarray([0.0])
S = setup("dense", f, u0, 0.0, 2, "ts1", "none", "filter")
solver, error = S["solver"], S["error"]
loop = ivpsolve.RejectionLoop(solver=solver, clip_dt=False, control=ivpsolve.control_integral(), error=error, while_loop=flow.while_loop)
sol0 = solver.init(t=jnp.asarray(0.0), u=S["prior"], damp=0.0)
state = loop.init(sol0, dt=1000.0)
rs = loop.step_init_loopstate(state)
rs2 = loop.step_attempt(rs, t1=2.0, atol=1e-4, rtol=1e-4, damp=0.0)
print("attempted dt=1000: error_power (acceptance factor) =", rs2.acceptance_factor_proposed, " proposed next dt =", rs2.dt)
print("proposed state mean:", rs2.proposed.u.mean_flat, "t =", rs2.proposed.t)
print("loop condition 'acceptance_factor < 1.0' ->", bool(rs2.acceptance_factor_proposed < 1.0), "(False => loop exits => step ACCEPTED)")
for strat in ["filter", "fixedpoint"]:
    S = setup("dense", f, u0, 0.0, 2, "ts1", "none", strat)
    solve = ivpsolve.solve_adaptive_save_at(solver=S["solver"], error=S["error"])
    sol = solve(S["prior"], save_at=jnp.asarray([0.0, 1.0, 2.0]), atol=1e-4, rtol=1e-4, dt0=1000.0)
    print(strat, "u:", onp.asarray(sol.u.mean[0]).ravel(), "std:", onp.asarray(sol.u.std[0]).ravel(), "num_steps", sol.num_steps)
    tv = ivpsolve.solve_adaptive_terminal_values(solver=S["solver"], error=S["error"])
    a = tv(S["prior"], t0=0.0, t1=2.0, atol=1e-4, rtol=1e-4, dt0=1000.0)
    print(strat, "terminal values (clip_dt=True): u:", onp.asarray(a.u.mean[0]).ravel(), "num_steps", a.num_steps)
