import warnings, sys
warnings.filterwarnings("ignore")
from e2lib import *
import refhp
onp.set_printoptions(linewidth=220, precision=2)
t0=0.0; u0 = jnp.asarray([0.4, 0.8]); f=f_coupled
fnp = lambda u, t: onp.asarray(f(jnp.asarray(u), t))
grid = onp.asarray([0.0, 0.25, 0.5, 0.75, 1.0, 1.25, 1.5])
for nu in [3, 5]:
  for ssm_name in ["dense", "isotropic"]:
    gaps = [1e-2, 1e-3, 1e-4, 1e-6, 1e-9, -1e-9, -1e-6, -1e-4, -1e-3]
    qs = sorted([0.75 + g for g in gaps])
    R = refhp.filter_smoother(fnp, nu, 2, S0 := setup(ssm_name, f, u0, t0, nu, "ts0", "none", "filter")["m0"], grid, qs)
    for strat in ["filter", "fixedinterval"]:
        S = setup(ssm_name, f, u0, t0, nu, "ts0", "none", strat)
        sol = jax.jit(ivpsolve.solve_fixed_grid(solver=S["solver"]))(S["prior"], grid=jnp.asarray(grid))
        off = jax.jit(jax.vmap(lambda s: S["solver"].offgrid_marginals(s, solution=sol)))(jnp.asarray(qs))
        m, C = mvn(off)
        which = R["smooth"] if strat == "fixedinterval" else R["filt"]
        out = []
        for i, q in enumerate(qs):
            j = int(onp.where((~R["is_step"]) & (R["times"] == q))[0][0])
            mr, Pr = which[j]
            sd = onp.sqrt(onp.abs(onp.diag(Pr)))
            out.append(f"{q-0.75:+.0e}: m/std {onp.max(onp.abs(m[i]-mr)[:2]/sd[:2]):.1e} C {reldiff(C[i], Pr):.1e}" + (" NaN" if onp.isnan(m[i]).any() or onp.isnan(C[i]).any() else ""))
        print(f"nu={nu} {ssm_name} {strat}: " + " | ".join(out), flush=True)
