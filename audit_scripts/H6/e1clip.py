"""E1: save-every-step (adaptive) filter/fixed-interval vs reference; offgrid marginals."""
import sys
import warnings

warnings.filterwarnings("ignore")
from common import *

t0, t1 = 0.0, 3.0
u0 = jnp.asarray([0.4, 0.8])
nu = int(sys.argv[1]) if len(sys.argv) > 1 else 2
atol, rtol, dt0 = 1e-3, 1e-3, 0.1

configs = []
for ssm_name in sys.argv[2].split(","):
    for mode in ["ts0", "ts1"]:
        for solver_name in ["none", "mle", "dynamic"]:
            for strat in ["filter", "fixedinterval"]:
                configs.append((ssm_name, mode, solver_name, strat))

for ssm_name, mode, solver_name, strat in configs:
    if mode == "ts1":
        f = {"dense": f_coupled, "blockdiag": f_decoupled, "isotropic": f_linear_iso}[ssm_name]
    else:
        f = f_coupled
    S = setup(ssm_name, f, u0, t0, nu, mode, solver_name, strat)
    solve = test_util.solve_adaptive_save_every_step(solver=S["solver"], error=S["error"], clip_dt=True)
    sol = solve(S["prior"], t0, t1, atol=atol, rtol=rtol, dt0=dt0)
    ts_lib = onp.asarray(sol.t)

    model = ref.Model(f, nu, 2, mode=mode)
    model.blockdiag = ssm_name == "blockdiag"
    D = len(S["m0"])
    calib = "dynamic" if solver_name == "dynamic" else "none"
    ts_ref, attempts = ref.adaptive_steps(model, S["m0"], onp.zeros((D, D)), t0, t1, atol=atol, rtol=rtol, dt0=dt0, calib=calib, clip_to=[t1])
    # lib grid: ts_ref[:-1] + [t1]  (if overstepped)
    tag = f"{ssm_name:9s} {mode} {solver_name:7s} {strat:13s}"
    if len(ts_ref) != len(ts_lib) or maxdiff(ts_ref[:-1], ts_lib[:-1]) > 1e-9:
        print(tag, "GRID MISMATCH", len(ts_ref), len(ts_lib), ts_ref[-3:], ts_lib[-3:])
        continue
    overstep = ts_ref[-1] > t1 + 1e-8
    # queries: offgrid points
    rng = onp.random.default_rng(1)
    qs = list(onp.sort(rng.uniform(t0 + 0.01, t1 - 0.01, size=5)))
    # close to grid points
    k = len(ts_lib) // 2
    qs += [ts_lib[k] + 1e-6, ts_lib[k + 1] - 1e-6, ts_lib[-2] + 0.3 * (t1 - ts_lib[-2])]
    qs = sorted(qs)
    queries = qs + ([t1] if overstep else [])
    R = ref.filter_smoother(model, S["m0"], onp.zeros((D, D)), ts_ref, queries, calib=calib)
    times = R["times"]
    which = R["smooth"] if strat == "fixedinterval" else R["filt"]
    scale2 = 1.0
    if solver_name == "mle":
        nsteps = len(ts_ref) - 1
        sig = onp.sqrt(onp.mean(R["mle_terms"] ** 2, axis=0)) / onp.sqrt(nsteps)
        if onp.ndim(sig) == 0:
            scale2 = sig**2
        else:
            dd = onp.kron(onp.ones(nu + 1), sig)
            scale2 = onp.outer(dd, dd)
        # output scale check
        d_os = maxdiff(onp.asarray(sol.output_scale)[-1], sig)
    elif solver_name == "dynamic":
        d_os = maxdiff(onp.asarray(sol.output_scale)[1:], R["sigmas"])
    else:
        d_os = 0.0

    # Compare grid marginals
    mlib, Clib = mvn(sol.u)
    errs_m, errs_C = [], []
    for i, t in enumerate(ts_lib):
        j = int(onp.argmin(onp.abs(times - t)))
        if i == len(ts_lib) - 1 and overstep:
            j = int(onp.where((~R["is_step"]) & (onp.abs(times - t1) < 1e-12))[0][0])
        m, P = which[j]
        errs_m.append(maxdiff(mlib[i], m))
        errs_C.append(maxdiff(Clib[i], scale2 * P) / (onp.max(onp.abs(scale2 * P)) + 1e-30))
    # Offgrid marginals
    off = jax.vmap(lambda s: S["solver"].offgrid_marginals(s, solution=sol))(jnp.asarray(qs))
    mo, Co = mvn(off)
    errs_om, errs_oC = [], []
    for i, q in enumerate(qs):
        j = int(onp.where((~R["is_step"]) & (onp.abs(times - q) < 1e-13))[0][0])
        m, P = which[j]
        if strat == "fixedinterval" and overstep:
            pass
        errs_om.append(maxdiff(mo[i], m))
        errs_oC.append(maxdiff(Co[i], scale2 * P) / (onp.max(onp.abs(scale2 * P)) + 1e-30))
    print(
        tag,
        f"N={len(ts_lib)} over={overstep} grid: m {max(errs_m):.1e} C {max(errs_C):.1e} | offgrid: m {max(errs_om):.1e} C {max(errs_oC):.1e} | scale {d_os:.1e}",
        f"nsteps_lib={int(sol.num_steps[-1])}",
    )
