"""High-precision (decimal, 120 digits) Kalman filter / RTS smoother. TS0, uncalibrated, first-order ODE."""
import decimal
from decimal import Decimal
from math import factorial

import numpy as onp

decimal.getcontext().prec = 120


def Dm(a):
    a = onp.asarray(a, dtype=float)
    out = onp.empty(a.shape, dtype=object)
    for idx in onp.ndindex(a.shape):
        out[idx] = Decimal(float(a[idx]))
    return out


def eye(n):
    out = onp.empty((n, n), dtype=object)
    for i in range(n):
        for j in range(n):
            out[i, j] = Decimal(1 if i == j else 0)
    return out


def inv(A):
    n = A.shape[0]
    M = onp.concatenate([A.copy(), eye(n)], axis=1)
    for c in range(n):
        p = max(range(c, n), key=lambda r: abs(M[r, c]))
        if p != c:
            M[[c, p]] = M[[p, c]]
        M[c] = M[c] / M[c, c]
        for r in range(n):
            if r != c and M[r, c] != 0:
                M[r] = M[r] - M[r, c] * M[c]
    return M[:, n:]


def iwp(nu, d, h):
    h = Decimal(float(h))
    n = nu + 1
    Phi = onp.empty((n, n), dtype=object)
    Q = onp.empty((n, n), dtype=object)
    for i in range(n):
        for j in range(n):
            Phi[i, j] = h ** (j - i) / Decimal(factorial(j - i)) if j >= i else Decimal(0)
            p = 2 * nu + 1 - i - j
            Q[i, j] = h**p / (Decimal(p) * Decimal(factorial(nu - i)) * Decimal(factorial(nu - j)))
    I = eye(d)
    return kron(Phi, I), kron(Q, I)


def kron(A, B):
    n, m = A.shape
    p, q = B.shape
    out = onp.empty((n * p, m * q), dtype=object)
    for i in range(n):
        for j in range(m):
            out[i * p : (i + 1) * p, j * q : (j + 1) * q] = A[i, j] * B
    return out


def tofloat(a):
    return onp.asarray(a, dtype=float)


def filter_smoother(f, nu, d, m0, step_ts, query_ts=()):
    """f(u_float, t_float) -> float array. Nodes: steps + queries (strictly between steps)."""
    D = (nu + 1) * d
    E0 = kron(Dm(onp.eye(nu + 1)[0:1]), eye(d))
    E1 = kron(Dm(onp.eye(nu + 1)[1:2]), eye(d))
    nodes = [(float(t), True) for t in step_ts] + [(float(q), False) for q in query_ts]
    nodes.sort(key=lambda s: (s[0], s[1]))
    m = Dm(m0)
    P = Dm(onp.zeros((D, D)))
    filt = [(m, P)]
    preds = [None]
    tprev = nodes[0][0]
    for t, is_step in nodes[1:]:
        # exact difference of the two floats
        h = Decimal(t) - Decimal(tprev)
        Phi, Q = iwp(nu, d, h)
        mp = Phi @ m
        Pp = Phi @ P @ Phi.T + Q
        if is_step:
            u = tofloat(E0 @ mp)
            fu = Dm(onp.asarray(f(u, t)))
            z = E1 @ mp - fu
            S = E1 @ Pp @ E1.T
            K = Pp @ E1.T @ inv(S)
            mn = mp - K @ z
            Pn = Pp - K @ S @ K.T
        else:
            mn, Pn = mp, Pp
        preds.append((mp, Pp, Phi))
        filt.append((mn, Pn))
        m, P, tprev = mn, Pn, t
    N = len(nodes)
    smooth = [None] * N
    smooth[-1] = filt[-1]
    for i in range(N - 2, -1, -1):
        mp, Pp, Phi = preds[i + 1]
        mf, Pf = filt[i]
        G = Pf @ Phi.T @ inv(Pp)
        ms, Ps = smooth[i + 1]
        smooth[i] = (mf + G @ (ms - mp), Pf + G @ (Ps - Pp) @ G.T)
    return dict(
        times=onp.asarray([n[0] for n in nodes]),
        is_step=onp.asarray([n[1] for n in nodes]),
        filt=[(tofloat(a), tofloat(b)) for a, b in filt],
        smooth=[(tofloat(a), tofloat(b)) for a, b in smooth],
    )
