import warnings
warnings.filterwarnings("ignore")
from common import *
t0, t1 = 0.0, 2.0
u0 = jnp.asarray([0.4, 0.8])
save_at = jnp.asarray([0.0, 0.3, 0.31, 1.0, 1.7, 2.0])
def canon(sol):
    out = dict(t=sol.t, um=sol.u.to_multivariate_normal()[0], uC=sol.u.to_multivariate_normal()[1], ns=sol.num_steps, os=sol.output_scale)
    sf = sol.solution_full
    if hasattr(sf, "posterior"):
        c = jax.vmap(lambda s: s.preconditioner_apply())(sf.posterior.conditional)
        out.update(A=c.A, b=c.noise.mean_flat, Cn=jnp.einsum("nij,nkj->nik", c.noise.cholesky_flat, c.noise.cholesky_flat),
                   fm=sf.filtering.to_multivariate_normal()[0], fC=sf.filtering.to_multivariate_normal()[1], Tm=sf.posterior.marginal.to_multivariate_normal()[0], TC=sf.posterior.marginal.to_multivariate_normal()[1])
    return out
for solver_name in ["none", "mle", "dynamic"]:
  for strat in ["filter", "fixedpoint"]:
   for clip in [False, True]:
    S = setup("dense", f_coupled, u0, t0, 2, "ts1", solver_name, strat)
    sa = ivpsolve.solve_adaptive_save_at(solver=S["solver"], error=S["error"], clip_dt=clip)
    def go(tol, dt0):
        return canon(sa(S["prior"], save_at=save_at, atol=tol, rtol=tol, dt0=dt0))
    tols = jnp.asarray([1e-2, 1e-4, 1e-6]); dt0s = jnp.asarray([5.0, 0.1, 1e-3])
    batched = jax.jit(jax.vmap(go))(tols, dt0s)
    worst = {}
    for i in range(3):
        single = go(tols[i], dt0s[i])
        for k in single:
            worst[k] = max(worst.get(k, 0.0), reldiff(batched[k][i], single[k]))
    print(solver_name, strat, clip, {k: f"{v:.1e}" for k, v in worst.items() if v > 1e-9}, flush=True)
