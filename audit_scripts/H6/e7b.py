import warnings
warnings.filterwarnings("ignore")
from common import *
t0, t1 = 0.0, 2.0
u0 = jnp.asarray([0.4, 0.8])
save_at = jnp.asarray([0.0, 0.3, 0.31, 1.0, 1.7, 2.0])
ssm_name, solver_name, strat, clip = "dense", "none", "filter", False
S = setup(ssm_name, f_coupled, u0, t0, 2, "ts1", solver_name, strat)
sa = ivpsolve.solve_adaptive_save_at(solver=S["solver"], error=S["error"], clip_dt=clip)
def go(tol, dt0):
    return sa(S["prior"], save_at=save_at, atol=tol, rtol=tol, dt0=dt0)
tols = jnp.asarray([1e-2, 1e-4, 1e-6]); dt0s = jnp.asarray([5.0, 0.1, 1e-3])
batched = jax.jit(jax.vmap(go))(tols, dt0s)
for i in range(3):
    single = go(tols[i], dt0s[i])
    bi = jax.tree_util.tree_map(lambda s: s[i], batched)
    diffs = jax.tree_util.tree_map(lambda a, b: float(jnp.max(jnp.abs(jnp.asarray(a, dtype=float) - jnp.asarray(b, dtype=float)))) if jnp.size(a) else 0.0, single, bi)
    flat, _ = jax.tree_util.tree_flatten_with_path(diffs)
    for p, v in flat:
        if v > 1e-10: print(i, jax.tree_util.keystr(p), v)
    print(i, "cov diff", maxdiff(mvn(single.u)[1], mvn(bi.u)[1]), "mean diff", maxdiff(mvn(single.u)[0], mvn(bi.u)[0]))
    print(onp.asarray(single.u.cholesky_flat[2])[:3], "\n", onp.asarray(bi.u.cholesky_flat[2])[:3])
