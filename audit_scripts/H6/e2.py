"""E2: save_at with filter / fixed-point smoother vs reference, many checkpoint layouts."""
import sys
import warnings

warnings.filterwarnings("ignore")
from e2lib import *

t0 = 0.0
u0 = jnp.asarray([0.4, 0.8])
nu = int(sys.argv[1])
ssm_names = sys.argv[2].split(",")
layouts = sys.argv[3].split(",")
atol, rtol = 1e-3, 1e-3
eps = 1e-8


def run(ssm_name, mode, solver_name, strat, layout):
    if mode == "ts1":
        f = {"dense": f_coupled, "blockdiag": f_decoupled, "isotropic": f_linear_iso}[ssm_name]
    else:
        f = f_coupled
    S = setup(ssm_name, f, u0, t0, nu, mode, solver_name, strat)
    model = ref.Model(f, nu, 2, mode=mode)
    model.blockdiag = ssm_name == "blockdiag"
    D = len(S["m0"])
    calib = "dynamic" if solver_name == "dynamic" else "none"
    P0 = onp.zeros((D, D))
    t1, dt0, clip = 3.0, 0.1, False
    if layout == "bigdt":
        t1, dt0 = 0.04, 5.0
    if layout == "clip":
        clip = True
    # unclipped step grid
    ts_ref, _ = ref.adaptive_steps(model, S["m0"], P0, t0, t1, atol=atol, rtol=rtol, dt0=dt0, calib=calib)
    rng = onp.random.default_rng(3)
    if layout in ["random", "clip"]:
        save_at = onp.concatenate([[t0], onp.sort(rng.uniform(t0, t1, size=6)), [t1]])
    elif layout == "bigdt":
        save_at = onp.asarray([t0, 0.01, 0.02, 0.03, t1])
    elif layout == "single":
        save_at = onp.asarray([t0, t1])
    elif layout == "coincide":
        k = len(ts_ref) // 2
        a, b = ts_ref[k + 3], ts_ref[k + 4]
        save_at = onp.asarray(
            [
                t0,
                ts_ref[1],  # exactly a step end
                ts_ref[2] - 0.5 * eps,
                ts_ref[3] + 0.5 * eps,
                ts_ref[k],
                ts_ref[k] + eps / 3,  # two checkpoints within eps, at a step end
                ts_ref[k + 1] - 2 * eps,  # just outside eps (before)
                ts_ref[k + 2] + 2 * eps,  # just outside eps (after)
                a + 0.25 * (b - a),
                a + 0.5 * (b - a),
                a + 0.5 * (b - a) + eps / 3,  # two checkpoints within eps, inside a step
                a + 0.75 * (b - a),
                b,
                t1,
            ]
        )
    if clip:
        ts_ref, _ = ref.adaptive_steps(
            model, S["m0"], P0, t0, t1, atol=atol, rtol=rtol, dt0=dt0, calib=calib, clip_to=list(save_at[1:])
        )
    E = expected(model, S["m0"], P0, ts_ref, save_at, eps, smoother=(strat == "fixedpoint"), calib=calib, D=D)
    solve = ivpsolve.solve_adaptive_save_at(solver=S["solver"], error=S["error"], clip_dt=clip)
    sol = jax.jit(lambda p, s: solve(p, save_at=s, atol=atol, rtol=rtol, dt0=dt0, eps=eps))(S["prior"], jnp.asarray(save_at))
    R = E["R"]
    scale2 = 1.0
    nsteps_total = len(ts_ref) - 1
    if solver_name == "mle":
        sig = onp.sqrt(onp.mean(R["mle_terms"] ** 2, axis=0)) / onp.sqrt(nsteps_total)
        if onp.ndim(sig) == 0:
            scale2 = sig**2
        else:
            dd = onp.kron(onp.ones(nu + 1), sig)
            scale2 = onp.outer(dd, dd)
        d_os = maxdiff(onp.asarray(sol.output_scale)[-1], sig)
    elif solver_name == "dynamic":
        exp_os = onp.asarray([R["sigmas"][k - 1] for k in E["nsteps"][1:]])
        d_os = maxdiff(onp.asarray(sol.output_scale)[1:], exp_os)
    else:
        d_os = 0.0
    mlib, Clib = mvn(sol.u)
    em = max(maxdiff(mlib[i], E["rv"][i][0]) for i in range(len(save_at)))
    eC = max(
        maxdiff(Clib[i], scale2 * E["rv"][i][1]) / (onp.max(onp.abs(scale2 * E["rv"][i][1])) + 1e-30)
        for i in range(len(save_at))
    )
    et = maxdiff(sol.t, E["t"])
    en = maxdiff(sol.num_steps, E["nsteps"][1:])
    tag = f"{layout:8s} {ssm_name:9s} {mode} {solver_name:7s} {strat:10s}"
    flag = "" if (em < 1e-9 and eC < 1e-6 and et < 1e-12 and en == 0 and d_os < 1e-9) else "  <<<<<<<<"
    print(tag, f"nsteps={nsteps_total} m {em:.1e} C {eC:.1e} t {et:.1e} nst {en:.0f} scale {d_os:.1e}{flag}", flush=True)
    return sol, E


if __name__ == "__main__":
    for layout in layouts:
        for ssm_name in ssm_names:
            for mode in ["ts0", "ts1"]:
                for solver_name in ["none", "mle", "dynamic"]:
                    for strat in ["filter", "fixedpoint"]:
                        try:
                            run(ssm_name, mode, solver_name, strat, layout)
                        except Exception as e:
                            import traceback

                            print(layout, ssm_name, mode, solver_name, strat, "EXC", repr(e)[:300])
                            traceback.print_exc()
