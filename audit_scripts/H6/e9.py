import warnings, sys
warnings.filterwarnings("ignore")
from e2lib import *
import refhp
onp.set_printoptions(linewidth=220, precision=2)
t0=0.0; t1=3.0; u0 = jnp.asarray([0.4, 0.8]); atol=rtol=1e-3
nu=int(sys.argv[1]); ssm_name=sys.argv[2]; f=f_coupled
fnp = lambda u, t: onp.asarray(f(jnp.asarray(u), t))
S = setup(ssm_name, f, u0, t0, nu, "ts0", "none", "fixedpoint")
model = ref.Model(f, nu, 2, mode="ts0")
D = len(S["m0"])
ts_ref, _ = ref.adaptive_steps(model, S["m0"], onp.zeros((D,D)), t0, t1, atol=atol, rtol=rtol, dt0=0.1)
print("steps", ts_ref)
solve = ivpsolve.solve_adaptive_save_at(solver=S["solver"], error=S["error"], clip_dt=False)
run = jax.jit(lambda p, s, e: solve(p, save_at=s, atol=atol, rtol=rtol, dt0=0.1, eps=e))
k = len(ts_ref)//2
base = [t0, 0.5, 1.0, ts_ref[k]-0.01, t1]
for gap in [None, 1e-2, 1e-3, 1e-4, 1e-5, -1e-4]:
    sa = onp.sort(onp.asarray(base + ([ts_ref[k] + gap] if gap else [])))
    sol = run(S["prior"], jnp.asarray(sa), 1e-8)
    assert int(sol.num_steps[-1]) == len(ts_ref) - 1
    m, C = mvn(sol.u)
    R = refhp.filter_smoother(fnp, nu, 2, S["m0"], ts_ref, sa[1:])
    print("gap", gap)
    for i, q in enumerate(sa):
        j = 0 if i == 0 else int(onp.where((~R["is_step"]) & (R["times"] == q))[0][0])
        mr, Pr = R["smooth"][j]
        sd = onp.sqrt(onp.abs(onp.diag(Pr)))
        print("  t=%.5f"%q, "err/std", onp.abs(m[i]-mr)/(sd+1e-300), "| cov rel", reldiff(C[i], Pr))
