import warnings
warnings.filterwarnings("ignore")
import sys
sys.argv = ["x", "2", "dense", "coincide"]
from e2 import *
sol, E = run("dense", "ts1", "none", "fixedpoint", "coincide")
mlib, Clib = mvn(sol.u)
for i in range(len(E["t"])):
    print(i, E["cls"][i-1] if i>0 else None, onp.abs(mlib[i]-E["rv"][i][0]), maxdiff(Clib[i], E["rv"][i][1]))
