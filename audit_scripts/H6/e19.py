import warnings
warnings.filterwarnings("ignore")
from common import *
u0 = jnp.asarray([0.4, 0.8])
t0, t1 = 0.0, 2.0
nu = 2
def build(kind, strat, solver_name):
    ssm = pdq.state_space_model_dense()
    vf = pdq.ode(lambda y, *, t: f_coupled(y, t), jacobian=pdq.jacobian_materialize())
    tcoeffs, _ = pdq.jetexpand_ode_padded_scan(num=nu)(vf, (u0,), t=t0)
    if kind == "matern":
        prior = ssm.prior_matern(0.7, tcoeffs)
    elif kind == "ou":
        prior = ssm.prior_ornstein_uhlenbeck_integrated(lambda x: -3.0 * x, tcoeffs)
    else:
        prior = ssm.prior_wiener_integrated(tcoeffs)
    c = ssm.constraint_ode_ts1(vf)
    solver = SOLVERS[solver_name](strategy=STRATS[strat](), constraint=c)
    return prior, solver, pdq.error_residual_std(constraint=c)
for kind in ["matern", "ou"]:
  for solver_name in ["none", "dynamic", "mle"]:
    prior, solver, error = build(kind, "fixedpoint", solver_name)
    solve = ivpsolve.solve_adaptive_save_at(solver=solver, error=error)
    run = jax.jit(lambda s: solve(prior, save_at=s, atol=1e-4, rtol=1e-4, dt0=0.1))
    A = onp.asarray([0.0, 0.4, 1.1, 2.0]); B = onp.sort(onp.concatenate([A, [0.2, 0.41, 0.9, 1.5, 1.77]]))
    a, b = run(jnp.asarray(A)), run(jnp.asarray(B))
    idx = [int(onp.where(B == x)[0][0]) for x in A]
    ma, Ca = mvn(a.u); mb, Cb = mvn(b.u)
    print(kind, solver_name, "fixedpoint subset-vs-superset: mean", maxdiff(ma, mb[idx]), "cov rel", reldiff(Ca, Cb[idx]), "nsteps", a.num_steps[-1], b.num_steps[-1])
    # offgrid vs save_at
    prior, solver_i, error_i = build(kind, "fixedinterval", solver_name)
    every = test_util.solve_adaptive_save_every_step(solver=solver_i, error=error_i)(prior, t0, t1, atol=1e-4, rtol=1e-4, dt0=0.1)
    off = jax.vmap(lambda s: solver_i.offgrid_marginals(s, solution=every))(jnp.asarray(B[1:-1]))
    mo, Co = mvn(off)
    print("    offgrid(fixedinterval, save-every-step) vs save_at(fixedpoint): mean", maxdiff(mo, mb[1:-1]), "cov rel", reldiff(Co, Cb[1:-1]))
