import warnings
warnings.filterwarnings("ignore")
from common import *
t0, t1 = 0.0, 1.0
u0 = jnp.asarray([0.4, 0.8])
for ssm_name in ["dense", "isotropic", "blockdiag"]:
  for strat in ["filter", "fixedpoint", "fixedinterval"]:
    S = setup(ssm_name, f_coupled, u0, t0, 2, "ts0", "mle", strat)
    tv = ivpsolve.solve_adaptive_terminal_values(solver=S["solver"], error=S["error"], clip_dt=True)
    sa = ivpsolve.solve_adaptive_save_at(solver=S["solver"], error=S["error"], clip_dt=True)
    a = tv(S["prior"], t0=t0, t1=t1, atol=1e-3, rtol=1e-3)
    b = sa(S["prior"], save_at=jnp.asarray([t0, t1]), atol=1e-3, rtol=1e-3)
    print(ssm_name, strat)
    print("  u mean diff", maxdiff(mvn(a.u)[0], mvn(b.u)[0][-1]), "cov", maxdiff(mvn(a.u)[1], mvn(b.u)[1][-1]), "t", a.t, "nsteps", a.num_steps, b.num_steps, "scale", a.output_scale, b.output_scale[-1])
    print("  TV solution_full shapes:", jax.tree_util.tree_map(jnp.shape, a.solution_full))
    print("  SA solution_full shapes:", jax.tree_util.tree_map(jnp.shape, b.solution_full))
