import warnings
warnings.filterwarnings("ignore")
import sys
from e2lib import *
t0=0.0; t1=3.0; u0 = jnp.asarray([0.4, 0.8]); atol=rtol=1e-3
for nu in [2,4]:
  for ssm_name in ["dense","isotropic"]:
    f = f_coupled
    S = setup(ssm_name, f, u0, t0, nu, "ts0", "none", "fixedpoint")
    model = ref.Model(f, nu, 2, mode="ts0")
    D = len(S["m0"])
    ts_ref, _ = ref.adaptive_steps(model, S["m0"], onp.zeros((D,D)), t0, t1, atol=atol, rtol=rtol, dt0=0.1)
    solve = ivpsolve.solve_adaptive_save_at(solver=S["solver"], error=S["error"], clip_dt=False)
    run = jax.jit(lambda p, s, e: solve(p, save_at=s, atol=atol, rtol=rtol, dt0=0.1, eps=e))
    k = len(ts_ref)//2
    base = onp.asarray([t0, 0.5, 1.0, ts_ref[k]-0.01, t1])
    for eps in [1e-8, 1e-13]:
        sol0 = run(S["prior"], jnp.asarray(base), eps)
        m0_, C0_ = mvn(sol0.u)
        for gap in [1e-4, 1e-6, 1e-7, 3e-8, 1e-10, 1e-12]:
            for sign in [+1, -1]:
                if gap <= eps: continue
                sa = onp.sort(onp.concatenate([base, [ts_ref[k] + sign*gap]]))
                idx = [i for i in range(len(sa)) if sa[i] in base]
                sol = run(S["prior"], jnp.asarray(sa), eps)
                m, C = mvn(sol.u)
                print(f"nu={nu} {ssm_name} eps={eps:.0e} gap={sign*gap:+.0e} steps={int(sol.num_steps[-1])}/{int(sol0.num_steps[-1])} subset mean diff {maxdiff(m[idx], m0_):.2e} cov reldiff {reldiff(C[idx], C0_):.2e}  std(u) at 1.0: {onp.sqrt(C0_[2][0,0]):.1e} nan={bool(onp.isnan(m).any())}")
