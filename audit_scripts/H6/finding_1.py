"""Finding 1 (C05 / C03): solve_adaptive_terminal_values corrupts `solution_full` of smoother strategies.

The terminal-value routine is documented (in code) to accept any strategy ("any solver goes for
terminal values").  It calls solve_adaptive_save_at(save_at=[t0, t1]) and then selects the last entry
of *every leaf* via tree_map(lambda s: s[-1], solution).  For smoothers, however,
`solution_full.posterior.marginal` is NOT stacked along time (it is the single terminal marginal), so
`s[-1]` slices the *state* axis instead: the mean becomes a scalar (dense), a length-d row (isotropic)
or the block of the last ODE dimension only (blockdiag).

Expected: terminal-values result == last entry of the checkpointed routine, i.e.
          solution_full.posterior.marginal is the terminal marginal (equal to `u`).
Observed: wrong structure / wrong content.
"""

import sys
import warnings

import jax

jax.config.update("jax_enable_x64", True)
import jax.numpy as jnp
import numpy as np

import probdiffeq
from probdiffeq import ivpsolve
from probdiffeq import probdiffeq as pdq

print("probdiffeq from", probdiffeq.__file__)
warnings.filterwarnings("ignore")


def f(u, *, t):
    return jnp.stack([u[0] * (1.0 - u[1]) + 0.1 * jnp.sin(t), -0.5 * u[1] * (1 - u[0])])


u0 = jnp.asarray([0.4, 0.8])
t0, t1 = 0.0, 1.0
defect = False
for name, factory in [
    ("dense", pdq.state_space_model_dense),
    ("isotropic", pdq.state_space_model_isotropic),
    ("blockdiag", pdq.state_space_model_blockdiag),
]:
    for sname, strategy in [
        ("fixedpoint", pdq.strategy_smoother_fixedpoint()),
        ("fixedinterval", pdq.strategy_smoother_fixedinterval()),
    ]:
        ssm = factory()
        vf = pdq.ode(f)
        tcoeffs, _ = pdq.jetexpand_ode_padded_scan(num=2)(vf, (u0,), t=t0)
        prior = ssm.prior_wiener_integrated(tcoeffs)
        ts0 = ssm.constraint_ode_ts0(vf)
        solver = pdq.solver(strategy=strategy, constraint=ts0)
        error = pdq.error_residual_std(constraint=ts0)

        tv = ivpsolve.solve_adaptive_terminal_values(solver=solver, error=error, clip_dt=True)
        sa = ivpsolve.solve_adaptive_save_at(solver=solver, error=error, clip_dt=True, warn=False)
        a = tv(prior, t0=t0, t1=t1, atol=1e-3, rtol=1e-3)
        b = sa(prior, save_at=jnp.asarray([t0, t1]), atol=1e-3, rtol=1e-3)

        m_u, C_u = a.u.to_multivariate_normal()
        marg_tv = a.solution_full.posterior.marginal
        marg_sa = b.solution_full.posterior.marginal
        print(f"\n[{name}, {sname}]")
        print("  save_at:         posterior.marginal mean/cholesky shapes:", marg_sa.mean_flat.shape, marg_sa.cholesky_flat.shape)
        print("  terminal_values: posterior.marginal mean/cholesky shapes:", marg_tv.mean_flat.shape, marg_tv.cholesky_flat.shape)
        print("  expected (shapes of u of the terminal-values result):   ", a.u.mean_flat.shape, a.u.cholesky_flat.shape)
        ok = marg_tv.mean_flat.shape == a.u.mean_flat.shape
        if ok:
            ok = bool(jnp.allclose(marg_tv.mean_flat, a.u.mean_flat))
        if not ok:
            defect = True
            print("  -> DEFECT: the terminal marginal stored in solution_full is not the terminal marginal.")
            print("     terminal_values posterior.marginal.mean_flat =", np.asarray(marg_tv.mean_flat))
            print("     u.mean_flat                                  =", np.asarray(a.u.mean_flat).reshape(-1))
        # Downstream consequence: the object cannot be used like the save_at one
        try:
            marg = a.solution_full.posterior.evaluate_marginals()
            m = np.asarray(marg.mean_flat)
            print("     evaluate_marginals() returned mean of shape", m.shape)
        except Exception as e:  # noqa: BLE001
            print("     evaluate_marginals() raises:", type(e).__name__, str(e)[:100])

if defect:
    print("\nDEFECT PRESENT")
    sys.exit(1)
print("\nno defect")
