"""E3: solution_full (conditionals, filtering) and sampling vs reference joint smoothing law."""
import sys
import warnings

warnings.filterwarnings("ignore")
from e2lib import *
from jax.experimental import io_callback
from probdiffeq.backend import random as pd_random

t0 = 0.0
u0 = jnp.asarray([0.4, 0.8])
nu = 2
atol, rtol = 1e-3, 1e-3
eps = 1e-8

QUEUE = []


def _host_next(shape_marker):
    return QUEUE.pop(0).reshape(shape_marker.shape)


def patched_normal(key, /, shape, dtype=None):
    marker = jnp.zeros(shape)
    return io_callback(_host_next, jax.ShapeDtypeStruct(shape, jnp.float64), marker, ordered=True)


def cond_dense(ssm_name, cond, nu, d):
    """Return (A, b, C) of a conditional in the (n,d)-raveled ordering."""
    c = cond.preconditioner_apply()
    if ssm_name == "dense":
        A = onp.asarray(c.A)
        b = onp.asarray(c.noise.mean_flat)
        L = onp.asarray(c.noise.cholesky_flat)
        return A, b, L @ L.T
    if ssm_name == "isotropic":
        A = onp.kron(onp.asarray(c.A), onp.eye(d))
        b = onp.asarray(c.noise.mean_flat).reshape(-1)
        L = onp.asarray(c.noise.cholesky_flat)
        return A, b, onp.kron(L @ L.T, onp.eye(d))
    if ssm_name == "blockdiag":
        n = nu + 1
        A = onp.zeros((n * d, n * d))
        C = onp.zeros((n * d, n * d))
        b = onp.zeros(n * d)
        for k in range(d):
            idx = onp.arange(n) * d + k
            A[onp.ix_(idx, idx)] = onp.asarray(c.A[k])
            L = onp.asarray(c.noise.cholesky_flat[k])
            C[onp.ix_(idx, idx)] = L @ L.T
            b[idx] = onp.asarray(c.noise.mean_flat[k])
        return A, b, C


def run(ssm_name, mode, solver_name, routine):
    f = f_coupled if mode == "ts0" or ssm_name == "dense" else {"blockdiag": f_decoupled, "isotropic": f_linear_iso}[ssm_name]
    strat = "fixedpoint" if routine == "save_at" else "fixedinterval"
    S = setup(ssm_name, f, u0, t0, nu, mode, solver_name, strat)
    model = ref.Model(f, nu, 2, mode=mode)
    model.blockdiag = ssm_name == "blockdiag"
    D = len(S["m0"])
    calib = "dynamic" if solver_name == "dynamic" else "none"
    P0 = onp.zeros((D, D))
    t1 = 2.0
    if routine == "fixed":
        grid = onp.asarray([0.0, 0.1, 0.25, 0.3, 0.7, 1.0, 1.05, 1.5, 2.0])
        ts_ref = grid
        save_at = grid
        sol = jax.jit(ivpsolve.solve_fixed_grid(solver=S["solver"]))(S["prior"], grid=jnp.asarray(grid))
    else:
        ts_ref, _ = ref.adaptive_steps(model, S["m0"], P0, t0, t1, atol=atol, rtol=rtol, dt0=0.1, calib=calib)
        if routine == "every":
            save_at = onp.concatenate([ts_ref[:-1], [t1]]) if ts_ref[-1] > t1 + eps else ts_ref
            sol = test_util.solve_adaptive_save_every_step(solver=S["solver"], error=S["error"])(S["prior"], t0, t1, atol=atol, rtol=rtol, dt0=0.1)
        else:
            k = len(ts_ref) // 2
            save_at = onp.asarray([t0, 0.3, ts_ref[2], ts_ref[k] - 0.5 * eps, ts_ref[k] + 0.3 * eps, 0.5 * (ts_ref[k] + ts_ref[k + 1]), 0.7 * ts_ref[k] + 0.3 * ts_ref[k + 1] + 1.0 * 0, t1])
            save_at = onp.sort(save_at)
            solve = ivpsolve.solve_adaptive_save_at(solver=S["solver"], error=S["error"])
            sol = jax.jit(lambda p, s: solve(p, save_at=s, atol=atol, rtol=rtol, dt0=0.1, eps=eps))(S["prior"], jnp.asarray(save_at))
    E = expected(model, S["m0"], P0, ts_ref, save_at, eps, smoother=True, calib=calib, D=D)
    R = E["R"]
    times, is_step = R["times"], R["is_step"]
    nsteps_total = len(ts_ref) - 1
    Dsc = onp.eye(D)
    if solver_name == "mle":
        sig = onp.sqrt(onp.mean(R["mle_terms"] ** 2, axis=0)) / onp.sqrt(nsteps_total)
        Dsc = onp.diag(onp.kron(onp.ones(nu + 1), sig * onp.ones(2)))
    # node index in merged grid for each output
    node = []
    for q, (kind, k) in zip(save_at, [("at", 0)] + E["cls"]):
        if kind == "at":
            node.append(int(onp.where(is_step & (times == ts_ref[k]))[0][0]))
        else:
            node.append(int(onp.where((~is_step) & (times == float(q)))[0][0]))
    N = len(save_at)
    # reference: joint smoothing mean & covariance over outputs
    means = [R["smooth"][j][0] for j in node]
    covs = [[None] * N for _ in range(N)]
    for a in range(N):
        covs[a][a] = Dsc @ R["smooth"][node[a]][1] @ Dsc
        for b in range(a + 1, N):
            G = onp.eye(D)
            for j in range(node[a], node[b]):
                G = G @ R["gains"][j]
            if node[a] == node[b]:
                G = onp.eye(D)
            covs[a][b] = Dsc @ (G @ R["smooth"][node[b]][1]) @ Dsc
            covs[b][a] = covs[a][b].T
    Mref = onp.concatenate(means)
    Cref = onp.block(covs)

    post = sol.solution_full.posterior
    filt = sol.solution_full.filtering
    # 1. filtering
    mf, Cf = mvn(filt)
    ef = max(maxdiff(mf[i], R["filt"][node[i]][0]) for i in range(N))
    eCf = max(reldiff(Cf[i], Dsc @ R["filt"][node[i]][1] @ Dsc) for i in range(1, N))
    # 2. joint law from the backward factorisation
    mT, CT = mvn(post.marginal)
    Mlib = [None] * N
    Clib = [[None] * N for _ in range(N)]
    Mlib[N - 1] = mT
    Clib[N - 1][N - 1] = CT
    conds = [jax.tree_util.tree_map(lambda s: s[i], post.conditional) for i in range(N - 1)]
    for i in range(N - 2, -1, -1):
        A, b, C = cond_dense(ssm_name, conds[i], nu, 2)
        Mlib[i] = A @ Mlib[i + 1] + b
        Clib[i][i] = A @ Clib[i + 1][i + 1] @ A.T + C
        for j in range(i + 1, N):
            Clib[i][j] = A @ Clib[i + 1][j]
            Clib[j][i] = Clib[i][j].T
    Mlib = onp.concatenate(Mlib)
    Clib = onp.block(Clib)
    e_joint_m = maxdiff(Mlib, Mref)
    e_joint_C = reldiff(Clib, Cref)
    # 3. u vs joint marginals
    mu, Cu = mvn(sol.u)
    e_u = maxdiff(mu.reshape(-1), Mref)
    # 4. sampling: zero draws and unit draws
    orig = pd_random.normal
    pd_random.normal = patched_normal
    try:
        key = jax.random.PRNGKey(1)
        ndraw = N * D

        def flat_sample():
            smp = post.sample(key)
            # list of tcoeffs, each (N, d)
            return onp.concatenate([onp.asarray(c).reshape(N, -1) for c in smp], axis=1).reshape(-1)

        QUEUE.clear()
        QUEUE.extend([onp.zeros(D) for _ in range(N)])
        s0 = flat_sample()
        assert len(QUEUE) == 0
        L = onp.zeros((N * D, ndraw))
        for k in range(ndraw):
            z = onp.zeros(ndraw)
            z[k] = 1.0
            QUEUE.clear()
            QUEUE.extend([z[i * D : (i + 1) * D] for i in range(N)])
            L[:, k] = flat_sample() - s0
        # affine check with a random draw
        z = onp.random.default_rng(0).normal(size=ndraw)
        QUEUE.clear()
        QUEUE.extend([z[i * D : (i + 1) * D] for i in range(N)])
        sz = flat_sample()
        e_aff = maxdiff(sz, s0 + L @ z)
    finally:
        pd_random.normal = orig
    e_s0 = maxdiff(s0, Mref)
    e_gram = reldiff(L @ L.T, Cref)
    tag = f"{routine:8s} {ssm_name:9s} {mode} {solver_name:7s}"
    vals = dict(filt_m=ef, filt_C=eCf, joint_m=e_joint_m, joint_C=e_joint_C, u=e_u, smp0=e_s0, gram=e_gram, aff=e_aff)
    flag = "" if all(v < 1e-6 for v in vals.values()) else "   <<<<<<<"
    print(tag, " ".join(f"{k}={v:.1e}" for k, v in vals.items()), flag, flush=True)


if __name__ == "__main__":
    ssm_names = sys.argv[1].split(",")
    routines = sys.argv[2].split(",")
    for routine in routines:
        for ssm_name in ssm_names:
            for mode in ["ts0", "ts1"]:
                for solver_name in ["none", "mle", "dynamic"]:
                    try:
                        run(ssm_name, mode, solver_name, routine)
                    except Exception as e:
                        import traceback

                        print(routine, ssm_name, mode, solver_name, "EXC", repr(e)[:300])
                        traceback.print_exc()
