import jax
jax.config.update("jax_enable_x64", True)
import jax.numpy as jnp
import numpy as onp
import warnings
from probdiffeq import ivpsolve, probdiffeq
import probdiffeq as _p
assert _p.__file__.startswith("/repo"), _p.__file__

SSMS = {
    "dense": probdiffeq.state_space_model_dense,
    "isotropic": probdiffeq.state_space_model_isotropic,
    "blockdiag": probdiffeq.state_space_model_blockdiag,
}

def vf_lin(y, *, t):
    return -0.5 * y + jnp.sin(t)

def build(ssm="dense", strategy="filter", solver="solver", num=2, u0=None, t0=0.0, vf=vf_lin, constraint="ts0"):
    if u0 is None:
        u0 = jnp.asarray([1.0, 0.5])
    ode = probdiffeq.ode(vf)
    tcoeffs, _ = probdiffeq.jetexpand_ode_padded_scan(num=num)(ode, (u0,), t=t0)
    s = SSMS[ssm]()
    prior = s.prior_wiener_integrated(tcoeffs)
    c = getattr(s, "constraint_ode_" + constraint)(ode)
    strat = getattr(probdiffeq, "strategy_" + strategy)()
    solv = getattr(probdiffeq, solver)(strategy=strat, constraint=c)
    err = probdiffeq.error_residual_std(constraint=c)
    return dict(ode=ode, tcoeffs=tcoeffs, ssm=s, prior=prior, constraint=c, solver=solv, error=err)
