"""C20 (and correctness of negative step sizes): solve_fixed_grid silently accepts a
DECREASING grid and returns numbers that are wrong by many orders of magnitude.

Reference 1: scipy solve_ivp integrating backwards in time (rtol=atol=1e-12).
Reference 2: the SAME library solver applied to the time-reversed ODE z(s) = y(1-s)
             on the increasing grid s = 1 - t (mathematically the identical problem).
Expected: either a loud rejection of the non-increasing grid, or the same accuracy as reference 2.
"""
import sys
import jax
jax.config.update("jax_enable_x64", True)
import jax.numpy as jnp
import numpy as onp
from scipy.integrate import solve_ivp
import probdiffeq as _p
from probdiffeq import ivpsolve, probdiffeq
assert _p.__file__.startswith("/repo"), _p.__file__

def vf(y, *, t):
    return -0.5 * y + jnp.sin(t)

def vf_reversed(z, *, t):  # z(s) = y(1 - s)
    return -(-0.5 * z + jnp.sin(1.0 - t))

u0 = jnp.asarray([1.0, 0.5])
truth = solve_ivp(lambda t, y: -0.5 * y + onp.sin(t), (1.0, 0.0), onp.asarray(u0), rtol=1e-12, atol=1e-12, dense_output=True)
grid = jnp.linspace(1.0, 0.0, 41)  # decreasing
truth_on_grid = truth.sol(onp.asarray(grid)).T

def solve(ssm_factory, strategy, f, t0, grid):
    ode = probdiffeq.ode(f)
    tcoeffs, _ = probdiffeq.jetexpand_ode_padded_scan(num=3)(ode, (u0,), t=t0)
    ssm = ssm_factory()
    prior = ssm.prior_wiener_integrated(tcoeffs)
    ts0 = ssm.constraint_ode_ts0(ode)
    solver = probdiffeq.solver(strategy=strategy(), constraint=ts0)
    return ivpsolve.solve_fixed_grid(solver=solver)(prior, grid=grid)

bad = False
for name, fac in [("dense", probdiffeq.state_space_model_dense), ("isotropic", probdiffeq.state_space_model_isotropic), ("blockdiag", probdiffeq.state_space_model_blockdiag)]:
    for sname, strat in [("filter", probdiffeq.strategy_filter), ("smoother_fixedinterval", probdiffeq.strategy_smoother_fixedinterval)]:
        try:
            sol = solve(fac, strat, vf, 1.0, grid)
        except Exception as e:
            print(name, sname, "decreasing grid rejected (good):", type(e).__name__)
            continue
        ref = solve(fac, strat, vf_reversed, 0.0, 1.0 - grid)
        err_bwd = float(onp.abs(onp.asarray(sol.u.mean[0]) - truth_on_grid).max())
        err_ref = float(onp.abs(onp.asarray(ref.u.mean[0]) - truth_on_grid).max())
        std = float(jnp.max(sol.u.std[0]))
        print(f"{name:9s} {sname:22s} decreasing grid ACCEPTED: t[0]={float(sol.t[0])}, t[-1]={float(sol.t[-1])}; "
              f"max|u - truth| = {err_bwd:.3e} (reported std {std:.1e}); expected about {err_ref:.3e} "
              f"(same solver on time-reversed ODE)")
        if not (err_bwd < 1e3 * err_ref):
            bad = True
# Unsorted grid is accepted as well
sol = solve(probdiffeq.state_space_model_dense, probdiffeq.strategy_filter, vf, 0.0, jnp.asarray([0.0, 0.5, 0.25, 1.0]))
print("unsorted grid [0, .5, .25, 1] accepted; t =", sol.t, "num_steps =", sol.num_steps)
if bad:
    print("DEFECT: non-increasing grid is neither rejected nor solved correctly")
    sys.exit(1)
print("no defect")
