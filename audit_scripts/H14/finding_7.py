"""C18: a proposal returned by dt0_adaptive does NOT let an adaptive solve start for an initial
value of magnitude 1e300 with zero derivative (both explicitly inside the property's quantifier).

y' = 0, y0 = [1e300, 1e300]: dt0_adaptive returns its fall-back 1e-6 (d1 < 1e-5). The first solver step
with dt = 1e-6 returns NaN means: the Taylor preconditioner multiplies the state by q!/dt^q
(3!/(1e-6)^3 = 6e18), 1e300 * 6e18 overflows to inf and inf * 0 = NaN. The rejection loop accepts the NaN
attempt and the solve 'finishes' with t = NaN, u = NaN. The SAME solve started with dt0 = 0.1 (or with the
proposal of ivpsolve.dt0) finishes at t = 1 with the exact value 1e300 -> the proposal is at fault.

(For y' = -y/2 and |y0| >= 1e160 the solver returns NaN for every dt0 <= 0.1 because squares of the
residual overflow; this is listed for information and not attributed to the helpers.)
"""
import sys
import jax
jax.config.update("jax_enable_x64", True)
import jax.numpy as jnp
import numpy as onp
import probdiffeq as _p
from probdiffeq import ivpsolve, probdiffeq
assert _p.__file__.startswith("/repo"), _p.__file__

bad = False
for vname, vf, exact in [("y'=0", lambda y, *, t: 0.0 * y, lambda y0: y0), ("y'=-y/2", lambda y, *, t: -0.5 * y, lambda y0: y0 * onp.exp(-0.5))]:
    for mag in [1e200, 1e300]:
        u0 = jnp.asarray([mag, mag])
        ode = probdiffeq.ode(vf)
        num = 3
        tcoeffs, _ = probdiffeq.jetexpand_ode_padded_scan(num=num)(ode, (u0,), t=0.0)
        for name, fac in [("dense", probdiffeq.state_space_model_dense), ("isotropic", probdiffeq.state_space_model_isotropic), ("blockdiag", probdiffeq.state_space_model_blockdiag)]:
            ssm = fac()
            prior = ssm.prior_wiener_integrated(tcoeffs)
            ts0 = ssm.constraint_ode_ts0(ode)
            solver = probdiffeq.solver(strategy=probdiffeq.strategy_filter(), constraint=ts0)
            error = probdiffeq.error_residual_std(constraint=ts0)
            solve = ivpsolve.solve_adaptive_terminal_values(solver=solver, error=error)
            control = solve(prior, t0=0.0, t1=1.0, atol=1e-4, rtol=1e-4, dt0=0.1)
            control_ok = bool(jnp.all(jnp.isfinite(control.u.mean[0])))
            proposals = {
                "dt0": ivpsolve.dt0(ode, (u0,), t=0.0),
                "dt0_adaptive": ivpsolve.dt0_adaptive(ode, (u0,), 0.0, error_contraction_rate=num + 1, rtol=1e-4, atol=1e-4),
            }
            for hname, d in proposals.items():
                sol = solve(prior, t0=0.0, t1=1.0, atol=1e-4, rtol=1e-4, dt0=d)
                finite = bool(jnp.all(jnp.isfinite(sol.u.mean[0]))) and float(sol.t) == 1.0
                if finite:
                    status = "ok"
                elif control_ok:
                    status = "NaN although dt0=0.1 works  <-- DEFECT (proposal unusable)"
                    bad = True
                else:
                    status = "NaN (solver overflows for dt0=0.1 too; not attributed to the helper)"
                print(f"{vname:8s} |y0|={mag:.0e} {name:9s} {hname:12s} proposal={float(d):.3e}: t={float(sol.t)}, u[0]={float(sol.u.mean[0][0]):.6e}, exact={exact(mag):.6e}  {status}")
if bad:
    print("DEFECT: a helper proposal for a 1e300-sized initial value makes the adaptive solve return NaN")
    sys.exit(1)
print("no defect")
