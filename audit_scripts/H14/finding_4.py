"""C13: MarkovSequence.from_grid(prior, grid=..., reverse=True) does NOT follow the prior's
joint law on the grid.

from_grid always builds the FORWARD transitions x(t_{k+1}) | x(t_k) and stores prior.init as the
marginal. With reverse=True these forward transitions are merely relabelled as backward conditionals
x(t_k) | x(t_{k+1}) and prior.init is used as the marginal at the LAST grid point. The resulting
sequence has, e.g., the (exact, zero-variance) initial condition at grid[-1] and a large variance at
grid[0], whereas the prior has the initial condition at grid[0].

Reference: closed-form marginals of the q-times integrated Wiener process,
    mean(t) = Phi(t - t0) m0,   cov(t) = sigma^2 Q(t - t0),
which from_grid(..., reverse=False) reproduces to rounding (checked below).
"""
import sys
from math import factorial
import jax
jax.config.update("jax_enable_x64", True)
import jax.numpy as jnp
import numpy as onp
import probdiffeq as _p
from probdiffeq import probdiffeq
assert _p.__file__.startswith("/repo"), _p.__file__

q = 2
def Phi(h):
    return onp.array([[h ** (j - i) / factorial(j - i) if j >= i else 0.0 for j in range(q + 1)] for i in range(q + 1)])
def Q(h):
    return onp.array([[h ** (2 * q + 1 - i - j) / ((2 * q + 1 - i - j) * factorial(q - i) * factorial(q - j)) for j in range(q + 1)] for i in range(q + 1)])

def vf(y, *, t):
    return -0.5 * y + jnp.sin(t)
u0 = jnp.asarray([1.0, 0.5])
ode = probdiffeq.ode(vf)
tcoeffs, _ = probdiffeq.jetexpand_ode_padded_scan(num=q)(ode, (u0,), t=0.0)
m0 = onp.stack([onp.asarray(c) for c in tcoeffs])  # (q+1, d)
grid = jnp.asarray([0.0, 0.3, 0.4, 1.1])
sigma = 3.0
bad = False
for name, fac in [("dense", probdiffeq.state_space_model_dense), ("isotropic", probdiffeq.state_space_model_isotropic), ("blockdiag", probdiffeq.state_space_model_blockdiag)]:
    ssm = fac()
    osc = sigma if name == "isotropic" else sigma * jnp.ones((2,))
    prior = ssm.prior_wiener_integrated(tcoeffs, output_scale=osc)
    mean_ref = onp.stack([Phi(float(t)) @ m0 for t in grid])[:, 0, 0]          # y-component 0
    std_ref = onp.asarray([sigma * onp.sqrt(Q(float(t))[0, 0]) for t in grid])
    for reverse in [False, True]:
        ms = probdiffeq.MarkovSequence.from_grid(prior, grid=grid, reverse=reverse)
        m = ms.evaluate_marginals()
        mean = onp.asarray(m.mean[0])[:, 0]
        std = onp.asarray(m.std[0]); std = std[:, 0] if std.ndim == 2 else std
        smp = ms.sample(jax.random.PRNGKey(1), shape=(4000,))
        emp_std = onp.asarray(smp[0])[:, :, 0].std(axis=0)
        ok = onp.allclose(mean, mean_ref, atol=1e-10) and onp.allclose(std, std_ref, atol=1e-10)
        print(f"{name:9s} reverse={reverse}: marginal mean y(t_k) = {mean}, std = {std}, empirical sample std = {emp_std.round(3)}")
        print(f"{'':9s} expected (prior law): mean          = {mean_ref}, std = {std_ref}   -> {'ok' if ok else 'MISMATCH'}")
        if not ok:
            bad = True
if bad:
    print("DEFECT: from_grid(reverse=True) is not the prior's law on the grid")
    sys.exit(1)
print("no defect")
