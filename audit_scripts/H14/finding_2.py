"""C20 / C06: solve_adaptive_save_at and solve_adaptive_terminal_values silently accept
non-increasing checkpoints (decreasing save_at, unsorted save_at, t1 < t0).

They return numbers without taking a single step (num_steps == 0): the 'solution' is the
prior's Taylor extrapolation of the initial state (the ODE is never evaluated away from t0),
reported at the requested times with small standard deviations.

Expected: a Python exception (the checkpoints are malformed), or at least a solution of the ODE.
Reference: scipy solve_ivp (rtol=atol=1e-12) integrating to the requested times.
"""
import sys
import jax
jax.config.update("jax_enable_x64", True)
import jax.numpy as jnp
import numpy as onp
from scipy.integrate import solve_ivp
import probdiffeq as _p
from probdiffeq import ivpsolve, probdiffeq
assert _p.__file__.startswith("/repo"), _p.__file__

def vf(y, *, t):
    return -0.5 * y + jnp.sin(t)

u0 = jnp.asarray([1.0, 0.5])
rhs = lambda t, y: -0.5 * y + onp.sin(t)
tol = 1e-6
bad = False

def make(ssm_factory, strategy, t0):
    ode = probdiffeq.ode(vf)
    tcoeffs, _ = probdiffeq.jetexpand_ode_padded_scan(num=3)(ode, (u0,), t=t0)
    ssm = ssm_factory()
    prior = ssm.prior_wiener_integrated(tcoeffs)
    ts0 = ssm.constraint_ode_ts0(ode)
    solver = probdiffeq.solver(strategy=strategy(), constraint=ts0)
    error = probdiffeq.error_residual_std(constraint=ts0)
    return prior, solver, error

for name, fac in [("dense", probdiffeq.state_space_model_dense), ("isotropic", probdiffeq.state_space_model_isotropic), ("blockdiag", probdiffeq.state_space_model_blockdiag)]:
    for sname, strat in [("filter", probdiffeq.strategy_filter), ("smoother_fixedpoint", probdiffeq.strategy_smoother_fixedpoint)]:
        # (a) decreasing save_at
        prior, solver, error = make(fac, strat, 1.0)
        save_at = jnp.linspace(1.0, 0.0, 5)
        truth = solve_ivp(rhs, (1.0, 0.0), onp.asarray(u0), rtol=1e-12, atol=1e-12, t_eval=onp.asarray(save_at)).y.T
        try:
            sol = ivpsolve.solve_adaptive_save_at(solver=solver, error=error)(prior, save_at=save_at, atol=tol, rtol=tol)
            err = float(onp.abs(onp.asarray(sol.u.mean[0]) - truth).max())
            print(f"{name:9s} {sname:19s} save_at={onp.asarray(save_at)} ACCEPTED: num_steps={onp.asarray(sol.num_steps)}, "
                  f"max|u-truth|={err:.2e} at atol=rtol={tol}, max std={float(jnp.max(sol.u.std[0])):.1e}")
            bad = True
        except Exception as e:
            print(name, sname, "decreasing save_at rejected (good):", type(e).__name__)
        # (b) terminal values with t1 < t0
        prior, solver, error = make(fac, strat, 0.0)
        truth = solve_ivp(rhs, (0.0, -1.0), onp.asarray(u0), rtol=1e-12, atol=1e-12).y[:, -1]
        try:
            sol = ivpsolve.solve_adaptive_terminal_values(solver=solver, error=error)(prior, t0=0.0, t1=-1.0, atol=tol, rtol=tol)
            print(f"{name:9s} {sname:19s} t0=0, t1=-1 ACCEPTED: t={float(sol.t)}, num_steps={int(sol.num_steps)}, "
                  f"u={onp.asarray(sol.u.mean[0])}, truth={truth}, std={onp.asarray(sol.u.std[0])}")
            bad = True
        except Exception as e:
            print(name, sname, "t1<t0 rejected (good):", type(e).__name__)

# (c) unsorted save_at: the out-of-order time is "reported" but is an extrapolation backwards
prior, solver, error = make(probdiffeq.state_space_model_dense, probdiffeq.strategy_filter, 0.0)
save_at = jnp.asarray([0.0, 0.5, 0.25, 1.0])
truth = solve_ivp(rhs, (0.0, 1.0), onp.asarray(u0), rtol=1e-12, atol=1e-12, dense_output=True).sol(onp.asarray(save_at)).T
try:
    sol = ivpsolve.solve_adaptive_save_at(solver=solver, error=error)(prior, save_at=save_at, atol=tol, rtol=tol)
    err = onp.abs(onp.asarray(sol.u.mean[0]) - truth).max(axis=1)
    print("unsorted save_at", onp.asarray(save_at), "ACCEPTED: t=", onp.asarray(sol.t), "num_steps=", onp.asarray(sol.num_steps), "err per time", err, "std", onp.asarray(sol.u.std[0][:, 0]))
    bad = True
except Exception as e:
    print("unsorted save_at rejected (good):", type(e).__name__)

if bad:
    print("DEFECT: non-increasing checkpoints are silently accepted and produce numbers")
    sys.exit(1)
print("no defect")
