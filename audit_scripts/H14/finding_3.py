"""C20: solve_fixed_grid silently accepts a 2-d grid of shape (k, 2) (wrong rank) and
broadcasts it: it returns k+1 'time points', each of which is a 2-vector, and k 'steps'.

MarkovSequence.from_grid does the same for every 2-d grid (k, m): it silently takes the
differences within each row and returns a sequence with k+1 states instead of k*m.

Expected: a Python exception (grid must be 1-d), as is raised for 0-d grids and grids of shape (2, k).
"""
import sys
import jax
jax.config.update("jax_enable_x64", True)
import jax.numpy as jnp
import numpy as onp
import probdiffeq as _p
from probdiffeq import ivpsolve, probdiffeq
assert _p.__file__.startswith("/repo"), _p.__file__

def vf(y, *, t):
    return -0.5 * y + jnp.sin(t)

u0 = jnp.asarray([1.0, 0.5])
grid1d = jnp.linspace(0.0, 1.0, 5)
grid2d = jnp.stack([grid1d, grid1d + 0.1], axis=1)  # shape (5, 2): malformed
bad = False
for name, fac in [("dense", probdiffeq.state_space_model_dense), ("isotropic", probdiffeq.state_space_model_isotropic), ("blockdiag", probdiffeq.state_space_model_blockdiag)]:
    ode = probdiffeq.ode(vf)
    tcoeffs, _ = probdiffeq.jetexpand_ode_padded_scan(num=2)(ode, (u0,), t=0.0)
    ssm = fac()
    prior = ssm.prior_wiener_integrated(tcoeffs)
    ts0 = ssm.constraint_ode_ts0(ode)
    solver = probdiffeq.solver(strategy=probdiffeq.strategy_filter(), constraint=ts0)
    solve = ivpsolve.solve_fixed_grid(solver=solver)
    ref = solve(prior, grid=grid1d)
    try:
        sol = solve(prior, grid=grid2d)
        print(f"{name}: solve_fixed_grid(grid.shape={grid2d.shape}) ACCEPTED; sol.t.shape={sol.t.shape} (1-d grid gives {ref.t.shape}), "
              f"sol.u.mean[0].shape={sol.u.mean[0].shape}, num_steps={onp.asarray(sol.num_steps)}, t[-1]={onp.asarray(sol.t[-1])}, u[-1]={onp.asarray(sol.u.mean[0][-1])}")
        bad = True
    except Exception as e:
        print(name, "solve_fixed_grid 2-d grid rejected (good):", type(e).__name__)
    try:
        g = jnp.asarray([[0.0, 0.3], [0.4, 1.1]])
        ms = probdiffeq.MarkovSequence.from_grid(prior, grid=g, reverse=False)
        m = ms.evaluate_marginals()
        print(f"{name}: MarkovSequence.from_grid(grid.shape={g.shape}) ACCEPTED; number of marginals={m.mean[0].shape[0]} (grid has {g.size} points); mean y={onp.asarray(m.mean[0][..., 0]).ravel()}")
        bad = True
    except Exception as e:
        print(name, "from_grid 2-d grid rejected (good):", type(e).__name__)
if bad:
    print("DEFECT: 2-d grids are silently broadcast")
    sys.exit(1)
print("no defect")
