"""C20 / C18: ivpsolve.dt0_adaptive silently broadcasts tolerances of the wrong shape.

For a state of shape (d,), atol (or rtol) of shape (d, 1) is accepted: `scale = atol + |y0| * rtol`
becomes a (d, d) matrix, all norms are taken over d*d numbers, and a DIFFERENT step size is returned
than for the equivalent, correctly shaped tolerance. The adaptive solve itself rejects the very same
tolerance ("The tolerance 'atol' has an unexpected shape").

Expected: ValueError (as in the error estimators), or the value for the equivalent (d,) tolerance.
Reference: independent numpy implementation of Hairer-Norsett-Wanner II.4 with the (d,) tolerance.
"""
import sys
import jax
jax.config.update("jax_enable_x64", True)
import jax.numpy as jnp
import numpy as onp
import probdiffeq as _p
from probdiffeq import ivpsolve, probdiffeq
assert _p.__file__.startswith("/repo"), _p.__file__

def vf(y, *, t):
    return -0.5 * y + jnp.sin(t)

def hnw(f, t0, y0, rate, rtol, atol):
    sc = atol + onp.abs(y0) * rtol
    f0 = f(y0, t0)
    d0 = onp.linalg.norm(y0 / sc); d1 = onp.linalg.norm(f0 / sc)
    h0 = 1e-6 if (d0 < 1e-5 or d1 < 1e-5) else 0.01 * d0 / d1
    f1 = f(y0 + h0 * f0, t0 + h0)
    d2 = onp.linalg.norm((f1 - f0) / sc) / h0
    h1 = max(1e-6, h0 * 1e-3) if max(d1, d2) <= 1e-15 else (0.01 / max(d1, d2)) ** (1.0 / (rate + 1))
    return min(100 * h0, h1)

ode = probdiffeq.ode(vf)
u0 = jnp.asarray([1.0, 0.5])
atol_vec = jnp.asarray([1e-3, 1e-6])
ref = hnw(lambda y, t: -0.5 * y + onp.sin(t), 0.0, onp.asarray(u0), 3, 1e-3, onp.asarray(atol_vec))
good = float(ivpsolve.dt0_adaptive(ode, (u0,), 0.0, error_contraction_rate=3, rtol=1e-3, atol=atol_vec))
print("atol shape (2,):   dt0_adaptive =", good, " independent HNW =", ref)
bad = False
for label, kw in [("atol shape (2,1)", dict(rtol=1e-3, atol=atol_vec[:, None])), ("rtol shape (2,1)", dict(rtol=1e-3 * jnp.ones((2, 1)), atol=atol_vec))]:
    try:
        got = ivpsolve.dt0_adaptive(ode, (u0,), 0.0, error_contraction_rate=3, **kw)
        print(f"{label}: ACCEPTED, dt0_adaptive = {got}  (expected ValueError or {ref})")
        bad = True
    except Exception as e:
        print(label, "rejected (good):", type(e).__name__)

# the adaptive solver rejects the same tolerance:
tcoeffs, _ = probdiffeq.jetexpand_ode_padded_scan(num=2)(ode, (u0,), t=0.0)
ssm = probdiffeq.state_space_model_dense()
prior = ssm.prior_wiener_integrated(tcoeffs)
ts0 = ssm.constraint_ode_ts0(ode)
solver = probdiffeq.solver(strategy=probdiffeq.strategy_filter(), constraint=ts0)
error = probdiffeq.error_residual_std(constraint=ts0)
try:
    ivpsolve.solve_adaptive_save_at(solver=solver, error=error)(prior, save_at=jnp.linspace(0, 1, 3), atol=atol_vec[:, None], rtol=1e-3)
    print("solve_adaptive_save_at accepted atol of shape (2,1)")
except ValueError as e:
    print("solve_adaptive_save_at with the same atol:", str(e))
if bad:
    print("DEFECT: dt0_adaptive broadcasts wrongly shaped tolerances")
    sys.exit(1)
print("no defect")
