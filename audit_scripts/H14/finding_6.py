"""C20 / C06: the controllers' constructors and the scalar arguments of the adaptive solve
(dt0, eps, atol, rtol) are not validated; inadmissible values are silently accepted and the
rejection loop then hangs or returns NaN / non-solutions without any exception or warning.

 (a) control_integral(safety=2.0) / control_proportional_integral(safety=2.0):
     the rejection loop never terminates. A rejected attempt (error_power < 1) is followed by an
     attempt of size safety*error_power*dt, which is NOT smaller once error_power >= 1/safety, and
     the iteration converges to the fixed point error_power = 1/safety = 0.5 < 1 (rejected forever).
     Demonstrated with a Python while-loop that counts attempts.
 (b) factor_min > factor_max (e.g. factor_min=2, factor_max=0.5): every factor is 2, steps are
     never reduced; the solve 'finishes' with num_steps == 1 and a non-solution (error 0.13 at tol 1e-4).
 (c) dt0 = 0, dt0 < 0, eps < 0 (terminal values), atol = rtol = 0, atol < 0: all-NaN output, no exception.

Expected: ValueError at construction / at the start of the solve.
"""
import sys
import jax
jax.config.update("jax_enable_x64", True)
import jax.numpy as jnp
import numpy as onp
import probdiffeq as _p
from probdiffeq import ivpsolve, probdiffeq
assert _p.__file__.startswith("/repo"), _p.__file__

def vf(y, *, t):
    return -0.5 * y + jnp.sin(t)
u0 = jnp.asarray([1.0, 0.5])
ode = probdiffeq.ode(vf)
tcoeffs, _ = probdiffeq.jetexpand_ode_padded_scan(num=2)(ode, (u0,), t=0.0)
ssm = probdiffeq.state_space_model_dense()
prior = ssm.prior_wiener_integrated(tcoeffs)
ts0 = ssm.constraint_ode_ts0(ode)
solver = probdiffeq.solver(strategy=probdiffeq.strategy_filter(), constraint=ts0)
error = probdiffeq.error_residual_std(constraint=ts0)
save_at = jnp.linspace(0.0, 1.0, 5)
bad = False

class Stuck(RuntimeError):
    pass

def counting_while(cond, body, init):
    state, n, hist = init, 0, []
    while cond(state):
        state = body(state)
        n += 1
        if hasattr(state, "acceptance_factor_proposed"):
            hist.append((float(state.dt), float(state.acceptance_factor_proposed)))
        if n > 3000:
            raise Stuck(f"rejection loop still running after {n} attempts; last (next dt, error_power): {hist[-3:]}")
    return state

# (a)
for ctrl_name, ctrl in [("control_integral(safety=2.0)", lambda: ivpsolve.control_integral(safety=2.0)),
                        ("control_proportional_integral(safety=2.0)", lambda: ivpsolve.control_proportional_integral(safety=2.0))]:
    try:
        c = ctrl()
    except Exception as e:
        print(ctrl_name, "rejected at construction (good):", type(e).__name__); continue
    try:
        with jax.disable_jit():
            solve = ivpsolve.solve_adaptive_save_at(solver=solver, error=error, control=c, while_loop=counting_while)
            sol = solve(prior, save_at=save_at, atol=1e-4, rtol=1e-4)
        print(ctrl_name, "finished; t =", sol.t)
    except Stuck as e:
        print(ctrl_name, "ACCEPTED, then HANGS:", e)
        bad = True

# (b), (c)
def run(label, control=None, **kw):
    global bad
    args = dict(save_at=save_at, atol=1e-4, rtol=1e-4); args.update(kw)
    try:
        c = control() if control is not None else None
        sol = ivpsolve.solve_adaptive_save_at(solver=solver, error=error, control=c)(prior, **args)
        print(f"{label}: ACCEPTED; t={onp.asarray(sol.t)}, u[:,0]={onp.asarray(sol.u.mean[0][:, 0])}, num_steps={onp.asarray(sol.num_steps)}")
        bad = True
    except Exception as e:
        print(label, "rejected (good):", type(e).__name__)

print("reference u[:,0] = [1. 0.91233 0.89156 0.92446 0.99608]")
run("control_integral(factor_min=2.0, factor_max=0.5)", control=lambda: ivpsolve.control_integral(factor_min=2.0, factor_max=0.5))
run("control_integral(factor_min=0.5, factor_max=0.1)", control=lambda: ivpsolve.control_integral(factor_min=0.5, factor_max=0.1))
run("control_proportional_integral(exponent_integral=-0.3, exponent_proportional=-0.4)", control=lambda: ivpsolve.control_proportional_integral(exponent_integral=-0.3, exponent_proportional=-0.4))
run("control_integral(safety=-1.0)", control=lambda: ivpsolve.control_integral(safety=-1.0))
run("dt0=0.0", dt0=0.0)
run("dt0=-0.1", dt0=-0.1)
run("atol=rtol=0.0", atol=0.0, rtol=0.0)
run("atol=-1e-4", atol=-1e-4)
try:
    sol = ivpsolve.solve_adaptive_terminal_values(solver=solver, error=error)(prior, t0=0.0, t1=1.0, atol=1e-4, rtol=1e-4, eps=-0.01)
    print("terminal values, eps=-0.01: ACCEPTED; t =", sol.t, "u =", sol.u.mean[0]); bad = True
except Exception as e:
    print("eps<0 rejected (good):", type(e).__name__)
if bad:
    print("DEFECT: inadmissible controller parameters / scalar arguments are silently accepted")
    sys.exit(1)
print("no defect")
