"""[C10] Taylor-coefficient routines silently truncate derivatives for pytree states with mixed leaf dtypes.

State: {"a": float64 scalar, "b": integer scalar} (e.g. u0 = {"a": 1.5, "b": 2}).
ODE:   a' = 0.5 a b + t,  b' = 0.25 a - 0.5 b      (t0 = 0.25)

The same problem with the state written as a flat float array (or as an all-float /
all-integer pytree) gives the exact derivatives.  With the mixed pytree, every routine
casts the derivatives of the "b" leaf back to int64, so b' = -0.625 becomes 0 and all
higher coefficients (of *both* leaves) are wrong.
"""
import sys
import jax, jax.numpy as jnp, numpy as onp
jax.config.update("jax_enable_x64", True)
from fractions import Fraction as Fr
import math
import probdiffeq
from probdiffeq import probdiffeq as pdq

assert probdiffeq.__file__.startswith("/repo"), probdiffeq.__file__


def f(u, *, t):
    return {"a": 0.5 * u["a"] * u["b"] + t, "b": 0.25 * u["a"] - 0.5 * u["b"]}


# Exact reference by power-series arithmetic in rationals: c_{k+1} = [s^k] f(u(s), t0+s) / (k+1)
def exact(num):
    a, b, t = [Fr(3, 2)], [Fr(2)], [Fr(1, 4), Fr(1)]
    for k in range(num):
        ab_k = sum(a[i] * b[k - i] for i in range(k + 1))
        tk = t[k] if k < 2 else Fr(0)
        fa = Fr(1, 2) * ab_k + tk
        fb = Fr(1, 4) * a[k] - Fr(1, 2) * b[k]
        a.append(fa / (k + 1)); b.append(fb / (k + 1))
    return [(float(a[k] * math.factorial(k)), float(b[k] * math.factorial(k))) for k in range(num + 1)]


num = 3
ref = onp.array(exact(num))
u0_mixed = {"a": jnp.asarray(1.5), "b": jnp.asarray(2)}  # float64 leaf + int leaf
u0_float = {"a": jnp.asarray(1.5), "b": jnp.asarray(2.0)}
routines = {
    "jetexpand_ode_unroll": pdq.jetexpand_ode_unroll(num=num),
    "jetexpand_ode_padded_scan": pdq.jetexpand_ode_padded_scan(num=num),
    "jetexpand_ode_via_jvp": pdq.jetexpand_ode_via_jvp(num=num),
    "jetexpand_ode_doubling_unroll": pdq.jetexpand_ode_doubling_unroll(num_doublings=2),
}
print("expected (exact rational arithmetic) [a^(k), b^(k)], k=0..3:\n", ref)
defect = False
for name, alg in routines.items():
    out_f, _ = alg(pdq.ode(f), [u0_float], t=0.25)
    out_m, _ = alg(pdq.ode(f), [u0_mixed], t=0.25)
    got_f = onp.array([[float(o["a"]), float(o["b"])] for o in out_f])[: num + 1]
    got_m = onp.array([[float(o["a"]), float(o["b"])] for o in out_m])[: num + 1]
    err_f = onp.max(onp.abs(got_f - ref)); err_m = onp.max(onp.abs(got_m - ref))
    print(f"\n{name}: all-float pytree max abs err = {err_f:.2e}; mixed-dtype pytree max abs err = {err_m:.2e}")
    print(" observed for the mixed-dtype state (dtype of b-leaf:", out_m[1]["b"].dtype, "):\n", got_m)
    if err_m > 1e-8:
        defect = True
if defect:
    print("\nDEFECT PRESENT: derivatives of a mixed-dtype pytree state are truncated to integers (no error raised).")
    sys.exit(1)
print("\nno defect")
