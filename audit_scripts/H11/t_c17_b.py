import jax, jax.numpy as jnp
jax.config.update("jax_enable_x64", True)
from probdiffeq import probdiffeq as pdq
@jax.custom_vjp
def g(x): return jnp.sin(x)
def g_fwd(x): return jnp.sin(x), x
def g_bwd(x, ct): return (ct * jnp.cos(x),)
g.defvjp(g_fwd, g_bwd)
x = jnp.ones((2, 3))
for H in [pdq.jacobian_materialize(jacfun=jax.jacrev), pdq.jacobian_monte_carlo_rev()]:
    for m in ["materialize_dense", "calculate_trace_along_d", "calculate_diagonal_along_d"]:
        try:
            out = getattr(H, m)(g, x, H.init_jacobian_handler())
            print(type(H).__name__, m, "ok")
        except Exception as e:
            print(type(H).__name__, m, "ERR", type(e).__name__, str(e)[:80])
