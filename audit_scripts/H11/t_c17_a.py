import jax, jax.numpy as jnp, numpy as onp, itertools
jax.config.update("jax_enable_x64", True)
from probdiffeq import probdiffeq as pdq
from probdiffeq.backend import random as prandom

worst = 0.
def all_probes(n, d):
    return jnp.array(list(itertools.product([-1.0, 1.0], repeat=n*d))).reshape(-1, n, d)

orig = prandom.rademacher
for n_in, n_out, d in itertools.product([1,2,3], [1,2,3], [1,2,3]):
    if max(n_in, n_out)*d > 9: continue
    W = jax.random.normal(jax.random.PRNGKey(n_in*100+n_out*10+d), (n_out, d, n_in, d))
    def fun(x, scale=1.0):
        lin = jnp.einsum("odie,ie->od", W, x)
        return scale * (jnp.sin(lin) + lin**2 + jnp.sum(x**3) )
    x = jax.random.normal(jax.random.PRNGKey(7), (n_in, d))
    J = jax.jacfwd(fun)(x)
    Jtr = jnp.trace(J, axis1=1, axis2=3)
    Jdg = jnp.einsum("mdnd->dmn", J)
    fx = fun(x)
    # materialize
    h = pdq.jacobian_materialize()
    for hh in [h, pdq.jacobian_materialize(jacfun=jax.jacfwd)]:
        s = hh.init_jacobian_handler()
        a = hh.materialize_dense(fun, x, s); b = hh.calculate_trace_along_d(fun, x, s); c = hh.calculate_diagonal_along_d(fun, x, s)
        e = max(float(jnp.abs(a[0]-fx).max()), float(jnp.abs(a[1]-J).max()), float(jnp.abs(b[1]-Jtr).max()), float(jnp.abs(c[1]-Jdg).max()), float(jnp.abs(b[0]-fx).max()), float(jnp.abs(c[0]-fx).max()))
        worst = max(worst, e)
        assert e < 1e-12, ("mat", n_in, n_out, d, e)
    # kwargs
    a = h.materialize_dense(fun, x, (), scale=2.0)
    assert float(jnp.abs(a[1]-2*J).max()) < 1e-12
    for cls, nprobe in [(pdq.jacobian_monte_carlo_fwd, n_in), (pdq.jacobian_monte_carlo_rev, n_out)]:
        P = all_probes(nprobe, d)
        def fake(key, shape, dtype):
            assert shape == P.shape, (shape, P.shape)
            return P.astype(dtype)
        prandom.rademacher = fake
        hh = cls(seed=3, num_probes=P.shape[0])
        key = hh.init_jacobian_handler()
        f1, tr, k1 = hh.calculate_trace_along_d(fun, x, key)
        f2, dg, k2 = hh.calculate_diagonal_along_d(fun, x, key)
        f3, JJ, k3 = hh.materialize_dense(fun, x, key)
        f4, tr2, _ = hh.calculate_trace_along_d(fun, x, key, scale=2.0)
        e = max(float(jnp.abs(tr-Jtr).max()), float(jnp.abs(dg-Jdg).max()), float(jnp.abs(JJ-J).max()), float(jnp.abs(f1-fx).max()), float(jnp.abs(f2-fx).max()), float(jnp.abs(tr2-2*Jtr).max()))
        worst = max(worst, e)
        if e > 1e-10: print("MISMATCH", cls.__name__, n_in, n_out, d, e, tr.shape, Jtr.shape)
        assert tr.shape == Jtr.shape and dg.shape == Jdg.shape
        assert not jnp.array_equal(k1, key) and not jnp.array_equal(k2, key)
        prandom.rademacher = orig
        # real randomness: different calls -> different estimates, key advanced, unbiased-ish
        hh = cls(seed=3, num_probes=7)
        key = hh.init_jacobian_handler()
        _, t1, k1 = hh.calculate_trace_along_d(fun, x, key)
        _, t2, k2 = hh.calculate_trace_along_d(fun, x, k1)
        assert not jnp.array_equal(k1, k2)
        # jit & vmap
        _, t1j, _ = jax.jit(lambda x, k: hh.calculate_trace_along_d(fun, x, k))(x, key)
        assert jnp.allclose(t1, t1j)
print("worst", worst)

# rejection of malformed
h = pdq.jacobian_materialize()
bad = [
 ("1d x", lambda x: x, jnp.ones(3)),
 ("3d x", lambda x: x, jnp.ones((2,3,1))),
 ("trailing mismatch", lambda x: x[:, :2], jnp.ones((2,3))),
 ("1d out", lambda x: x[0], jnp.ones((2,3))),
 ("tuple out", lambda x: (x,), jnp.ones((2,3))),
 ("numpy x", lambda x: x, onp.ones((2,3))),
 ("list x", lambda x: jnp.asarray(x), [[1.0,2.0]]),
 ("scalar out", lambda x: jnp.sum(x), jnp.ones((2,3))),
 ("int x", lambda x: x*1.0, jnp.ones((2,3), dtype=int)),
]
for H in [pdq.jacobian_materialize(), pdq.jacobian_monte_carlo_fwd(), pdq.jacobian_monte_carlo_rev()]:
    for name, f, x in bad:
        for meth in ["materialize_dense", "calculate_trace_along_d", "calculate_diagonal_along_d"]:
            try:
                out = getattr(H, meth)(f, x, H.init_jacobian_handler())
                print("ACCEPTED", type(H).__name__, name, meth, jax.tree.map(jnp.shape, out[:2]), out[1].dtype)
            except (TypeError, ValueError) as e:
                pass
            except Exception as e:
                print("OTHER ERR", type(H).__name__, name, meth, type(e).__name__, str(e)[:100])
