import sys, itertools, warnings, collections; sys.path.insert(0, "/repo/hunt")
warnings.simplefilter("ignore")
from harness import *

NT = collections.namedtuple("NT", ["x", "y"])
# state: dict with scalar leaf, namedtuple with rank-1 and rank-2 leaf, tuple with rank-3 leaf.  total dims: 1 + 2 + 2 + 2 = 7
def to_tree(v):
    return {"b": NT(x=v[1:3], y=v[3:5].reshape(2, 1)), "a": v[0], "c": (v[5:7].reshape(1, 2, 1),)}
def to_flat(tr):
    return jnp.concatenate([jnp.ravel(tr["a"])[...], jnp.ravel(tr["b"].x), jnp.ravel(tr["b"].y), jnp.ravel(tr["c"][0])])
# jax ravel order: dict keys sorted: a, b(x,y), c -> matches to_flat
A = jax.random.normal(jax.random.PRNGKey(0), (7, 7)) * 0.4
def vf_flat(u, *, t):
    return A @ jnp.tanh(u) - 0.3 * u * u[::-1] + jnp.sin(t)
def vf_tree(tr, *, t):
    return to_tree(vf_flat(to_flat(tr), t=t))
u0 = jax.random.normal(jax.random.PRNGKey(1), (7,))
t0, t1 = 0.0, 1.5
save_at = jnp.linspace(t0, t1, 5); grid = jnp.linspace(t0, t1, 11)
perm = jnp.array([3, 0, 6, 1, 5, 2, 4]); inv = jnp.argsort(perm)
def vf_perm(v, *, t):  # v = u[perm]
    return vf_flat(v[inv], t=t)[perm]

def run(vf, u0, cfg, adaptive):
    ssm, strat, solver, cons = cfg
    prior, sol, err = make(vf, [u0], t0, ssm=ssm, strat=strat, solver=solver, cons=cons, num=3)
    if adaptive:
        return jax.jit(ivpsolve.solve_adaptive_save_at(solver=sol, error=err, warn=False))(prior, save_at=save_at, atol=1e-4, rtol=1e-4, dt0=0.1)
    return jax.jit(ivpsolve.solve_fixed_grid(solver=sol))(prior, grid=grid)

only = sys.argv[1]
for cfg in itertools.product([only], ["filter", "fp", "fi"], ["solver", "mle", "dyn"], ["ts0", "ts1"]):
    for adaptive in [True, False]:
        if adaptive and cfg[1] == "fi": continue
        if not adaptive and cfg[1] == "fp": continue
        T = len(save_at) if adaptive else len(grid)
        try:
            sf = run(vf_flat, u0, cfg, adaptive)
            st = run(vf_tree, to_tree(u0), cfg, adaptive)
            sp = run(vf_perm, u0[perm], cfg, adaptive)
            # structure
            mt, stt = st.u.mean, st.u.std
            assert len(mt) == 4
            ok_struct = all(jax.tree.structure(m) == jax.tree.structure(to_tree(u0)) for m in mt)
            shapes = jax.tree.map(lambda x: x.shape, mt[0])
            exp_shapes = jax.tree.map(lambda x: (T,) + x.shape, to_tree(u0))
            std_struct = jax.tree.structure(stt[0]) == jax.tree.structure(to_tree(u0))
            std_shapes = jax.tree.map(lambda x: x.shape, stt[0])
            dm = max(float(jnp.max(jnp.abs(jax.vmap(to_flat)(mt[k]) - sf.u.mean[k]) / (1 + jnp.abs(sf.u.mean[k])))) for k in range(2))
            if cfg[0] == "iso":
                ds = max(float(jnp.max(jnp.abs(stt[k] - sf.u.std[k]))) for k in range(2))
            else:
                ds = max(float(jnp.max(jnp.abs(jax.vmap(to_flat)(stt[k]) - sf.u.std[k]) / (1e-3 + jnp.abs(sf.u.std[k])))) for k in range(2))
            dpm = max(float(jnp.max(jnp.abs(sp.u.mean[k] - sf.u.mean[k][:, perm]) / (1 + jnp.abs(sf.u.mean[k])[:, perm]))) for k in range(2))
            if cfg[0] == "iso":
                dps = max(float(jnp.max(jnp.abs(sp.u.std[k] - sf.u.std[k]))) for k in range(2))
            else:
                dps = max(float(jnp.max(jnp.abs(sp.u.std[k] - sf.u.std[k][:, perm]) / (1e-3 + jnp.abs(sf.u.std[k][:, perm])))) for k in range(2))
            flag = "" if (ok_struct and shapes == exp_shapes and max(dm, ds, dpm, dps) < 1e-6) else "  <<<<<<"
            print(cfg, "ad" if adaptive else "fx", "struct", ok_struct, shapes == exp_shapes, std_struct, "tree-vs-flat mean %.1e std %.1e | perm mean %.1e std %.1e" % (dm, ds, dpm, dps), "steps", int(sf.num_steps[-1]), int(st.num_steps[-1]), int(sp.num_steps[-1]), flag, flush=True)
            if shapes != exp_shapes: print("   shapes", shapes, exp_shapes)
        except Exception as e:
            import traceback
            print(cfg, adaptive, "ERR", type(e).__name__, str(e)[:300], flush=True)
        jax.clear_caches()
