import sys, itertools, warnings, collections; sys.path.insert(0, "/repo/hunt")
warnings.simplefilter("ignore")
from harness import *
A = jax.random.normal(jax.random.PRNGKey(0), (4, 4)) * 0.4
def vf_flat(u, *, t): return A @ jnp.tanh(u) - 0.3 * u * u[::-1] + jnp.sin(t)
structs = {
  "list": (lambda v: [v[0], v[1:4]], lambda tr: jnp.concatenate([jnp.ravel(tr[0]), tr[1]])),
  "nested list": (lambda v: [v[0], [v[1], v[2:4]]], lambda tr: jnp.concatenate([jnp.ravel(tr[0]), jnp.ravel(tr[1][0]), tr[1][1]])),
  "tuple": (lambda v: (v[0:2], v[2:4]), lambda tr: jnp.concatenate([tr[0], tr[1]])),
  "list of one": (lambda v: [v], lambda tr: tr[0]),
  "tuple of scalars": (lambda v: (v[0], v[1], v[2], v[3]), lambda tr: jnp.stack(tr)),
}
u0 = jax.random.normal(jax.random.PRNGKey(1), (4,))
save_at = jnp.linspace(0, 1, 4); grid = jnp.linspace(0, 1, 6)
for sname, (to_tree, to_flat) in structs.items():
    vf_tree = lambda tr, *, t: to_tree(vf_flat(to_flat(tr), t=t))
    for ssm in ["dense", "iso", "bd"]:
        for strat, solver, cons, adaptive in [("filter", "mle", "ts0", True), ("fp", "dyn", "ts1", True), ("fi", "solver", "ts1", False)]:
            for container in ["list", "tuple"]:
                try:
                    outs = []
                    for vf, x0 in [(vf_flat, u0), (vf_tree, to_tree(u0))]:
                        v = pdq.ode(vf, jacobian=pdq.jacobian_materialize())
                        tc, _ = pdq.jetexpand_ode_unroll(num=2)(v, [x0], t=0.0)
                        if container == "tuple": tc = tuple(tc)
                        S = SSMS[ssm]()
                        prior = S.prior_wiener_integrated(tc)
                        c = S.constraint_ode_ts0(v) if cons == "ts0" else S.constraint_ode_ts1(v)
                        sol = SOLVERS[solver](strategy=STRATS[strat](), constraint=c)
                        if adaptive:
                            s = jax.jit(ivpsolve.solve_adaptive_save_at(solver=sol, error=pdq.error_residual_std(constraint=c), warn=False))(prior, save_at=save_at, atol=1e-3, rtol=1e-3)
                        else:
                            s = jax.jit(ivpsolve.solve_fixed_grid(solver=sol))(prior, grid=grid)
                        outs.append(s)
                    sf, st = outs
                    assert type(st.u.mean) is type(tc), (type(st.u.mean), type(tc))
                    assert jax.tree.structure(st.u.mean[0]) == jax.tree.structure(to_tree(u0))
                    dm = float(jnp.max(jnp.abs(jax.vmap(to_flat)(st.u.mean[0]) - sf.u.mean[0])))
                    ds = float(jnp.max(jnp.abs(jax.vmap(to_flat)(st.u.std[0]) - sf.u.std[0]))) if ssm != "iso" else float(jnp.max(jnp.abs(st.u.std[0] - sf.u.std[0])))
                    if max(dm, ds) > 1e-10: print(sname, ssm, strat, container, "DIFF", dm, ds)
                except Exception as e:
                    print(sname, ssm, strat, solver, container, "ERR", type(e).__name__, str(e)[:200], flush=True)
        jax.clear_caches()
    print("done", sname, flush=True)
