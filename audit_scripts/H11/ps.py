"""Exact truncated power-series arithmetic with Fractions (independent reference)."""
from fractions import Fraction as Fr
import math


class PS:
    def __init__(self, c, n):
        c = [Fr(x) for x in c][: n]
        self.c = c + [Fr(0)] * (n - len(c))
        self.n = n

    @staticmethod
    def const(x, n):
        return PS([x], n)

    def _lift(self, o):
        if isinstance(o, PS):
            return o
        return PS([Fr(o)], self.n)

    def __add__(self, o):
        o = self._lift(o)
        return PS([a + b for a, b in zip(self.c, o.c)], self.n)

    __radd__ = __add__

    def __neg__(self):
        return PS([-a for a in self.c], self.n)

    def __sub__(self, o):
        return self + (-self._lift(o))

    def __rsub__(self, o):
        return self._lift(o) - self

    def __mul__(self, o):
        o = self._lift(o)
        out = [Fr(0)] * self.n
        for i, a in enumerate(self.c):
            if a == 0:
                continue
            for j, b in enumerate(o.c):
                if i + j < self.n:
                    out[i + j] += a * b
        return PS(out, self.n)

    __rmul__ = __mul__

    def __pow__(self, k):
        out = PS([1], self.n)
        for _ in range(k):
            out = out * self
        return out

    def deriv(self):
        return PS([(i + 1) * self.c[i + 1] for i in range(self.n - 1)] + [0], self.n)


def solve_ode_series(f, inits, t0, num):
    """Return derivative values [u, u', ..., u^(order-1+num)] (lists over dims) of the solution.

    f(*args, t) maps lists (per state-dim) of PS for u, u', .. and a PS t to a list of PS.
    inits: list over order of list over dims of Fractions.
    """
    order = len(inits)
    d = len(inits[0])
    N = order + num  # total number of coefficients
    # normalised coeffs c[dim][k]
    c = [[Fr(inits[k][i]) / math.factorial(k) for k in range(order)] for i in range(d)]
    for k in range(num):
        n = len(c[0]) + 1
        u = [PS(c[i], n) for i in range(d)]
        args = [u]
        for _ in range(order - 1):
            args.append([x.deriv() for x in args[-1]])
        t = PS([t0, 1], n)
        fx = f(*args, t)
        # coefficient k of f gives coefficient k of u^(order): c_{k+order} * (k+order)!/k!
        for i in range(d):
            fk = fx[i].c[k] if isinstance(fx[i], PS) else (Fr(fx[i]) if k == 0 else Fr(0))
            c[i].append(fk * math.factorial(k) / math.factorial(k + order))
    return [[c[i][k] * math.factorial(k) for i in range(d)] for k in range(N)]
