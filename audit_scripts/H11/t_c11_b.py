import jax, jax.numpy as jnp, numpy as onp
jax.config.update("jax_enable_x64", True)
from probdiffeq import probdiffeq as pdq

# mixed dtype pytree lift
def f(u, *, t):
    return {"a": 0.5*u["a"]*u["b"] + t, "b": 0.25*u["a"] - 0.5*u["b"]}
def f_flat(u, *, t):
    return jnp.stack([0.5*u[0]*u[1] + t, 0.25*u[0]-0.5*u[1]])
jc_flat = [jnp.array([1.5, 2.0]), jnp.array([0.7, -0.6]), jnp.array([0.3, 0.9])]
jc_tree = [{"a": jnp.asarray(1.5), "b": jnp.asarray(2)}, {"a": jnp.asarray(0.7), "b": jnp.asarray(-0.6)}, {"a": jnp.asarray(0.3), "b": jnp.asarray(0.9)}]
for lb in [0, 1, 2]:
    o1 = pdq.ode(f_flat).jet_lift(lift_by=lb).vector_field(jet_coords=jc_flat, t=0.25)
    o2 = pdq.ode(f).jet_lift(lift_by=lb).vector_field(jet_coords=jc_tree, t=0.25)
    print(lb, onp.array(o1).tolist(), [(float(o["a"]), float(o["b"]), o["b"].dtype) for o in o2])

# integer time
for t in [0, 1, jnp.asarray(1), jnp.asarray(1.0)]:
    try:
        o1 = pdq.ode(f_flat).jet_lift(lift_by=2).vector_field(jet_coords=jc_flat, t=t)
        print("t", repr(t), onp.array(o1).tolist())
    except Exception as e:
        print("t", repr(t), "ERR", type(e).__name__, str(e)[:200])

# stack
r1 = pdq.residual_velocity(lambda u, du, *, t: du - f_flat(u, t=t))
r2 = pdq.residual_position(lambda u, *, t: u[0] + u[1]**2 - t)
st = pdq.residual_from_stack(r1, r2)
print(st, st.num_tcoeffs_in_args)
print(st.residual_function(jet_coords=jc_flat[:2], t=0.25))
try:
    print(st.residual_function(jet_coords=jc_flat, t=0.25))
except Exception as e:
    print("ERR", e)
try:
    stl = st.jet_lift(lift_by=1)
    print(stl.residual_function(jet_coords=jc_flat, t=0.25))
except Exception as e:
    print("stack lift ERR", type(e).__name__, str(e)[:200])
st2 = pdq.residual_from_stack(r1.jet_lift(lift_by=1), r2.jet_lift(lift_by=2))
print(st2.num_tcoeffs_in_args, st2.residual_function(jet_coords=jc_flat, t=0.25))
# stack in reversed order
st3 = pdq.residual_from_stack(r2, r1)
print(st3.num_tcoeffs_in_args, st3.residual_function(jet_coords=jc_flat[:2], t=0.25))
