import sys, itertools, warnings, collections; sys.path.insert(0, "/repo/hunt")
warnings.simplefilter("ignore")
from harness import *
def f(u, *, t): return jnp.stack([u[1], -u[0]]) * 1.0
grid = jnp.linspace(0, 1, 11)
for ssm in ["dense", "iso", "bd"]:
    for tc in [[jnp.array([1, 0]), jnp.array([0, -1])], [jnp.array([1., 0.]), jnp.array([0., -1.])], [jnp.array([1, 0]), jnp.array([0., -1.])]]:
        S = SSMS[ssm]()
        vf = pdq.ode(f, jacobian=pdq.jacobian_materialize())
        try:
            prior = S.prior_wiener_integrated(tc)
            c = S.constraint_ode_ts1(vf)
            sol = pdq.solver_mle(strategy=pdq.strategy_filter(), constraint=c)
            s = ivpsolve.solve_fixed_grid(solver=sol)(prior, grid=grid)
            print(ssm, [x.dtype for x in tc], s.u.mean[0][-1], s.u.mean[0].dtype, s.u.std[0][-1])
        except Exception as e:
            print(ssm, [x.dtype for x in tc], "ERR", type(e).__name__, str(e)[:200])
