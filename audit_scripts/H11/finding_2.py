"""[C11] Jet-lifting (JetAbstract.lift / JetOde.jet_lift / JetResidual.jet_lift) is wrong for
pytree states with mixed leaf dtypes.

Curve with Taylor coefficients u = {"a": 1.5, "b": 2 (int)}, u' = {"a": .7, "b": -.6}, u'' = {"a": .3, "b": .9},
f(u, t) = {"a": 0.5 a b + t, "b": 0.25 a - 0.5 b}, t = 0.25.

d/dt f = {"a": 0.5 (a' b + a b') + 1, "b": 0.25 a' - 0.5 b'} = {"a": 1.25, "b": 0.475}.
The lifted ODE returns {"a": 1.7, "b": 0.175}, i.e. it uses b' = 0 and b'' = 0, because all
coefficients are unravelled with the dtype of the 0th coefficient's leaves (int for "b").
"""
import sys
import jax, jax.numpy as jnp, numpy as onp
jax.config.update("jax_enable_x64", True)
import probdiffeq
from probdiffeq import probdiffeq as pdq

assert probdiffeq.__file__.startswith("/repo"), probdiffeq.__file__


def f(u, *, t):
    return {"a": 0.5 * u["a"] * u["b"] + t, "b": 0.25 * u["a"] - 0.5 * u["b"]}


def coords(b0):
    return [{"a": jnp.asarray(1.5), "b": b0}, {"a": jnp.asarray(0.7), "b": jnp.asarray(-0.6)}, {"a": jnp.asarray(0.3), "b": jnp.asarray(0.9)}]


# closed form total derivatives along the curve
a, b, a1, b1, a2, b2, t = 1.5, 2.0, 0.7, -0.6, 0.3, 0.9, 0.25
expected = onp.array([
    [0.5 * a * b + t, 0.25 * a - 0.5 * b],
    [0.5 * (a1 * b + a * b1) + 1.0, 0.25 * a1 - 0.5 * b1],
    [0.5 * (a2 * b + 2 * a1 * b1 + a * b2), 0.25 * a2 - 0.5 * b2],
])
print("expected [f, d/dt f, d^2/dt^2 f] (rows), columns (a, b):\n", expected)
defect = False
for label, b0 in [("all-float state", jnp.asarray(2.0)), ("mixed-dtype state (b is an int leaf)", jnp.asarray(2))]:
    for kind in ["ode", "residual"]:
        if kind == "ode":
            out = pdq.ode(f).jet_lift(lift_by=2).vector_field(jet_coords=coords(b0), t=t)
            exp = expected
        else:
            res = pdq.residual_position(lambda u, *, t: f(u, t=t))
            out = res.jet_lift(lift_by=2).residual_function(jet_coords=coords(b0), t=t)
            exp = expected
        got = onp.array([[float(o["a"]), float(o["b"])] for o in out])
        err = onp.max(onp.abs(got - exp))
        print(f"\n{label}, lifted {kind}: max abs err = {err:.3e}\n", got)
        if err > 1e-8:
            defect = True
if defect:
    print("\nDEFECT PRESENT: lifted functions are wrong for mixed-dtype pytree states (no error raised).")
    sys.exit(1)
print("\nno defect")
