"""[C10] (lower severity) jetexpand_residual stops on an ABSOLUTE constraint tolerance (1e-6) and
therefore does not recover the Taylor coefficients that the constraints determine uniquely.

Two explicit ODEs written as residuals u' - f(u, t) = 0 (jet-lifted so that all requested
coefficients are determined):

  (A) u' = u + 4e-7 u^2,        u(0) = 1, num = 3   (all coefficients are O(1))
  (B) u' = 1e-3 (u^2 + t),      u(0) = 1, num = 4   (badly scaled)

The exact routines (unroll / padded scan / via jvp) agree with rational power-series arithmetic
to ~1e-16.  The residual-based routine returns after ONE Gauss-Newton step, because the constraint
norm is already below tol * sqrt(n) = 1e-6 * sqrt(n), although the higher coefficients are still
those of the first linearisation.
"""
import sys, math
from fractions import Fraction as Fr
import jax, jax.numpy as jnp, numpy as onp
jax.config.update("jax_enable_x64", True)
import probdiffeq
from probdiffeq import probdiffeq as pdq

assert probdiffeq.__file__.startswith("/repo"), probdiffeq.__file__


def exact_scalar(f_series, u0, num):
    """c_{k+1} = [s^k] f(u(s), s) / (k+1) with rational arithmetic; returns derivative values."""
    c = [Fr(u0)]
    for k in range(num):
        c.append(f_series(c, k) / (k + 1))
    return onp.array([float(c[k] * math.factorial(k)) for k in range(num + 1)])


def conv(c, k):
    return sum(c[i] * c[k - i] for i in range(k + 1))


cases = {
    "A: u' = u + 4e-7 u^2": (lambda u, *, t: u + 4e-7 * u**2, lambda c, k: c[k] + Fr(4, 10**7) * conv(c, k), 3),
    "B: u' = 1e-3 (u^2 + t)": (lambda u, *, t: 1e-3 * (u**2 + t), lambda c, k: Fr(1, 1000) * (conv(c, k) + (1 if k == 1 else 0)), 4),
}
defect = False
for name, (f, fs, num) in cases.items():
    ref = exact_scalar(fs, 1, num)
    ode = pdq.ode(f)
    u0 = [jnp.asarray([1.0])]
    unroll = onp.array(pdq.jetexpand_ode_unroll(num=num)(ode, u0, t=0.0)[0]).ravel()
    res = pdq.residual_from_ode(ode).jet_lift(lift_by=num - 1)
    out, info = pdq.jetexpand_residual(num=num)(res, u0, t=0.0)
    out = onp.array(out).ravel()
    print(name)
    print("  expected (exact)        :", ref)
    print("  jetexpand_ode_unroll    :", unroll, " max abs err %.1e" % onp.max(onp.abs(unroll - ref)))
    print("  jetexpand_residual      :", out, " max abs err %.1e, max rel err %.1e" % (onp.max(onp.abs(out - ref)), onp.max(onp.abs(out - ref) / onp.abs(ref))))
    print("  Gauss-Newton iterations :", int(info["iters"]), " final |constraint| = %.1e" % float(jnp.max(jnp.abs(info["final_constraint"]))))
    if onp.max(onp.abs(out - ref) / onp.abs(ref)) > 1e-9:
        defect = True
if defect:
    print("\nDEFECT PRESENT: residual-based coefficients differ from the exact ones far beyond rounding.")
    sys.exit(1)
print("no defect")
