import sys, itertools, warnings; sys.path.insert(0, "/repo/hunt")
warnings.simplefilter("ignore")
from harness import *

def vf(u, *, t, p=1.0):
    return jnp.stack([p * u[0] * (1 - u[1]) + 0.1*jnp.sin(t), -u[1] * (1 - u[0])])

t0, t1 = 0.0, 2.0
save_at = jnp.linspace(t0, t1, 6)
grid = jnp.linspace(t0, t1, 21)

def solve_one(u0, p, atol, rtol, cfg, adaptive, which="save_at"):
    ssm, strat, solver, cons = cfg
    prior, sol, err = make(lambda u, *, t: vf(u, t=t, p=p), [u0], t0, ssm=ssm, strat=strat, solver=solver, cons=cons)
    if adaptive:
        if which == "save_at":
            s = ivpsolve.solve_adaptive_save_at(solver=sol, error=err, warn=False)(prior, save_at=save_at, atol=atol, rtol=rtol, dt0=0.1)
        else:
            s = ivpsolve.solve_adaptive_terminal_values(solver=sol, error=err)(prior, t0=t0, t1=t1, atol=atol, rtol=rtol, dt0=0.1)
    else:
        s = ivpsolve.solve_fixed_grid(solver=sol)(prior, grid=grid)
    return s.u.mean, s.u.std, s.num_steps, s.output_scale, s.t

u0s = jnp.array([[2.0, 1.0], [0.5, 3.0], [5.0, 0.1], [1.0, 1.0]])
ps = jnp.array([1.0, 3.0, 0.2, 10.0])
atols = jnp.array([1e-2, 1e-5, 1e-8, 1e-3])
rtols = jnp.array([1e-2, 1e-5, 1e-8, 1e-1])

for cfg in itertools.product(["dense", "iso", "bd"], ["filter", "fp", "fi"], ["solver", "mle", "dyn"], ["ts0", "ts1"]):
    for adaptive in [True, False]:
        if adaptive and cfg[1] == "fi": continue
        if not adaptive and cfg[1] == "fp": continue
        f = lambda u0, p, a, r: solve_one(u0, p, a, r, cfg, adaptive)
        try:
            ref = [f(u0s[i], ps[i], atols[i], rtols[i]) for i in range(4)]
            ref = jax.tree.map(lambda *x: jnp.stack(x), *ref)
            jit = [jax.jit(f)(u0s[i], ps[i], atols[i], rtols[i]) for i in range(4)]
            jit = jax.tree.map(lambda *x: jnp.stack(x), *jit)
            vm = jax.vmap(f)(u0s, ps, atols, rtols)
            vmj = jax.jit(jax.vmap(f))(u0s, ps, atols, rtols)
            d1, d2, d3 = tree_maxdiff(jit, ref), tree_maxdiff(vm, ref), tree_maxdiff(vmj, ref)
            flag = "  <<<<<" if max(d1, d2, d3) > 1e-8 else ""
            print(cfg, "adaptive" if adaptive else "fixed", "steps", onp.asarray(ref[2][:, -1]), "jit %.1e vmap %.1e vmapjit %.1e" % (d1, d2, d3), flag, flush=True)
        except Exception as e:
            print(cfg, adaptive, "ERR", type(e).__name__, str(e)[:300], flush=True)
