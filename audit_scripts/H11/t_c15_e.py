import sys, itertools, warnings, collections; sys.path.insert(0, "/repo/hunt")
warnings.simplefilter("ignore")
from harness import *
NT = collections.namedtuple("NT", ["x", "y"])
def vf(u, *, t, p=1.0):
    a, b = u["a"], u["b"].x[0, 0]
    return {"a": p * a * (1 - b) + 0.1*jnp.sin(t), "b": NT(x=(-b * (1 - a)).reshape(1, 1), y=0.0 * u["b"].y + jnp.cos(t) * p)}
def mk(v): return {"a": v[0], "b": NT(x=v[1].reshape(1, 1), y=v[2:4])}
t0, t1 = 0.0, 2.0
save_at = jnp.linspace(t0, t1, 6)
u0s = jnp.array([[2.0, 1.0, 0., 1.], [0.5, 3.0, 1., 2.], [5.0, 0.1, -1., 0.], [1.0, 1.0, 0., 0.]])
ps = jnp.array([1.0, 3.0, 0.2, 10.0]); atols = jnp.array([1e-2, 1e-5, 1e-7, 1e-3]); rtols = jnp.array([1e-2, 1e-5, 1e-7, 1e-1])

def solve_one(u0, p, atol, rtol, cfg, mode):
    ssm, strat, solver, cons = cfg
    prior, sol, err = make(lambda u, *, t: vf(u, t=t, p=p), [mk(u0)], t0, ssm=ssm, strat=strat, solver=solver, cons=cons, error="res" if mode != "state" else "state")
    if mode == "tv":
        return ivpsolve.solve_adaptive_terminal_values(solver=sol, error=err, control=ivpsolve.control_proportional_integral())(prior, t0=t0, t1=t1, atol=atol, rtol=rtol, dt0=0.1)
    if mode == "clip":
        return ivpsolve.solve_adaptive_save_at(solver=sol, error=err, warn=False, clip_dt=True, control=ivpsolve.control_proportional_integral())(prior, save_at=save_at, atol=atol, rtol=rtol, dt0=0.1)
    return ivpsolve.solve_adaptive_save_at(solver=sol, error=err, warn=False)(prior, save_at=save_at, atol=atol, rtol=rtol, dt0=0.1)

ssm = sys.argv[1]
for cfg in itertools.product([ssm], ["filter", "fp"], ["mle", "dyn", "solver"], ["ts0", "ts1"]):
    for mode in ["tv", "clip", "state"]:
        f = lambda u0, p, a, r: solve_one(u0, p, a, r, cfg, mode)
        try:
            vm = jax.jit(jax.vmap(f))(u0s, ps, atols, rtols)
            # access outside of vmap
            m_v, s_v = vm.u.mean, vm.u.std
            worst = 0.
            steps = []
            for i in range(4):
                ri = jax.jit(f)(u0s[i], ps[i], atols[i], rtols[i])
                mi, si = ri.u.mean, ri.u.std
                pick = lambda tr: jax.tree.map(lambda x: x[i], tr)
                # only 0th and 1st coefficients
                d = max(tree_maxdiff(pick(m_v[0]), mi[0]), tree_maxdiff(pick(m_v[1]), mi[1]), tree_maxdiff(pick(s_v[0]), si[0]))
                worst = max(worst, d)
                steps.append(int(jnp.ravel(ri.num_steps)[-1]))
                assert jnp.array_equal(jnp.ravel(vm.num_steps[i])[-1], jnp.ravel(ri.num_steps)[-1]), (vm.num_steps[i], ri.num_steps)
            print(cfg, mode, steps, "%.1e" % worst, "   <<<<" if worst > 1e-6 else "", flush=True)
        except Exception as e:
            print(cfg, mode, "ERR", type(e).__name__, str(e)[:300], flush=True)
        jax.clear_caches()
