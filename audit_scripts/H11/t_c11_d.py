import jax, jax.numpy as jnp, numpy as onp, scipy.optimize as so
jax.config.update("jax_enable_x64", True)
from probdiffeq import probdiffeq as pdq
d = 2
def f1(u, *, t): return jnp.stack([u[0]*u[1] - t*u[0]**2, t**2*u[1] - u[0]**3 + 2*t])
def f2(u, du, *, t): return jnp.stack([u[0]*du[1] - t*du[0]**2, t**2*u[1]*du[0] - u[0]**3 + 2*t])
mat = pdq.jacobian_materialize()
ssm = pdq.state_space_model_dense()
for order, f, K in [(1, f1, 3), (1, f1, 4), (2, f2, 4)]:
  for lift_by in range(0, K - order):
    ode = (pdq.ode if order == 1 else pdq.ode_order_two)(f, jacobian=mat)
    inits = [jnp.array([0.5, -0.3]), jnp.array([0.2, 0.7])][:order]
    tc, _ = pdq.jetexpand_ode_unroll(num=K - order)(ode, inits, t=0.1)
    prior = ssm.prior_wiener_integrated(tc)
    dt = 0.3
    rv = prior.transition(dt=dt, output_scale=1.0).marginalise(prior.init)
    t = 0.1 + dt
    odel = ode.jet_lift(lift_by=lift_by) if lift_by else ode
    res = pdq.residual_from_ode(odel)
    tp = pdq.taylor_point_maximum_a_posteriori()
    for cname, c in [("ts1", ssm.constraint_ode_ts1(odel, taylor_point=tp)), ("res", ssm.constraint_residual(res, taylor_point=tp))]:
        cond, _ = c.linearize(rv, c.init_linearization(), damp=0.0, t=t)
        def r(x):
            M = x.reshape(K, d)
            return jnp.stack(res.residual_function(jet_coords=[M[i] for i in range(res.num_tcoeffs_in_args)], t=t)).reshape(-1)
        # independent MAP: minimise ||L^{-1}(x-m)||^2 s.t. r(x)=0
        m = onp.asarray(rv.mean_flat); L = onp.asarray(rv.cholesky_flat)
        C = L @ L.T
        Ci = onp.linalg.pinv(C)
        obj = lambda x: (x - m) @ Ci @ (x - m)
        sol = so.minimize(obj, m, jac=lambda x: 2 * Ci @ (x - m), constraints=[{"type": "eq", "fun": lambda x: onp.asarray(r(jnp.asarray(x))), "jac": lambda x: onp.asarray(jax.jacfwd(r)(jnp.asarray(x)))}], method="SLSQP", options={"ftol": 1e-15, "maxiter": 500})
        xi = sol.x
        # library's point: recover from A, b?  A xi_lib + b = r(xi_lib), A = J(xi_lib).  Use library's taylor point directly
        xi_lib = tp(c.constraint_flat(tree_flatten=rv.tree_flatten), rv, t=t)
        J = jax.jacfwd(r)(xi_lib)
        e1 = float(jnp.max(jnp.abs(cond.A - J))); e2 = float(jnp.max(jnp.abs(cond.A @ xi_lib + cond.noise.mean_flat - r(xi_lib))))
        print(order, K, lift_by, cname, "A-J %.1e val %.1e" % (e1, e2), "|r(xi_lib)| %.1e" % float(jnp.max(jnp.abs(r(xi_lib)))), "xi_lib vs SLSQP %.1e" % float(onp.max(onp.abs(xi - onp.asarray(xi_lib)))), "obj lib %.6e slsqp %.6e" % (obj(onp.asarray(xi_lib)), obj(xi)), sol.success)
