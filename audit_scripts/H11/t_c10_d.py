import jax, jax.numpy as jnp, numpy as onp
jax.config.update("jax_enable_x64", True)
from probdiffeq import probdiffeq as pdq
def f_flat(u, *, t):
    return jnp.stack([0.5*u[0]*u[1] + t**2 + jnp.sin(t), 0.25*u[0]-0.5*u[1]*t])
u0 = [jnp.asarray([1.5, 2.0])]
algs = {"unroll": pdq.jetexpand_ode_unroll(num=4), "scan": pdq.jetexpand_ode_padded_scan(num=4), "jvp": pdq.jetexpand_ode_via_jvp(num=4), "dbl": pdq.jetexpand_ode_doubling_unroll(num_doublings=2)}
ref = None
for tname, t in [("float", 1.0), ("int", 1), ("jnp int", jnp.asarray(1)), ("jnp f", jnp.asarray(1.0)), ("np f32", onp.float32(1.0)), ("jnp f32", jnp.asarray(1.0, dtype=jnp.float32))]:
    for name, alg in algs.items():
        try:
            out, _ = alg(pdq.ode(f_flat), u0, t=t)
            out = onp.array(out)[:5]
            if ref is None: ref = out
            print(tname, name, "maxdiff vs ref %.2e" % onp.max(onp.abs(out - ref)))
        except Exception as e:
            print(tname, name, "ERR", type(e).__name__, str(e)[:150])
    for name, alg in algs.items():
        try:
            out, _ = jax.jit(lambda t: alg(pdq.ode(f_flat), u0, t=t))(t)
            out = onp.array(out)[:5]
            print(tname, name, "jit maxdiff vs ref %.2e" % onp.max(onp.abs(out - ref)))
        except Exception as e:
            print(tname, name, "jit ERR", type(e).__name__, str(e)[:150])
