import sys; sys.path.insert(0, "/repo/hunt")
import jax, jax.numpy as jnp, numpy as onp
jax.config.update("jax_enable_x64", True)
import probdiffeq
print(probdiffeq.__file__)
from probdiffeq import probdiffeq as pdq
from fractions import Fraction as Fr
from ps import solve_ode_series

# first-order, time dependent, 2D
def f_j(u, *, t):
    return jnp.stack([u[0]*u[1] - t*u[0]**2 + 1.0/3, t**2*u[1] - u[0]**3 + 2*t])
def f_ps(u, t):
    return [u[0]*u[1] - t*u[0]**2 + Fr(1,3), t**2*u[1] - u[0]**3 + 2*t]

u0 = [Fr(1,2), Fr(-2,3)]
t0 = Fr(3,4)
for num in [0,1,2,3,5,7,10]:
    ref = solve_ode_series(f_ps, [u0], t0, num)
    ref = onp.array([[float(x) for x in r] for r in ref])
    vf = pdq.ode(f_j)
    init = [jnp.array([float(x) for x in u0])]
    for name, alg in [("unroll", pdq.jetexpand_ode_unroll(num=num)), ("scan", pdq.jetexpand_ode_padded_scan(num=num)), ("jvp", pdq.jetexpand_ode_via_jvp(num=num))]:
        if name == "jvp" and num > 7: continue
        out, _ = alg(vf, init, t=float(t0))
        out = onp.array(out)
        err = onp.max(onp.abs(out-ref)/(1+onp.abs(ref)))
        print(num, name, out.shape, err)
for nd in [0,1,2,3]:
    alg = pdq.jetexpand_ode_doubling_unroll(num_doublings=nd)
    out,_ = alg(vf, init, t=float(t0))
    out = onp.array(out)
    ref = solve_ode_series(f_ps, [u0], t0, len(out)-1)
    ref = onp.array([[float(x) for x in r] for r in ref])
    print("doubling", nd, out.shape, onp.max(onp.abs(out-ref)/(1+onp.abs(ref))))
