import jax, jax.numpy as jnp, numpy as onp
jax.config.update("jax_enable_x64", True)
from probdiffeq import probdiffeq as pdq
prims = {
 "tanh": lambda u, t: jnp.tanh(u) + t,
 "sigmoid": lambda u, t: jax.nn.sigmoid(u * t),
 "softplus": lambda u, t: jax.nn.softplus(u) * t,
 "exp/log": lambda u, t: jnp.exp(-u) + jnp.log(1 + u**2 + t),
 "div": lambda u, t: u / (1 + u**2 + t**2),
 "pow float": lambda u, t: (1 + u**2) ** 1.5 + t ** 2.5,
 "pow neg": lambda u, t: (2 + u) ** -2 + (1 + t) ** -1,
 "pow u^t": lambda u, t: (2 + jnp.sin(u)) ** (1 + t),
 "sqrt": lambda u, t: jnp.sqrt(1 + u**2 + t),
 "rsqrt": lambda u, t: jax.lax.rsqrt(1 + u**2 + t),
 "sin cos": lambda u, t: jnp.sin(u * t) * jnp.cos(u + t),
 "tan": lambda u, t: jnp.tan(0.3 * u + 0.1 * t),
 "arctan": lambda u, t: jnp.arctan(u + t),
 "arcsinh": lambda u, t: jnp.arcsinh(u + t),
 "sinh cosh": lambda u, t: jnp.sinh(0.3 * u) + jnp.cosh(0.2 * t * u),
 "erf": lambda u, t: jax.scipy.special.erf(u * t),
 "expm1 log1p": lambda u, t: jnp.expm1(0.3 * u) + jnp.log1p(u**2 * t),
 "abs": lambda u, t: jnp.abs(u) * t + u,
 "where": lambda u, t: jnp.where(u > 0, u**2, -u) + t,
 "maximum": lambda u, t: jnp.maximum(u, 0.1 * u) * t,
 "relu": lambda u, t: jax.nn.relu(u) * t + u**2,
 "matmul": lambda u, t: (jnp.outer(u, u) @ u) * t,
 "sum/prod": lambda u, t: jnp.sum(u**2) * u + jnp.prod(u) * t,
 "cumsum": lambda u, t: jnp.cumsum(u * t) + u**2,
 "square": lambda u, t: jnp.square(u) * t,
 "int pow 3": lambda u, t: u**3 * t**3,
 "reciprocal": lambda u, t: jnp.reciprocal(2 + u * t),
 "logsumexp": lambda u, t: jax.nn.logsumexp(u * t) * u,
 "softmax": lambda u, t: jax.nn.softmax(u * t),
 "norm": lambda u, t: jnp.linalg.norm(u) * u * t,
 "gelu": lambda u, t: jax.nn.gelu(u * t),
 "clip": lambda u, t: jnp.clip(u, -0.2, 5.0) * t + u,
 "sign": lambda u, t: jnp.sign(u) * u * t,
 "dot": lambda u, t: jnp.dot(u, u[::-1]) * u * t,
 "exp2": lambda u, t: jnp.exp2(0.3 * u * t),
 "atan2": lambda u, t: jnp.arctan2(u, 1 + t + u**2),
 "cbrt": lambda u, t: jnp.cbrt(1 + u**2 + t),
 "lgamma": lambda u, t: jax.lax.lgamma(2 + u**2 + t),
 "digamma": lambda u, t: jax.lax.digamma(2 + u**2 + t),
 "sort": lambda u, t: jnp.sort(u) * t + u,
 "dynamic_slice": lambda u, t: jnp.roll(u, 1) * u * t,
 "select_n/idx": lambda u, t: u.at[0].set(u[1] * t) * u,
 "scan": lambda u, t: jax.lax.fori_loop(0, 3, lambda i, x: x * 0.5 + jnp.sin(x) * t, u),
 "cond": lambda u, t: jax.lax.cond(u[0] > 0, lambda x: x**2 * t, lambda x: -x, u),
}
u0 = [jnp.array([0.7, -0.4, 1.3])]; t = 0.6
num = 5
for name, fn in prims.items():
    vf = pdq.ode(lambda u, *, t, fn=fn: fn(u, t))
    try:
        ref, _ = pdq.jetexpand_ode_via_jvp(num=num)(vf, u0, t=t)
        ref = onp.array(ref)
    except Exception as e:
        print(name, "jvp ERR", type(e).__name__, str(e)[:100]); continue
    for aname, alg in [("unroll", pdq.jetexpand_ode_unroll(num=num)), ("scan", pdq.jetexpand_ode_padded_scan(num=num)), ("dbl", pdq.jetexpand_ode_doubling_unroll(num_doublings=2))]:
        try:
            out, _ = alg(vf, u0, t=t)
            out = onp.array(out)[: num + 1]
            err = onp.max(onp.abs(out - ref[: len(out)]) / (1 + onp.abs(ref[: len(out)])))
            if not err < 1e-10: print(name, aname, "MISMATCH %.3e" % err)
        except Exception as e:
            print(name, aname, "ERR", type(e).__name__, str(e)[:120])
print("done")
