import sys; sys.path.insert(0, "/repo/hunt")
import jax, jax.numpy as jnp, numpy as onp
jax.config.update("jax_enable_x64", True)
from probdiffeq import probdiffeq as pdq
from fractions import Fraction as Fr
from ps import solve_ode_series

def tofl(ref): return onp.array([[float(x) for x in r] for r in ref])

# second order, time dependent
def f_j(u, du, *, t):
    return jnp.stack([u[0]*du[1] - t*du[0]**2 + 1.0/3, t**2*u[1]*du[0] - u[0]**3 + 2*t])
def f_ps(u, du, t):
    return [u[0]*du[1] - t*du[0]**2 + Fr(1,3), t**2*u[1]*du[0] - u[0]**3 + 2*t]
u0 = [Fr(1,2), Fr(-2,3)]; du0=[Fr(5,4), Fr(-1,7)]
t0 = Fr(3,4)
vf = pdq.ode_order_two(f_j)
vfa = pdq.ode_order_arbitrary(f_j, num_tcoeffs_in_args=2)
init = [jnp.array([float(x) for x in u0]), jnp.array([float(x) for x in du0])]
for num in [0,1,2,3,6,9]:
    ref = tofl(solve_ode_series(f_ps, [u0, du0], t0, num))
    for name, alg in [("unroll", pdq.jetexpand_ode_unroll(num=num)), ("scan", pdq.jetexpand_ode_padded_scan(num=num)), ("jvp", pdq.jetexpand_ode_via_jvp(num=num))]:
        if name == "jvp" and num > 6: continue
        for v in (vf, vfa):
            out, _ = alg(v, init, t=float(t0))
            out = onp.array(out)
            err = onp.max(onp.abs(out-ref)/(1+onp.abs(ref)))
            print(num, name, out.shape, err)
        # pytree
        initp = [{"a": x[0], "b": (x[1].reshape(1,1),)} for x in init]
        def fp(u, du, *, t):
            r = f_j(jnp.stack([u["a"], u["b"][0].reshape(())]), jnp.stack([du["a"], du["b"][0].reshape(())]), t=t)
            return {"a": r[0], "b": (r[1].reshape(1,1),)}
        outp, _ = alg(pdq.ode_order_two(fp), initp, t=float(t0))
        o = onp.array([[float(x["a"]), float(x["b"][0][0,0])] for x in outp])
        assert outp[0]["b"][0].shape == (1,1)
        print(num, name, "pytree", onp.max(onp.abs(o-ref)/(1+onp.abs(ref))))

# third order
def f3_j(u, du, ddu, *, t):
    return jnp.stack([u[0]*ddu[0] - t*du[0]**2 + t*t])
def f3_ps(u, du, ddu, t):
    return [u[0]*ddu[0] - t*du[0]**2 + t*t]
ini = [[Fr(1,2)],[Fr(-3,2)],[Fr(2,5)]]
vf3 = pdq.ode_order_arbitrary(f3_j, num_tcoeffs_in_args=3)
for num in [0,1,2,5,8]:
    ref = tofl(solve_ode_series(f3_ps, ini, t0, num))
    for name, alg in [("unroll", pdq.jetexpand_ode_unroll(num=num)), ("scan", pdq.jetexpand_ode_padded_scan(num=num)), ("jvp", pdq.jetexpand_ode_via_jvp(num=num))]:
        if name == "jvp" and num > 6: continue
        out, _ = alg(vf3, [jnp.array([float(x[0])]) for x in ini], t=float(t0))
        out = onp.array(out)
        print("order3", num, name, out.shape, onp.max(onp.abs(out-ref)/(1+onp.abs(ref))))
