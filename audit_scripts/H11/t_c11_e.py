import jax, jax.numpy as jnp, numpy as onp, collections
jax.config.update("jax_enable_x64", True)
from probdiffeq import probdiffeq as pdq
NT = collections.namedtuple("NT", ["x", "y"])
def to_tree(v): return {"b": NT(x=v[1:3], y=v[3:5].reshape(2, 1)), "a": v[0], "c": (v[5:7].reshape(1, 2, 1),)}
def to_flat(tr): return jnp.concatenate([jnp.ravel(tr["a"]), jnp.ravel(tr["b"].x), jnp.ravel(tr["b"].y), jnp.ravel(tr["c"][0])])
A = jax.random.normal(jax.random.PRNGKey(0), (7, 7)) * 0.4
def vf_flat(u, du, *, t): return A @ jnp.tanh(u) - 0.3 * du * u[::-1] + jnp.sin(t) * du**2
def vf_tree(u, du, *, t): return to_tree(vf_flat(to_flat(u), to_flat(du), t=t))
K = 6
cs = [jax.random.normal(jax.random.PRNGKey(i), (7,)) for i in range(K)]
for lb in range(0, 5):
    a = pdq.ode_order_two(vf_flat).jet_lift(lift_by=lb).vector_field(jet_coords=cs, t=0.3)
    b = pdq.ode_order_two(vf_tree).jet_lift(lift_by=lb).vector_field(jet_coords=[to_tree(c) for c in cs], t=0.3)
    assert all(jax.tree.structure(x) == jax.tree.structure(to_tree(cs[0])) for x in b)
    assert jax.tree.map(jnp.shape, b[0]) == jax.tree.map(jnp.shape, to_tree(cs[0]))
    print(lb, max(float(jnp.max(jnp.abs(to_flat(y) - x))) for x, y in zip(a, b)))
    # residual
    ra = pdq.residual_from_ode(pdq.ode_order_two(vf_flat))
    rb = pdq.residual_from_ode(pdq.ode_order_two(vf_tree))
    if lb <= 3:
        a = ra.jet_lift(lift_by=lb).residual_function(jet_coords=cs, t=0.3)
        b = rb.jet_lift(lift_by=lb).residual_function(jet_coords=[to_tree(c) for c in cs], t=0.3)
        print("  res", lb, max(float(jnp.max(jnp.abs(to_flat(y) - x))) for x, y in zip(a, b)))
# scalar state
def g(u, *, t): return -u**2 + t
for lb in range(0, 4):
    a = pdq.ode(g).jet_lift(lift_by=lb).vector_field(jet_coords=[jnp.asarray(0.5), jnp.asarray(-1.0), jnp.asarray(2.0), jnp.asarray(0.3)], t=0.3)
    b = pdq.ode(g).jet_lift(lift_by=lb).vector_field(jet_coords=[jnp.asarray([0.5]), jnp.asarray([-1.0]), jnp.asarray([2.0]), jnp.asarray([0.3])], t=0.3)
    print("scalar", lb, [x.shape for x in a], max(float(jnp.abs(x - y[0])) for x, y in zip(a, b)))
# python float leaves
try:
    a = pdq.ode(g).jet_lift(lift_by=2).vector_field(jet_coords=[0.5, -1.0, 2.0, 0.3], t=0.3)
    print("pyfloat", a)
except Exception as e: print("pyfloat ERR", type(e).__name__, str(e)[:200])
