import sys, itertools, warnings, collections; sys.path.insert(0, "/repo/hunt")
warnings.simplefilter("ignore")
from harness import *
def vf(u, *, t, p=1.0):
    return jnp.stack([p * u[0] * (1 - u[1]) + 0.1*jnp.sin(t), -u[1] * (1 - u[0]), jnp.cos(t)*p, jnp.cos(t)*p])
t0, t1 = 0.0, 2.0
save_at = jnp.linspace(t0, t1, 41)
u0s = jnp.array([[5.0, 0.1, -1., 0.], [5.0, 0.1, -1., 0.]])
ps = jnp.array([0.2, 0.2]); atols = jnp.array([1e-7, 1e-7]); rtols = atols
cfg = tuple(sys.argv[1:5]); ctrl = sys.argv[5]; clip = sys.argv[6] == "1"
def solve_one(u0, p, atol, rtol):
    ssm, strat, solver, cons = cfg
    prior, sol, err = make(lambda u, *, t: vf(u, t=t, p=p), [u0], t0, ssm=ssm, strat=strat, solver=solver, cons=cons)
    control = ivpsolve.control_proportional_integral() if ctrl == "pi" else ivpsolve.control_integral()
    return ivpsolve.solve_adaptive_save_at(solver=sol, error=err, warn=False, clip_dt=clip, control=control)(prior, save_at=save_at, atol=atol, rtol=rtol, dt0=0.1)
vm = jax.jit(jax.vmap(solve_one))(u0s, ps, atols, rtols)
r = jax.jit(solve_one)(u0s[0], ps[0], atols[0], rtols[0])
print("steps vmap  ", onp.asarray(vm.num_steps[0]))
print("steps single", onp.asarray(r.num_steps))
print("mean diff per checkpoint", onp.asarray(jnp.max(jnp.abs(vm.u.mean[0][0] - r.u.mean[0]), axis=1)))
print("scale diff", onp.asarray(jnp.abs(vm.output_scale[0] - r.output_scale)).ravel()[:45])
print("scale", onp.asarray(r.output_scale).ravel()[:45])
