import jax, jax.numpy as jnp, numpy as onp
jax.config.update("jax_enable_x64", True)
from probdiffeq import probdiffeq as pdq

key = jax.random.PRNGKey(0)
d = 3
def f1(u, *, t): return jnp.stack([u[0]*u[1] - t*u[2]**2, t**2*u[1] - u[0]**3 + 2*t, jnp.sin(u[2]*u[0]) + t])
def f2(u, du, *, t): return jnp.stack([u[0]*du[1] - t*du[2]**2, t**2*u[1]*du[0] - u[0]**3 + 2*t, jnp.sin(u[2]*du[0]) + t])
t = 0.7
mat = pdq.jacobian_materialize()
worst = 0.
for order, f in [(1, f1), (2, f2)]:
    for K in [order + 1, order + 2, order + 4]:
        tc = [jax.random.normal(jax.random.fold_in(key, 10*K+i), (d,)) for i in range(K)]
        ode = (pdq.ode if order == 1 else pdq.ode_order_two)(f, jacobian=mat)
        for lift_by in range(0, K - order):
            odel = ode.jet_lift(lift_by=lift_by) if lift_by > 0 else ode
            res = pdq.residual_from_ode(odel)
            # reference flat residual on stacked (K,d) array
            def r_flat(M):
                out = res.residual_function(jet_coords=[M[i] for i in range(res.num_tcoeffs_in_args)], t=t)
                return jnp.stack(out)  # (n_out, d)
            M = jnp.stack(tc)
            rM = r_flat(M)
            J = jax.jacfwd(r_flat)(M)  # (n_out,d,K,d)
            n_out = rM.shape[0]
            for name, ssm in [("dense", pdq.state_space_model_dense()), ("iso", pdq.state_space_model_isotropic()), ("bd", pdq.state_space_model_blockdiag())]:
                prior = ssm.prior_wiener_integrated(tc)
                rv = prior.init
                for cname, c in [("ts1", ssm.constraint_ode_ts1(odel)), ("res", ssm.constraint_residual(res))]:
                    st = c.init_linearization()
                    cond, _ = c.linearize(rv, st, damp=0.0, t=t)
                    A = cond.A; b = cond.noise.mean_flat
                    if name == "dense":
                        Jd = J.reshape(n_out*d, K*d)
                        val = A @ rv.mean_flat + b
                        e = max(float(jnp.max(jnp.abs(A - Jd))), float(jnp.max(jnp.abs(val - rM.reshape(-1)))))
                    elif name == "iso":
                        Jt = jnp.trace(J, axis1=1, axis2=3) / d
                        val = A @ rv.mean_flat + b
                        e = max(float(jnp.max(jnp.abs(A - Jt))), float(jnp.max(jnp.abs(val - rM))))
                    else:
                        Jb = jnp.einsum("mdnd->dmn", J)
                        val = jnp.einsum("dmn,dn->dm", A, rv.mean_flat) + b
                        e = max(float(jnp.max(jnp.abs(A - Jb))), float(jnp.max(jnp.abs(val - rM.T))))
                    worst = max(worst, e)
                    if e > 1e-10: print("MISMATCH", order, K, lift_by, name, cname, e)
                # TS0
                c0 = ssm.constraint_ode_ts0(odel)
                cond, _ = c0.linearize(rv, c0.init_linearization(), damp=0.0, t=t)
                fx = jnp.stack(odel.vector_field(jet_coords=tc[:odel.num_tcoeffs_in_args], t=t))
                top = jnp.stack([tc[i] for i in odel.tcoeff_indices_output])
                A = cond.A; b = cond.noise.mean_flat
                if name == "dense": val = (A @ rv.mean_flat + b).reshape(-1, d)
                elif name == "iso": val = A @ rv.mean_flat + b
                else: val = (jnp.einsum("dmn,dn->dm", A, rv.mean_flat) + b).T
                e = float(jnp.max(jnp.abs(val - (top - fx))))
                worst = max(worst, e)
                if e > 1e-10: print("MISMATCH ts0", order, K, lift_by, name, e)
print("worst", worst)
