import sys; sys.path.insert(0, "/repo/hunt")
import jax, jax.numpy as jnp, numpy as onp, math
jax.config.update("jax_enable_x64", True)
from probdiffeq import probdiffeq as pdq
from fractions import Fraction as Fr
from ps import solve_ode_series, PS
# DAE: x' = -x + y*x + t ; 0 = y - x^2 - t   (index 1) ;  state u = [x, y]
diff = pdq.residual_velocity(lambda u, du, *, t: du[0] + u[0] - u[1]*u[0] - t)
alg = pdq.residual_position(lambda u, *, t: u[1] - u[0]**2 - t)
t0 = Fr(1, 2); x0 = Fr(2, 3); y0 = x0**2 + t0
for num in [1, 2, 3, 5, 8]:
    refx = solve_ode_series(lambda u, t: [-u[0] + (u[0]*u[0] + t)*u[0] + t], [[x0]], t0, num)
    n = num + 1
    xs = PS([refx[k][0] / math.factorial(k) for k in range(n)], n)
    ys = xs * xs + PS([t0, 1], n)
    ref = onp.array([[float(refx[k][0]), float(ys.c[k] * math.factorial(k))] for k in range(n)])
    stack = pdq.residual_from_stack(diff.jet_lift(lift_by=num - 1), alg.jet_lift(lift_by=num))
    for tol in [1e-6, 0.0]:
        nl = pdq.lstsq_constrained_gauss_newton(tol=tol)
        out, info = pdq.jetexpand_residual(num=num, nlstsq=nl)(stack, [jnp.array([float(x0), float(y0)])], t=float(t0))
        out = onp.array(out)
        print(num, tol, "err %.2e" % onp.max(onp.abs(out - ref) / (1 + onp.abs(ref))), int(info["iters"]))
# pytree state
diffp = pdq.residual_velocity(lambda u, du, *, t: du["x"] + u["x"] - u["y"]*u["x"] - t)
algp = pdq.residual_position(lambda u, *, t: u["y"] - u["x"]**2 - t)
num = 4
stack = pdq.residual_from_stack(diffp.jet_lift(lift_by=num - 1), algp.jet_lift(lift_by=num))
try:
    out, info = pdq.jetexpand_residual(num=num)(stack, [{"x": jnp.asarray(float(x0)), "y": jnp.asarray(float(y0))}], t=float(t0))
    print("pytree", [ (float(o["x"]), float(o["y"])) for o in out])
    print(ref[:5] if False else "")
except Exception as e:
    print("pytree ERR", type(e).__name__, str(e)[:300])
