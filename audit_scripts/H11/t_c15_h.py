import sys, itertools, warnings, collections, time; sys.path.insert(0, "/repo/hunt")
warnings.simplefilter("ignore")
from harness import *
def vf(u, *, t): return jnp.stack([u[0] * (1 - u[1]) + 0.1*jnp.sin(t), -u[1] * (1 - u[0])])
t0 = 0.0
save_at = jnp.linspace(0.0, 1.0, 4); grid = jnp.linspace(0., 1., 5)
u0 = jnp.array([2.0, 1.0])
for ssm in ["dense", "iso", "bd"]:
  for strat, solver, cons, adaptive in [("filter", "mle", "ts0", True), ("fp", "dyn", "ts1", True), ("fi", "solver", "ts1", False), ("fp", "mle", "ts0", True)]:
    def run():
        prior, sol, err = make(vf, [u0], t0, ssm=ssm, strat=strat, solver=solver, cons=cons, num=2)
        if adaptive:
            s = ivpsolve.solve_adaptive_save_at(solver=sol, error=err, warn=False)(prior, save_at=save_at, atol=1e-2, rtol=1e-2, dt0=0.1)
        else:
            s = ivpsolve.solve_fixed_grid(solver=sol)(prior, grid=grid)
        return s.u.mean, s.u.std, s.num_steps
    a = jax.jit(run)()
    tic = time.time()
    try:
        with jax.disable_jit():
            b = run()
        print(ssm, strat, solver, cons, "disable_jit vs jit: %.2e" % tree_maxdiff(a, b), "steps", onp.asarray(a[2]), "%.0fs" % (time.time() - tic), flush=True)
    except Exception as e:
        print(ssm, strat, solver, cons, "ERR", type(e).__name__, str(e)[:300], flush=True)
