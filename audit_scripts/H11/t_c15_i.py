import sys, itertools, warnings, collections; sys.path.insert(0, "/repo/hunt")
warnings.simplefilter("ignore")
from harness import *
def vf2(u, du, *, t, p=1.0):
    return jnp.stack([-p * u[0] + 0.1*jnp.sin(t) * du[1], -u[1] * (1 + u[0]**2) - 0.1 * du[0]])
t0, t1 = 0.0, 2.0
save_at = jnp.linspace(t0, t1, 6)
u0s = jnp.array([[2.0, 1.0], [0.5, 3.0], [5.0, 0.1]]); du0s = jnp.array([[0.0, 1.0], [0.5, -3.0], [1.0, 0.1]])
ps = jnp.array([1.0, 30.0, 0.2]); tols = jnp.array([1e-2, 1e-4, 1e-7]); damps = jnp.array([0.0, 1e-6, 1e-3]); scales = jnp.array([1.0, 10.0, 0.1])

def solve_one(u0, du0, p, tol, damp, scale, cfg, jac):
    ssm, strat, solver, cons = cfg
    J = {"mat": pdq.jacobian_materialize, "fwd": lambda: pdq.jacobian_monte_carlo_fwd(seed=3, num_probes=4), "rev": lambda: pdq.jacobian_monte_carlo_rev(seed=4, num_probes=3)}[jac]()
    pk = dict(is_exact=False, inexact_eps=1e-3, diffuse_derivatives=1, diffuse_eps=2.0)
    if ssm == "bd": pk["output_scale"] = scale * jnp.ones(2)
    elif ssm == "iso": pk["output_scale"] = scale
    else: pk["output_scale"] = scale * jnp.ones(2)
    prior, sol, err = make(lambda u, du, *, t: vf2(u, du, t=t, p=p), [u0, du0], t0, ssm=ssm, strat=strat, solver=solver, cons=cons, order=2, num=2, jac=J, prior_kwargs=pk, cons_init=True)
    s = ivpsolve.solve_adaptive_save_at(solver=sol, error=err, warn=False)(prior, save_at=save_at, atol=tol, rtol=tol, dt0=0.1, damp=damp)
    return s.u.mean[:2], s.u.std[:2], s.num_steps

for ssm in ["dense", "iso", "bd"]:
    for cfg in [(ssm, "filter", "mle", "ts1"), (ssm, "fp", "dyn", "ts1"), (ssm, "fp", "solver", "ts0")]:
        for jac in ["mat", "fwd", "rev"]:
            f = lambda a, b, c, d, e, g: solve_one(a, b, c, d, e, g, cfg, jac)
            try:
                vm = jax.jit(jax.vmap(f))(u0s, du0s, ps, tols, damps, scales)
                ref = [jax.jit(f)(u0s[i], du0s[i], ps[i], tols[i], damps[i], scales[i]) for i in range(3)]
                ref = jax.tree.map(lambda *x: jnp.stack(x), *ref)
                nan = any(bool(jnp.isnan(x).any()) for x in jax.tree.leaves(ref))
                print(cfg, jac, "steps", onp.asarray(ref[2][:, -1]), onp.asarray(vm[2][:, -1]), "diff %.1e" % tree_maxdiff(vm, ref), "NaN" if nan else "", flush=True)
            except Exception as e:
                print(cfg, jac, "ERR", type(e).__name__, str(e)[:300], flush=True)
            jax.clear_caches()
