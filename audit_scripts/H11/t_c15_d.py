import sys, itertools, warnings, collections; sys.path.insert(0, "/repo/hunt")
warnings.simplefilter("ignore")
from harness import *
t0, t1 = 0.0, 1.0
save_at = jnp.linspace(t0, t1, 4); grid = jnp.linspace(t0, t1, 6)

def run(vf, u0s, cfg, adaptive, order=1, num=3, **kw):
    ssm, strat, solver, cons = cfg
    prior, sol, err = make(vf, u0s, t0, ssm=ssm, strat=strat, solver=solver, cons=cons, num=num, order=order, **kw)
    if adaptive:
        return jax.jit(ivpsolve.solve_adaptive_save_at(solver=sol, error=err, warn=False))(prior, save_at=save_at, atol=1e-4, rtol=1e-4, dt0=0.1)
    return jax.jit(ivpsolve.solve_fixed_grid(solver=sol))(prior, grid=grid)

for shape in [(), (1,), (3,), (2, 2), (2, 1, 2)]:
    n = int(onp.prod(shape)) if shape else 1
    A = jax.random.normal(jax.random.PRNGKey(n), (n, n)) * 0.5
    def vf_flat(u, *, t): return A @ jnp.tanh(u) - 0.3 * u * u[::-1] + jnp.sin(t)
    def vf_arr(u, *, t): return vf_flat(u.reshape(-1), t=t).reshape(shape)
    def vf2_flat(u, du, *, t): return A @ jnp.tanh(u) - 0.3 * du * u[::-1] + jnp.sin(t)
    def vf2_arr(u, du, *, t): return vf2_flat(u.reshape(-1), du.reshape(-1), t=t).reshape(shape)
    u0 = jax.random.normal(jax.random.PRNGKey(1), (n,)); du0 = jax.random.normal(jax.random.PRNGKey(2), (n,))
    for ssm in ["dense", "iso", "bd"]:
        for (strat, adaptive) in [("filter", True), ("fp", True), ("fi", False)]:
            for solver in ["mle", "dyn"]:
                for cons in ["ts0", "ts1"]:
                  for order in [1, 2]:
                    cfg = (ssm, strat, solver, cons)
                    try:
                        if order == 1:
                            sf = run(vf_flat, [u0], cfg, adaptive); sa = run(vf_arr, [u0.reshape(shape)], cfg, adaptive)
                        else:
                            sf = run(vf2_flat, [u0, du0], cfg, adaptive, order=2); sa = run(vf2_arr, [u0.reshape(shape), du0.reshape(shape)], cfg, adaptive, order=2)
                        T = sf.t.shape[0]
                        m = sa.u.mean[0]
                        assert m.shape == (T,) + shape, (m.shape, shape)
                        dm = float(jnp.max(jnp.abs(m.reshape(T, -1) - sf.u.mean[0])))
                        s = sa.u.std[0]
                        if ssm != "iso":
                            assert s.shape == (T,) + shape, ("std", s.shape)
                            ds = float(jnp.max(jnp.abs(s.reshape(T, -1) - sf.u.std[0])))
                        else:
                            ds = float(jnp.max(jnp.abs(s - sf.u.std[0])))
                        bad = not (dm < 1e-9 and ds < 1e-9) or bool(jnp.isnan(m).any())
                        if bad: print(shape, cfg, order, "DIFF", dm, ds, flush=True)
                    except Exception as e:
                        print(shape, cfg, order, "ERR", type(e).__name__, str(e)[:200], flush=True)
        jax.clear_caches()
    print("done", shape, flush=True)
