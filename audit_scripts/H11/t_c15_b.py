import sys, itertools, warnings; sys.path.insert(0, "/repo/hunt")
warnings.simplefilter("ignore")
from harness import *
def vf(u, *, t, p=1.0):
    return jnp.stack([p * u[0] * (1 - u[1]) + 0.1*jnp.sin(t), -u[1] * (1 - u[0])])
t0, t1 = 0.0, 2.0
save_at = jnp.linspace(t0, t1, 6)
def solve_one(u0, p, atol, rtol, cfg):
    ssm, strat, solver, cons = cfg
    prior, sol, err = make(lambda u, *, t: vf(u, t=t, p=p), [u0], t0, ssm=ssm, strat=strat, solver=solver, cons=cons)
    s = ivpsolve.solve_adaptive_save_at(solver=sol, error=err, warn=False)(prior, save_at=save_at, atol=atol, rtol=rtol, dt0=0.1)
    return dict(mean=s.u.mean, std=s.u.std, n=s.num_steps, scale=s.output_scale, t=s.t)
cfg = tuple(sys.argv[1:5])
u0 = jnp.array([5.0, 0.1]); p = 0.2; a = r = 1e-8
f = lambda u0, p, a, r: solve_one(u0, p, a, r, cfg)
ref = f(u0, p, a, r); j = jax.jit(f)(u0, p, a, r)
for k in ref:
    print(k, jax.tree.map(lambda x, y: float(jnp.max(jnp.abs(x - y))), ref[k], j[k]))
print(ref["std"][0][-1], ref["mean"][0][-1])
