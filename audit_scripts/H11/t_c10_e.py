import sys; sys.path.insert(0, "/repo/hunt")
import jax, jax.numpy as jnp, numpy as onp
jax.config.update("jax_enable_x64", True)
from probdiffeq import probdiffeq as pdq
from fractions import Fraction as Fr
from ps import solve_ode_series
def tofl(ref): return onp.array([[float(x) for x in r] for r in ref])

def f_j(u, *, t): return jnp.stack([u[0]*u[1] - t*u[0]**2 + 1.0/3, t**2*u[1] - u[0]**3 + 2*t])
def f_ps(u, t): return [u[0]*u[1] - t*u[0]**2 + Fr(1,3), t**2*u[1] - u[0]**3 + 2*t]
u0 = [Fr(1,2), Fr(-2,3)]; t0 = Fr(3,4)
init = [jnp.array([float(x) for x in u0])]
for num in [0, 1, 2, 3, 5, 8, 10, 12]:
    ref = tofl(solve_ode_series(f_ps, [u0], t0, num))
    res = pdq.residual_from_ode(pdq.ode(f_j))
    if num >= 1:
        res = res.jet_lift(lift_by=num - 1)
    out, info = pdq.jetexpand_residual(num=num)(res, init, t=float(t0))
    out = onp.array(out)
    print("order1", num, out.shape, "err %.2e" % onp.max(onp.abs(out-ref)/(1+onp.abs(ref))), {k: (onp.asarray(v).max() if k!="iters" else int(v)) for k, v in info.items()})

# second order with given u, u'
def f2_j(u, du, *, t): return jnp.stack([u[0]*du[1] - t*du[0]**2 + 1.0/3, t**2*u[1]*du[0] - u[0]**3 + 2*t])
def f2_ps(u, du, t): return [u[0]*du[1] - t*du[0]**2 + Fr(1,3), t**2*u[1]*du[0] - u[0]**3 + 2*t]
du0=[Fr(5,4), Fr(-1,7)]
init2 = init + [jnp.array([float(x) for x in du0])]
for num in [0, 1, 2, 4, 8]:
    ref = tofl(solve_ode_series(f2_ps, [u0, du0], t0, num))
    res = pdq.residual_from_ode(pdq.ode_order_two(f2_j))
    if num >= 1:
        res = res.jet_lift(lift_by=num - 1)
    out, info = pdq.jetexpand_residual(num=num)(res, init2, t=float(t0))
    out = onp.array(out)
    print("order2", num, out.shape, "err %.2e" % onp.max(onp.abs(out-ref)/(1+onp.abs(ref))), int(info.get("iters", -1)) if info else None)

# badly scaled problem: u' = eps * u^2
for eps in [1e-3, 1e-4]:
    def g(u, *, t): return eps * u**2 + eps * t
    def g_ps(u, t): return [Fr(eps).limit_denominator(10**6) * u[0]*u[0] + Fr(eps).limit_denominator(10**6) * t]
    num = 4
    ref = tofl(solve_ode_series(g_ps, [[Fr(1)]], Fr(0), num))
    res = pdq.residual_from_ode(pdq.ode(g)).jet_lift(lift_by=num-1)
    out, info = pdq.jetexpand_residual(num=num)(res, [jnp.array([1.0])], t=0.0)
    exp, _ = pdq.jetexpand_ode_unroll(num=num)(pdq.ode(g), [jnp.array([1.0])], t=0.0)
    print("eps", eps, "residual-based", onp.array(out).ravel(), "\n   exact", ref.ravel(), "\n   unroll", onp.array(exp).ravel(), int(info["iters"]))
