import jax, jax.numpy as jnp, numpy as onp
jax.config.update("jax_enable_x64", True)
from probdiffeq import probdiffeq as pdq, ivpsolve

SSMS = {"dense": pdq.state_space_model_dense, "iso": pdq.state_space_model_isotropic, "bd": pdq.state_space_model_blockdiag}
STRATS = {"filter": pdq.strategy_filter, "fp": pdq.strategy_smoother_fixedpoint, "fi": pdq.strategy_smoother_fixedinterval}
SOLVERS = {"solver": pdq.solver, "mle": pdq.solver_mle, "dyn": pdq.solver_dynamic}


def make(vf_fun, u0s, t0, *, ssm="dense", strat="filter", solver="mle", cons="ts0", num=3, order=1,
         jac=None, prior_kwargs=None, cons_init=False, error="res"):
    """u0s: list of initial values (len == order). Returns (prior, solver_obj, error_obj)."""
    if jac is None:
        jac = pdq.jacobian_materialize()
    if order == 1:
        vf = pdq.ode(vf_fun, jacobian=jac)
    elif order == 2:
        vf = pdq.ode_order_two(vf_fun, jacobian=jac)
    else:
        vf = pdq.ode_order_arbitrary(vf_fun, num_tcoeffs_in_args=order, jacobian=jac)
    tcoeffs, _ = pdq.jetexpand_ode_unroll(num=num)(vf, list(u0s), t=t0)
    S = SSMS[ssm]()
    prior = S.prior_wiener_integrated(tcoeffs, **(prior_kwargs or {}))
    if cons == "ts0":
        c = S.constraint_ode_ts0(vf)
    elif cons == "ts1":
        c = S.constraint_ode_ts1(vf)
    elif cons == "res":
        c = S.constraint_residual(pdq.residual_from_ode(vf))
    else:
        raise ValueError
    kw = {}
    if cons_init:
        kw["constraint_init"] = c
    sol = SOLVERS[solver](strategy=STRATS[strat](), constraint=c, **kw)
    if error == "res":
        err = pdq.error_residual_std(constraint=c)
    else:
        err = pdq.error_state_std(constraint=c)
    return prior, sol, err


def tree_maxdiff(a, b):
    la, ta = jax.tree.flatten(a); lb, tb = jax.tree.flatten(b)
    assert ta == tb, (ta, tb)
    m = 0.0
    for x, y in zip(la, lb):
        x = onp.asarray(x); y = onp.asarray(y)
        assert x.shape == y.shape, (x.shape, y.shape)
        if x.size == 0: continue
        if onp.isnan(x).any() or onp.isnan(y).any():
            if not onp.array_equal(onp.isnan(x), onp.isnan(y)): return onp.inf
            x = onp.nan_to_num(x); y = onp.nan_to_num(y)
        m = max(m, float(onp.max(onp.abs(x - y) / (1e-300 + 1.0 + onp.abs(y)))))
    return m
