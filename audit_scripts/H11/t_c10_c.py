import jax, jax.numpy as jnp, numpy as onp
jax.config.update("jax_enable_x64", True)
from probdiffeq import probdiffeq as pdq

# mixed dtype pytree: one leaf float64, another int
def f(u, *, t):
    return {"a": 0.5*u["a"]*u["b"] + t, "b": 0.25*u["a"] - 0.5*u["b"]}
def f_flat(u, *, t):
    return jnp.stack([0.5*u[0]*u[1] + t, 0.25*u[0]-0.5*u[1]])
u0 = {"a": jnp.asarray(1.5), "b": jnp.asarray(2)}
u0f = jnp.asarray([1.5, 2.0])
for name, mk in [("unroll", lambda n: pdq.jetexpand_ode_unroll(num=n)), ("scan", lambda n: pdq.jetexpand_ode_padded_scan(num=n)), ("jvp", lambda n: pdq.jetexpand_ode_via_jvp(num=n)), ("dbl", lambda n: pdq.jetexpand_ode_doubling_unroll(num_doublings=2))]:
    try:
        out, _ = mk(3)(pdq.ode(f), [u0], t=0.25)
        ref, _ = mk(3)(pdq.ode(f_flat), [u0f], t=0.25)
        print(name, [ (float(o["a"]), o["b"].dtype, float(o["b"])) for o in out])
        print(name, "ref", onp.array(ref))
    except Exception as e:
        print(name, "ERR", type(e), str(e)[:300])

# float32 + float64
u0 = {"a": jnp.asarray(1.5, dtype=jnp.float32), "b": jnp.asarray(2.0)}
out, _ = pdq.jetexpand_ode_unroll(num=3)(pdq.ode(f), [u0], t=0.25)
print([ (o["a"].dtype, float(o["a"]), float(o["b"])) for o in out])
# all int array
try:
    out, _ = pdq.jetexpand_ode_unroll(num=3)(pdq.ode(f_flat), [jnp.asarray([1, 2])], t=0.25)
    print("int arr", out)
except Exception as e:
    print("ERR", type(e), str(e)[:300])
try:
    out, _ = pdq.jetexpand_ode_padded_scan(num=3)(pdq.ode(f_flat), [jnp.asarray([1, 2])], t=0.25)
    print("int arr", out)
except Exception as e:
    print("ERR", type(e), str(e)[:300])
# all-int pytree
try:
    out, _ = pdq.jetexpand_ode_unroll(num=3)(pdq.ode(f), [{"a": jnp.asarray(1), "b": jnp.asarray(2)}], t=0.25)
    print("int tree", out)
except Exception as e:
    print("ERR", type(e), str(e)[:300])
