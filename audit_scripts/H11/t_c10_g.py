import sys; sys.path.insert(0, "/repo/hunt")
import jax, jax.numpy as jnp, numpy as onp
jax.config.update("jax_enable_x64", True)
from probdiffeq import probdiffeq as pdq
from fractions import Fraction as Fr
from ps import solve_ode_series
def tofl(ref): return onp.array([[float(x) for x in r] for r in ref])
def f_j(u, *, t): return jnp.stack([u[0]*u[1] - t*u[0]**2 + 1.0/3, t**2*u[1] - u[0]**3 + 2*t])
def f_ps(u, t): return [u[0]*u[1] - t*u[0]**2 + Fr(1,3), t**2*u[1] - u[0]**3 + 2*t]
u0 = [Fr(1,2), Fr(-2,3)]; t0 = Fr(3,4)
init = [jnp.array([float(x) for x in u0])]
for num in [6, 8, 10]:
    ref = tofl(solve_ode_series(f_ps, [u0], t0, num))
    res = pdq.residual_from_ode(pdq.ode(f_j)).jet_lift(lift_by=num - 1)
    for tol in [1e-6, 0.0]:
        out, info = pdq.jetexpand_residual(num=num, nlstsq=pdq.lstsq_constrained_gauss_newton(tol=tol))(res, init, t=float(t0))
        out = onp.array(out)
        rel = onp.abs(out-ref)/(onp.abs(ref))
        print(num, tol, "max rel err %.2e" % rel.max(), "per-order", onp.array2string(rel.max(axis=1), precision=1), int(info["iters"]))
    un, _ = pdq.jetexpand_ode_unroll(num=num)(pdq.ode(f_j), init, t=float(t0))
    print("   unroll rel err %.2e" % (onp.abs(onp.array(un)-ref)/onp.abs(ref)).max(), "magnitudes", onp.array2string(onp.abs(ref).max(axis=1), precision=1))
