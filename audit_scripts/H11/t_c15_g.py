import sys, itertools, warnings, collections; sys.path.insert(0, "/repo/hunt")
warnings.simplefilter("ignore")
from harness import *
def f(u, *, t):
    return {"a": 0.5*u["a"]*u["b"] + t, "b": 0.25*u["a"] - 0.5*u["b"]}
t0 = 0.0
grid = jnp.linspace(0, 1, 11); save_at = jnp.linspace(0, 1, 5)
tc_f = pdq.jetexpand_ode_unroll(num=3)(pdq.ode(f), [{"a": jnp.asarray(1.5), "b": jnp.asarray(2.0)}], t=t0)[0]
tc_i = [dict(x) for x in tc_f]
tc_i[0]["b"] = jnp.asarray(2)        # integer-valued leaf
tc_32 = [dict(x) for x in tc_f]
tc_32[0]["a"] = jnp.asarray(1.5, dtype=jnp.float32)
for ssm in ["dense", "iso", "bd"]:
    for cons in ["ts0", "ts1"]:
        for strat, adaptive in [("filter", True), ("fp", True), ("fi", False), ("filter", False)]:
            out = []
            for tc in [tc_f, tc_i, tc_32]:
                S = SSMS[ssm]()
                vf = pdq.ode(f, jacobian=pdq.jacobian_materialize())
                prior = S.prior_wiener_integrated(tc)
                c = S.constraint_ode_ts0(vf) if cons == "ts0" else S.constraint_ode_ts1(vf)
                sol = pdq.solver_mle(strategy=STRATS[strat](), constraint=c)
                try:
                    if adaptive:
                        s = ivpsolve.solve_adaptive_save_at(solver=sol, error=pdq.error_residual_std(constraint=c), warn=False)(prior, save_at=save_at, atol=1e-4, rtol=1e-4)
                    else:
                        s = ivpsolve.solve_fixed_grid(solver=sol)(prior, grid=grid)
                    out.append((s.u.mean[0], s.u.std[0], s.u.mean[1]))
                except Exception as e:
                    out.append(None); print(ssm, cons, strat, adaptive, "ERR", type(e).__name__, str(e)[:200])
            if all(o is not None for o in out):
                d1 = tree_maxdiff(jax.tree.map(lambda x: x.astype(float), out[1]), out[0])
                d2 = tree_maxdiff(jax.tree.map(lambda x: x.astype(float), out[2]), out[0])
                print(ssm, cons, strat, adaptive, "int-vs-float %.1e  f32-vs-float %.1e" % (d1, d2), jax.tree.map(lambda x: x.dtype, out[1][0]))
    jax.clear_caches()
