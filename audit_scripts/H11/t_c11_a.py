import sys; sys.path.insert(0, "/repo/hunt")
import jax, jax.numpy as jnp, numpy as onp, math, itertools
jax.config.update("jax_enable_x64", True)
from probdiffeq import probdiffeq as pdq
from fractions import Fraction as Fr
from ps import PS
import random
random.seed(0)

def series_ref(f_ps, coeffs, order, m, t0, d):
    """derivative values of f along curve with derivative-values coeffs (list over k of list over dims)."""
    n = m + 1
    K = len(coeffs)
    u = [PS([coeffs[k][i] / math.factorial(k) for k in range(K)], K) for i in range(d)]
    args = [u]
    for _ in range(order - 1):
        args.append([x.deriv() for x in args[-1]])
    # now truncate to n coefficients
    args = [[PS(x.c[:n], n) for x in a] for a in args]
    t = PS([t0, 1], n)
    fx = f_ps(*args, t)
    return [[fx[i].c[k] * math.factorial(k) for i in range(len(fx))] for k in range(n)]

def rnd(): return Fr(random.randint(-9, 9), random.randint(1, 7))

cases = {
 1: (lambda u, *, t: jnp.stack([u[0]*u[1] - t*u[0]**2 + 1.0/3, t**2*u[1] - u[0]**3 + 2*t]),
     lambda u, t: [u[0]*u[1] - t*u[0]**2 + Fr(1,3), t**2*u[1] - u[0]**3 + 2*t]),
 2: (lambda u, du, *, t: jnp.stack([u[0]*du[1] - t*du[0]**2 + 1.0/3, t**2*u[1]*du[0] - u[0]**3 + 2*t]),
     lambda u, du, t: [u[0]*du[1] - t*du[0]**2 + Fr(1,3), t**2*u[1]*du[0] - u[0]**3 + 2*t]),
 3: (lambda u, du, ddu, *, t: jnp.stack([u[0]*ddu[1] - t*du[0]**2 + 1.0/3, t**2*u[1]*ddu[0]*du[1] - u[0]**3 + 2*t]),
     lambda u, du, ddu, t: [u[0]*ddu[1] - t*du[0]**2 + Fr(1,3), t**2*u[1]*ddu[0]*du[1] - u[0]**3 + 2*t]),
}
t0 = Fr(3, 4)
worst = 0
for order, (fj, fps) in cases.items():
    for K in range(order, order + 6):   # number of available tcoeffs
        coeffs = [[rnd(), rnd()] for _ in range(K)]
        jc = [jnp.array([float(x) for x in c]) for c in coeffs]
        for lift_by in range(-1, 7):
            admissible = 0 <= lift_by <= K - order
            # ODE
            if order == 1: ode = pdq.ode(fj)
            elif order == 2: ode = pdq.ode_order_two(fj)
            else: ode = pdq.ode_order_arbitrary(fj, num_tcoeffs_in_args=3)
            for kind in ["ode", "res_from_ode", "residual"]:
                try:
                    if kind == "ode":
                        lifted = ode.jet_lift(lift_by=lift_by)
                        out = lifted.vector_field(jet_coords=jc, t=float(t0))
                        assert lifted.tcoeff_indices_output == [order + l for l in range(lift_by + 1)], lifted.tcoeff_indices_output
                        assert lifted.num_tcoeffs_in_args == order + lift_by
                        ref = series_ref(fps, coeffs, order, lift_by, t0, 2)
                    elif kind == "res_from_ode":
                        if lift_by > K - order - 1 and lift_by <= K - order:
                            # residual has order+1 args
                            pass
                        res = pdq.residual_from_ode(ode)
                        lifted = res.jet_lift(lift_by=lift_by)
                        out = lifted.residual_function(jet_coords=jc, t=float(t0))
                        def rps(*a, fps=fps):
                            *us, top, t = a
                            fx = fps(*us, t)
                            return [top[i] - fx[i] for i in range(2)]
                        ref = series_ref(rps, coeffs, order + 1, lift_by, t0, 2)
                        adm = 0 <= lift_by <= K - order - 1
                    else:
                        # generic residual with same signature as the ode func: g = f(u,..,t)^2 part
                        mk = {1: pdq.residual_position, 2: pdq.residual_velocity, 3: pdq.residual_acceleration}[order]
                        res = mk(lambda *a, t: fj(*a, t=t)[0] * fj(*a, t=t)[1])
                        lifted = res.jet_lift(lift_by=lift_by)
                        out = lifted.residual_function(jet_coords=jc, t=float(t0))
                        def rps(*a, fps=fps):
                            *us, t = a
                            fx = fps(*us, t)
                            return [fx[0] * fx[1]]
                        ref = series_ref(rps, coeffs, order, lift_by, t0, 2)
                        out = [jnp.atleast_1d(o) for o in out]
                    adm_here = adm if kind == "res_from_ode" else admissible
                    if not adm_here:
                        print("NOT REJECTED", order, K, lift_by, kind)
                        continue
                    out = onp.array(out); ref = onp.array([[float(x) for x in r] for r in ref])
                    assert out.shape == ref.shape, (out.shape, ref.shape)
                    err = onp.max(onp.abs(out - ref) / (1 + onp.abs(ref)))
                    worst = max(worst, err)
                    if err > 1e-10:
                        print("MISMATCH", order, K, lift_by, kind, err)
                except (ValueError,) as e:
                    adm_here = (0 <= lift_by <= K - order - 1) if kind == "res_from_ode" else admissible
                    if adm_here:
                        print("REJECTED admissible", order, K, lift_by, kind, str(e)[:100])
print("worst", worst)
