"""[C17] (minor) jacobian_materialize ignores its `jacfun` argument and always uses forward mode.

The handler is constructed with `jacfun=func.jacrev` by default (and prints
`jacobian_materialize(jacfun=<function jacrev ...>)`), but all three methods call `func.jacfwd`.
For a smooth map that only defines a reverse rule (jax.custom_vjp; common for hand-written
adjoints), the handler cannot return the Jacobian at all, although reverse mode was requested,
while the reverse-mode Monte-Carlo handler returns the exact dense Jacobian for the same map.
"""
import sys
import jax, jax.numpy as jnp
jax.config.update("jax_enable_x64", True)
import probdiffeq
from probdiffeq import probdiffeq as pdq

assert probdiffeq.__file__.startswith("/repo"), probdiffeq.__file__


@jax.custom_vjp
def g(x):
    return jnp.sin(x)


g.defvjp(lambda x: (jnp.sin(x), x), lambda x, ct: (ct * jnp.cos(x),))

x = jnp.arange(6.0).reshape(2, 3) / 7
expected = jax.jacrev(g)(x)  # exact Jacobian, shape (2, 3, 2, 3)
print("expected: dense Jacobian of shape", expected.shape, "via reverse mode")

H = pdq.jacobian_materialize(jacfun=jax.jacrev)
print("handler :", H)
defect = False
for m in ["materialize_dense", "calculate_trace_along_d", "calculate_diagonal_along_d"]:
    try:
        fx, J, _ = getattr(H, m)(g, x, H.init_jacobian_handler())
        print(f"  {m}: ok, shape {J.shape}")
    except TypeError as e:
        defect = True
        print(f"  {m}: observed TypeError: {str(e)[:90]}")
fx, J, _ = pdq.jacobian_monte_carlo_rev().materialize_dense(g, x, pdq.jacobian_monte_carlo_rev().init_jacobian_handler())
print("for comparison, jacobian_monte_carlo_rev.materialize_dense error:", float(jnp.max(jnp.abs(J - expected))))
if defect:
    print("DEFECT PRESENT: `jacfun` is ignored (forward mode is hard-coded).")
    sys.exit(1)
print("no defect")
