"""C09 observation (interpretation-dependent, NOT counted as a defect): prior_exponential keeps only
the Jacobian of the drift; a constant drift offset b of an affine drift f(x) = W x + b is dropped
(q0 == 0 always), so the transition mean is Phi x instead of Phi x + int_0^h e^{F s} e_q b ds."""
import jax, jax.numpy as jnp, numpy as np, scipy.linalg as sla
jax.config.update("jax_enable_x64", True)
from probdiffeq import probdiffeq as pdq
from probdiffeq._probdiffeq import problems, jacobians
W = np.array([[-0.5]]); b = np.array([2.0]); h = 0.5
def auton(*, jet_coords):
    return [jnp.asarray(W) @ jet_coords[0] + jnp.asarray(b)]
ode = problems.JetOdeAutonomous(auton, jacobian=jacobians.jacobian_materialize(), num_tcoeffs_in_args=1, tcoeff_indices_output=[1])
pr = pdq.state_space_model_dense().prior_exponential(ode, [jnp.asarray([1.0])])
c = pr.transition(dt=h, output_scale=jnp.ones(())).preconditioner_apply()
x0 = np.array([1.0])
got = np.asarray(c.A) @ x0 + np.asarray(c.noise.mean_flat)
exact_affine = sla.expm(W*h) @ x0 + np.linalg.solve(W, (sla.expm(W*h) - np.eye(1)) @ b)
exact_linear = sla.expm(W*h) @ x0
print("library mean:", got, " exact mean of dx=(Wx+b)dt+dW:", exact_affine, " exact mean of dx=Wx dt+dW:", exact_linear)
