"""C17 (literal reading, low severity): the stochastic handlers do NOT advance their key
in materialize_dense, so every solver step of a dense model returns the identical handler
state.  C17 says the stochastic handlers 'advance their random key on every call'.
(No randomness is consumed by materialize_dense, so no probe is ever re-used; the
deviation is from the stated contract only.)"""
import sys
import jax, jax.numpy as jnp, numpy as np
jax.config.update("jax_enable_x64", True)
import probdiffeq
from probdiffeq import probdiffeq as pdq
assert probdiffeq.__file__.startswith("/repo")

def kd(k):
    return np.asarray(jax.random.key_data(k) if jnp.issubdtype(k.dtype, jax.dtypes.prng_key) else k)

fun = lambda x: jnp.sin(x) * x[::-1]
x = jnp.ones((2, 3)) * 0.3
defect = False
for H in [pdq.jacobian_monte_carlo_fwd, pdq.jacobian_monte_carlo_rev]:
    h = H(seed=1, num_probes=1)
    k0 = h.init_jacobian_handler()
    for name in ["materialize_dense", "calculate_trace_along_d", "calculate_diagonal_along_d"]:
        _, _, k1 = getattr(h, name)(fun, x, k0)
        advanced = not np.array_equal(kd(k0), kd(k1))
        print(f"{H.__name__}.{name}: key advanced = {advanced} (expected True)")
        defect |= not advanced

# solver level: dense TS1 with a stochastic handler carries the same key through all steps
def vf(u, *, t):
    return u * (1 - u)
ode = pdq.ode(vf, jacobian=pdq.jacobian_monte_carlo_rev(seed=1, num_probes=1))
ssm = pdq.state_space_model_dense()
tc, _ = pdq.jetexpand_ode_padded_scan(num=2)(ode, [jnp.asarray([0.2, 0.4])], t=0.0)
solver = pdq.solver(strategy=pdq.strategy_filter(), constraint=ssm.constraint_ode_ts1(ode))
st = solver.init(0.0, ssm.prior_wiener_integrated(tc), damp=0.0)
k_before = kd(jax.tree.leaves(st.auxiliary)[0])
st = solver.step(st, dt=0.1, damp=0.0)
k_after = kd(jax.tree.leaves(st.auxiliary)[0])
print("dense solver step: handler key changed =", not np.array_equal(k_before, k_after), "(expected True)")
sys.exit(1 if defect else 0)
