"""C17: jacobian_materialize(jacfun=...) silently ignores the configured AD mode.

The handler stores `jacfun` (default: reverse mode, func.jacrev) and prints it in its
repr, but materialize_dense / calculate_trace_along_d / calculate_diagonal_along_d all
hard-code func.jacfwd.  Consequences:
  (a) a user-supplied jacfun is never called;
  (b) smooth maps that only admit reverse-mode AD (jax.custom_vjp) make the handler
      raise, although the handler was (by default, and explicitly) configured for
      reverse mode -- whereas the reverse-mode stochastic handler handles them.
Expected: exact dense Jacobian, its diagonal blocks and its trace, computed with `jacfun`.
"""
import sys
import jax, jax.numpy as jnp, numpy as np
jax.config.update("jax_enable_x64", True)
import probdiffeq
from probdiffeq import probdiffeq as pdq
assert probdiffeq.__file__.startswith("/repo"), probdiffeq.__file__

@jax.custom_vjp
def g(x):
    return jnp.sin(x) * x[::-1]
def g_fwd(x):
    return g(x), x
def g_bwd(x, ct):
    # d/dx_ij [ sin(x_ij) * x_{n-1-i, j} ]
    return (ct * jnp.cos(x) * x[::-1] + (ct * jnp.sin(x))[::-1],)
g.defvjp(g_fwd, g_bwd)

def g_plain(x):
    return jnp.sin(x) * x[::-1]

x = jnp.asarray(np.random.default_rng(0).normal(size=(3, 2)))
J_ref = jax.jacfwd(g_plain)(x)
assert np.allclose(jax.jacrev(g)(x), J_ref)  # the custom rule is right

calls = []
def my_jacfun(f):
    calls.append(1)
    return jax.jacrev(f)

defect = False
h = pdq.jacobian_materialize(jacfun=my_jacfun)
print("handler:", h)
for name in ["materialize_dense", "calculate_trace_along_d", "calculate_diagonal_along_d"]:
    # (a) is the configured jacfun used at all?
    calls.clear()
    getattr(h, name)(g_plain, x, h.init_jacobian_handler())
    print(f"{name}: configured jacfun called {len(calls)} times (expected >= 1)")
    if not calls:
        defect = True
    # (b) reverse-mode-only map
    try:
        fx, J, _ = getattr(h, name)(g, x, h.init_jacobian_handler())
        print(f"{name}: custom_vjp map OK")
    except Exception as e:  # noqa: BLE001
        print(f"{name}: custom_vjp map RAISED {type(e).__name__}: {str(e)[:90]}")
        defect = True

# for comparison: the reverse-mode stochastic handler works on the same map
hr = pdq.jacobian_monte_carlo_rev(num_probes=1)
fx, J, _ = hr.materialize_dense(g, x, hr.init_jacobian_handler())
print("jacobian_monte_carlo_rev.materialize_dense on the same map: max err", float(np.abs(J - J_ref).max()))

# default-constructed handler (documented default: jacfun=jacrev)
hd = pdq.jacobian_materialize()
try:
    hd.materialize_dense(g, x, ())
except Exception as e:  # noqa: BLE001
    print("default jacobian_materialize() [repr says jacrev]:", repr(hd)[:80], "-> RAISED", type(e).__name__)
    defect = True

if defect:
    print("DEFECT PRESENT: jacfun is stored and displayed but never used (jacfwd is hard-coded).")
    sys.exit(1)
print("no defect")
