src = open("hunt/c14_reverse_ref.py").read().split("for name, grid in")[0]
exec(src)
grid = onp.array([0.0, 0.1, 0.31071780, 0.44620237, 0.5, 0.50001, 0.50011, 0.50055075, 0.50164903])
tc = tcoeffs_for(vf, [u0], 0.0, 4)
fm, fP, _, _ = kf_ref(tc, grid, 4)
for t, m in zip(grid, fm): print(t, m[:3])
