import sys
src = open("hunt/c14_reverse_ref.py").read().split("for name, grid in")[0]
exec(src)
from scipy.integrate import solve_ivp
truth = solve_ivp(lambda t, y: onp.asarray(f(jnp.asarray(y), t=t)), (1.0, 0.0), onp.asarray(u0), rtol=1e-12, atol=1e-12).y[:, -1]
grid = onp.linspace(1.0, 0.0, 41)
A_Q_orig = A_Q
def A_Q_signed(dt, q):
    A, Q = A_Q_orig(dt, q)
    D = onp.array([onp.sign(dt) ** (q - i) for i in range(q + 1)])
    return A, D[:, None] * Q * D[None, :]
for q in [1, 2, 3, 4]:
    tc = tcoeffs_for(vf, [u0], 1.0, q)
    fm, fP, sm_, sP_ = kf_ref(tc, grid, q)
    print("order", q, "textbook KF with (A(dt), Q(|dt|)): err", onp.max(onp.abs(fm[-1, :3] - truth)))
    A_Q = A_Q_signed
    fm, fP, sm_, sP_ = kf_ref(tc, grid, q)
    A_Q = A_Q_orig
    print("order", q, "textbook KF with (A(dt), D Q(|dt|) D) [time-reversed IWP]: err", onp.max(onp.abs(fm[-1, :3] - truth)))
