import warnings
import jax
jax.config.update("jax_enable_x64", True)
import jax.numpy as jnp, numpy as onp
import probdiffeq as _p
assert _p.__file__.startswith("/repo"), _p.__file__
from probdiffeq import ivpsolve, probdiffeq as pdq

SSM = {"dense": pdq.state_space_model_dense, "iso": pdq.state_space_model_isotropic, "bd": pdq.state_space_model_blockdiag}
STRAT = {"filter": pdq.strategy_filter, "fixedpoint": pdq.strategy_smoother_fixedpoint, "fixedinterval": pdq.strategy_smoother_fixedinterval}
SOLVER = {"plain": pdq.solver, "mle": pdq.solver_mle, "dynamic": pdq.solver_dynamic}

def tcoeffs_for(vf, u0s, t0, order):
    """order = number of derivatives in the prior = len(tcoeffs)-1"""
    num = order + 1 - len(u0s)
    tc, _ = pdq.jetexpand_ode_unroll(num=num)(vf, u0s, t=t0)
    return list(tc)

def build(kind, strat, calib, vf, tcoeffs, lin="ts0", prior_kw=None, jac=None, solver_kw=None, constraint_init=False):
    ssm = SSM[kind]()
    prior = ssm.prior_wiener_integrated(tcoeffs, **(prior_kw or {}))
    if lin == "ts0":
        c = ssm.constraint_ode_ts0(vf)
    else:
        c = ssm.constraint_ode_ts1(vf)
    kw = dict(solver_kw or {})
    if constraint_init:
        kw["constraint_init"] = c
    s = SOLVER[calib](strategy=STRAT[strat](), constraint=c, **kw)
    return ssm, prior, c, s

def mvn(sol):
    m, C = sol.u.to_multivariate_normal()
    return onp.asarray(m), onp.asarray(C)

def solve_fixed(solver, prior, grid, damp=0.0, jit=False):
    with warnings.catch_warnings():
        warnings.simplefilter("ignore")
        f = ivpsolve.solve_fixed_grid(solver=solver)
    if jit:
        f = jax.jit(lambda p, g: ivpsolve.solve_fixed_grid(solver=solver)(p, grid=g, damp=damp))
        return f(prior, grid)
    return f(prior, grid=grid, damp=damp)

def solve_save_at(solver, prior, constraint, save_at, atol=1e-4, rtol=1e-4, dt0=0.1, damp=0.0, error="residual", clip_dt=False, control=None, jit=True, error_kw=None):
    E = pdq.error_residual_std if error == "residual" else pdq.error_state_std
    err = E(constraint=constraint, **(error_kw or {}))
    with warnings.catch_warnings():
        warnings.simplefilter("ignore")
        f = ivpsolve.solve_adaptive_save_at(solver=solver, error=err, clip_dt=clip_dt, control=control)
    g = lambda p, s: f(p, save_at=s, atol=atol, rtol=rtol, dt0=dt0, damp=damp)
    if jit: g = jax.jit(g)
    return g(prior, save_at)

def maxrel(a, b):
    a = onp.asarray(a); b = onp.asarray(b)
    return float(onp.max(onp.abs(a - b)) / (onp.max(onp.abs(b)) + 1e-300))
