from hunt.harness import *
grid = jnp.linspace(0, 1, 6)
for name, ff, u0 in [("u'=-u,u0=0", lambda u, *, t: -u, jnp.zeros(2)), ("u'=1", lambda u, *, t: jnp.ones_like(u), jnp.asarray([0.0, 1.0])), ("u'=t (poly)", lambda u, *, t: t * jnp.ones_like(u), jnp.asarray([0.0, 1.0]))]:
    vf = pdq.ode(ff, jacobian=pdq.jacobian_materialize())
    tc = tcoeffs_for(vf, [u0], 0.0, 2)
    for lin in ["ts0", "ts1"]:
      for strat in ["filter", "fixedinterval"]:
        for calib in ["plain", "mle", "dynamic"]:
            row = []
            for kind in ["dense", "iso", "bd"]:
                _, prior, c, s = build(kind, strat, calib, vf, tc, lin=lin)
                sol = solve_fixed(s, prior, grid, jit=True)
                m, C = mvn(sol)
                row.append(("nan" if not onp.all(onp.isfinite(m)) else "ok") + "/" + ("nan" if not onp.all(onp.isfinite(C)) else "ok"))
            jax.clear_caches()
            print(name, lin, strat, calib, "mean/cov finite:", row)
