import jax
jax.config.update("jax_enable_x64", True)
import jax.numpy as jnp, numpy as onp
from scipy.stats import multivariate_normal as mvn
from probdiffeq._probdiffeq import ssm_impl_dense as D, ssm_impl_isotropic as I, ssm_impl_blockdiag as B
rng = onp.random.default_rng(1)
def tcoeffs(n, shapes):
    return [ {"a": jnp.asarray(rng.normal(size=shapes[0])), "b": (jnp.asarray(rng.normal(size=shapes[1])),)} for _ in range(n)]
for n in [1, 2, 4]:
  for shapes in [((), (2,)), ((2, 1), (3,)), ((1, 1, 2), ())]:
    tc = tcoeffs(n, shapes)
    flat = jnp.stack([jax.flatten_util.ravel_pytree(t)[0] for t in tc]); d = flat.shape[1]
    u = tcoeffs(n, shapes)
    uflat = onp.asarray(jnp.stack([jax.flatten_util.ravel_pytree(t)[0] for t in u]))
    for kind in ["dense", "iso", "bd"]:
        for tri in [True, False]:
            def fac(sz):
                M = rng.normal(size=(sz, sz)) + 2 * onp.eye(sz)
                return onp.tril(M) if tri else M
            if kind == "dense":
                rv = D.DenseNormal(flat.reshape(-1), jnp.asarray(fac(n * d)), D.DenseTreeFlatten.from_example(tc))
            elif kind == "iso":
                rv = I.IsotropicNormal(flat, jnp.asarray(fac(n)), I.IsotropicTreeFlatten.from_example(tc))
            else:
                rv = B.BlockDiagNormal(flat.T, jnp.asarray(onp.stack([fac(n) for _ in range(d)])), B.BlockDiagTreeFlatten.from_example(tc))
            m, C = rv.to_multivariate_normal(); m = onp.asarray(m); C = onp.asarray(C)
            # mean tree roundtrip
            mt = rv.mean
            assert jax.tree_util.tree_structure(mt) == jax.tree_util.tree_structure(tc)
            assert all(onp.allclose(a, b) for a, b in zip(jax.tree_util.tree_leaves(mt), jax.tree_util.tree_leaves(tc)))
            assert onp.allclose(m, onp.asarray(flat).reshape(-1))
            lp = float(rv.logpdf_tree(u)); ref = mvn(m, C).logpdf(uflat.reshape(-1))
            rms = onp.asarray(rv.residual_whitened_rms_tree(u))
            dx = uflat.reshape(-1) - m
            if kind == "bd":
                Cb = C.reshape(n, d, n, d)
                ref_rms = onp.array([onp.sqrt(dx.reshape(n, d)[:, i] @ onp.linalg.solve(Cb[:, i, :, i], dx.reshape(n, d)[:, i]) / n) for i in range(d)])
            else:
                ref_rms = onp.sqrt(dx @ onp.linalg.solve(C, dx) / (n * d))
            std = rv.std
            sd = onp.sqrt(onp.diag(C)).reshape(n, d)
            if kind == "iso":
                ok_std = onp.allclose(onp.asarray(jnp.stack(std)), sd[:, 0])
            else:
                ok_std = jax.tree_util.tree_structure(std) == jax.tree_util.tree_structure(tc) and onp.allclose(onp.stack([jax.flatten_util.ravel_pytree(s)[0] for s in std]), sd)
            fct = jnp.asarray(3.0) if kind != "bd" else jnp.asarray(rng.uniform(1, 2, size=d))
            rs = rv.rescale_cholesky(fct)
            _, C2 = rs.to_multivariate_normal()
            if kind == "bd":
                ref2 = (C.reshape(n, d, n, d) * onp.asarray(fct)[None, :, None, None] ** 2).reshape(n * d, n * d)
            else:
                ref2 = 9 * C
            print(kind, n, shapes, "tri" if tri else "nontri", "logpdf err %.1e" % abs(lp - ref), "rms err %.1e" % onp.max(onp.abs(rms - ref_rms)), "std", ok_std, "rescale %.1e" % onp.max(onp.abs(C2 - ref2)))
