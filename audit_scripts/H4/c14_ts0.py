from hunt.harness import *
import itertools, sys
# nonlinear coupled 3d problem, time-dependent
def f(u, *, t):
    return jnp.stack([u[1] * u[2] - 0.3 * u[0] + jnp.sin(t), -u[0] * u[2] + 0.1 * u[1] ** 2, -0.5 * u[0] * u[1] + jnp.cos(2 * t) * u[2]])
vf = pdq.ode(f)
u0 = jnp.asarray([1.0, -0.5, 0.7])
t0, t1 = 0.3, 1.3
grids = {"uniform": jnp.linspace(t0, t1, 9), "nonuniform": t0 + (t1 - t0) * jnp.asarray([0, 0.01, 0.2, 0.21, 0.5, 0.9, 1.0])}
bad = []
for order in range(1, 7):
    tc = tcoeffs_for(vf, [u0], t0, order)
    for gname, grid in grids.items():
        for strat in ["filter", "fixedinterval"]:
            for calib in ["plain", "mle", "dynamic"]:
                res = {}
                for kind in ["dense", "iso", "bd"]:
                    _, prior, c, s = build(kind, strat, calib, vf, tc)
                    sol = solve_fixed(s, prior, grid)
                    res[kind] = (mvn(sol), onp.asarray(sol.output_scale))
                (md, Cd), sd = res["dense"]; (mi, Ci), si = res["iso"]; (mb, Cb), sb = res["bd"]
                e = {}
                e["iso_mean"] = maxrel(mi, md); e["iso_cov"] = maxrel(Ci, Cd); e["iso_scale"] = maxrel(si, sd)
                if calib in ("plain", "mle"):
                    e["bd_mean"] = maxrel(mb, md)
                if calib == "plain":
                    e["bd_cov"] = maxrel(Cb, Cd)
                if calib == "mle":
                    # per-dimension split of same residual energy
                    e["bd_scale_energy"] = maxrel(onp.sqrt(onp.mean(sb ** 2, axis=-1)), sd)
                tol = 1e-7 * 10 ** (order - 1)
                flag = {k: v for k, v in e.items() if not v < tol}
                print(order, gname, strat, calib, {k: "%.1e" % v for k, v in e.items()}, "BAD" if flag else "")
                if flag: bad.append((order, gname, strat, calib, flag))
print("BAD:", bad)
