exec(open("hunt/c08_algebra.py").read().split("for kind in [\"dense\"")[0])
from probdiffeq import probdiffeq as pdq
rng = onp.random.default_rng(0)
n, d = 4, 2
tc = [jnp.asarray(rng.normal(size=d)) for _ in range(n)]
for kind, ssm in [("dense", pdq.state_space_model_dense()), ("iso", pdq.state_space_model_isotropic()), ("bd", pdq.state_space_model_blockdiag())]:
    prior = ssm.prior_wiener_integrated(tc)
    init = prior.init
    # correlated rv
    if kind == "dense":
        L = onp.tril(rng.normal(size=(n * d, n * d)))
    elif kind == "iso":
        L = onp.tril(rng.normal(size=(n, n)))
    else:
        L = onp.stack([onp.tril(rng.normal(size=(n, n))) for _ in range(d)])
    rv = type(init)(init.mean_flat, jnp.asarray(L), init.tree_flatten)
    for dt in [0.3, -0.3]:
        os_ = jnp.ones(()) if kind != "bd" else jnp.ones((d,))
        cond = prior.transition(dt=dt, output_scale=os_)
        plain = cond.preconditioner_apply()
        m1, C1 = dense_of_normal(cond.marginalise(rv)); m2, C2 = dense_of_normal(plain.marginalise(rv))
        o1, b1 = cond.revert(rv, solve_triu=linalg.solve_triu); o2, b2 = plain.revert(rv, solve_triu=linalg.solve_triu)
        A1, bb1, Q1 = embed_cond(kind, b1, d); A2, bb2, Q2 = embed_cond(kind, b2, d)
        mo1, Co1 = dense_of_normal(o1); mo2, Co2 = dense_of_normal(o2)
        print(kind, "dt", dt, "marginalise: mean %.1e cov %.1e | revert: obs cov %.1e gain %.1e bwd-noise cov %.1e" % (
            onp.max(onp.abs(m1 - m2)), onp.max(onp.abs(C1 - C2)) / onp.max(onp.abs(C2)), onp.max(onp.abs(Co1 - Co2)) / onp.max(onp.abs(Co2)),
            onp.max(onp.abs(A1 - A2)) / onp.max(onp.abs(A2)), onp.max(onp.abs(Q1 - Q2)) / max(onp.max(onp.abs(Q2)), 1e-300)))
