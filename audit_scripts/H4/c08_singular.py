import sys
sys.argv = ["x"]
exec(open("hunt/c08_algebra.py").read().split("for kind in [\"dense\"")[0])
import itertools
def run(label, **kw):
    global worst
    worst = {}
    for kind in ["dense", "iso", "bd"]:
        for n in [2, 3, 5]:
            for k in sorted(set([1, 2, n])):
                for d in [1, 3]:
                    if kind == "dense" and n * d > 20: continue
                    check(kind, n, k, d, **kw)
    print("===", label)
    for k_, v in sorted(worst.items()):
        if not (v[0] < 1e-8):
            print(f"{k_:28s} {v[0]:.3e}   {v[1]}")
run("rv zero cov", rank_rv=0)
run("noise zero", rank_noise=0)
run("both zero", rank_rv=0, rank_noise=0)
run("rv rank1 tri, noise zero", rank_rv=1, rank_noise=0)
run("rv rank1 tri, noise rank 1 tri", rank_rv=1, rank_noise=1)
run("rv rank1 nontri, noise zero", rank_rv=1, rank_noise=0, tri=False)
run("rv full, noise rank1 nontri", rank_noise=1, tri=False)
run("uniform huge scal", scal_rng=(12, 12))
run("uniform tiny scal", scal_rng=(-12, -12))
