import jax
jax.config.update("jax_enable_x64", True)
import jax.numpy as jnp, numpy as onp
from probdiffeq._probdiffeq import utilities
onp.set_printoptions(precision=17, linewidth=250)
for nu in [1, 2, 4, 6]:
    A, Q = utilities.system_matrices_1d_iwp(nu)
    print(nu, "A - round(A):\n", onp.asarray(A) - onp.round(onp.asarray(A)))
    print("triu exact zeros?", onp.all(onp.tril(onp.asarray(A), -1) == 0), " Q upper part exact zeros?", onp.all(onp.triu(onp.asarray(Q), 1) == 0))
    print(onp.asarray(Q))
