"""C14 (and C15 'same numbers as the flattened problem'): integer-typed initial values.

u0 = jnp.asarray([20, 19]) (an int64 array; its Taylor coefficients u', u'' are float64).
The isotropic and block-diagonal models solve the problem correctly, the dense model silently
truncates the state mean to integers: DenseTreeFlatten.unravel comes from
jax.flatten_util.ravel_pytree, whose unravel() casts every leaf back to ITS OWN original dtype
when the leaves have mixed dtypes.  rv.mean therefore returns int64 for u (truncated), the TS0/TS1
linearisations evaluate the vector field at the truncated state, and solution.u.mean[0] is int64.

Expected: identical posterior means for dense / isotropic / blockdiag (TS0, uncalibrated), equal to
the float run.  Observed: dense differs by O(0.3) in u and O(0.4) in u'.

Run:  cd /repo && PYTHONPATH=/repo /venv/bin/python hunt/finding_3.py
"""

import sys

import jax

jax.config.update("jax_enable_x64", True)

import jax.numpy as jnp
import numpy as onp

import probdiffeq
from probdiffeq import ivpsolve
from probdiffeq import probdiffeq as pdq

print("using", probdiffeq.__file__)


def f(u, *, t):  # Lotka-Volterra
    return jnp.stack([0.5 * u[0] - 0.05 * u[0] * u[1], -0.5 * u[1] + 0.05 * u[0] * u[1]])


vf = pdq.ode(f)
grid = jnp.linspace(0.0, 1.0, 11)
SSM = {"dense": pdq.state_space_model_dense, "isotropic": pdq.state_space_model_isotropic, "blockdiag": pdq.state_space_model_blockdiag}

results = {}
for label, u0 in [("float64", jnp.asarray([20.0, 19.0])), ("int64", jnp.asarray([20, 19]))]:
    tcoeffs, _ = pdq.jetexpand_ode_unroll(num=2)(vf, [u0], t=0.0)
    print(f"u0 dtype {label}: Taylor-coefficient dtypes {[str(t.dtype) for t in tcoeffs]}")
    for kind, factory in SSM.items():
        ssm = factory()
        prior = ssm.prior_wiener_integrated(tcoeffs)
        solver = pdq.solver(strategy=pdq.strategy_filter(), constraint=ssm.constraint_ode_ts0(vf))
        sol = ivpsolve.solve_fixed_grid(solver=solver)(prior, grid=grid)
        results[(label, kind)] = sol
        print(f"   {kind:10s} u(1) = {onp.asarray(sol.u.mean[0][-1])} (dtype {sol.u.mean[0].dtype}),  u'(1) = {onp.asarray(sol.u.mean[1][-1])}")

ref = onp.asarray(results[("float64", "dense")].u.mean[0][-1])
worst = 0.0
for kind in SSM:
    worst_kind = float(onp.max(onp.abs(onp.asarray(results[("int64", kind)].u.mean[0][-1]) - ref)))
    print(f"|u(1)[int64 u0, {kind}] - u(1)[float64 u0, dense]| = {worst_kind:.3e}   (expected ~1e-15)")
    worst = max(worst, worst_kind)

if worst > 1e-8:
    print("\nDEFECT PRESENT: the dense factorisation truncates the state to integers for integer-typed initial values.")
    sys.exit(1)
print("\nno defect")
sys.exit(0)
