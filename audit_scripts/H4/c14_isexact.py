from hunt.harness import *
def f(u, *, t):
    return jnp.stack([u[1] * u[2] - 0.3 * u[0] + jnp.sin(t), -u[0] * u[2] + 0.1 * u[1] ** 2, -0.5 * u[0] * u[1] + jnp.cos(2 * t) * u[2]])
vf = pdq.ode(f)
u0 = jnp.asarray([1.0, -0.5, 0.7]); t0 = 0.0
grid = jnp.asarray([0.0, 0.1, 0.25, 0.3, 0.6, 1.0])
tc = tcoeffs_for(vf, [u0], t0, 3)
for ie in [[True, False, False, True], [False, True, True, False], [jnp.asarray(False), jnp.asarray(True), jnp.asarray(False), jnp.asarray(False)]]:
  for cinit in [False, True]:
    for strat in ["filter", "fixedinterval"]:
      for calib in ["plain", "mle", "dynamic"]:
        res = {}
        for kind in ["dense", "iso", "bd"]:
            try:
                _, prior, c, s = build(kind, strat, calib, vf, tc, prior_kw=dict(is_exact=ie, inexact_eps=0.05), constraint_init=cinit)
                sol = solve_fixed(s, prior, grid, jit=True)
                res[kind] = (mvn(sol), onp.asarray(sol.output_scale))
            except Exception as e:
                res[kind] = repr(e)[:200]
        jax.clear_caches()
        if any(isinstance(v, str) for v in res.values()):
            print(ie, cinit, strat, calib, "EXC", {k: v for k, v in res.items() if isinstance(v, str)}); continue
        (md, Cd), sd = res["dense"]; (mi, Ci), si = res["iso"]; (mb, Cb), sb = res["bd"]
        e = {"iso_mean": maxrel(mi, md), "iso_cov": maxrel(Ci, Cd), "iso_scale": maxrel(si, sd)}
        if calib != "dynamic": e["bd_mean"] = maxrel(mb, md)
        if calib == "plain": e["bd_cov"] = maxrel(Cb, Cd)
        print([bool(x) for x in ie], cinit, strat, calib, {k: "%.1e" % v for k, v in e.items()}, "BAD" if max(e.values()) > 1e-7 else "")
