from hunt.harness import *
from collections import namedtuple
from jax.flatten_util import ravel_pytree
NT = namedtuple("NT", ["p", "q"])
rng = onp.random.default_rng(0)
structures = {
  "dict_tuple": {"a": jnp.asarray(0.5), "b": (jnp.asarray([1.0, -0.5]), jnp.asarray([[0.3], [0.2]]))},
  "namedtuple_rank3": NT(p=jnp.asarray([[[0.4, -0.3]]]), q={"z": jnp.asarray(0.9)}),
  "single_scalar": jnp.asarray(0.7),
  "list_scalars": [jnp.asarray(0.7), jnp.asarray(-0.2), jnp.asarray(1.1)],
  "rank2": jnp.asarray([[0.1, 0.2], [0.3, -0.4]]),
}
def make_problem(u0):
    flat0, unravel = ravel_pytree(u0)
    d = flat0.shape[0]
    W = jnp.asarray(rng.normal(size=(d, d))) * 0.5
    def f_flat(x, *, t):
        return jnp.tanh(W @ x) - 0.3 * x * jnp.roll(x, 1) + jnp.sin(t)
    def f_tree(u, *, t):
        x, _ = ravel_pytree(u)
        return unravel(f_flat(x, t=t))
    return f_flat, f_tree, flat0, unravel
t0 = 0.0
grid = jnp.asarray([0.0, 0.1, 0.25, 0.3, 0.6, 1.0])
save_at = jnp.asarray([0.0, 0.2, 0.21, 1.0])
bad = []
J = pdq.jacobian_materialize()
for sname, u0 in structures.items():
    f_flat, f_tree, flat0, unravel = make_problem(u0)
    d = flat0.shape[0]
    for lin in ["ts0", "ts1"]:
      vf_t = pdq.ode(f_tree, jacobian=J); vf_f = pdq.ode(f_flat, jacobian=J)
      for order in [1, 3]:
        tc_t = tcoeffs_for(vf_t, [u0], t0, order); tc_f = tcoeffs_for(vf_f, [flat0], t0, order)
        # jet expansion consistent?
        ejet = max(float(jnp.max(jnp.abs(ravel_pytree(a)[0] - b))) for a, b in zip(tc_t, tc_f))
        for kind in ["dense", "iso", "bd"]:
          for strat, mode in [("filter", "fixed"), ("fixedinterval", "fixed"), ("filter", "adaptive"), ("fixedpoint", "adaptive")]:
            for calib in ["plain", "mle", "dynamic"]:
              try:
                _, pr_t, c_t, s_t = build(kind, strat, calib, vf_t, tc_t, lin=lin)
                _, pr_f, c_f, s_f = build(kind, strat, calib, vf_f, tc_f, lin=lin)
                if mode == "fixed":
                    sol_t = solve_fixed(s_t, pr_t, grid, jit=True); sol_f = solve_fixed(s_f, pr_f, grid, jit=True); T = len(grid)
                else:
                    sol_t = solve_save_at(s_t, pr_t, c_t, save_at); sol_f = solve_save_at(s_f, pr_f, c_f, save_at); T = len(save_at)
              except Exception as ex:
                print(sname, lin, order, kind, strat, mode, calib, "EXC", repr(ex)[:200]); bad.append((sname, lin, order, kind, strat, mode, calib, "EXC")); continue
              jax.clear_caches()
              msgs = []
              mean_t, std_t = sol_t.u.mean, sol_t.u.std
              if len(mean_t) != order + 1: msgs.append("len")
              for k in range(order + 1):
                  if jax.tree_util.tree_structure(mean_t[k]) != jax.tree_util.tree_structure(u0): msgs.append(f"mean struct {k}")
                  for a, b in zip(jax.tree_util.tree_leaves(mean_t[k]), jax.tree_util.tree_leaves(u0)):
                      if a.shape != (T, *b.shape): msgs.append(f"mean shape {a.shape} vs {(T, *b.shape)}")
                  if kind != "iso":
                      if jax.tree_util.tree_structure(std_t[k]) != jax.tree_util.tree_structure(u0): msgs.append(f"std struct {k}")
                      for a, b in zip(jax.tree_util.tree_leaves(std_t[k]), jax.tree_util.tree_leaves(u0)):
                          if a.shape != (T, *b.shape): msgs.append(f"std shape {a.shape}")
                  else:
                      if std_t[k].shape != (T,): msgs.append(f"iso std shape {std_t[k].shape}")
              # values
              mt = onp.stack([onp.concatenate([onp.asarray(l).reshape(T, -1) for l in jax.tree_util.tree_leaves(mean_t[k])], axis=1) for k in range(order + 1)], axis=1)
              mf = onp.stack([onp.asarray(sol_f.u.mean[k]).reshape(T, -1) for k in range(order + 1)], axis=1)
              e = {"mean": maxrel(mt, mf)}
              if kind != "iso":
                  st_ = onp.stack([onp.concatenate([onp.asarray(l).reshape(T, -1) for l in jax.tree_util.tree_leaves(std_t[k])], axis=1) for k in range(order + 1)], axis=1)
                  sf_ = onp.stack([onp.asarray(sol_f.u.std[k]).reshape(T, -1) for k in range(order + 1)], axis=1)
              else:
                  st_ = onp.stack([onp.asarray(x) for x in std_t], 1); sf_ = onp.stack([onp.asarray(x) for x in sol_f.u.std], 1)
              e["std"] = float(onp.max(onp.abs(st_ - sf_)) / (onp.max(onp.abs(sf_)) + 1e-300))
              e["scale"] = maxrel(onp.asarray(sol_t.output_scale).reshape(-1), onp.asarray(sol_f.output_scale).reshape(-1))
              e["t"] = maxrel(sol_t.t, sol_f.t)
              if mode == "adaptive" and not onp.array_equal(onp.asarray(sol_t.num_steps), onp.asarray(sol_f.num_steps)): msgs.append("numsteps differ")
              if not onp.all(onp.isfinite(mt)): msgs.append("nan")
              if max(e.values()) > 1e-8: msgs.append("values")
              print(sname, lin, order, kind, strat, mode, calib, {k: "%.1e" % v for k, v in e.items()}, "jet %.0e" % ejet, msgs, flush=True)
              if msgs: bad.append((sname, lin, order, kind, strat, mode, calib, msgs, e))
print("BAD")
for b in bad: print(b)
