from hunt.harness import *
def g0(x, t): return -x ** 2 + jnp.sin(t)
def g1(x, t): return jnp.cos(x) * 0.5 - 0.2 * x * t
def g2(x, t): return 1.0 / (1.0 + x ** 2) - 0.3
gs = [g0, g1, g2]
def f(u, *, t): return jnp.stack([g(u[i], t) for i, g in enumerate(gs)])
u0 = jnp.asarray([0.5, -1.0, 2.0]); t0 = 0.1
grid = t0 + jnp.asarray([0, 0.05, 0.2, 0.3, 0.55, 0.6, 1.0])
Jm = pdq.jacobian_materialize()
for jname, mk in [("default(rev)", lambda: None), ("fwd", lambda: pdq.jacobian_monte_carlo_fwd()), ("rev,1 probe", lambda: pdq.jacobian_monte_carlo_rev(num_probes=1, seed=5))]:
    for order in [1, 3]:
        vf_ref = pdq.ode(f, jacobian=Jm)
        vf = pdq.ode(f, jacobian=mk()) if mk() is not None else pdq.ode(f)
        tc = tcoeffs_for(vf_ref, [u0], t0, order)
        for calib in ["plain", "dynamic"]:
            _, prior, c, s = build("bd", "filter", calib, vf, tc, lin="ts1")
            sol = solve_fixed(s, prior, grid, jit=True)
            _, prior, c, s = build("bd", "filter", calib, vf_ref, tc, lin="ts1")
            ref = solve_fixed(s, prior, grid, jit=True)
            print("decoupled bd", jname, order, calib, "mean diff to exact-Jacobian run %.1e" % maxrel(sol.u.mean[0], ref.u.mean[0]))
def fl(u, *, t): return -jnp.cos(t) * 2.0 * u + jnp.asarray([1.0, -2.0, 0.5]) * jnp.sin(3 * t)
for jname, mk in [("default(rev)", lambda: None), ("fwd", lambda: pdq.jacobian_monte_carlo_fwd())]:
    vf_ref = pdq.ode(fl, jacobian=Jm); vf = pdq.ode(fl, jacobian=mk()) if mk() is not None else pdq.ode(fl)
    tc = tcoeffs_for(vf_ref, [u0], t0, 3)
    _, prior, c, s = build("iso", "filter", "plain", vf, tc, lin="ts1"); sol = solve_fixed(s, prior, grid, jit=True)
    _, prior, c, s = build("dense", "filter", "plain", vf_ref, tc, lin="ts1"); ref = solve_fixed(s, prior, grid, jit=True)
    print("scalar-J iso", jname, "mean diff to dense %.1e" % maxrel(sol.u.mean[0], ref.u.mean[0]))
