from hunt.harness import *
def f(u, *, t):
    return {"a": -u["a"] * u["b"][0] + jnp.sin(t), "b": jnp.stack([u["a"] - 0.2 * u["b"][1], jnp.cos(u["b"][0]) * u["b"][1]])}
vf = pdq.ode(f, jacobian=pdq.jacobian_materialize())
t0 = 0.0
u0s = {"a": jnp.asarray([0.5, 1.0, 3.0]), "b": jnp.asarray([[0.1, 0.2], [1.0, -1.0], [4.0, 2.0]])}
save_at = jnp.asarray([0.0, 0.5, 1.0, 3.0])
for kind in ["dense", "iso", "bd"]:
  for lin in ["ts0", "ts1"]:
    for strat in ["filter", "fixedpoint"]:
      for calib in ["plain", "mle", "dynamic"]:
        ssm = SSM[kind]()
        def make_prior(u0):
            tc = tcoeffs_for(vf, [u0], t0, 2)
            return ssm.prior_wiener_integrated(tc)
        priors = jax.vmap(make_prior)(u0s)
        c = ssm.constraint_ode_ts0(vf) if lin == "ts0" else ssm.constraint_ode_ts1(vf)
        s = SOLVER[calib](strategy=STRAT[strat](), constraint=c)
        err = pdq.error_residual_std(constraint=c)
        with warnings.catch_warnings():
            warnings.simplefilter("ignore")
            solve = ivpsolve.solve_adaptive_save_at(solver=s, error=err)
        run = lambda p: solve(p, save_at=save_at, atol=1e-5, rtol=1e-5)
        out = lambda sol: (sol.u.mean, sol.u.std, sol.output_scale, sol.num_steps)
        batched = out(jax.jit(jax.vmap(run))(priors))
        singles = [out(jax.jit(run)(make_prior(jax.tree_util.tree_map(lambda x: x[i], u0s)))) for i in range(3)]
        stacked = jax.tree_util.tree_map(lambda *x: jnp.stack(x), *singles)
        jax.clear_caches()
        # structure
        ok_struct = jax.tree_util.tree_structure(batched[0][0]) == jax.tree_util.tree_structure({"a": 0, "b": 0}) and batched[0][0]["b"].shape == (3, 4, 2)
        e_mean = max(maxrel(a, b) for a, b in zip(jax.tree_util.tree_leaves(batched[0]), jax.tree_util.tree_leaves(stacked[0])))
        sc = max(float(jnp.max(jnp.abs(x))) for x in jax.tree_util.tree_leaves(stacked[1]))
        e_std = max(float(jnp.max(jnp.abs(a - b))) / sc for a, b in zip(jax.tree_util.tree_leaves(batched[1]), jax.tree_util.tree_leaves(stacked[1])))
        e_sc = maxrel(batched[2], stacked[2])
        steps = (onp.asarray(batched[3])[:, -1], onp.asarray(stacked[3])[:, -1])
        flag = (not ok_struct) or max(e_mean, e_std, e_sc) > 1e-9 or not onp.array_equal(*steps)
        print(kind, lin, strat, calib, ok_struct, "mean %.1e std %.1e scale %.1e" % (e_mean, e_std, e_sc), steps, "BAD" if flag else "", flush=True)
