"""C15 (structure): isotropic solutions do not return the standard deviation in the caller's structure.

C15: 'Solving with a pytree-structured state ... returns means and standard deviations in the caller's
structure with a leading time axis of the requested length' (quantified over the three factorisations).

For state = {"a": (2,), "b": ((), (2,1))} the dense and block-diagonal models return
solution.u.std[k] with the same treedef / leaf shapes as solution.u.mean[k] (values per component).
The isotropic model returns ONE scalar per Taylor coefficient: solution.u.std[k].shape == (T,),
so e.g. jax.tree.map(lambda m, s: m + 2*s, sol.u.mean, sol.u.std) raises for a pytree state.
(IsotropicNormal.std -> tree_flatten.unflatten_array_scalar.)  This is by construction of the
isotropic factorisation, but it is not what the property states.

Run:  cd /repo && PYTHONPATH=/repo /venv/bin/python hunt/finding_6.py
"""

import sys

import jax

jax.config.update("jax_enable_x64", True)

import jax.numpy as jnp

import probdiffeq
from probdiffeq import ivpsolve
from probdiffeq import probdiffeq as pdq

print("using", probdiffeq.__file__)


def f(u, *, t):
    return {"a": -u["a"] * u["b"][0] + jnp.sin(t), "b": (jnp.sum(u["a"]) - u["b"][0], jnp.cos(u["b"][1]))}


u0 = {"a": jnp.asarray([0.5, 1.0]), "b": (jnp.asarray(0.3), jnp.asarray([[0.1], [0.2]]))}
vf = pdq.ode(f)
tcoeffs, _ = pdq.jetexpand_ode_unroll(num=2)(vf, [u0], t=0.0)
grid = jnp.linspace(0.0, 1.0, 6)
defect = False
for kind, factory in [("dense", pdq.state_space_model_dense), ("blockdiag", pdq.state_space_model_blockdiag), ("isotropic", pdq.state_space_model_isotropic)]:
    ssm = factory()
    prior = ssm.prior_wiener_integrated(tcoeffs)
    solver = pdq.solver(strategy=pdq.strategy_smoother_fixedinterval(), constraint=ssm.constraint_ode_ts0(vf))
    sol = ivpsolve.solve_fixed_grid(solver=solver)(prior, grid=grid)
    mean_shapes = jax.tree.map(jnp.shape, sol.u.mean[0])
    std_shapes = jax.tree.map(jnp.shape, sol.u.std[0])
    same = jax.tree.structure(sol.u.mean[0]) == jax.tree.structure(sol.u.std[0]) and mean_shapes == std_shapes
    print(f"{kind:10s} mean[0] shapes {mean_shapes}\n{'':10s} std[0]  shapes {std_shapes}   -> caller's structure: {same}")
    try:
        jax.tree.map(lambda m, s: m + 2 * s, sol.u.mean, sol.u.std)
    except Exception as e:  # noqa: BLE001
        print(f"{'':10s} tree.map(mean, std) raises {type(e).__name__}")
    defect |= not same
if defect:
    print("\nDEFECT PRESENT: isotropic standard deviations are not returned in the caller's structure.")
    sys.exit(1)
print("\nno defect")
sys.exit(0)
