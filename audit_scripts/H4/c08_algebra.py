import jax
jax.config.update("jax_enable_x64", True)
import jax.numpy as jnp
import numpy as onp
import probdiffeq
print(probdiffeq.__file__)
from probdiffeq._probdiffeq import ssm_impl_dense as D, ssm_impl_isotropic as I, ssm_impl_blockdiag as B
from probdiffeq.backend import linalg

rng = onp.random.default_rng(0)

def rel(a, b):
    a = onp.asarray(a); b = onp.asarray(b)
    return onp.max(onp.abs(a - b)) / max(onp.max(onp.abs(b)), 1e-300)

# ---------- embeddings -----------
def dense_of_normal(rv):
    m, C = rv.to_multivariate_normal()
    return onp.asarray(m), onp.asarray(C)

def embed_cond(kind, cond, d):
    """Return (A_eff, b_eff, Q_eff) in dense (n*d) layout (coefficient-major)."""
    A = onp.asarray(cond.A); b = onp.asarray(cond.noise.mean_flat); L = onp.asarray(cond.noise.cholesky_flat)
    tl = onp.asarray(cond.to_latent); to = onp.asarray(cond.to_observed)
    if kind == "dense":
        Ae = to[:, None] * A * tl[None, :]
        be = to * b
        Qe = (to[:, None] * L) @ (to[:, None] * L).T
        return Ae, be, Qe
    if kind == "iso":
        A1 = to[:, None] * A * tl[None, :]
        Ae = onp.kron(A1, onp.eye(d))
        be = (to[:, None] * b).reshape(-1)
        L1 = to[:, None] * L
        Qe = onp.kron(L1 @ L1.T, onp.eye(d))
        return Ae, be, Qe
    if kind == "bd":
        dd, k, n = A.shape
        Ae = onp.zeros((k * dd, n * dd)); Qe = onp.zeros((k * dd, k * dd)); be = onp.zeros((k * dd,))
        for i in range(dd):
            A1 = to[i][:, None] * A[i] * tl[i][None, :]
            L1 = to[i][:, None] * L[i]
            Q1 = L1 @ L1.T
            for a in range(k):
                be[a * dd + i] = to[i, a] * b[i, a]
                for c in range(n):
                    Ae[a * dd + i, c * dd + i] = A1[a, c]
                for c in range(k):
                    Qe[a * dd + i, c * dd + i] = Q1[a, c]
        return Ae, be, Qe

def make(kind, n, k, d, *, scal_rng=(0, 0), rank_rv=None, rank_noise=None, tri=True):
    """random rv over n coeffs, cond to k coeffs."""
    def fac(sz, rank):
        M = rng.normal(size=(sz, sz))
        if tri:
            M = onp.tril(M)
        if rank is not None:
            if rank == 0:
                M = onp.zeros((sz, sz))
            else:
                # rank-deficient
                U = rng.normal(size=(sz, rank)); V = rng.normal(size=(rank, sz))
                M = U @ V
                if tri:
                    # lower-triangular rank-deficient: zero some columns
                    M = onp.tril(rng.normal(size=(sz, sz)))
                    M[:, rank:] = 0
        return M
    def scal(sz):
        lo, hi = scal_rng
        return 10.0 ** rng.uniform(lo, hi, size=sz)
    tc = [jnp.zeros((d,)) for _ in range(n)]
    tk = [jnp.zeros((d,)) for _ in range(k)]
    if kind == "dense":
        tf = D.DenseTreeFlatten.from_example(tc); tfk = D.DenseTreeFlatten.from_example(tk)
        rv = D.DenseNormal(jnp.asarray(rng.normal(size=n * d)), jnp.asarray(fac(n * d, rank_rv)), tf)
        noise = D.DenseNormal(jnp.asarray(rng.normal(size=k * d)), jnp.asarray(fac(k * d, rank_noise)), tfk)
        cond = D.DenseLatentCond(jnp.asarray(rng.normal(size=(k * d, n * d))), noise, to_latent=jnp.asarray(scal(n * d)), to_observed=jnp.asarray(scal(k * d)))
    elif kind == "iso":
        tf = I.IsotropicTreeFlatten.from_example(tc); tfk = I.IsotropicTreeFlatten.from_example(tk)
        rv = I.IsotropicNormal(jnp.asarray(rng.normal(size=(n, d))), jnp.asarray(fac(n, rank_rv)), tf)
        noise = I.IsotropicNormal(jnp.asarray(rng.normal(size=(k, d))), jnp.asarray(fac(k, rank_noise)), tfk)
        cond = I.IsotropicLatentCond(jnp.asarray(rng.normal(size=(k, n))), noise, to_latent=jnp.asarray(scal(n)), to_observed=jnp.asarray(scal(k)))
    else:
        tf = B.BlockDiagTreeFlatten.from_example(tc); tfk = B.BlockDiagTreeFlatten.from_example(tk)
        rv = B.BlockDiagNormal(jnp.asarray(rng.normal(size=(d, n))), jnp.asarray(onp.stack([fac(n, rank_rv) for _ in range(d)])), tf)
        noise = B.BlockDiagNormal(jnp.asarray(rng.normal(size=(d, k))), jnp.asarray(onp.stack([fac(k, rank_noise) for _ in range(d)])), tfk)
        cond = B.BlockDiagLatentCond(jnp.asarray(rng.normal(size=(d, k, n))), noise, to_latent=jnp.asarray(onp.stack([scal(n) for _ in range(d)])), to_observed=jnp.asarray(onp.stack([scal(k) for _ in range(d)])))
    return rv, cond

def relmat(Aobs, Aref, scale_rows, scale_cols):
    """scaled comparison: entries relative to natural scale sqrt(diag) products."""
    Aobs = onp.asarray(Aobs); Aref = onp.asarray(Aref)
    S = onp.outer(scale_rows, scale_cols)
    S = onp.where(S == 0, 1.0, S)
    return onp.max(onp.abs(Aobs - Aref) / S)

worst = {}
def record(name, val, info):
    if name not in worst or val > worst[name][0] or not onp.isfinite(val):
        worst[name] = (val, info)

def check(kind, n, k, d, **kw):
    rv, cond = make(kind, n, k, d, **kw)
    info = (kind, n, k, d, kw)
    m, C = dense_of_normal(rv)
    Ae, be, Qe = embed_cond(kind, cond, d)
    # marginalise
    my_ref = Ae @ m + be
    S_ref = Ae @ C @ Ae.T + Qe
    sy = onp.sqrt(onp.abs(onp.diag(S_ref))); sx = onp.sqrt(onp.abs(onp.diag(C)))
    sy1 = onp.where(sy == 0, 1, sy); sx1 = onp.where(sx == 0, 1, sx)
    marg = cond.marginalise(rv)
    mm, SS = dense_of_normal(marg)
    record("marg_mean", onp.max(onp.abs(mm - my_ref) / (onp.abs(my_ref) + sy1)), info)
    record("marg_cov", relmat(SS, S_ref, sy1, sy1), info)
    # std
    std = jax.flatten_util.ravel_pytree(marg.std)[0]
    if kind == "iso":
        std_ref = sy.reshape(k, d)[:, 0]
    elif kind == "bd":
        std_ref = sy
    else:
        std_ref = sy
    record("std", onp.max(onp.abs(onp.asarray(std) - std_ref) / sy1[: len(std_ref)] if kind != "iso" else onp.abs(onp.asarray(std) - std_ref) / onp.where(std_ref == 0, 1, std_ref)), info)
    # revert
    for solver_name, st in [("triu", linalg.solve_triu), ("lstsq", linalg.lstsq_svd)]:
        if kind == "bd" and solver_name == "lstsq":
            pass
        try:
            obs, bw = cond.revert(rv, solve_triu=st)
        except Exception as e:
            record("revert_exc_" + solver_name, onp.inf, (info, repr(e)[:100]))
            continue
        mo, So = dense_of_normal(obs)
        record("rev_obs_mean_" + solver_name, onp.max(onp.abs(mo - my_ref) / (onp.abs(my_ref) + sy1)), info)
        record("rev_obs_cov_" + solver_name, relmat(So, S_ref, sy1, sy1), info)
        Ab, bb, Qb = embed_cond(kind, bw, d)
        # joint: mean
        record("rev_joint_mean_" + solver_name, onp.max(onp.abs(Ab @ my_ref + bb - m) / (onp.abs(m) + sx1)), info)
        record("rev_joint_cov_" + solver_name, relmat(Ab @ S_ref @ Ab.T + Qb, C, sx1, sx1), info)
        record("rev_joint_cross_" + solver_name, relmat(Ab @ S_ref, C @ Ae.T, sx1, sy1), info)
    # apply_flat
    x = jnp.asarray(rng.normal(size=rv.mean_flat.shape))
    out = cond.apply_flat(x)
    mo, Co = dense_of_normal(out)
    if kind == "bd":
        xd = onp.asarray(x).T.reshape(-1)
    else:
        xd = onp.asarray(x).reshape(-1)
    ref = Ae @ xd + be
    record("apply_mean", onp.max(onp.abs(mo - ref) / (onp.abs(ref) + onp.sqrt(onp.abs(onp.diag(Qe))) + 1e-300)), info)
    sq = onp.sqrt(onp.abs(onp.diag(Qe))); sq1 = onp.where(sq == 0, 1, sq)
    record("apply_cov", relmat(Co, Qe, sq1, sq1), info)
    # preconditioner_apply
    pc = cond.preconditioner_apply()
    Ap, bp, Qp = embed_cond(kind, pc, d)
    record("precon_A", onp.max(onp.abs(Ap - Ae) / (onp.abs(Ae) + 1e-300)), info)
    record("precon_b", onp.max(onp.abs(bp - be) / (onp.abs(be) + 1e-300)), info)
    record("precon_Q", relmat(Qp, Qe, sq1, sq1), info)
    assert onp.all(onp.asarray(pc.to_latent) == 1) and onp.all(onp.asarray(pc.to_observed) == 1)
    return rv, cond

for kind in ["dense", "iso", "bd"]:
    for n in [1, 2, 3, 5, 9]:
        for k in sorted(set([1, max(1, n // 2), n])):
            for d in [1, 2, 5]:
                if kind == "dense" and n * d > 20:
                    continue
                check(kind, n, k, d)
                check(kind, n, k, d, scal_rng=(-3, 3))
print("=== well conditioned & moderate scalings")
for k_, v in sorted(worst.items()):
    print(f"{k_:28s} {v[0]:.3e}   {v[1]}")
