"""Validate the proposed fix for finding 2 by monkeypatching (library source untouched)."""
src = open("hunt/finding_2.py").read()
pre = src.split("# ---------------------------------------------------------------- (a) algebra")[0]
exec(pre)
from probdiffeq._probdiffeq import ssm_impl_dense as D_
from probdiffeq.util import cholesky_util
np = jnp
class Fixed:
    def apply_flat(self, x, /):
        x = self.to_latent * x
        mean = self.to_observed * (self.A @ x + self.noise.mean_flat)
        return D_.DenseNormal(mean, self.to_observed[:, None] * self.noise.cholesky_flat, self.noise.tree_flatten)
    def marginalise(self, rv, /):
        mean = self.to_latent * rv.mean_flat
        chol = self.to_latent[:, None] * rv.cholesky_flat
        R = cholesky_util.sum_of_sqrtm_factors(R_stack=((self.A @ chol).T, self.noise.cholesky_flat.T)).T
        return D_.DenseNormal(self.to_observed * (self.A @ mean + self.noise.mean_flat), self.to_observed[:, None] * R, self.noise.tree_flatten)
    def revert(self, rv, /, *, solve_triu):
        mean = self.to_latent * rv.mean_flat
        chol = self.to_latent[:, None] * rv.cholesky_flat
        r_obs, (r_cor, gain) = cholesky_util.revert_conditional(R_X_F=(self.A @ chol).T, R_X=chol.T, R_YX=self.noise.cholesky_flat.T, solve_triu=solve_triu)
        mo = self.A @ mean + self.noise.mean_flat
        corrected = D_.DenseNormal(mean - gain @ mo, r_cor.T, rv.tree_flatten)
        cond_new = D_.DenseLatentCond(gain, corrected, to_latent=1 / self.to_observed, to_observed=1 / self.to_latent)
        return D_.DenseNormal(self.to_observed * mo, self.to_observed[:, None] * r_obs.T, self.noise.tree_flatten), cond_new
for _n in ['apply_flat', 'marginalise', 'revert']:
    setattr(D_.DenseLatentCond, _n, getattr(Fixed, _n))
orig_transition = D_.DenseWienerIntegrated.transition
def transition(self, *, dt, output_scale):
    c = orig_transition(self, dt=dt, output_scale=output_scale)
    sgn = jnp.sign(c.to_observed); sgn = jnp.where(sgn == 0, 1.0, sgn)
    noise = D_.DenseNormal(c.noise.mean_flat, sgn[:, None] * c.noise.cholesky_flat, c.noise.tree_flatten)  # p * (sign(p) L) = |p| L
    return D_.DenseLatentCond(c.A, noise, to_latent=c.to_latent, to_observed=c.to_observed)
D_.DenseWienerIntegrated.transition = transition

exec(src.split("# ---------------------------------------------------------------- (b), (c) solver")[1].split('print("\\n(c)')[0].replace("for k in SSM", "for k in ['dense']").replace('out[("blockdiag", "filter")]', 'out[("dense", "filter")]').replace('if name == "forward":', 'if False:'))
truth = onp.array([0.95441516, 0.03953199, 0.38360558])
grid = onp.linspace(1.0, 0.0, 41)
for q in [2, 3, 4]:
    ref = textbook_ek0(grid, q); got = solve("dense", "filter", jnp.asarray(grid), q)[-1]
    print("order", q, "patched dense filter vs textbook: %.2e" % onp.max(onp.abs(got - ref)), " error vs truth %.2e" % onp.max(onp.abs(got - truth)))
