from hunt.harness import *
import itertools
rng = onp.random.default_rng(3)
d = 4
W = jnp.asarray(rng.normal(size=(d, d))) * 0.7
bvec = jnp.asarray(rng.normal(size=d))
def f(u, *, t):
    return jnp.tanh(W @ u) - 0.3 * u ** 2 + bvec * jnp.sin(t)
u0 = jnp.asarray([0.3, -0.8, 1.2, 0.05])
t0 = 0.0
grid = jnp.asarray([0.0, 0.1, 0.25, 0.3, 0.6, 1.0])
save_at = jnp.asarray([0.0, 0.2, 1.0])
bad = []
perms = list(itertools.permutations(range(d)))
perms = [perms[i] for i in [1, 5, 9, 14, 23]]
for jname, J in [("mat", pdq.jacobian_materialize()), ("mc_default", None)]:
  for lin in ["ts0", "ts1"]:
    if jname == "mc_default" and lin == "ts0": continue
    for kind in ["dense", "iso", "bd"]:
      for strat, mode in [("filter", "fixed"), ("fixedinterval", "fixed"), ("fixedpoint", "adaptive")]:
        for calib in ["plain", "mle", "dynamic"]:
          def run(perm):
              P = jnp.asarray(perm); Pinv = jnp.argsort(P)
              def fp(v, *, t):  # v = u[P]
                  return f(v[Pinv], t=t)[P]
              vf = pdq.ode(fp, jacobian=J) if J is not None else pdq.ode(fp)
              tc = tcoeffs_for(vf, [u0[P]], t0, 2)
              _, prior, c, s = build(kind, strat, calib, vf, tc, lin=lin)
              sol = solve_fixed(s, prior, grid, jit=True) if mode == "fixed" else solve_save_at(s, prior, c, save_at)
              return sol
          base = run(tuple(range(d)))
          worst = 0; steps_same = True
          for perm in perms:
              sol = run(perm)
              P = onp.asarray(perm)
              for k in range(3):
                  worst = max(worst, maxrel(onp.asarray(sol.u.mean[k]), onp.asarray(base.u.mean[k])[:, P]))
                  if kind != "iso":
                      worst = max(worst, float(onp.max(onp.abs(onp.asarray(sol.u.std[k]) - onp.asarray(base.u.std[k])[:, P])) / onp.max(onp.abs(onp.asarray(base.u.std[2])))))
              if kind == "bd" and calib != "plain":
                  sb = onp.asarray(base.output_scale); ss = onp.asarray(sol.output_scale)
                  worst = max(worst, maxrel(ss, sb[..., P]))
              steps_same &= onp.array_equal(onp.asarray(sol.num_steps), onp.asarray(base.num_steps))
          jax.clear_caches()
          flag = worst > 1e-9 or not steps_same
          print(jname, lin, kind, strat, mode, calib, "worst %.1e" % worst, steps_same, "BAD" if flag else "", flush=True)
          if flag: bad.append((jname, lin, kind, strat, mode, calib, worst))
print("BAD")
for b in bad: print(b)
