exec(open("hunt/c08_algebra.py").read().split("for kind in [\"dense\"")[0])
worst = {}
def run(kind, n, k, l, d, **kw):
    # c1: n -> k ; c2: k -> l
    _, c1 = make(kind, n, k, d, **kw)
    _, c2 = make(kind, k, l, d, **kw)
    A1, b1, Q1 = embed_cond(kind, c1, d); A2, b2, Q2 = embed_cond(kind, c2, d)
    m = c2.merge(c1)
    Am, bm, Qm = embed_cond(kind, m, d)
    Aref = A2 @ A1; bref = A2 @ b1 + b2; Qref = A2 @ Q1 @ A2.T + Q2
    sq = onp.sqrt(onp.diag(Qref)); sq1 = onp.where(sq == 0, 1, sq)
    info = (kind, n, k, l, d, kw)
    record("merge_A", onp.max(onp.abs(Am - Aref) / (onp.abs(Aref) + 1e-300 + 1e-12 * onp.max(onp.abs(Aref)))), info)
    record("merge_b", onp.max(onp.abs(bm - bref) / (onp.abs(bref) + sq1)), info)
    record("merge_Q", relmat(Qm, Qref, sq1, sq1), info)
for kind in ["dense", "iso", "bd"]:
    for (n, k, l) in [(1, 1, 1), (3, 2, 1), (2, 3, 4), (5, 5, 5), (9, 4, 9)]:
        for d in [1, 3]:
            if kind == "dense" and max(n, k, l) * d > 20: continue
            for kw in [{}, {"scal_rng": (-2, 2)}, {"rank_noise": 0}, {"rank_noise": 1}, {"scal_rng": (12, 12)}, {"scal_rng": (-12, -12)}]:
                run(kind, n, k, l, d, **kw)
for k_, v in sorted(worst.items()):
    print(f"{k_:28s} {v[0]:.3e}   {v[1]}")
