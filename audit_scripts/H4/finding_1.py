"""C08: cond.revert(rv, solve_triu=lstsq) loses variance when the observed covariance is singular.

y | x ~ N(A x + b, 0) with two linearly dependent rows in A (here: row 2 == row 1),
x ~ N(m, L L^T) with a well-conditioned L.  The joint law of (x, y) is a perfectly
well-defined (degenerate) Gaussian.  Reversal must return  y ~ N(my, S)  and
x | y ~ N(G y + c, Q)  with

    G S = Cov(x, y),   G my + c = m,   G S G^T + Q = Cov(x) = L L^T.

The first two identities hold to rounding; the third one is violated by O(1):
the backward noise Q is too small (variance is lost), i.e. the reversed
parametrisation does NOT reproduce the joint law.  Same in all three factorisations.

Run:  cd /repo && PYTHONPATH=/repo /venv/bin/python hunt/finding_1.py
"""

import sys

import jax

jax.config.update("jax_enable_x64", True)

import jax.numpy as jnp
import numpy as onp

import probdiffeq
from probdiffeq._probdiffeq import ssm_impl_blockdiag as B
from probdiffeq._probdiffeq import ssm_impl_dense as D
from probdiffeq._probdiffeq import ssm_impl_isotropic as I
from probdiffeq.backend import linalg

print("using", probdiffeq.__file__)

onp.set_printoptions(precision=5, suppress=True, linewidth=160)
SEED = 2
# (the size of the lost variance depends on rounding noise; other seeds: see the scan at the end)
rng = onp.random.default_rng(SEED)
n, k = 3, 2  # 3 latent coefficients, 2 observed rows
L = onp.tril(rng.normal(size=(n, n)))
m = rng.normal(size=n)
A = rng.normal(size=(k, n))
A[1] = A[0]  # linearly dependent observation rows  ->  S = A C A^T is singular
b = rng.normal(size=k)

C = L @ L.T
S = A @ C @ A.T
my = A @ m + b
K_ref = C @ A.T @ onp.linalg.pinv(S)
Q_ref = C - K_ref @ S @ K_ref.T  # true conditional covariance of x | y


def build(kind):
    tc_n = [jnp.zeros((1,)) for _ in range(n)]
    tc_k = [jnp.zeros((1,)) for _ in range(k)]
    if kind == "dense":
        rv = D.DenseNormal(jnp.asarray(m), jnp.asarray(L), D.DenseTreeFlatten.from_example(tc_n))
        noise = D.DenseNormal(jnp.asarray(b), jnp.zeros((k, k)), D.DenseTreeFlatten.from_example(tc_k))
        cond = D.DenseLatentCond.from_linop_and_noise(jnp.asarray(A), noise)
        get = lambda bw: (onp.asarray(bw.A), onp.asarray(bw.noise.mean_flat), onp.asarray(bw.noise.cholesky_flat))
    elif kind == "isotropic":
        rv = I.IsotropicNormal(jnp.asarray(m)[:, None], jnp.asarray(L), I.IsotropicTreeFlatten.from_example(tc_n))
        noise = I.IsotropicNormal(jnp.asarray(b)[:, None], jnp.zeros((k, k)), I.IsotropicTreeFlatten.from_example(tc_k))
        cond = I.IsotropicLatentCond.from_linop_and_noise(jnp.asarray(A), noise)
        get = lambda bw: (onp.asarray(bw.A), onp.asarray(bw.noise.mean_flat)[:, 0], onp.asarray(bw.noise.cholesky_flat))
    else:
        rv = B.BlockDiagNormal(jnp.asarray(m)[None, :], jnp.asarray(L)[None], B.BlockDiagTreeFlatten.from_example(tc_n))
        noise = B.BlockDiagNormal(jnp.asarray(b)[None, :], jnp.zeros((1, k, k)), B.BlockDiagTreeFlatten.from_example(tc_k))
        cond = B.BlockDiagLatentCond.from_linop_and_noise(jnp.asarray(A)[None], noise)
        get = lambda bw: (onp.asarray(bw.A)[0], onp.asarray(bw.noise.mean_flat)[0], onp.asarray(bw.noise.cholesky_flat)[0])
    return rv, cond, get


defect = False
for kind in ["dense", "isotropic", "blockdiag"]:
    rv, cond, get = build(kind)
    # lstsq_svd is the library's own choice for possibly-singular updates
    # (solver.init with constraint_init, loss_lml_timeseries)
    observed, backward = cond.revert(rv, solve_triu=linalg.lstsq_svd)
    G, c, Lq = get(backward)
    Q = Lq @ Lq.T
    e_cross = onp.max(onp.abs(G @ S - C @ A.T))
    e_mean = onp.max(onp.abs(G @ my + c - m))
    e_cov = onp.max(onp.abs(G @ S @ G.T + Q - C))
    lost = onp.linalg.eigvalsh(Q_ref - Q)
    print(f"--- {kind}")
    print("  cross-covariance  |G S - Cov(x,y)|      :", e_cross, "(expected ~1e-16)")
    print("  mean              |G my + c - m|        :", e_mean, "(expected ~1e-16)")
    print("  joint covariance  |G S G^T + Q - Cov(x)|:", e_cov, "(expected ~1e-16)")
    print("  trace of backward noise: observed", onp.trace(Q), " expected", onp.trace(Q_ref))
    print("  eigenvalues of (expected - observed) backward covariance:", lost)
    if e_cov > 1e-8:
        defect = True

# What goes wrong, in terms of the QR factor used by cholesky_util.revert_conditional
R = onp.asarray(linalg.qr_r(jnp.asarray(onp.block([[onp.zeros((k, k)), onp.zeros((k, n))], [(A @ L).T, L.T]]))))
print("\nR = qr_r([[R_YX, 0], [R_X_F, R_X]]):\n", R)
print("Row 1 of R_Y is zero (rank deficiency) but row 1 of R12 =", R[1, k:], "is not:")
print("this row is neither part of G S G^T (lstsq drops it) nor of R_XY (rows k..), so its variance vanishes.")
R_Y, R12, R_XY = R[:k, :k], R[:k, k:], R[k:, k:]
G_ = onp.linalg.lstsq(R_Y, R12, rcond=None)[0].T
resid = R12 - R_Y @ G_.T
Q_fixed = resid.T @ resid + R_XY.T @ R_XY
print("With the residual rows (R12 - R_Y G^T) stacked onto R_XY:  |Q_fixed - Q_ref| =", onp.max(onp.abs(Q_fixed - Q_ref)))

# Scan a few more random instances (dense model) to show that this is not a fluke
print("\nscan over random instances (dense, n=4 latent, 3 observed rows, last row = sum of the first two):")
for seed in range(8):
    r = onp.random.default_rng(100 + seed)
    n_, k_ = 4, 3
    L_ = onp.tril(r.normal(size=(n_, n_))); m_ = r.normal(size=n_); A_ = r.normal(size=(k_, n_)); A_[2] = A_[0] + A_[1]
    rv_ = D.DenseNormal(jnp.asarray(m_), jnp.asarray(L_), D.DenseTreeFlatten.from_example([jnp.zeros((1,))] * n_))
    nz_ = D.DenseNormal(jnp.zeros((k_,)), jnp.zeros((k_, k_)), D.DenseTreeFlatten.from_example([jnp.zeros((1,))] * k_))
    _, bw_ = D.DenseLatentCond.from_linop_and_noise(jnp.asarray(A_), nz_).revert(rv_, solve_triu=linalg.lstsq_svd)
    G_s = onp.asarray(bw_.A); Lq_s = onp.asarray(bw_.noise.cholesky_flat); C_s = L_ @ L_.T
    err = onp.max(onp.abs(G_s @ (A_ @ C_s @ A_.T) @ G_s.T + Lq_s @ Lq_s.T - C_s))
    print(f"  seed {100 + seed}: |G S G^T + Q - Cov(x)| = {err:.3e}   (max |Cov(x)| = {onp.max(onp.abs(C_s)):.2f})")
    defect = defect or err > 1e-8

if defect:
    print("\nDEFECT PRESENT: revert() does not reproduce the joint law for a singular observed covariance.")
    sys.exit(1)
print("\nno defect")
sys.exit(0)
