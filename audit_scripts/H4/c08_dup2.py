import jax
jax.config.update("jax_enable_x64", True)
import jax.numpy as jnp, numpy as onp
from probdiffeq._probdiffeq import ssm_impl_dense as D
from probdiffeq.backend import linalg
from probdiffeq.util import cholesky_util
onp.set_printoptions(precision=5, suppress=True, linewidth=200)
rng = onp.random.default_rng(2)
n, k = 3, 2
L = onp.tril(rng.normal(size=(n, n))); m = rng.normal(size=n)
A = rng.normal(size=(k, n)); A[1] = A[0]
b = rng.normal(size=k)
tf = D.DenseTreeFlatten.from_example([jnp.zeros(1)] * n); tfk = D.DenseTreeFlatten.from_example([jnp.zeros(1)] * k)
rv = D.DenseNormal(jnp.asarray(m), jnp.asarray(L), tf)
noise = D.DenseNormal(jnp.asarray(b), jnp.zeros((k, k)), tfk)
cond = D.DenseLatentCond.from_linop_and_noise(jnp.asarray(A), noise)
obs, bw = cond.revert(rv, solve_triu=linalg.lstsq_svd)
C = L @ L.T; S = A @ C @ A.T
K = C @ A.T @ onp.linalg.pinv(S)
Ctrue = C - K @ S @ K.T
G = onp.asarray(bw.A); Q = onp.asarray(bw.noise.cholesky_flat); Q = Q @ Q.T
print("gain lib\n", G, "\n gain ref (pinv)\n", K)
print("cond cov lib\n", Q, "\n cond cov ref\n", Ctrue)
print("recomposed cov lib\n", G @ S @ G.T + Q, "\n C\n", C)
print("eig diff (lib - ref)", onp.linalg.eigvalsh(Q - Ctrue))
# internals
R = onp.block([[onp.zeros((k, k)), onp.zeros((k, n))], [(A @ L).T, L.T]])
print("R after qr\n", onp.asarray(linalg.qr_r(jnp.asarray(R))))
