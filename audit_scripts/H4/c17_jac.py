import jax, itertools
jax.config.update("jax_enable_x64", True)
import jax.numpy as jnp, numpy as onp
from probdiffeq._probdiffeq import jacobians
from probdiffeq.backend import random as pr
rng = onp.random.default_rng(0)
orig = pr.rademacher
def all_probes(key, shape, dtype):
    s, *rest = shape
    N = int(onp.prod(rest))
    assert s == 2 ** N, (s, N)
    P = onp.array(list(itertools.product([-1.0, 1.0], repeat=N))).reshape((s, *rest))
    return jnp.asarray(P, dtype=dtype)
worst = 0
for n_in in [1, 2, 3]:
  for n_out in [1, 2, 3]:
    for d in [1, 2, 3]:
        if max(n_in, n_out) * d > 9: continue
        W = jnp.asarray(rng.normal(size=(n_out, d, n_in, d))); V = jnp.asarray(rng.normal(size=(n_out, n_in)))
        def fun(x, *, s=1.0):
            return s * (jnp.einsum("odie,ie->od", W, jnp.sin(x)) + jnp.tanh(V @ x) * jnp.sum(x ** 2))
        x = jnp.asarray(rng.normal(size=(n_in, d)))
        Jref = jax.jacfwd(lambda z: fun(z, s=2.0))(x)
        tr_ref = jnp.einsum("odid->oi", Jref); dg_ref = jnp.einsum("odid->doi", Jref); fref = fun(x, s=2.0)
        for name, H, probe_n in [("mat", jacobians.jacobian_materialize(), None), ("fwd", None, n_in), ("rev", None, n_out)]:
            if H is None:
                cls = jacobians.jacobian_monte_carlo_fwd if name == "fwd" else jacobians.jacobian_monte_carlo_rev
                H = cls(seed=3, num_probes=2 ** (probe_n * d))
                pr.rademacher = all_probes
            else:
                pr.rademacher = orig
            st = H.init_jacobian_handler()
            fx, J, st1 = H.materialize_dense(fun, x, st, s=2.0)
            e = [float(jnp.max(jnp.abs(fx - fref))), float(jnp.max(jnp.abs(J - Jref)))]
            fx, T, st2 = H.calculate_trace_along_d(fun, x, st, s=2.0)
            e += [float(jnp.max(jnp.abs(fx - fref))), float(jnp.max(jnp.abs(T - tr_ref)))]
            fx, Dg, st3 = H.calculate_diagonal_along_d(fun, x, st, s=2.0)
            e += [float(jnp.max(jnp.abs(fx - fref))), float(jnp.max(jnp.abs(Dg - dg_ref)))]
            worst = max(worst, max(e))
            if name != "mat":
                adv = [not onp.array_equal(onp.asarray(st), onp.asarray(s_)) for s_ in (st1, st2, st3)]
                # jit too
                fx, Tj, _ = jax.jit(lambda x, st: H.calculate_trace_along_d(fun, x, st, s=2.0))(x, st)
                e.append(float(jnp.max(jnp.abs(Tj - tr_ref))))
            else: adv = None
            if max(e) > 1e-10: print("FAIL", name, n_in, n_out, d, e)
        pr.rademacher = orig
print("worst", worst, "key advanced (materialize, trace, diag):", adv)
# malformed input
H = jacobians.jacobian_monte_carlo_rev()
st = H.init_jacobian_handler()
cases = {
 "x 1d": (lambda x: x, jnp.ones(3)),
 "x 3d": (lambda x: x, jnp.ones((2, 2, 2))),
 "out 1d": (lambda x: x[:, 0], jnp.ones((2, 2))),
 "d mismatch": (lambda x: x[:, :1], jnp.ones((2, 2))),
 "out list": (lambda x: [x], jnp.ones((2, 2))),
 "x numpy": (lambda x: x, onp.ones((2, 2))),
 "x list": (lambda x: x[0], [jnp.ones((2, 2))]),
 "out d broadcast (n,1)->(n,d)?": (lambda x: x * jnp.ones((1, 3)), jnp.ones((2, 1))),
 "d=0": (lambda x: x, jnp.ones((2, 0))),
 "int x": (lambda x: x, jnp.ones((2, 2), dtype=int)),
}
for Hn, H in [("mat", jacobians.jacobian_materialize()), ("fwd", jacobians.jacobian_monte_carlo_fwd()), ("rev", jacobians.jacobian_monte_carlo_rev())]:
  for nm, (f, x) in cases.items():
    for meth in ["materialize_dense", "calculate_trace_along_d", "calculate_diagonal_along_d"]:
        try:
            out = getattr(H, meth)(f, x, H.init_jacobian_handler())
            print(Hn, nm, meth, "ACCEPTED", jax.tree_util.tree_map(jnp.shape, out[:2]))
        except Exception as e:
            pass
