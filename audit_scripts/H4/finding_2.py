"""C14 (root cause in the conditional algebra of C08): decreasing grids (negative dt).

The library explicitly supports negative time increments: every prior uses
np.abs(dt) in the process noise, tests/test_probdiffeq/test_priors/test_wiener_integrated.py
checks transition(dt=-1.234) against A(dt) (signed) and Q(|dt|), and the np.abs(...) calls on
the diagonal scalings in marginalise/revert/merge/apply_flat are no-ops unless dt < 0.

But for dt < 0 the scalings are applied inconsistently (signed for means and for A,
abs() -- or signed, depending on the factorisation and the method -- for Cholesky factors):

(a) cond.marginalise(rv) and cond.revert(rv) disagree with the SAME conditional after
    cond.preconditioner_apply() (which is what the library's own test defines as the
    transition), by O(1) in the covariance, in all three factorisations;
(b) on a decreasing grid the dense/isotropic and the block-diagonal models return
    different posterior means/covariances with TS0 in the uncalibrated mode (C14),
    and filter and fixed-interval smoother disagree about the terminal value;
(c) none of them matches a textbook Kalman filter that uses the library's own
    (A(dt), Q(|dt|)); on a finer decreasing grid the library solution diverges
    (1e+58 / NaN) whereas the textbook filter converges.

Run:  cd /repo && PYTHONPATH=/repo /venv/bin/python hunt/finding_2.py
"""

import math
import sys
import warnings

import jax

jax.config.update("jax_enable_x64", True)

import jax.numpy as jnp
import numpy as onp

import probdiffeq
from probdiffeq import ivpsolve
from probdiffeq import probdiffeq as pdq
from probdiffeq.backend import linalg

print("using", probdiffeq.__file__)
onp.set_printoptions(precision=6, linewidth=160)

SSM = {
    "dense": pdq.state_space_model_dense,
    "isotropic": pdq.state_space_model_isotropic,
    "blockdiag": pdq.state_space_model_blockdiag,
}
defect = False

# ---------------------------------------------------------------- (a) algebra
print("(a) cond.marginalise(rv) vs cond.preconditioner_apply().marginalise(rv)   [must be identical]")
rng = onp.random.default_rng(0)
n, d = 4, 2
tc = [jnp.asarray(rng.normal(size=d)) for _ in range(n)]
for kind, factory in SSM.items():
    prior = factory().prior_wiener_integrated(tc)
    init = prior.init
    if kind == "dense":
        L = onp.tril(rng.normal(size=(n * d, n * d)))
    elif kind == "isotropic":
        L = onp.tril(rng.normal(size=(n, n)))
    else:
        L = onp.stack([onp.tril(rng.normal(size=(n, n))) for _ in range(d)])
    rv = type(init)(init.mean_flat, jnp.asarray(L), init.tree_flatten)  # correlated Gaussian
    for dt in [0.3, -0.3]:
        scale = jnp.ones(()) if kind != "blockdiag" else jnp.ones((d,))
        cond = prior.transition(dt=dt, output_scale=scale)
        plain = cond.preconditioner_apply()  # same conditional, scalings removed
        m1, C1 = cond.marginalise(rv).to_multivariate_normal()
        m2, C2 = plain.marginalise(rv).to_multivariate_normal()
        o1, _ = cond.revert(rv, solve_triu=linalg.solve_triu)
        _, C3 = o1.to_multivariate_normal()
        e_mean = float(jnp.max(jnp.abs(m1 - m2)))
        e_cov = float(jnp.max(jnp.abs(C1 - C2)) / jnp.max(jnp.abs(C2)))
        e_rev = float(jnp.max(jnp.abs(C3 - C2)) / jnp.max(jnp.abs(C2)))
        print(f"  {kind:10s} dt={dt:+.1f}: mean diff {e_mean:.1e}, marginalise cov rel. diff {e_cov:.1e}, revert-observed cov rel. diff {e_rev:.1e}")
        if dt < 0 and (e_cov > 1e-8 or e_rev > 1e-8):
            defect = True


# ---------------------------------------------------------------- (b), (c) solver
def f(u, *, t):
    return jnp.stack(
        [
            u[1] * u[2] - 0.3 * u[0] + jnp.sin(t),
            -u[0] * u[2] + 0.1 * u[1] ** 2,
            -0.5 * u[0] * u[1] + jnp.cos(2 * t) * u[2],
        ]
    )


vf = pdq.ode(f)
u1 = jnp.asarray([1.0, -0.5, 0.7])  # value at t = 1; integrate down to t = 0
dim = 3


def solve(kind, strategy, grid, q):
    tcoeffs, _ = pdq.jetexpand_ode_unroll(num=q)(vf, [u1], t=grid[0])
    ssm = SSM[kind]()
    prior = ssm.prior_wiener_integrated(tcoeffs)
    ts0 = ssm.constraint_ode_ts0(vf)
    strat = pdq.strategy_filter() if strategy == "filter" else pdq.strategy_smoother_fixedinterval()
    solver = pdq.solver(strategy=strat, constraint=ts0)
    sol = jax.jit(lambda p, g: ivpsolve.solve_fixed_grid(solver=solver)(p, grid=g))(prior, grid)
    return onp.asarray(sol.u.mean[0])


def textbook_ek0(grid, q):
    """Dense textbook Kalman filter with A(dt) (signed dt) and Q(|dt|), TS0 linearisation."""
    tcoeffs, _ = pdq.jetexpand_ode_unroll(num=q)(vf, [u1], t=grid[0])
    m = onp.concatenate([onp.asarray(t) for t in tcoeffs])
    P = onp.zeros((m.size, m.size))
    I = onp.eye(dim)
    H0 = onp.zeros((dim, (q + 1) * dim)); H0[:, :dim] = I
    H1 = onp.zeros_like(H0); H1[:, dim : 2 * dim] = I
    for t_prev, t in zip(grid[:-1], grid[1:]):
        dt = float(t - t_prev); h = abs(dt)
        A1 = onp.array([[dt ** (j - i) / math.factorial(j - i) if j >= i else 0.0 for j in range(q + 1)] for i in range(q + 1)])
        Q1 = onp.array([[h ** (2 * q + 1 - i - j) / (math.factorial(q - i) * math.factorial(q - j) * (2 * q + 1 - i - j)) for j in range(q + 1)] for i in range(q + 1)])
        A, Q = onp.kron(A1, I), onp.kron(Q1, I)
        m, P = A @ m, A @ P @ A.T + Q
        z = H1 @ m - onp.asarray(f(jnp.asarray(H0 @ m), t=t))
        S = H1 @ P @ H1.T
        K = P @ H1.T @ onp.linalg.inv(S)
        m, P = m - K @ z, P - K @ S @ K.T
    return m[:dim]


q = 3
print("\n(b) order-3 prior, TS0, uncalibrated solver, forward grid [0, .1, .25, .3, .6, 1] (sanity) and the reversed grid")
with warnings.catch_warnings():
    warnings.simplefilter("ignore")
    for name, grid in [("forward", onp.array([0.0, 0.1, 0.25, 0.3, 0.6, 1.0])), ("reversed", onp.array([1.0, 0.9, 0.75, 0.7, 0.4, 0.0]))]:
        ref = textbook_ek0(grid, q)
        out = {(k, s): solve(k, s, jnp.asarray(grid), q)[-1] for k in SSM for s in ["filter", "smoother"]}
        print(f"  {name} grid: textbook Kalman filter terminal mean     {ref}")
        for key, val in out.items():
            print(f"     {key[0]:10s} {key[1]:9s} terminal mean {val}   |diff to textbook| = {onp.max(onp.abs(val - ref)):.2e}")
        dd = onp.max(onp.abs(out[("dense", "filter")] - out[("blockdiag", "filter")]))
        fs = onp.max(onp.abs(out[("dense", "filter")] - out[("dense", "smoother")]))
        print(f"     dense-filter vs blockdiag-filter: {dd:.2e};  dense-filter vs dense-smoother (same terminal state expected): {fs:.2e}")
        if name == "reversed" and (dd > 1e-8 or fs > 1e-8):
            defect = True
        if name == "forward":
            assert dd < 1e-10 and fs < 1e-10 and onp.max(onp.abs(out[("dense", "filter")] - ref)) < 1e-10

    print("\n(c) 40 equal steps from t=1 down to t=0; exact u(0) = [0.95441516 0.03953199 0.38360558] (scipy, rtol=1e-12)")
    truth = onp.array([0.95441516, 0.03953199, 0.38360558])
    grid = onp.linspace(1.0, 0.0, 41)
    for q in [2, 3, 4]:
        ref = textbook_ek0(grid, q)
        errs = {k: onp.max(onp.abs(solve(k, "filter", jnp.asarray(grid), q)[-1] - truth)) for k in SSM}
        print(f"  order {q}: textbook filter error {onp.max(onp.abs(ref - truth)):.2e};  library filter errors: " + ", ".join(f"{k}={v:.2e}" for k, v in errs.items()))
        if any((not onp.isfinite(v)) or v > 1e3 * onp.max(onp.abs(ref - truth)) for v in errs.values()):
            defect = True

if defect:
    print("\nDEFECT PRESENT: negative time increments are handled inconsistently (signed vs abs() scalings).")
    sys.exit(1)
print("\nno defect")
sys.exit(0)
