from hunt.harness import *
J = pdq.jacobian_materialize()
# ---- decoupled, component-specific nonlinearities
def g0(x, t): return -x ** 2 + jnp.sin(t)
def g1(x, t): return jnp.cos(x) * 0.5 - 0.2 * x * t
def g2(x, t): return 1.0 / (1.0 + x ** 2) - 0.3
gs = [g0, g1, g2]
def f(u, *, t): return jnp.stack([g(u[i], t) for i, g in enumerate(gs)])
vf = pdq.ode(f, jacobian=J)
vfs = [pdq.ode((lambda g: (lambda u, *, t: jnp.stack([g(u[0], t)])))(g), jacobian=J) for g in gs]
u0 = jnp.asarray([0.5, -1.0, 2.0]); t0 = 0.1
grid = t0 + jnp.asarray([0, 0.05, 0.2, 0.3, 0.55, 0.6, 1.0])
bad = []
for order in [1, 2, 3, 5]:
  tc = tcoeffs_for(vf, [u0], t0, order)
  for strat in ["filter", "fixedinterval"]:
    for calib in ["plain", "mle", "dynamic"]:
      for damp in [0.0, 1e-3]:
        _, prior, c, s = build("bd", strat, calib, vf, tc, lin="ts1")
        sol = solve_fixed(s, prior, grid, damp=damp, jit=True)
        m, C = mvn(sol); n = order + 1; d = 3
        m = m.reshape(-1, n, d); C = C.reshape(-1, n, d, n, d)
        e = {}
        for i in range(3):
            tci = [x[i:i + 1] for x in tc]
            _, pr_i, c_i, s_i = build("dense", strat, calib, vfs[i], tci, lin="ts1")
            sol_i = solve_fixed(s_i, pr_i, grid, damp=damp, jit=True)
            mi, Ci = mvn(sol_i)
            e[f"mean{i}"] = maxrel(m[:, :, i], mi); e[f"cov{i}"] = maxrel(C[:, :, i, :, i], Ci)
            e[f"scale{i}"] = maxrel(onp.asarray(sol.output_scale)[..., i], onp.asarray(sol_i.output_scale))
        # off-diagonal blocks zero
        off = max(onp.max(onp.abs(C[:, :, i, :, j])) for i in range(3) for j in range(3) if i != j)
        jax.clear_caches()
        mx = max(e.values())
        flag = mx > 1e-7 or off != 0
        print("decoupled", order, strat, calib, damp, "max %.1e" % mx, "off", off, "BAD" if flag else "", flush=True)
        if flag: bad.append(("dec", order, strat, calib, damp, e))
# ---- scalar Jacobian: iso vs dense
def fl(u, *, t): return -jnp.cos(t) * 2.0 * u + jnp.asarray([1.0, -2.0, 0.5]) * jnp.sin(3 * t)
def fn(u, *, t): return -u ** 3 + jnp.sin(t) * u   # identical components + identical initial values
for name, ff, uu in [("linear", fl, jnp.asarray([0.5, -1.0, 2.0])), ("identical", fn, jnp.asarray([0.7, 0.7, 0.7]))]:
  vf = pdq.ode(ff, jacobian=J)
  for order in [1, 2, 3, 5]:
    tc = tcoeffs_for(vf, [uu], t0, order)
    for strat in ["filter", "fixedinterval"]:
      for calib in ["plain", "mle", "dynamic"]:
        res = {}
        for kind in ["dense", "iso", "bd"]:
            _, prior, c, s = build(kind, strat, calib, vf, tc, lin="ts1")
            sol = solve_fixed(s, prior, grid, jit=True)
            res[kind] = (mvn(sol), onp.asarray(sol.output_scale))
        jax.clear_caches()
        (md, Cd), sd = res["dense"]; (mi, Ci), si = res["iso"]; (mb, Cb), sb = res["bd"]
        e = dict(mean=maxrel(mi, md), cov=maxrel(Ci, Cd), scale=maxrel(si, sd))
        if calib != "dynamic": e["bd_mean"] = maxrel(mb, md)
        if calib == "plain": e["bd_cov"] = maxrel(Cb, Cd)
        flag = max(e.values()) > 1e-7
        print(name, order, strat, calib, {k: "%.1e" % v for k, v in e.items()}, "BAD" if flag else "", flush=True)
        if flag: bad.append((name, order, strat, calib, e))
    # adaptive dense vs iso
    for strat in ["filter", "fixedpoint"]:
      for calib in ["plain", "mle", "dynamic"]:
        res = {}
        for kind in ["dense", "iso"]:
            _, prior, c, s = build(kind, strat, calib, vf, tc, lin="ts1")
            sol = solve_save_at(s, prior, c, jnp.asarray([t0, 0.5, 1.0, 2.0]), atol=1e-4, rtol=1e-4)
            res[kind] = (mvn(sol), onp.asarray(sol.output_scale), onp.asarray(sol.num_steps))
        jax.clear_caches()
        (md, Cd), sd, nd = res["dense"]; (mi, Ci), si, ni = res["iso"]
        e = dict(mean=maxrel(mi, md), cov=maxrel(Ci, Cd), scale=maxrel(si, sd))
        flag = max(e.values()) > 1e-7 or not onp.array_equal(nd, ni)
        print(name, "adaptive", order, strat, calib, nd, ni, {k: "%.1e" % v for k, v in e.items()}, "BAD" if flag else "", flush=True)
        if flag: bad.append((name, "adaptive", order, strat, calib, e))
print("BAD")
for b in bad: print(b)
