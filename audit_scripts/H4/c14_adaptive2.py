from hunt.harness import *
def f2(u, du, *, t):
    return jnp.stack([-u[0] * u[1] - 0.1 * du[1] + jnp.sin(t), u[0] ** 2 - du[0] * u[1]])
vf = pdq.ode_order_two(f2)
u0s = [jnp.asarray([1.0, -0.5]), jnp.asarray([0.3, 0.2])]
save_at = jnp.asarray([0.0, 0.4, 1.0, 2.5])
for order in [2, 4]:
  tc = tcoeffs_for(vf, u0s, 0.0, order)
  for strat in ["filter", "fixedpoint"]:
    for calib in ["plain", "mle", "dynamic"]:
      for err, ekw in [("residual", {"error_norm": pdq.error_norm_rms_then_scale()}), ("state", {"derivative_idx": 1}), ("state", {"error_norm": pdq.error_norm_rms_then_scale(), "re_linearize_before_error": True})]:
        res = {}
        for kind in ["dense", "iso"]:
            _, prior, c, s = build(kind, strat, calib, vf, tc)
            sol = solve_save_at(s, prior, c, save_at, atol=1e-4, rtol=1e-4, error=err, error_kw=ekw)
            res[kind] = (mvn(sol), onp.asarray(sol.output_scale), onp.asarray(sol.num_steps))
        jax.clear_caches()
        (md, Cd), sd, nd = res["dense"]; (mi, Ci), si, ni = res["iso"]
        e = dict(mean=maxrel(mi, md), cov=maxrel(Ci, Cd), scale=maxrel(si, sd))
        print(order, strat, calib, err, list(ekw), nd, ni, {k: "%.1e" % v for k, v in e.items()}, "BAD" if (max(e.values()) > 1e-6 or not onp.array_equal(nd, ni)) else "", flush=True)
