from hunt.harness import *
J = pdq.jacobian_materialize()
def g0(x, dx, t): return -x ** 2 * dx + jnp.sin(t)
def g1(x, dx, t): return jnp.cos(x) * 0.5 - 0.2 * dx ** 2 * t
gs = [g0, g1]
def f(u, du, *, t): return jnp.stack([g(u[i], du[i], t) for i, g in enumerate(gs)])
vf = pdq.ode_order_two(f, jacobian=J)
vfs = [pdq.ode_order_two((lambda g: (lambda u, du, *, t: jnp.stack([g(u[0], du[0], t)])))(g), jacobian=J) for g in gs]
u0 = jnp.asarray([0.5, -1.0]); du0 = jnp.asarray([0.2, 0.4]); t0 = 0.1
grid = t0 + jnp.asarray([0, 0.05, 0.2, 0.3, 0.55, 0.6, 1.0])
bad = []
for order in [2, 4]:
  tc = tcoeffs_for(vf, [u0, du0], t0, order)
  for strat in ["filter", "fixedinterval"]:
    for calib, skw in [("plain", {}), ("mle", {}), ("mle", {"correct_asymptotic_underconfidence": False}), ("dynamic", {}), ("dynamic", {"re_linearize_after_calibration": True})]:
        _, prior, c, s = build("bd", strat, calib, vf, tc, lin="ts1", solver_kw=skw)
        sol = solve_fixed(s, prior, grid, jit=True)
        m, C = mvn(sol); n = order + 1; d = 2
        m = m.reshape(-1, n, d); C = C.reshape(-1, n, d, n, d)
        e = {}
        for i in range(d):
            tci = [x[i:i + 1] for x in tc]
            _, pr_i, c_i, s_i = build("dense", strat, calib, vfs[i], tci, lin="ts1", solver_kw=skw)
            sol_i = solve_fixed(s_i, pr_i, grid, jit=True)
            mi, Ci = mvn(sol_i)
            e[f"mean{i}"] = maxrel(m[:, :, i], mi); e[f"cov{i}"] = maxrel(C[:, :, i, :, i], Ci)
            e[f"scale{i}"] = maxrel(onp.asarray(sol.output_scale)[..., i], onp.asarray(sol_i.output_scale))
        jax.clear_caches()
        mx = max(e.values())
        print("decoupled2", order, strat, calib, skw, "max %.1e" % mx, "BAD" if mx > 1e-7 else "", flush=True)
# scalar jacobian second order: f = -a(t) u - b(t) du + c(t) (vector offsets)
def fl(u, du, *, t): return -jnp.cos(t) * 2.0 * u - 0.3 * du + jnp.asarray([1.0, -2.0]) * jnp.sin(3 * t)
vf = pdq.ode_order_two(fl, jacobian=J)
for order in [2, 4]:
  tc = tcoeffs_for(vf, [u0, du0], t0, order)
  for strat in ["filter", "fixedinterval"]:
    for calib, skw in [("plain", {}), ("mle", {}), ("dynamic", {}), ("dynamic", {"re_linearize_after_calibration": True})]:
        res = {}
        for kind in ["dense", "iso"]:
            _, prior, c, s = build(kind, strat, calib, vf, tc, lin="ts1", solver_kw=skw)
            sol = solve_fixed(s, prior, grid, jit=True)
            res[kind] = (mvn(sol), onp.asarray(sol.output_scale))
        jax.clear_caches()
        (md, Cd), sd = res["dense"]; (mi, Ci), si = res["iso"]
        e = dict(mean=maxrel(mi, md), cov=maxrel(Ci, Cd), scale=maxrel(si, sd))
        print("scalarJ2", order, strat, calib, skw, {k: "%.1e" % v for k, v in e.items()}, "BAD" if max(e.values()) > 1e-7 else "", flush=True)
