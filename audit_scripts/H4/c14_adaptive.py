from hunt.harness import *
from probdiffeq.util import test_util
def f(u, *, t):
    return jnp.stack([u[1] * u[2] - 0.3 * u[0] + jnp.sin(t), -u[0] * u[2] + 0.1 * u[1] ** 2, -0.5 * u[0] * u[1] + jnp.cos(2 * t) * u[2]])
vf = pdq.ode(f)
u0 = jnp.asarray([1.0, -0.5, 0.7]); t0 = 0.0
save_at = jnp.asarray([0.0, 0.1, 0.5, 0.50001, 2.0, 3.0])
bad = []
for order in [1, 2, 4]:
  tc = tcoeffs_for(vf, [u0], t0, order)
  for strat in ["filter", "fixedpoint"]:
    for calib in ["plain", "mle", "dynamic"]:
      for err, ekw in [("residual", {}), ("residual", {"re_linearize_before_error": True, "error_per_unit_step": True}), ("state", {})]:
        for clip in [False, True]:
          for ctrl in [None, ivpsolve.control_proportional_integral()]:
            res = {}
            for kind in ["dense", "iso"]:
                _, prior, c, s = build(kind, strat, calib, vf, tc)
                sol = solve_save_at(s, prior, c, save_at, atol=1e-3, rtol=1e-5, error=err, clip_dt=clip, control=ctrl, error_kw=ekw)
                res[kind] = (mvn(sol), onp.asarray(sol.output_scale), onp.asarray(sol.num_steps))
            jax.clear_caches()
            (md, Cd), sd, nd = res["dense"]; (mi, Ci), si, ni = res["iso"]
            e = dict(mean=maxrel(mi, md), cov=maxrel(Ci, Cd), scale=maxrel(si, sd))
            same = onp.array_equal(nd, ni)
            flag = (not same) or max(e.values()) > 1e-6 or not onp.all(onp.isfinite(md))
            print(order, strat, calib, err, ekw, clip, type(ctrl).__name__, nd, ni, {k: "%.1e" % v for k, v in e.items()}, "BAD" if flag else "", flush=True)
            if flag: bad.append((order, strat, calib, err, clip))
print("BAD", bad)
