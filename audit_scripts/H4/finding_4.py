"""C08 (minor): residual_whitened_rms_* silently assumes a LOWER-TRIANGULAR covariance factor.

For N(m, L L^T) with a general square factor L (e.g. any factor that has not gone through
cholesky_util.triu_via_qr), the whitened residual norm is  sqrt((u-m)^T (L L^T)^{-1} (u-m) / size).
logpdf_* re-triangularises L via qr_r first and is correct for every factor; residual_whitened_rms_*
calls solve_tril(L, dx) directly, which ignores the strictly-upper part of L.  The two quantities
are therefore mutually inconsistent (logpdf == -0.5*size*rms^2 - 0.5*logdet - const must hold).

Inside the solvers every factor that reaches residual_whitened_rms comes from a QR and is
triangular, so ODE solutions are unaffected; the violation is at the level of the public
Gaussian API ('all covariance factors').

Run:  cd /repo && PYTHONPATH=/repo /venv/bin/python hunt/finding_4.py
"""

import sys

import jax

jax.config.update("jax_enable_x64", True)

import jax.numpy as jnp
import numpy as onp

import probdiffeq
from probdiffeq._probdiffeq import ssm_impl_blockdiag as B
from probdiffeq._probdiffeq import ssm_impl_dense as D
from probdiffeq._probdiffeq import ssm_impl_isotropic as I

print("using", probdiffeq.__file__)

rng = onp.random.default_rng(0)
n, d = 3, 2
tc = [jnp.asarray(rng.normal(size=d)) for _ in range(n)]
u = [jnp.asarray(rng.normal(size=d)) for _ in range(n)]
m = onp.stack([onp.asarray(t) for t in tc])  # (n, d)
du = onp.stack([onp.asarray(t) for t in u]) - m

defect = False
for tri in [True, False]:
    print("lower-triangular factor" if tri else "general (non-triangular) square factor")
    fac = (lambda s: onp.tril(rng.normal(size=(s, s)) + 3 * onp.eye(s))) if tri else (lambda s: rng.normal(size=(s, s)) + 3 * onp.eye(s))
    # dense
    L = fac(n * d)
    rv = D.DenseNormal(jnp.asarray(m.reshape(-1)), jnp.asarray(L), D.DenseTreeFlatten.from_example(tc))
    ref = onp.sqrt(du.reshape(-1) @ onp.linalg.solve(L @ L.T, du.reshape(-1)) / (n * d))
    got = float(rv.residual_whitened_rms_tree(u))
    lp = float(rv.logpdf_tree(u)); lp_ref = -0.5 * n * d * ref**2 - 0.5 * onp.linalg.slogdet(L @ L.T)[1] - 0.5 * n * d * onp.log(2 * onp.pi)
    print(f"  dense     rms expected {ref:.6f} observed {got:.6f} | logpdf expected {lp_ref:.6f} observed {lp:.6f}")
    defect |= abs(got - ref) > 1e-8
    # isotropic
    L = fac(n)
    rv = I.IsotropicNormal(jnp.asarray(m), jnp.asarray(L), I.IsotropicTreeFlatten.from_example(tc))
    ref = onp.sqrt(sum(du[:, j] @ onp.linalg.solve(L @ L.T, du[:, j]) for j in range(d)) / (n * d))
    got = float(rv.residual_whitened_rms_tree(u))
    print(f"  isotropic rms expected {ref:.6f} observed {got:.6f}")
    defect |= abs(got - ref) > 1e-8
    # blockdiag
    Ls = onp.stack([fac(n) for _ in range(d)])
    rv = B.BlockDiagNormal(jnp.asarray(m.T), jnp.asarray(Ls), B.BlockDiagTreeFlatten.from_example(tc))
    ref = onp.array([onp.sqrt(du[:, j] @ onp.linalg.solve(Ls[j] @ Ls[j].T, du[:, j]) / n) for j in range(d)])
    got = onp.asarray(rv.residual_whitened_rms_tree(u))
    print(f"  blockdiag rms expected {ref} observed {got}")
    defect |= float(onp.max(onp.abs(got - ref))) > 1e-8

if defect:
    print("\nDEFECT PRESENT: whitened residual norms are wrong for non-triangular covariance factors (log-densities are right).")
    sys.exit(1)
print("\nno defect")
sys.exit(0)
