"""C14 / calibration mode 'dynamic': NaN solution whenever the ODE residual is exactly zero.

Quantifier of C14: 'all problems ... three calibration modes'.  For problems whose extrapolated mean
satisfies the ODE exactly (start at an equilibrium, e.g. logistic growth with u0 = 1;  u' = 1;
u' = t with an order >= 2 prior; u' = -u with u0 = 0) the dynamic solver returns NaN means and
covariances in all three factorisations, whereas solver / solver_mle return the exact solution.
With the block-diagonal model (per-dimension scale) it suffices that ONE component has a vanishing
residual (Lotka-Volterra with an extinct species): blockdiag + dynamic returns NaN while
dense / isotropic + dynamic return the correct solution, i.e. the factorisations disagree.

solver_dynamic.step calibrates output_scale = whitened RMS of the residual = 0, re-discretises the
prior with zero process noise, so the predicted covariance is exactly zero (exact initial condition)
and the Bayes update calls linalg.solve_triu with R_Y = 0  ->  0/0.

Run:  cd /repo && PYTHONPATH=/repo /venv/bin/python hunt/finding_5.py
"""

import sys

import jax

jax.config.update("jax_enable_x64", True)

import jax.numpy as jnp
import numpy as onp

import probdiffeq
from probdiffeq import ivpsolve
from probdiffeq import probdiffeq as pdq

print("using", probdiffeq.__file__)

SSM = {"dense": pdq.state_space_model_dense, "isotropic": pdq.state_space_model_isotropic, "blockdiag": pdq.state_space_model_blockdiag}
SOLVERS = {"solver": pdq.solver, "solver_mle": pdq.solver_mle, "solver_dynamic": pdq.solver_dynamic}
grid = jnp.linspace(0.0, 1.0, 6)
problems = {
    "logistic u'=u(1-u), u0=(1, 1)  [equilibrium]": (lambda u, *, t: u * (1 - u), jnp.asarray([1.0, 1.0]), lambda t: onp.ones((len(t), 2))),
    "u'=1, u0=(0, 1)": (lambda u, *, t: jnp.ones_like(u), jnp.asarray([0.0, 1.0]), lambda t: onp.stack([t, 1 + t], -1)),
    "Lotka-Volterra with one extinct species, u0=(0, 2)  [first component stays 0]": (
        lambda u, *, t: jnp.stack([0.5 * u[0] - 0.05 * u[0] * u[1], -0.5 * u[1] + 0.05 * u[0] * u[1]]), jnp.asarray([0.0, 2.0]),
        lambda t: onp.stack([0 * t, 2 * onp.exp(-0.5 * t)], -1)),
}
defect = False
for name, (f, u0, exact) in problems.items():
    vf = pdq.ode(f)
    tcoeffs, _ = pdq.jetexpand_ode_unroll(num=2)(vf, [u0], t=0.0)
    print(name)
    for sname, S in SOLVERS.items():
        for kind, factory in SSM.items():
            ssm = factory()
            prior = ssm.prior_wiener_integrated(tcoeffs)
            solver = S(strategy=pdq.strategy_filter(), constraint=ssm.constraint_ode_ts0(vf))
            sol = ivpsolve.solve_fixed_grid(solver=solver)(prior, grid=grid)
            u = onp.asarray(sol.u.mean[0])
            err = onp.max(onp.abs(u - exact(onp.asarray(grid))))
            print(f"   {sname:15s} {kind:10s} u(1) = {u[-1]}   max error vs exact solution = {err}")
            if not onp.all(onp.isfinite(u)):
                defect = True
if defect:
    print("\nDEFECT PRESENT: NaN solution for problems with exactly vanishing residual (dynamic calibration).")
    sys.exit(1)
print("\nno defect")
sys.exit(0)
