from hunt.harness import *
from probdiffeq.backend import flow
def f(u, *, t):
    return jnp.stack([u[1] * u[2] - 0.3 * u[0] + jnp.sin(t), -u[0] * u[2] + 0.1 * u[1] ** 2, -0.5 * u[0] * u[1] + jnp.cos(2 * t) * u[2]])
vf = pdq.ode(f)
u0 = jnp.asarray([1.0, -0.5, 0.7]); t0 = 0.0
tc = tcoeffs_for(vf, [u0], t0, 4)
_, prior, c, s = build("dense", "filter", "plain", vf, tc)
err = pdq.error_residual_std(constraint=c)
loop = ivpsolve.RejectionLoop(solver=s, clip_dt=True, control=ivpsolve.control_integral(), error=err, while_loop=flow.while_loop)
sol0 = s.init(t=jnp.asarray(0.0), u=prior, damp=0.0)
state = loop.init(sol0, dt=0.1)
step = jax.jit(lambda st, t1: loop.loop(st, t1=t1, atol=1e-3, rtol=1e-5, eps=1e-8, damp=0.0))
for t1 in [0.1, 0.5, 0.50001, 2.0]:
    while float(state.step_from.t) + 1e-8 < t1:
        t_before = float(state.step_from.t)
        sol, state = step(state, jnp.asarray(t1))
        print("t1", t1, "stepped %.8f -> %.8f" % (t_before, float(state.step_from.t)), "next dt %.3e" % float(state.dt), "u", onp.asarray(state.step_from.u.mean[0]), "std u", float(state.step_from.u.std[0][0]))
        if not onp.isfinite(float(state.step_from.t)): break
    if not onp.isfinite(float(state.step_from.t)): break
