from hunt.harness import *
import math
def f(u, *, t):
    return jnp.stack([u[1] * u[2] - 0.3 * u[0] + jnp.sin(t), -u[0] * u[2] + 0.1 * u[1] ** 2, -0.5 * u[0] * u[1] + jnp.cos(2 * t) * u[2]])
vf = pdq.ode(f)
u0 = jnp.asarray([1.0, -0.5, 0.7]); d = 3
def A_Q(dt, q):
    h = abs(dt)
    A = onp.array([[dt ** (j - i) / math.factorial(j - i) if j >= i else 0.0 for j in range(q + 1)] for i in range(q + 1)])
    Q = onp.array([[h ** (2 * q + 1 - i - j) / (math.factorial(q - i) * math.factorial(q - j) * (2 * q + 1 - i - j)) for j in range(q + 1)] for i in range(q + 1)])
    return A, Q
def kf_ref(tc, grid, q):
    """Textbook EK0 Kalman filter + RTS smoother, dense, coefficient-major layout."""
    m = onp.concatenate([onp.asarray(t) for t in tc]); P = onp.zeros((m.size, m.size))
    I = onp.eye(d); H0 = onp.zeros((d, (q + 1) * d)); H0[:, :d] = I; H1 = onp.zeros_like(H0); H1[:, d:2 * d] = I
    ms, Ps, mps, Pps, As = [m], [P], [], [], []
    for t_prev, t in zip(grid[:-1], grid[1:]):
        A1, Q1 = A_Q(t - t_prev, q); A = onp.kron(A1, I); Q = onp.kron(Q1, I)
        mp_ = A @ m; Pp = A @ P @ A.T + Q
        z = H1 @ mp_ - onp.asarray(f(jnp.asarray(H0 @ mp_), t=t))
        S = H1 @ Pp @ H1.T; K = Pp @ H1.T @ onp.linalg.inv(S)
        m = mp_ - K @ z; P = Pp - K @ S @ K.T
        ms.append(m); Ps.append(P); mps.append(mp_); Pps.append(Pp); As.append(A)
    # RTS
    sm, sP = [ms[-1]], [Ps[-1]]
    for k in range(len(As) - 1, -1, -1):
        G = Ps[k] @ As[k].T @ onp.linalg.pinv(Pps[k])
        sm.insert(0, ms[k] + G @ (sm[0] - mps[k])); sP.insert(0, Ps[k] + G @ (sP[0] - Pps[k]) @ G.T)
    return onp.array(ms), onp.array(Ps), onp.array(sm), onp.array(sP)
for name, grid in [("forward", onp.array([0.0, 0.1, 0.25, 0.3, 0.6, 1.0])), ("reverse", onp.array([1.0, 0.9, 0.75, 0.7, 0.4, 0.0]))]:
    for q in [1, 2, 3]:
        tc = tcoeffs_for(vf, [u0], float(grid[0]), q)
        fm, fP, sm_, sP_ = kf_ref(tc, grid, q)
        for strat, (rm, rP) in [("filter", (fm, fP)), ("fixedinterval", (sm_, sP_))]:
            for kind in ["dense", "iso", "bd"]:
                _, prior, c, s = build(kind, strat, "plain", vf, tc)
                sol = solve_fixed(s, prior, jnp.asarray(grid), jit=True)
                m, C = mvn(sol)
                sd = onp.sqrt(onp.abs(onp.einsum("tii->ti", rP))) + 1e-300
                e_m = onp.max(onp.abs(m - rm)[:, :d]); e_C = onp.max(onp.abs(C - rP) / (sd[:, :, None] * sd[:, None, :] + 1e-30))
                print(name, "order", q, strat, kind, "max |u - ref| %.2e" % e_m, " max corr-scaled cov err %.2e" % e_C, " u(T)", m[-1, :d], "ref", rm[-1, :d])
            jax.clear_caches()
