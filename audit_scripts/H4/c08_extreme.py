exec(open("hunt/c08_algebra.py").read().split("for kind in [\"dense\"")[0])
from fractions import Fraction as Fr
def F(M): return [[Fr(float(x)) for x in row] for row in onp.atleast_2d(M)]
def mul(A, B): return [[sum(a * b for a, b in zip(row, col)) for col in zip(*B)] for row in A]
def T(A): return [list(r) for r in zip(*A)]
def add(A, B): return [[a + b for a, b in zip(r, s)] for r, s in zip(A, B)]
def tofloat(A): return onp.array([[float(x) for x in r] for r in A])
def inv(A):
    n = len(A); M = [list(r) + [Fr(int(i == j)) for j in range(n)] for i, r in enumerate(A)]
    for i in range(n):
        piv = max(range(i, n), key=lambda r: abs(M[r][i])); M[i], M[piv] = M[piv], M[i]
        pv = M[i][i]; M[i] = [x / pv for x in M[i]]
        for r in range(n):
            if r != i:
                fct = M[r][i]; M[r] = [x - fct * y for x, y in zip(M[r], M[i])]
    return [r[n:] for r in M]
def diag(v): return [[Fr(float(v[i])) if i == j else Fr(0) for j in range(len(v))] for i in range(len(v))]
res = {}
for seed in range(30):
    rng = onp.random.default_rng(seed)
    n, k = int(rng.integers(1, 5)), None
    k = int(rng.integers(1, n + 1))
    lo, hi = [(-12, 12), (-6, 6), (-3, 3)][seed % 3]
    rv, cond = make("dense", n, k, 1, scal_rng=(lo, hi))
    L = F(onp.asarray(rv.cholesky_flat)); m = F(onp.asarray(rv.mean_flat)[:, None])
    A = F(onp.asarray(cond.A)); b = F(onp.asarray(cond.noise.mean_flat)[:, None]); LQ = F(onp.asarray(cond.noise.cholesky_flat))
    Pl = diag(onp.asarray(cond.to_latent)); Po = diag(onp.asarray(cond.to_observed))
    Ae = mul(mul(Po, A), Pl); be = mul(Po, b); Lqe = mul(Po, LQ)
    C = mul(L, T(L)); S = add(mul(mul(Ae, C), T(Ae)), mul(Lqe, T(Lqe)))
    my = add(mul(Ae, m), be)
    Sf = tofloat(S); sy = onp.sqrt(onp.diag(Sf)); Cf = tofloat(C); sx = onp.sqrt(onp.diag(Cf))
    marg = cond.marginalise(rv)
    mm, SS = dense_of_normal(marg)
    e_marg_cov = onp.max(onp.abs(SS - Sf) / onp.outer(sy, sy))
    e_marg_mean = onp.max(onp.abs(mm - tofloat(my)[:, 0]) / (sy + onp.abs(tofloat(my)[:, 0])))
    # revert
    obs, bw = cond.revert(rv, solve_triu=linalg.solve_triu)
    K = mul(mul(C, T(Ae)), inv(S))       # exact gain in original coords
    Ccond = add(C, [[-x for x in r] for r in mul(mul(K, S), T(K))])
    Ab, bb, Qb = embed_cond("dense", bw, 1)
    Kf = tofloat(K); Cc = tofloat(Ccond); sc = onp.sqrt(onp.abs(onp.diag(Cc)))
    e_gain = onp.max(onp.abs(Ab - Kf) / (onp.outer(sx, 1 / sy)))   # natural scale of gain: sx/sy
    e_ccov = onp.max(onp.abs(Qb - Cc) / onp.outer(sx, sx))
    mo, So = dense_of_normal(obs)
    e_obs = onp.max(onp.abs(So - Sf) / onp.outer(sy, sy))
    print(seed, (n, k), (lo, hi), "marg cov %.1e mean %.1e | revert obs %.1e gain %.1e condcov %.1e" % (e_marg_cov, e_marg_mean, e_obs, e_gain, e_ccov))
