from hunt.harness import *
from probdiffeq.backend import linalg
onp.set_printoptions(precision=6, linewidth=250)
def f(u, *, t):
    return jnp.stack([u[1] * u[2] - 0.3 * u[0] + jnp.sin(t), -u[0] * u[2] + 0.1 * u[1] ** 2, -0.5 * u[0] * u[1] + jnp.cos(2 * t) * u[2]])
vf = pdq.ode(f)
u0 = jnp.asarray([1.0, -0.5, 0.7]); t0 = 0.0
tc = tcoeffs_for(vf, [u0], t0, 4)
_, prior, c, s = build("dense", "filter", "plain", vf, tc)
st = s.init(t=0.0, u=prior, damp=0.0)
for dt in [0.1, 0.2, 0.2]:
    st = s.step(st, dt=dt, damp=0.0)
rv = st.u
print("mean", rv.mean_flat.reshape(5, 3))
print("std", jnp.stack(rv.std))
for dt in [1e-1, 1e-2, 1e-3, 1e-4, 1e-5]:
    tr = prior.transition(dt=dt, output_scale=jnp.ones(()))
    pred = tr.marginalise(rv)
    # reference (dense formulas, numpy)
    A = onp.asarray(tr.A); to = onp.asarray(tr.to_observed); tl = onp.asarray(tr.to_latent)
    Ae = to[:, None] * A * tl[None, :]
    Lq = to[:, None] * onp.asarray(tr.noise.cholesky_flat)
    C = onp.asarray(rv.cholesky_flat) @ onp.asarray(rv.cholesky_flat).T
    mref = Ae @ onp.asarray(rv.mean_flat); Cref = Ae @ C @ Ae.T + Lq @ Lq.T
    m, Cp = pred.to_multivariate_normal()
    sd = onp.sqrt(onp.diag(Cref))
    print("dt", dt, "pred mean err", onp.max(onp.abs(onp.asarray(m) - mref) / (onp.abs(mref)+sd)), "pred corr err", onp.max(onp.abs(onp.asarray(Cp) - Cref) / onp.outer(sd, sd)))
    st2 = s.step(st, dt=dt, damp=0.0)
    print("   stepped u", st2.u.mean[0], " u+dt*u'", rv.mean[0] + dt * rv.mean[1])
print("=========== update analysis")
from fractions import Fraction as Fr
dt = 1e-4
tr = prior.transition(dt=dt, output_scale=jnp.ones(()))
pred = tr.marginalise(rv)
fx, _ = c.linearize(pred, None, damp=0.0, t=0.5 + dt)
zeros = jax.tree_util.tree_map(jnp.zeros_like, fx.noise.mean)
obs, bw = fx.revert(pred, solve_triu=linalg.solve_triu)
post = fx.bayes_rule_tree(zeros, pred, solve_triu=linalg.solve_triu)
print("lib posterior u", post.mean[0], "pred u", pred.mean[0])
H = onp.asarray(fx.A); b = onp.asarray(fx.noise.mean_flat)
L = onp.asarray(pred.cholesky_flat); m = onp.asarray(pred.mean_flat)
def F(M): return [[Fr(float(x)) for x in row] for row in M]
def mul(A, B): return [[sum(a * b for a, b in zip(row, col)) for col in zip(*B)] for row in A]
def T(A): return [list(r) for r in zip(*A)]
def inv(A):
    n = len(A); M = [list(r) + [Fr(int(i == j)) for j in range(n)] for i, r in enumerate(A)]
    for i in range(n):
        piv = max(range(i, n), key=lambda r: abs(M[r][i])); M[i], M[piv] = M[piv], M[i]
        pv = M[i][i]; M[i] = [x / pv for x in M[i]]
        for r in range(n):
            if r != i:
                fct = M[r][i]; M[r] = [x - fct * y for x, y in zip(M[r], M[i])]
    return [r[n:] for r in M]
Lm = F(L); Hm = F(H); mm = [[Fr(float(x))] for x in m]; bm = [[Fr(float(x))] for x in b]
C = mul(Lm, T(Lm)); S = mul(mul(Hm, C), T(Hm)); K = mul(mul(C, T(Hm)), inv(S))
z = [[a[0] + bb[0]] for a, bb in zip(mul(Hm, mm), bm)]
Kz = mul(K, z)
print("exact posterior u", [float(mm[i][0] - Kz[i][0]) for i in range(3)])
print("z", [float(z[i][0]) for i in range(3)], "sqrt S diag", [float(S[i][i]) ** 0.5 for i in range(3)])
print("gain lib (u rows)\n", onp.asarray(bw.A)[:3], "\n gain exact\n", onp.array([[float(K[i][j]) for j in range(3)] for i in range(3)]))
print("pred chol rows 0..5, cols 0..5\n", L[:6, :6])
