from hunt.harness import *
def f(u, *, t):
    return jnp.stack([u[1] * u[2] - 0.3 * u[0] + jnp.sin(t), -u[0] * u[2] + 0.1 * u[1] ** 2, -0.5 * u[0] * u[1] + jnp.cos(2 * t) * u[2]])
vf1 = pdq.ode(f)
def f2(u, du, *, t):
    return jnp.stack([-u[0] * u[1] - 0.1 * du[1] + jnp.sin(t), u[0] ** 2 - du[0] * u[1]])
vf2 = pdq.ode_order_two(f2)
def f3(u, du, ddu, *, t):
    return jnp.stack([-u[0] * ddu[1] - 0.1 * du[1] + jnp.sin(t), u[0] ** 2 - du[0] * u[1] + ddu[0]])
vf3 = pdq.ode_order_arbitrary(f3, num_tcoeffs_in_args=3)
t0 = 0.2
grid = t0 + jnp.asarray([0, 0.05, 0.2, 0.3, 0.55, 0.6, 1.0])
problems_ = {
  "first": (vf1, [jnp.asarray([1.0, -0.5, 0.7])]),
  "second": (vf2, [jnp.asarray([1.0, -0.5]), jnp.asarray([0.3, 0.2])]),
  "third": (vf3, [jnp.asarray([1.0, -0.5]), jnp.asarray([0.3, 0.2]), jnp.asarray([-0.3, 0.1])]),
}
variants = {
  "default": dict(),
  "damp": dict(damp=1e-3),
  "inexact": dict(prior_kw=dict(is_exact=False, inexact_eps=1e-2)),
  "diffuse": dict(prior_kw=dict(diffuse_derivatives=2, diffuse_eps=3.0), diffuse=True),
  "cinit": dict(constraint_init=True, prior_kw=dict(is_exact=False, inexact_eps=1e-1)),
  "cinit_damp": dict(constraint_init=True, damp=1e-2, prior_kw=dict(is_exact=False, inexact_eps=1e-1)),
  "jetlift": dict(jetlift=True),
}
bad = []
for pname, (vf, u0s) in problems_.items():
  for order in [len(u0s), len(u0s) + 2]:
    for vname, v in variants.items():
      v = dict(v)
      damp = v.pop("damp", 0.0); diffuse = v.pop("diffuse", False); jetlift = v.pop("jetlift", False)
      if diffuse:
          tc = tcoeffs_for(vf, u0s, t0, len(u0s)) if False else list(u0s)
          # only initial values + diffuse derivs
          tc = tcoeffs_for(vf, u0s, t0, len(u0s))
      else:
          tc = tcoeffs_for(vf, u0s, t0, order)
      vf_use = vf
      if jetlift:
          if order == len(u0s): continue
          vf_use = vf.jet_lift_max(num_tcoeffs=len(tc))
      for strat in ["filter", "fixedinterval"]:
        for calib in ["plain", "mle", "dynamic"]:
          res = {}
          for kind in ["dense", "iso", "bd"]:
              try:
                  _, prior, c, s = build(kind, strat, calib, vf_use, tc, **v)
                  sol = solve_fixed(s, prior, grid, damp=damp, jit=True)
                  res[kind] = (mvn(sol), onp.asarray(sol.output_scale))
              except Exception as e:
                  res[kind] = repr(e)[:150]
          jax.clear_caches()
          if any(isinstance(r, str) for r in res.values()):
              print(pname, order, vname, strat, calib, "EXC", {k: r for k, r in res.items() if isinstance(r, str)})
              continue
          (md, Cd), sd = res["dense"]; (mi, Ci), si = res["iso"]; (mb, Cb), sb = res["bd"]
          e = {"iso_mean": maxrel(mi, md), "iso_cov": maxrel(Ci, Cd), "iso_scale": maxrel(si, sd)}
          if calib in ("plain", "mle"): e["bd_mean"] = maxrel(mb, md)
          if calib == "plain": e["bd_cov"] = maxrel(Cb, Cd)
          if calib == "mle": e["bd_energy"] = maxrel(onp.sqrt(onp.mean(sb ** 2, axis=-1)), sd)
          nan = not onp.all(onp.isfinite(md))
          flag = {k: v_ for k, v_ in e.items() if not v_ < 1e-6}
          print(pname, order, vname, strat, calib, {k: "%.1e" % v_ for k, v_ in e.items()}, "NAN" if nan else "", "BAD" if flag else "")
          if flag or nan: bad.append((pname, order, vname, strat, calib, flag, nan))
print("BAD")
for b in bad: print(b)
