from hunt.harness import *
def f(u, *, t):
    return jnp.stack([u[1] * u[2] - 0.3 * u[0] + jnp.sin(t), -u[0] * u[2] + 0.1 * u[1] ** 2, -0.5 * u[0] * u[1] + jnp.cos(2 * t) * u[2]])
vf = pdq.ode(f)
u0 = jnp.asarray([1.0, -0.5, 0.7])
t0 = 1.0
grid = jnp.asarray([1.0, 0.9, 0.75, 0.7, 0.4, 0.0])
for order in [1, 2, 3]:
    tc = tcoeffs_for(vf, [u0], t0, order)
    for strat in ["filter", "fixedinterval"]:
        for calib in ["plain", "mle", "dynamic"]:
            res = {}
            for kind in ["dense", "iso", "bd"]:
                _, prior, c, s = build(kind, strat, calib, vf, tc)
                sol = solve_fixed(s, prior, grid, jit=True)
                res[kind] = (mvn(sol), onp.asarray(sol.output_scale))
            jax.clear_caches()
            (md, Cd), sd = res["dense"]; (mi, Ci), si = res["iso"]; (mb, Cb), sb = res["bd"]
            e = {"iso_mean": maxrel(mi, md), "iso_cov": maxrel(Ci, Cd), "bd_mean": maxrel(mb, md), "bd_cov": maxrel(Cb, Cd)}
            print(order, strat, calib, {k: "%.1e" % v for k, v in e.items()}, "u(T) dense", md[-1][:3], "bd", mb[-1][:3])
