from hunt.harness import *
import time
t0 = 0.0
save_at = jnp.asarray([0.0, 0.3, 0.31, 1.0, 2.0])
lams = jnp.asarray([0.2, 1.0, 5.0, 30.0])
bad = []
def make_solve(kind, strat, calib, order, lin, clip, mode):
    def solve(lam, u0):
        def f(u, *, t):
            return lam * u * (1 - u) + 0.1 * jnp.sin(lam * t) * jnp.roll(u, 1)
        vf = pdq.ode(f, jacobian=pdq.jacobian_materialize())
        tc = tcoeffs_for(vf, [u0], t0, order)
        _, prior, c, s = build(kind, strat, calib, vf, tc, lin=lin)
        if mode == "save_at":
            err = pdq.error_residual_std(constraint=c)
            with warnings.catch_warnings():
                warnings.simplefilter("ignore")
                fn = ivpsolve.solve_adaptive_save_at(solver=s, error=err, clip_dt=clip)
            sol = fn(prior, save_at=save_at, atol=1e-4, rtol=1e-4, dt0=0.1)
        elif mode == "terminal":
            err = pdq.error_residual_std(constraint=c)
            fn = ivpsolve.solve_adaptive_terminal_values(solver=s, error=err, clip_dt=clip)
            sol = fn(prior, t0=t0, t1=2.0, atol=1e-4, rtol=1e-4, dt0=0.1)
        else:
            with warnings.catch_warnings():
                warnings.simplefilter("ignore")
                fn = ivpsolve.solve_fixed_grid(solver=s)
            sol = fn(prior, grid=jnp.linspace(0, 1, 7) ** 2 * (1 + lam) / (1 + lam))
        return sol.u.mean, sol.u.std, sol.output_scale, sol.num_steps, sol.t
    return solve
u0s = jnp.stack([jnp.asarray([0.1, 0.5, 0.9]) * (1 + 0.1 * i) for i in range(len(lams))])
for kind in ["dense", "iso", "bd"]:
  for lin in ["ts0", "ts1"]:
    for strat, mode in [("filter", "save_at"), ("fixedpoint", "save_at"), ("filter", "terminal"), ("fixedpoint", "terminal"), ("filter", "fixed"), ("fixedinterval", "fixed")]:
      for calib in ["plain", "mle", "dynamic"]:
        for clip in ([False, True] if mode != "fixed" else [False]):
          for order in [2]:
            solve = make_solve(kind, strat, calib, order, lin, clip, mode)
            t_ = time.time()
            batched = jax.jit(jax.vmap(solve))(lams, u0s)
            single_jit = [jax.jit(solve)(l, u) for l, u in zip(lams, u0s)]
            single_nojit = solve(lams[1], u0s[1])
            jax.clear_caches()
            stacked = jax.tree_util.tree_map(lambda *x: jnp.stack(x), *single_jit)
            def cmp(A, B):
                out = []
                for i, (a, b) in enumerate(zip(A, B)):
                    la, lb = jax.tree_util.tree_leaves(a), jax.tree_util.tree_leaves(b)
                    if i == 1:  # std: compare relative to the largest std among all coefficients (per batch/time entry is overkill)
                        sc = max(float(jnp.max(jnp.abs(x))) for x in lb) + 1e-300
                        out += [float(jnp.max(jnp.abs(x - y))) / sc for x, y in zip(la, lb)]
                    else:
                        out += [maxrel(x, y) for x, y in zip(la, lb)]
                return out
            errs = cmp(batched, stacked)
            errs2 = cmp(single_nojit, single_jit[1])
            ns = onp.asarray(stacked[3])[:, -1] if mode != "terminal" else onp.asarray(stacked[3])
            nb = onp.asarray(batched[3])[:, -1] if mode != "terminal" else onp.asarray(batched[3])
            nanflag = not all(onp.all(onp.isfinite(onp.asarray(x))) for x in jax.tree_util.tree_leaves(batched))
            flag = max(errs) > 1e-9 or max(errs2) > 1e-9 or not onp.array_equal(ns, nb) or nanflag
            print(kind, lin, strat, mode, calib, clip, "steps", ns, nb, "vmap err %.1e" % max(errs), "jit err %.1e" % max(errs2), "NAN" if nanflag else "", "BAD" if flag else "", "%.0fs" % (time.time() - t_), flush=True)
            if flag: bad.append((kind, lin, strat, mode, calib, clip, errs, errs2))
print("BAD")
for b in bad: print(b)
