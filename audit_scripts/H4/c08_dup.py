exec(open("hunt/c08_algebra.py").read().split("for kind in [\"dense\"")[0])
import jax.numpy as jnp
def run_dup(kind, n, k, d, seed, noise_zero=True, mode="dup"):
    global rng
    rng = onp.random.default_rng(seed)
    rv, cond = make(kind, n, k, d, rank_noise=0 if noise_zero else None)
    A = onp.asarray(cond.A).copy()
    if kind == "bd":
        if mode == "dup": A[:, -1, :] = A[:, 0, :]
        else: A[:, -1, :] = A[:, 0, :] + A[:, 1, :]
    else:
        if mode == "dup": A[-1] = A[0]
        else: A[-1] = A[0] + A[1]
    cond = type(cond)(jnp.asarray(A), cond.noise, cond.to_latent, cond.to_observed)
    m, C = dense_of_normal(rv)
    Ae, be, Qe = embed_cond(kind, cond, d)
    my = Ae @ m + be; S = Ae @ C @ Ae.T + Qe
    out = {}
    for nm, st in [("lstsq", linalg.lstsq_svd)]:
        obs, bw = cond.revert(rv, solve_triu=st)
        Ab, bb, Qb = embed_cond(kind, bw, d)
        out[nm] = (onp.max(onp.abs(Ab @ S @ Ab.T + Qb - C)), onp.max(onp.abs(Ab @ S - C @ Ae.T)), onp.max(onp.abs(Ab @ my + bb - m)))
    return out
for kind in ["dense", "iso", "bd"]:
    for (n, k, d) in [(3, 2, 1), (3, 3, 1), (4, 3, 2), (5, 4, 1)]:
        for mode in ["dup", "sum"]:
            if mode == "sum" and k < 3: continue
            for seed in range(3):
                print(kind, n, k, d, mode, seed, run_dup(kind, n, k, d, seed, mode=mode))
