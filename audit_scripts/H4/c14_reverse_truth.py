from hunt.harness import *
from scipy.integrate import solve_ivp
def f(u, *, t):
    return jnp.stack([u[1] * u[2] - 0.3 * u[0] + jnp.sin(t), -u[0] * u[2] + 0.1 * u[1] ** 2, -0.5 * u[0] * u[1] + jnp.cos(2 * t) * u[2]])
u0 = jnp.asarray([1.0, -0.5, 0.7])
truth = solve_ivp(lambda t, y: onp.asarray(f(jnp.asarray(y), t=t)), (1.0, 0.0), onp.asarray(u0), rtol=1e-12, atol=1e-12).y[:, -1]
print("truth u(0) =", truth)
grid = jnp.linspace(1.0, 0.0, 41)
vf = pdq.ode(f)
vfr = pdq.ode(lambda v, *, t: -f(v, t=1.0 - t))
for q in [1, 2, 3, 4]:
    tc = tcoeffs_for(vf, [u0], 1.0, q); tcr = tcoeffs_for(vfr, [u0], 0.0, q)
    for strat in ["filter", "fixedinterval"]:
        row = []
        for kind in ["dense", "iso", "bd"]:
            _, prior, c, s = build(kind, strat, "plain", vf, tc)
            sol = solve_fixed(s, prior, grid, jit=True)
            row.append(float(onp.max(onp.abs(onp.asarray(sol.u.mean[0][-1]) - truth))))
        _, prior, c, s = build("dense", strat, "plain", vfr, tcr)
        solr = solve_fixed(s, prior, 1.0 - grid, jit=True)
        jax.clear_caches()
        print("order", q, strat, "reverse-grid error dense/iso/bd: %.2e %.2e %.2e" % tuple(row), "| forward solve of time-reversed ODE: %.2e" % float(onp.max(onp.abs(onp.asarray(solr.u.mean[0][-1]) - truth))))
