from hunt.harness import *
def f(u, *, t):
    return jnp.stack([u[1] * u[2] - 0.3 * u[0] + jnp.sin(t), -u[0] * u[2] + 0.1 * u[1] ** 2, -0.5 * u[0] * u[1] + jnp.cos(2 * t) * u[2]])
vf = pdq.ode(f)
u0 = jnp.asarray([1.0, -0.5, 0.7]); t0 = 0.0
save_at = jnp.asarray([0.0, 0.1, 0.5, 0.50001, 2.0, 3.0])
tc = tcoeffs_for(vf, [u0], t0, 4)
_, prior, c, s = build("dense", "filter", "plain", vf, tc)
sol = solve_save_at(s, prior, c, save_at, atol=1e-3, rtol=1e-5, clip_dt=True)
print(sol.t, sol.num_steps)
print(sol.u.mean[0])
print(sol.u.std[0])
# manual stepping
st = s.init(t=0.0, u=prior, damp=0.0)
import numpy as np
for dt in [0.1, 0.2, 0.2, 1e-5, 0.1]:
    st = s.step(st, dt=dt, damp=0.0)
    print(dt, st.u.mean[0], np.asarray(st.u.cholesky_flat).max(), np.isnan(np.asarray(st.u.cholesky_flat)).any())
