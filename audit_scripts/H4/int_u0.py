from hunt.harness import *
def f(u, *, t):
    return jnp.stack([0.5 * u[0] - 0.05 * u[0] * u[1], -0.5 * u[1] + 0.05 * u[0] * u[1]])
vf = pdq.ode(f)
grid = jnp.linspace(0, 1, 11)
for u0 in [jnp.asarray([20.0, 19.0]), jnp.asarray([20, 19])]:
    tc = tcoeffs_for(vf, [u0], 0.0, 2)
    print("tcoeff dtypes", [t.dtype for t in tc])
    for kind in ["dense", "iso", "bd"]:
        _, prior, c, s = build(kind, "filter", "plain", vf, tc)
        sol = solve_fixed(s, prior, grid, jit=True)
        print(kind, u0.dtype, "u(T)=", sol.u.mean[0][-1], sol.u.mean[0].dtype, " u'(T)=", sol.u.mean[1][-1])
