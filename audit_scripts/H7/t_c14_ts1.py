import sys, warnings
import jax, jax.numpy as jnp, numpy as onp
jax.config.update("jax_enable_x64", True)
warnings.filterwarnings("ignore")
from probdiffeq import probdiffeq as pdq, ivpsolve
from hunt.common import SSMS, STRATS, SOLVERS
rng = onp.random.default_rng(21)
def full(rv):
    m, C = rv.to_multivariate_normal(); return onp.asarray(m), onp.asarray(C)
def rel(a,b,fl=0.): 
    a=onp.asarray(a); b=onp.asarray(b); return float(onp.max(onp.abs(a-b))/(onp.max(onp.abs(b))+fl+1e-300))
d=3
coef = jnp.asarray([0.7,-1.1,0.3])
def vf_dec(u,*,t): return coef*u*(1-0.3*u) + 0.1*jnp.sin(t*jnp.arange(1,d+1))
def vf_sc(u,*,t): return -0.8*jnp.cos(t)*u + jnp.asarray([0.1,0.2,-0.3])*t
u0 = jnp.asarray([0.5,1.2,-0.4])
def build(ssm_name, vf, u0, num, c, solver_name, strat, pk, skw):
    ssm = SSMS[ssm_name]()
    ode = pdq.ode(vf, jacobian=pdq.jacobian_materialize())
    tc,_ = pdq.jetexpand_ode_padded_scan(num=num)(ode,(u0,),t=0.0)
    kw=dict(pk); 
    if c is not None: kw["output_scale"]=c
    prior = ssm.prior_wiener_integrated(tc, **kw)
    cons = ssm.constraint_ode_ts1(ode)
    solver = SOLVERS[solver_name](strategy=STRATS[strat](), constraint=cons, **skw)
    err = pdq.error_residual_std(constraint=cons)
    return prior, solver, err
for trial in range(int(sys.argv[1])):
    num=int(rng.integers(1,5)); solver_name=["solver","mle","dyn"][int(rng.integers(0,3))]
    strat=["filter","fi"][int(rng.integers(0,2))]
    exact=bool(rng.integers(0,2)); eps=float(10.0**rng.uniform(-5,-1))
    pk=dict(is_exact=exact, inexact_eps=eps)
    skw={}
    if solver_name=="dyn": skw["re_linearize_after_calibration"]=bool(rng.integers(0,2))
    grid = jnp.asarray(onp.concatenate([[0.],onp.cumsum(10.0**rng.uniform(-1.3,-0.4,size=5))]))
    out={}
    # --- bd vs scalar dense (decoupled)
    lam = 10.0**rng.uniform(-2,2,size=d)
    p,s,e = build("bd", vf_dec, u0, num, jnp.asarray(lam), solver_name, strat, pk, skw)
    solb = jax.jit(ivpsolve.solve_fixed_grid(solver=s))(p, grid=grid)
    mb, Cb = full(solb.u)
    n=num+1
    for i in range(d):
        vfi = (lambda i: (lambda u,*,t: coef[i:i+1]*u*(1-0.3*u) + 0.1*jnp.sin(t*(i+1))))(i)
        p,s,e = build("dense", vfi, u0[i:i+1], num, jnp.asarray(lam[i:i+1]), solver_name, strat, pk, skw)
        soli = jax.jit(ivpsolve.solve_fixed_grid(solver=s))(p, grid=grid)
        mi, Ci = full(soli.u)
        idx = onp.arange(n)*d+i
        out["bd_m%d"%i]=rel(mb[:,idx], mi); out["bd_C%d"%i]=rel(Cb[:,idx][:,:,idx], Ci, 1e-9*onp.abs(Cb).max())
        sb = onp.asarray(solb.output_scale); si=onp.asarray(soli.output_scale)
        out["bd_s%d"%i]=rel(sb[...,i] if sb.ndim>1 else sb, si)
    # --- iso vs dense (scalar jac), fixed and adaptive
    c = float(10.0**rng.uniform(-2,2))
    for adaptive in [False, True]:
        st = strat if not adaptive else ("fp" if strat=="fi" else "filter")
        sols={}
        for ssm_name in ["dense","iso"]:
            cc = jnp.asarray(c) if ssm_name=="iso" else c*jnp.ones(d)
            p,s,e = build(ssm_name, vf_sc, u0, num, cc, solver_name, st, pk, skw)
            if adaptive:
                sols[ssm_name]=jax.jit(lambda p: ivpsolve.solve_adaptive_save_at(solver=s,error=e)(p, save_at=jnp.linspace(0,2,5), atol=1e-4, rtol=1e-3))(p)
            else:
                sols[ssm_name]=jax.jit(ivpsolve.solve_fixed_grid(solver=s))(p, grid=grid)
        md,Cd=full(sols["dense"].u); mi,Ci=full(sols["iso"].u)
        k="A" if adaptive else "F"
        out["iso_m"+k]=rel(mi,md); out["iso_C"+k]=rel(Ci,Cd,1e-9*onp.abs(Cd).max()); out["iso_s"+k]=rel(sols["iso"].output_scale, sols["dense"].output_scale)
        out["iso_n"+k]=float(onp.max(onp.abs(onp.asarray(sols["iso"].num_steps)-onp.asarray(sols["dense"].num_steps))))
    bad={k:v for k,v in out.items() if not v<1e-7}
    print("BAD" if bad else "ok", trial, bad, dict(num=num,solver=solver_name,strat=strat,exact=exact,eps=eps,skw=skw) if bad else "", flush=True)
