import sys, warnings
import jax, jax.numpy as jnp, numpy as onp
jax.config.update("jax_enable_x64", True)
warnings.filterwarnings("ignore")
sys.argv=["x","fixed","iwp"]
import importlib
src = open("hunt/t_equi.py").read().split("paths = sys.argv")[0]
exec(src)
onp.set_printoptions(linewidth=200, precision=6)
r,_ = run("fixed","iso","fi","solver","ts0",1.0,"iwp")
s,_ = run("fixed","iso","fi","solver","ts0",37.0,"iwp")
for a,b in zip(tl(r.u.std), tl(s.u.std)):
    print(onp.asarray(a)*37); print(onp.asarray(b)); print()
