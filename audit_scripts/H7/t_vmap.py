import jax, jax.numpy as jnp, numpy as onp
jax.config.update("jax_enable_x64", True)
from probdiffeq import probdiffeq as pdq
from hunt.densify import cond_dense
ssm = pdq.state_space_model_dense()
d=2; n=3
M = jnp.asarray([[-3.0,1.0],[0.5,-20.0]])
prior = ssm.prior_ornstein_uhlenbeck_integrated(lambda x: M@x, [jnp.ones(d)]*n)
dts = jnp.asarray([1e-4, 1e-2, 0.3, 5.0])
batched = jax.vmap(lambda h: prior.transition(dt=h, output_scale=jnp.asarray(1.0)))(dts)
for i,h in enumerate(dts):
    c1 = jax.tree_util.tree_map(lambda s: s[i], batched)
    c2 = prior.transition(dt=h, output_scale=jnp.asarray(1.0))
    A1,b1,Q1 = cond_dense("dense", c1, d); A2,b2,Q2 = cond_dense("dense", c2, d)
    s = onp.sqrt(onp.diag(Q2))
    print(float(h), onp.abs(A1-A2).max()/onp.abs(A2).max(), onp.abs((Q1-Q2)/onp.outer(s,s)).max())
# from_grid
ms = pdq.MarkovSequence.from_grid(prior, grid=jnp.asarray([0.,1e-4,0.0101,0.3101,5.3101]), reverse=False)
print(jax.tree_util.tree_map(jnp.shape, ms.conditional.A))
