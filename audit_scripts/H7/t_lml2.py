import warnings
import jax, jax.numpy as jnp, numpy as onp
jax.config.update("jax_enable_x64", True)
warnings.filterwarnings("ignore")
from probdiffeq import probdiffeq as pdq, ivpsolve
from probdiffeq.backend import linalg
from hunt.common import *
rng = onp.random.default_rng(0)
for ssm_name in ["dense","bd","iso"]:
    ssm, prior, solver, error = setup(ssm_name, "fi", "solver", "ts0", num=3, prior_kw=dict(is_exact=False, inexact_eps=1e-3))
    grid = jnp.linspace(0,1,6)
    sol = ivpsolve.solve_fixed_grid(solver=solver)(prior, grid=grid)
    post = sol.solution_full.posterior
    for trial in range(6):
        if ssm_name=="iso":
            std = jnp.asarray(10.0**rng.uniform(-6,3,size=6))
        else:
            std = jnp.asarray(10.0**rng.uniform(-6,3,size=(6,2)))
            if trial==0: std = jnp.asarray(onp.tile([1e-6,1e3],(6,1)))
        data = sol.u.mean[0] + jnp.asarray(rng.normal(size=(6,2)))*(std if ssm_name!="iso" else std[:,None])
        for idx in [0,2]:
            l1 = pdq.loss_lml_timeseries(tcoeff_index=idx, average_pdfs=False)(data, posterior=post, std=std)
            l2 = pdq.loss_lml_timeseries(tcoeff_index=idx, average_pdfs=False, solve_triu=linalg.solve_triu)(data, posterior=post, std=std)
            print(ssm_name, trial, idx, float(l1), float(l2), "rel %.1e"%(abs(float(l1-l2))/abs(float(l2))))
