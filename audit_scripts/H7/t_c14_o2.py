import warnings
import jax, jax.numpy as jnp, numpy as onp
jax.config.update("jax_enable_x64", True)
warnings.filterwarnings("ignore")
from probdiffeq import probdiffeq as pdq, ivpsolve
from hunt.common import SSMS, STRATS, SOLVERS
def full(rv):
    m, C = rv.to_multivariate_normal(); return onp.asarray(m), onp.asarray(C)
def rel(a,b,fl=0.): 
    a=onp.asarray(a); b=onp.asarray(b); return float(onp.max(onp.abs(a-b))/(onp.max(onp.abs(b))+fl+1e-300))
d=2
def vf2(u, du, *, t): return jnp.stack([-u[0] + 0.1*du[1]*u[1], -2*u[1] - 0.3*du[0] + jnp.cos(t)])
inits=(jnp.asarray([1.0,-0.5]), jnp.asarray([0.2,0.7]))
grid = jnp.asarray([0.,0.1,0.25,0.3,0.55,0.9])
for num in [1,2,4]:
  for sn in ["solver","mle","dyn"]:
    for strat in ["filter","fi","fp"]:
      res={}
      for name in ["dense","iso","bd"]:
        ssm=SSMS[name](); ode=pdq.ode_order_two(vf2)
        tc,_=pdq.jetexpand_ode_padded_scan(num=num)(ode,inits,t=0.)
        prior=ssm.prior_wiener_integrated(tc, diffuse_derivatives=1)
        cons=ssm.constraint_ode_ts0(ode)
        solver=SOLVERS[sn](strategy=STRATS[strat](),constraint=cons); err=pdq.error_residual_std(constraint=cons)
        if strat=="fp":
            res[name]=jax.jit(lambda p: ivpsolve.solve_adaptive_save_at(solver=solver,error=err)(p,save_at=jnp.linspace(0,1,5),atol=1e-4,rtol=1e-3))(prior)
        else:
            res[name]=jax.jit(ivpsolve.solve_fixed_grid(solver=solver))(prior,grid=grid)
      md,Cd=full(res["dense"].u); mi,Ci=full(res["iso"].u); mb,Cb=full(res["bd"].u)
      fl=1e-9*onp.abs(Cd).max()
      out=dict(iso_m=rel(mi,md),iso_C=rel(Ci,Cd,fl),iso_s=rel(res["iso"].output_scale,res["dense"].output_scale), iso_n=float(onp.abs(onp.asarray(res["iso"].num_steps)-onp.asarray(res["dense"].num_steps)).max()))
      if strat!="fp":
        if sn!="dyn": out["bd_m"]=rel(mb,md)
        if sn=="solver": out["bd_C"]=rel(Cb,Cd,fl)
        if sn=="mle": out["bd_s"]=rel(onp.sqrt((onp.asarray(res["bd"].output_scale)**2).mean(-1)), res["dense"].output_scale)
      bad={k:v for k,v in out.items() if not v<1e-7}
      print("BAD" if bad else "ok", num, sn, strat, bad, flush=True)
