"""C09: exponential-type priors (OU / Matern / general exponential) silently lose the drift with
respect to integer-typed leaves of a (mixed-dtype) pytree state.

prior_exponential_diffuse() builds the drift matrix with
    leaves_flat, unflatten = ravel_pytree(tcoeffs_mean);  jacfwd(vf_flat)(leaves_flat)
and `unflatten` casts every leaf back to its ORIGINAL dtype, so the Jacobian with respect to an
integer leaf is identically zero. The discretised transition is then NOT the exact solution of
the requested SDE. (The dense model itself supports integer-valued leaves since e316e97.)

Expected: block of the transition acting on the highest derivative == expm(M h)   (OU)
          transition == expm(F_matern h)                                           (Matern)
Observed: the columns belonging to the integer leaf are those of a drift-free (Wiener) prior.
"""
import sys, math
import jax, jax.numpy as jnp, numpy as onp, scipy.linalg
jax.config.update("jax_enable_x64", True)
import probdiffeq
from probdiffeq import probdiffeq as pdq
print("library:", probdiffeq.__file__)
onp.set_printoptions(precision=5, suppress=True, linewidth=150)

ssm = pdq.state_space_model_dense()
h = 0.5
bad = False

# ---------- integrated Ornstein-Uhlenbeck, state = {"a": (1,), "b": (1,)}
M = onp.array([[-1.0, 2.0], [0.5, -3.0]])
Mj = jnp.asarray(M)
def linop(x):
    w = Mj @ jnp.concatenate([x["a"], x["b"]])
    return {"a": w[:1], "b": w[1:]}

for label, a1 in [("float leaf", jnp.asarray([2.0])), ("int leaf  ", jnp.asarray([2]))]:
    u0 = {"a": jnp.asarray([1.0]), "b": jnp.asarray([0.5])}
    du0 = {"a": a1, "b": jnp.asarray([0.25])}            # e.g. an integer-valued initial velocity
    prior = ssm.prior_ornstein_uhlenbeck_integrated(linop, [u0, du0])
    cond = prior.transition(dt=h, output_scale=1.0).preconditioner_apply()
    got = onp.asarray(cond.A)[-2:, -2:]
    want = scipy.linalg.expm(M * h)
    err = onp.abs(got - want).max()
    print(f"OU, {label}: max |Phi[-d:,-d:] - expm(M h)| = {err:.3e}")
    if label.startswith("int"):
        print(" expected expm(M h) =\n", want, "\n observed =\n", got)
        print(" drift matrix stored in the prior (bottom block):\n", onp.asarray(prior.A)[-2:])
    if not err < 1e-10:
        bad = True

# ---------- general exponential prior dx = -(1/ell) x dt + dW (= Matern-1/2), state with an integer leaf
ell = 0.7
for label, x0 in [("float leaf", jnp.asarray([1.0, 0.0])), ("int leaf  ", jnp.asarray([1, 0]))]:
    u0 = {"x": x0, "v": jnp.asarray([0.5])}
    ode = pdq.ode_autonomous(lambda u: jax.tree_util.tree_map(lambda s: -s / ell, u))
    prior = ssm.prior_exponential(ode, [u0])
    cond = prior.transition(dt=h, output_scale=1.0).preconditioner_apply()
    got = onp.diag(onp.asarray(cond.A))
    want = onp.exp(-h / ell) * onp.ones(3)      # nu=1/2: dx = -(1/ell) x dt + dW (ravel order: v, x0, x1)
    err = onp.abs(got - want).max()
    print(f"exponential, {label}: diag(Phi) observed {got}, expected {want}, err {err:.3e}")
    if not err < 1e-10:
        bad = True

if bad:
    print("DEFECT PRESENT: transition is not the exact discretisation of the requested SDE")
    sys.exit(1)
print("no defect")
