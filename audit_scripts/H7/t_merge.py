import jax, jax.numpy as jnp, numpy as onp
jax.config.update("jax_enable_x64", True)
from probdiffeq import probdiffeq as pdq
from hunt.densify import cond_dense
rng = onp.random.default_rng(0)
worst=0
for name in ["dense","iso","bd","ioup","matern"]:
  for q in [0,1,3,6]:
    for d in [1,3]:
        n=q+1
        ssm = {"dense":pdq.state_space_model_dense,"iso":pdq.state_space_model_isotropic,"bd":pdq.state_space_model_blockdiag}.get(name, pdq.state_space_model_dense)()
        tc=[jnp.ones((d,))]*n
        M = jnp.asarray(rng.normal(size=(d,d)))
        if name=="ioup": prior = ssm.prior_ornstein_uhlenbeck_integrated(lambda x: M@x, tc, output_scale=jnp.asarray(rng.uniform(0.5,2,size=d)))
        elif name=="matern": prior = ssm.prior_matern(0.7, tc)
        else: prior = ssm.prior_wiener_integrated(tc)
        kind = name if name in ["iso","bd"] else "dense"
        os_ = jnp.asarray(1.7) if kind!="bd" else 1.7*jnp.ones(d)
        for h1,h2 in [(0.3,0.5),(1e-3,2.0),(5.0,1e-2)]:
            c1 = prior.transition(dt=h1, output_scale=os_); c2 = prior.transition(dt=h2, output_scale=os_)
            c12 = c2.merge(c1)
            c = prior.transition(dt=h1+h2, output_scale=os_)
            A,b,Q = cond_dense(kind, c12, d); A2,b2,Q2 = cond_dense(kind, c, d)
            # scale-aware comparison
            s = onp.sqrt(onp.diag(Q2)); 
            e = max(onp.abs(A-A2).max()/onp.abs(A2).max(), onp.abs((Q-Q2)/onp.outer(s,s)).max())
            worst=max(worst,e)
            if not e<1e-8: print("BAD",name,q,d,h1,h2,e)
print("worst",worst)
