import warnings
import jax, jax.numpy as jnp, numpy as onp
jax.config.update("jax_enable_x64", True)
warnings.filterwarnings("ignore")
from probdiffeq import probdiffeq as pdq, ivpsolve
from hunt.common import SSMS
from hunt.densify import joint_from_markov
rng = onp.random.default_rng(0)
for name in ["dense","iso","bd"]:
  for u0 in [jnp.asarray(0.3), 0.3]:
    ssm = SSMS[name]()
    ode = pdq.ode(lambda u,*,t: u*(1-u))
    tc,_ = pdq.jetexpand_ode_padded_scan(num=2)(ode,(u0,),t=0.)
    prior = ssm.prior_wiener_integrated(tc)
    solver = pdq.solver(strategy=pdq.strategy_smoother_fixedinterval(), constraint=ssm.constraint_ode_ts0(ode))
    grid = jnp.linspace(0,1,5)
    sol = ivpsolve.solve_fixed_grid(solver=solver)(prior, grid=grid)
    post = sol.solution_full.posterior
    means, cov = joint_from_markov(name, post, 1)
    N=5; D=3
    for idx in [0,1]:
        std = jnp.asarray(rng.uniform(0.1,1,size=N))
        H = onp.zeros((1,D)); H[0,idx]=1; Hb = onp.kron(onp.eye(N),H)
        my = Hb@means.reshape(-1); Sy = Hb@cov@Hb.T + onp.diag(onp.asarray(std)**2)
        y = rng.multivariate_normal(my,Sy)
        L = onp.linalg.cholesky(Sy); z = onp.linalg.solve(L,y-my)
        ref = -0.5*z@z - onp.log(onp.diag(L)).sum() - 0.5*N*onp.log(2*onp.pi)
        val = pdq.loss_lml_timeseries(average_pdfs=False, tcoeff_index=idx)(jnp.asarray(y), posterior=post, std=std)
        margT = jax.tree_util.tree_map(lambda s: s[-1], sol.u)
        valT = pdq.loss_lml_terminal_values(tcoeff_index=idx)(jnp.asarray(y[-1]), marginals=margT, std=std[-1])
        mT = H@means[-1]; ST = H@cov[-D:,-D:]@H.T + float(std[-1])**2
        refT = -0.5*(y[-1]-mT[0])**2/ST[0,0] - 0.5*onp.log(2*onp.pi*ST[0,0])
        print(name, type(u0).__name__, idx, float(val), ref, float(valT), refT)
