import sys, warnings, math
import jax, jax.numpy as jnp, numpy as onp
jax.config.update("jax_enable_x64", True)
warnings.filterwarnings("ignore")
from probdiffeq import probdiffeq as pdq, ivpsolve
from hunt.kf import iwp_sde, with_bottom
from hunt import hp
rng = onp.random.default_rng(4)
d=2
def f_np(x, t): return onp.array([0.5*x[0]-0.2*x[0]*x[1] + 0.1*onp.sin(t), -0.5*x[1]+0.2*x[0]*x[1]])
def jac_np(x, t): return onp.array([[0.5-0.2*x[1], -0.2*x[0]],[0.2*x[1], -0.5+0.2*x[0]]])
def vf(u, *, t): return jnp.stack([0.5*u[0]-0.2*u[0]*u[1] + 0.1*jnp.sin(t), -0.5*u[1]+0.2*u[0]*u[1]])
def relerr(a,b): a=onp.asarray(a);b=onp.asarray(b); return float(onp.max(onp.abs(a-b))/(onp.max(onp.abs(b))+1e-300))
ssm = pdq.state_space_model_dense()
for trial in range(int(sys.argv[1])):
    ntc=int(rng.integers(2,5)); mode=["solver","mle","dyn"][trial%3]; ts=int(rng.integers(0,2))
    prior_kind=["iwp","ioup"][int(rng.integers(0,2))]
    lam = 10.0**rng.uniform(-1,1,size=d)
    t0=0.1
    save_at = onp.concatenate([[t0], t0+onp.cumsum(10.0**rng.uniform(-1.3,-0.5,size=int(rng.integers(2,6))))])
    ode = pdq.ode(vf, jacobian=pdq.jacobian_materialize()); tc,_=pdq.jetexpand_ode_padded_scan(num=ntc-1)(ode,(jnp.asarray([2.0,1.5]),),t=t0)
    F,L = iwp_sde(ntc,d,lam)
    if prior_kind=="iwp": prior = ssm.prior_wiener_integrated(tc, output_scale=jnp.asarray(lam))
    else:
        M = rng.normal(size=(d,d))*3; Mj=jnp.asarray(M)
        prior = ssm.prior_ornstein_uhlenbeck_integrated(lambda x: Mj@x, tc, output_scale=jnp.asarray(lam))
        b = onp.zeros((d,ntc*d)); b[:,-d:]=M; F = with_bottom(F,b)
    cons = ssm.constraint_ode_ts0(ode) if ts==0 else ssm.constraint_ode_ts1(ode)
    strategy = pdq.strategy_smoother_fixedpoint()
    solver = {"solver":pdq.solver,"mle":pdq.solver_mle,"dyn":pdq.solver_dynamic}[mode](strategy=strategy, constraint=cons)
    err = pdq.error_residual_std(constraint=cons)
    solve = ivpsolve.solve_adaptive_save_at(solver=solver, error=err, clip_dt=True)
    sol = jax.jit(lambda p: solve(p, save_at=jnp.asarray(save_at), atol=1e3, rtol=1e3, dt0=10.0))(prior)
    ns = onp.asarray(sol.num_steps)
    if not onp.array_equal(ns, onp.arange(1,len(save_at))): print("skip: steps", ns); continue
    m0 = onp.concatenate([onp.asarray(t) for t in tc]); P0 = onp.zeros((ntc*d,ntc*d))
    ref = hp.run_filter(F,L,m0,P0,save_at,f_np,jac_np,d,k=1,mode=mode,ts=ts,smooth=True)
    ml,Cl = sol.u.to_multivariate_normal(); ml=onp.asarray(ml); Cl=onp.asarray(Cl)
    sc=1.0
    if mode=="mle": sc = ref["scale_raw"]/onp.sqrt(ref["nsteps"]); e_sc = relerr(onp.asarray(sol.output_scale), sc*onp.ones(len(save_at)-1))
    elif mode=="dyn": e_sc = relerr(onp.asarray(sol.output_scale)[1:], ref["scales"])
    else: e_sc=0.
    e_m=relerr(ml,ref["sm"]); e_P=relerr(Cl,ref["sP"]*sc**2)
    flag = not (e_m<1e-6 and e_P<1e-5 and e_sc<1e-6)
    print(("BAD " if flag else "ok  ")+"%3d e_m %.1e e_P %.1e e_sc %.1e"%(trial,e_m,e_P,e_sc), dict(ntc=ntc,mode=mode,ts=ts,prior=prior_kind), flush=True)
