"""High-precision (Decimal) dense linear algebra + KF/RTS reference."""
import numpy as onp
from decimal import Decimal, getcontext
getcontext().prec = 90

def D(x):
    x = onp.asarray(x, dtype=float)
    out = onp.empty(x.shape, dtype=object)
    for idx in onp.ndindex(x.shape): out[idx] = Decimal(float(x[idx]))
    return out
def F(x):
    x = onp.asarray(x, dtype=object)
    return onp.vectorize(float, otypes=[float])(x) if x.size else onp.zeros(x.shape)
def eye(n):
    E = onp.empty((n,n),dtype=object)
    for i in range(n):
        for j in range(n): E[i,j] = Decimal(1 if i==j else 0)
    return E
def zeros(*s):
    Z = onp.empty(s,dtype=object)
    for idx in onp.ndindex(*s): Z[idx]=Decimal(0)
    return Z
def mm(A,B): return onp.dot(A,B)
def solve(A, B):
    """Solve A X = B by Gauss-Jordan with partial pivoting (Decimal)."""
    A = A.copy(); B = B.copy(); n = A.shape[0]
    if B.ndim==1: B = B[:,None]; vec=True
    else: vec=False
    for c in range(n):
        p = max(range(c,n), key=lambda r: abs(A[r,c]))
        if A[p,c]==0: raise ZeroDivisionError("singular")
        if p!=c:
            A[[c,p]] = A[[p,c]]; B[[c,p]] = B[[p,c]]
        piv = A[c,c]
        A[c] = A[c]/piv; B[c] = B[c]/piv
        for r in range(n):
            if r!=c and A[r,c]!=0:
                fct = A[r,c]
                A[r] = A[r]-fct*A[c]; B[r] = B[r]-fct*B[c]
    return B[:,0] if vec else B
def expm(A):
    n = A.shape[0]
    nrm = max(sum(abs(A[i,j]) for i in range(n)) for j in range(n))
    k = 0
    while nrm > Decimal("0.25"):
        nrm = nrm/2; k+=1
    A = A/ (Decimal(2)**k)
    E = eye(n); T = eye(n)
    for i in range(1, 45):
        T = mm(T, A)/Decimal(i)
        E = E + T
    for _ in range(k): E = mm(E,E)
    return E
def discretise(Fm, L, h):
    """Fm, L: Decimal arrays; h Decimal. Van Loan."""
    n = Fm.shape[0]
    M = zeros(2*n,2*n)
    M[:n,:n] = Fm*h; M[:n,n:] = mm(L, L.T)*h; M[n:,n:] = -Fm.T*h
    E = expm(M)
    Phi = E[:n,:n]
    Q = mm(E[:n,n:], Phi.T)
    return Phi, (Q+Q.T)/2
def sqrt(x): return x.sqrt()

def run_filter(Fm, L, m0, P0, grid, f, jac, d, k=1, mode="solver", ts=0, smooth=False, obs_noise=None, perdim=False):
    Fm, L, m, P = D(Fm), D(L), D(m0), D(P0)
    Dn = m.size
    Ek = zeros(d,Dn); 
    for a in range(d): Ek[a,k*d+a]=Decimal(1)
    Elow = zeros(k*d,Dn)
    for a in range(k*d): Elow[a,a]=Decimal(1)
    ms,Ps=[m],[P]; preds=[]; scales=[]; run2=Decimal(0); nobs=0
    g = [Decimal(float(t)) for t in grid]
    for t0,t1,t1f in zip(g[:-1],g[1:],grid[1:]):
        h = Decimal(float(onp.float64(t1f)-onp.float64(float(t0))))  # mimic np.diff(grid)
        Phi,Q = discretise(Fm,L,h)
        def lin(mp):
            x = F(mm(Elow,mp))
            if ts==0: return Ek, -D(f(x,t1f))
            J = D(jac(x,t1f))
            H = Ek - mm(J,Elow)
            b = -(D(f(x,t1f)) - mm(J, mm(Elow,mp)))
            return H,b
        if mode=="dyn":
            mp = mm(Phi,m); H,b = lin(mp); z = mm(H,mp)+b
            S = mm(mm(H,Q),H.T)
            if perdim:
                s2v = [z[a]*z[a]/S[a,a] for a in range(d)]
                scv = [sqrt(x) for x in s2v]
                n_ = Dn//d
                Dg = zeros(Dn,Dn)
                for i in range(n_):
                    for a in range(d): Dg[i*d+a,i*d+a] = scv[a]
                Q = mm(mm(Dg,Q),Dg); scales.append([float(x) for x in scv])
            else:
                s2 = onp.dot(z, solve(S,z))/d
                Q = Q*s2; scales.append(float(sqrt(s2)))
        mp = mm(Phi,m); Pp = mm(mm(Phi,P),Phi.T)+Q
        H,b = lin(mp)
        z = mm(H,mp)+b
        S = mm(mm(H,Pp),H.T)
        if mode=="mle":
            if perdim:
                if nobs==0: run2 = onp.asarray([Decimal(0)]*d, dtype=object)
                run2 = run2 + onp.asarray([z[a]*z[a]/S[a,a] for a in range(d)],dtype=object); nobs+=1
            else:
                run2 += onp.dot(z, solve(S,z))/d; nobs+=1
        K = solve(S, mm(H,Pp)).T   # Pp H^T S^-1
        preds.append((Phi,mp,Pp,m,P))
        m = mp - mm(K,z); P = Pp - mm(mm(K,S),K.T); P=(P+P.T)/2
        ms.append(m); Ps.append(P)
    out = dict(m=onp.stack([F(x) for x in ms]), P=onp.stack([F(x) for x in Ps]))
    if mode=="mle":
        out["scale_raw"]= onp.asarray([float(sqrt(x/nobs)) for x in run2]) if perdim else float(sqrt(run2/nobs)); out["nsteps"]=nobs
    if mode=="dyn": out["scales"]=onp.asarray(scales)
    if smooth:
        sm,sP=[ms[-1]],[Ps[-1]]
        for (Phi,mp,Pp,mf,Pf) in reversed(preds):
            # G = Pf Phi^T Pp^-1  (Pp must be nonsingular)
            G = solve(Pp, mm(Phi,Pf)).T
            mn = mf + mm(G, sm[0]-mp); Pn = Pf + mm(mm(G, sP[0]-Pp), G.T)
            sm.insert(0,mn); sP.insert(0,(Pn+Pn.T)/2)
        out["sm"]=onp.stack([F(x) for x in sm]); out["sP"]=onp.stack([F(x) for x in sP])
    return out

def run_general(Fm, L, m0, P0, points, is_obs, f, jac, d, k=1, mode="solver", ts=0):
    """Filter+RTS on 'points' (sorted, points[0]=t0); observations only where is_obs[i] (i>=1).
    dyn: scale of a step (a,b] between consecutive observed points computed from single transition a->b (mean only)."""
    Fm, L, m, P = D(Fm), D(L), D(m0), D(P0)
    Dn = m.size
    Ek = zeros(d,Dn)
    for a in range(d): Ek[a,k*d+a]=Decimal(1)
    Elow = zeros(k*d,Dn)
    for a in range(k*d): Elow[a,a]=Decimal(1)
    def lin(mp, tf):
        x = F(mm(Elow,mp))
        if ts==0: return Ek, -D(f(x,tf))
        J = D(jac(x,tf)); H = Ek - mm(J,Elow)
        return H, -(D(f(x,tf)) - mm(J, mm(Elow,mp)))
    pts = [float(p) for p in points]
    # step scales for dyn
    N = len(pts)
    step_scale2 = [None]*N   # scale^2 applying to transition ending at i
    ms,Ps=[m],[P]; preds=[]; run2=Decimal(0); nobs=0; scales=[]
    last_obs_idx = 0; m_last_obs = m
    i = 1
    while i < N:
        # find next obs index
        j = i
        while not is_obs[j]: j+=1
        if mode=="dyn":
            h = Decimal(pts[j]) - Decimal(pts[last_obs_idx])
            Phi,Q = discretise(Fm,L,h)
            mp = mm(Phi, ms[last_obs_idx]); H,b = lin(mp, pts[j]); z = mm(H,mp)+b
            S = mm(mm(H,Q),H.T); s2 = onp.dot(z, solve(S,z))/d
            scales.append(float(sqrt(s2)))
        else: s2 = Decimal(1)
        for q_ in range(i, j+1):
            h = Decimal(pts[q_]) - Decimal(pts[q_-1])
            Phi,Q = discretise(Fm,L,h); Q = Q*s2
            mp = mm(Phi,ms[-1]); Pp = mm(mm(Phi,Ps[-1]),Phi.T)+Q
            preds.append((Phi,mp,Pp,ms[-1],Ps[-1]))
            if q_==j:
                H,b = lin(mp, pts[j]); z = mm(H,mp)+b; S = mm(mm(H,Pp),H.T)
                if mode=="mle": run2 += onp.dot(z, solve(S,z))/d; nobs+=1
                K = solve(S, mm(H,Pp)).T
                mn = mp - mm(K,z); Pn = Pp - mm(mm(K,S),K.T); Pn=(Pn+Pn.T)/2
            else: mn, Pn = mp, Pp
            ms.append(mn); Ps.append(Pn)
        last_obs_idx = j; i = j+1
    sm,sP=[ms[-1]],[Ps[-1]]
    for (Phi,mp,Pp,mf,Pf) in reversed(preds):
        G = solve(Pp, mm(Phi,Pf)).T
        mn = mf + mm(G, sm[0]-mp); Pn = Pf + mm(mm(G, sP[0]-Pp), G.T)
        sm.insert(0,mn); sP.insert(0,(Pn+Pn.T)/2)
    out = dict(m=onp.stack([F(x) for x in ms]), P=onp.stack([F(x) for x in Ps]), sm=onp.stack([F(x) for x in sm]), sP=onp.stack([F(x) for x in sP]))
    if mode=="mle": out["scale_raw"]=float(sqrt(run2/nobs)); out["nsteps"]=nobs
    if mode=="dyn": out["scales"]=onp.asarray(scales)
    return out
