import warnings
import jax, jax.numpy as jnp, numpy as onp
jax.config.update("jax_enable_x64", True)
from probdiffeq import probdiffeq as pdq, ivpsolve
def vf(u, *, t):
    a, b = u["a"], u["b"]
    return {"a": 0.5*a-0.05*a*b, "b": -0.5*b+0.05*a*b}
grid = jnp.linspace(0,1,11)
for a0 in [jnp.asarray([20.0]), jnp.asarray([20])]:
    u0 = {"a": a0, "b": jnp.asarray([20.0])}
    for name, fac in [("dense",pdq.state_space_model_dense),("iso",pdq.state_space_model_isotropic),("bd",pdq.state_space_model_blockdiag)]:
      for cons in ["ts0","ts1"]:
        ssm = fac(); ode = pdq.ode(vf, jacobian=pdq.jacobian_materialize())
        tc,_ = pdq.jetexpand_ode_padded_scan(num=3)(ode,(u0,),t=0.0)
        prior = ssm.prior_wiener_integrated(tc)
        c = ssm.constraint_ode_ts0(ode) if cons=="ts0" else ssm.constraint_ode_ts1(ode)
        solver = pdq.solver(strategy=pdq.strategy_filter(), constraint=c)
        try:
            sol = ivpsolve.solve_fixed_grid(solver=solver)(prior, grid=grid)
            print(a0.dtype, name, cons, [t["a"].dtype.name for t in tc], "u(1)=", {k: onp.asarray(v[-1]) for k,v in sol.u.mean[0].items()}, "du(1)=", {k: onp.asarray(v[-1]) for k,v in sol.u.mean[1].items()})
        except Exception as e:
            print(a0.dtype, name, cons, "ERR", type(e).__name__, str(e)[:150])
