import jax, jax.numpy as jnp, numpy as onp
jax.config.update("jax_enable_x64", True)
from probdiffeq import probdiffeq as pdq
ssm = pdq.state_space_model_dense()
# (2) affine drift: dx = theta (mu - x) dt + dW
theta, mu = 2.0, 5.0
ode = pdq.ode_autonomous(lambda u: theta*(mu-u))
prior = ssm.prior_exponential(ode, [jnp.asarray([1.0])])
c = prior.transition(dt=0.5, output_scale=1.0).preconditioner_apply()
print("affine drift: A", onp.asarray(c.A), "noise mean", onp.asarray(c.noise.mean_flat), "expected mean offset", mu*(1-onp.exp(-theta*0.5)))
# nonlinear drift
ode = pdq.ode_autonomous(lambda u: -u**3)
prior = ssm.prior_exponential(ode, [jnp.asarray([2.0])])
print("nonlinear drift accepted; stored drift", onp.asarray(prior.A))
# (1) matern with pytree
try:
    ssm.prior_matern(1.0, [{"a": jnp.ones(2)}])
    print("matern pytree ok")
except Exception as e:
    print("matern pytree:", type(e).__name__, str(e)[:80])
for nm, f in [("iwp", lambda tc: ssm.prior_wiener_integrated(tc)), ("ioup", lambda tc: ssm.prior_ornstein_uhlenbeck_integrated(lambda x: jax.tree_util.tree_map(lambda s: -s, x), tc))]:
    f([{"a": jnp.ones(2)}]); print(nm, "pytree ok")
