import sys, warnings
import jax, jax.numpy as jnp, numpy as onp
jax.config.update("jax_enable_x64", True)
warnings.filterwarnings("ignore")
from probdiffeq import probdiffeq as pdq, ivpsolve
from hunt.common import *
def tl(x): return jax.tree_util.tree_leaves(x)
for prior_kind in ["iwp","ioup"]:
  for ssm_name in (["dense","iso","bd"] if prior_kind=="iwp" else ["dense"]):
    for strat in ["filter","fp"]:
      for cons in ["ts0","ts1"]:
        for path in ["saveat","term"]:
          sols={}
          for sn in ["solver","mle"]:
            ssm, prior, solver, error = setup(ssm_name, strat, sn, cons, num=3, prior_kind=prior_kind, c=base_scale(ssm_name, 3.3))
            if path=="saveat":
                sols[sn] = jax.jit(lambda p: ivpsolve.solve_adaptive_save_at(solver=solver,error=error)(p, save_at=jnp.linspace(0,1,6), atol=1e-4, rtol=1e-3))(prior)
            else:
                sols[sn] = jax.jit(lambda p: ivpsolve.solve_adaptive_terminal_values(solver=solver,error=error)(p, t0=0.,t1=1., atol=1e-4, rtol=1e-3))(prior)
          a, b = sols["solver"], sols["mle"]
          sc = onp.asarray(b.output_scale)
          em = max(float(onp.max(onp.abs(onp.asarray(x)-onp.asarray(y)))) for x,y in zip(tl(a.u.mean), tl(b.u.mean)))
          # std: for bd sc shape (..., d) ; std leaves shape (..., d) ; iso std leaves shape (...,)
          es = 0
          s_last = sc[-1] if path=="saveat" else sc
          for x,y in zip(tl(a.u.std), tl(b.u.std)):
              x=onp.asarray(x); y=onp.asarray(y)
              f = s_last if (ssm_name!="bd") else s_last  # per-dim broadcast on last axis
              es = max(es, float(onp.max(onp.abs(x*f - y))/ (onp.max(onp.abs(y))+1e-300)))
          en = float(onp.max(onp.abs(onp.asarray(a.num_steps)-onp.asarray(b.num_steps))))
          print(prior_kind, ssm_name, strat, cons, path, "mean %.1e std %.1e nsteps %g"%(em,es,en), "scale", onp.asarray(s_last), "nst", onp.asarray(b.num_steps).reshape(-1)[-1], flush=True)
