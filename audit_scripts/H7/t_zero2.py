import warnings
import jax, jax.numpy as jnp, numpy as onp
jax.config.update("jax_enable_x64", True)
warnings.filterwarnings("ignore")
from probdiffeq import probdiffeq as pdq, ivpsolve
from hunt.common import *
# logistic growth with the rate carried along as a constant state: x' = p x (1-x), p' = 0
vf = lambda u,*,t: jnp.stack([u[1]*u[0]*(1-u[0]), 0.0*u[1]])
for ssm_name in ["dense","iso","bd"]:
  for sn in ["solver","mle","dyn"]:
    for cons in ["ts0","ts1"]:
        ssm, prior, solver, error = setup(ssm_name, "filter", sn, cons, num=3, vf=vf, u0=jnp.asarray([0.1,2.0]))
        sol = ivpsolve.solve_fixed_grid(solver=solver)(prior, grid=jnp.linspace(0,1,11))
        sol2 = jax.jit(lambda p: ivpsolve.solve_adaptive_terminal_values(solver=solver, error=error)(p, t0=0., t1=1., atol=1e-4, rtol=1e-4))(prior)
        print(ssm_name, sn, cons, "fixed: mean", onp.asarray(sol.u.mean[0][-1]), "std", onp.asarray(sol.u.std[0][-1]), "scale", onp.asarray(sol.output_scale)[-1], "| adaptive: mean", onp.asarray(sol2.u.mean[0]), "nsteps", int(sol2.num_steps))
