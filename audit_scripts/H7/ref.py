import numpy as onp
import scipy.linalg as sla

def ref_exp_gram(A, B):
    """Reference e^A and G=int_0^1 e^{sA}BB^T e^{sA^T} ds in float64 (Van Loan on small step + doubling)."""
    A = onp.asarray(A, dtype=onp.float64); B = onp.asarray(B, dtype=onp.float64)
    n = A.shape[0]
    nrm = onp.linalg.norm(A, 1)
    k = max(0, int(onp.ceil(onp.log2(max(nrm, 1e-300) / 0.25))))
    h = 1.0 / 2**k
    M = onp.zeros((2*n, 2*n))
    M[:n,:n] = A*h; M[:n,n:] = B@B.T*h; M[n:,n:] = -A.T*h
    E = sla.expm(M)
    Phi = E[:n,:n]
    G = E[:n,n:] @ Phi.T
    G = 0.5*(G+G.T)
    for _ in range(k):
        G = G + Phi @ G @ Phi.T
        Phi = Phi @ Phi
    return Phi, G
