"""C14: isotropic / block-diagonal models truncate states to integers when ONE leaf of the
initial value is integer-typed (mixed-dtype pytree); the dense model (fixed in e316e97) does not.

TS0, default scales, fixed grid, uncalibrated solver => the three factorisations must return
identical posterior means. Expected: max |mean_iso - mean_dense| ~ 1e-12. Observed: O(1) (and
integer-valued outputs).
"""
import sys, warnings
import jax, jax.numpy as jnp, numpy as onp
jax.config.update("jax_enable_x64", True)
warnings.filterwarnings("ignore")
import probdiffeq
from probdiffeq import probdiffeq as pdq, ivpsolve
print("library:", probdiffeq.__file__)

def vf(u, *, t):  # Lotka-Volterra
    a, b = u["a"], u["b"]
    return {"a": 0.5 * a - 0.05 * a * b, "b": -0.5 * b + 0.05 * a * b}

grid = jnp.linspace(0.0, 1.0, 11)

def solve(factory, a0):
    u0 = {"a": a0, "b": jnp.asarray([20.0])}
    # Taylor coefficients: computed once in floating point, so that all models receive the
    # same (exact) higher coefficients; only the dtype of u0["a"] differs between runs.
    u0_float = {"a": jnp.asarray([20.0]), "b": jnp.asarray([20.0])}
    ode = pdq.ode(vf)
    tc, _ = pdq.jetexpand_ode_padded_scan(num=3)(ode, (u0_float,), t=0.0)
    tc = [u0, *tc[1:]]
    ssm = factory()
    prior = ssm.prior_wiener_integrated(tc)
    solver = pdq.solver(strategy=pdq.strategy_filter(), constraint=ssm.constraint_ode_ts0(ode))
    sol = ivpsolve.solve_fixed_grid(solver=solver)(prior, grid=grid)
    return sol.u.mean[0]

bad = False
for label, a0 in [("float leaf", jnp.asarray([20.0])), ("int leaf  ", jnp.asarray([20]))]:
    ref = solve(pdq.state_space_model_dense, a0)
    for name, fac in [("isotropic", pdq.state_space_model_isotropic), ("blockdiag", pdq.state_space_model_blockdiag)]:
        out = solve(fac, a0)
        diff = max(float(jnp.max(jnp.abs(out[k] - ref[k]))) for k in ref)
        print(f"{label} | {name}: u(1) = a:{onp.asarray(out['a'][-1])} (dtype {out['a'].dtype}) b:{onp.asarray(out['b'][-1])}"
              f" | dense: a:{onp.asarray(ref['a'][-1])} b:{onp.asarray(ref['b'][-1])} | max|diff| = {diff:.3e}")
        if label.startswith("int") and not diff < 1e-8:
            bad = True
print("expected: max|diff| ~ 1e-12 in all rows (identical posterior means, property C14)")
if bad:
    print("DEFECT PRESENT: isotropic/blockdiag means deviate from the dense means for an integer-typed leaf")
    sys.exit(1)
print("no defect")
