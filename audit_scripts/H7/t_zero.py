import warnings
import jax, jax.numpy as jnp, numpy as onp
jax.config.update("jax_enable_x64", True)
warnings.filterwarnings("ignore")
from probdiffeq import probdiffeq as pdq, ivpsolve
from hunt.common import *
for vfname, vf in [("u'=0", lambda u,*,t: 0*u), ("u'=1", lambda u,*,t: jnp.ones_like(u)), ("u'=t", lambda u,*,t: t*jnp.ones_like(u))]:
  for ssm_name in ["dense","iso","bd"]:
    for sn in ["solver","mle","dyn"]:
      for strat in ["filter","fi"]:
        ssm, prior, solver, error = setup(ssm_name, strat, sn, "ts0", num=2, vf=vf, u0=jnp.asarray([1.0,2.0]))
        sol = ivpsolve.solve_fixed_grid(solver=solver)(prior, grid=jnp.linspace(0,1,5))
        print(vfname, ssm_name, sn, strat, "mean", onp.asarray(sol.u.mean[0][-1]), "std", onp.asarray(sol.u.std[0][-1]), "scale", onp.asarray(sol.output_scale).reshape(-1)[-2:])
