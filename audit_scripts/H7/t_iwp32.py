import sys, math
import jax, jax.numpy as jnp, numpy as onp
jax.config.update("jax_enable_x64", False)
from probdiffeq import probdiffeq as pdq
from hunt.densify import cond_dense
from fractions import Fraction
rng = onp.random.default_rng(0)
worst=0
for q in range(0,11):
  n=q+1
  # exact preconditioned: A_p = pascal-type, Q_p[i,j] = 1/(2q+1-i-j) /( ... ) in precond coords
  # x = P x_l with P = diag(h^{q-i}/(q-i)!) -> A_l[i,j] = C(q-i, q-j) for j>=i ; Q_l[i,j] = 1/(2q+1-i-j)
  A_l = onp.array([[math.comb(q-i,q-j) if j>=i else 0 for j in range(n)] for i in range(n)],dtype=float)
  Q_l = onp.array([[1.0/(2*q+1-i-j) for j in range(n)] for i in range(n)])
  for d in [2]:
    for h in [1e-6,1e-2,1.0,100.0]:
      lam = 10.0**rng.uniform(-3,3,size=d)
      for name in ["dense","iso","bd"]:
        ssm = {"dense":pdq.state_space_model_dense,"iso":pdq.state_space_model_isotropic,"bd":pdq.state_space_model_blockdiag}[name]()
        tc=[jnp.ones((d,))]*n
        sc = jnp.asarray(lam[0]) if name=="iso" else jnp.asarray(lam)
        lam_ = lam[0]*onp.ones(d) if name=="iso" else lam
        prior = ssm.prior_wiener_integrated(tc, output_scale=sc)
        os_ = jnp.asarray(2.5) if name!="bd" else 2.5*jnp.ones(d)
        cond = prior.transition(dt=h, output_scale=os_)
        A = onp.asarray(cond.A); C = onp.asarray(cond.noise.cholesky_flat)
        if name=="dense":
            Aref = onp.kron(A_l, onp.eye(d)); Qref = onp.kron(Q_l, onp.diag((2.5*lam_)**2))*h
            e = max(onp.abs(A-Aref).max(), onp.abs(C@C.T-Qref).max()/onp.abs(Qref).max())
            p = onp.asarray(cond.to_observed); pref = onp.repeat([h**(q-i)/math.factorial(q-i) for i in range(n)], d)
        elif name=="iso":
            e = max(onp.abs(A-A_l).max(), onp.abs(C@C.T-Q_l*h*(2.5*lam_[0])**2).max()/(h*(2.5*lam_[0])**2))
            p = onp.asarray(cond.to_observed); pref = onp.array([h**(q-i)/math.factorial(q-i) for i in range(n)])
        else:
            e = 0
            for a in range(d):
                e = max(e, onp.abs(A[a]-A_l).max(), onp.abs(C[a]@C[a].T-Q_l*h*(2.5*lam_[a])**2).max()/(h*(2.5*lam_[a])**2))
            p = onp.asarray(cond.to_observed)[0]; pref = onp.array([h**(q-i)/math.factorial(q-i) for i in range(n)])
        e = max(e, onp.abs(p/pref-1).max(), onp.abs(onp.asarray(cond.to_latent).reshape(-1)[:1]*pref[:1]-1).max())
        worst=max(worst,e)
        if not e<1e-4: print("BAD",q,d,h,name,e)
print("worst",worst)
