import sys
import jax, jax.numpy as jnp, numpy as onp
X64 = sys.argv[1]=="64"
jax.config.update("jax_enable_x64", X64)
import probdiffeq; print(probdiffeq.__file__)
from probdiffeq.util import gram_util
from probdiffeq.backend import linalg
from hunt.ref import ref_exp_gram

rng = onp.random.default_rng(0)
methods = {3: gram_util.pade_and_legendre_3, 5: gram_util.pade_and_legendre_5, 7: gram_util.pade_and_legendre_7, 9: gram_util.pade_and_legendre_9, 13: gram_util.pade_and_legendre_13}
def rel(a,b): return onp.linalg.norm(a-b)/max(onp.linalg.norm(b),1e-300)
worst = {}
for dtype in ([jnp.float64] if X64 else [jnp.float32]):
  for q, m in methods.items():
    alg = jax.jit(gram_util.exp_gram_cholesky(pade_legendre=m(), solve=linalg.solve_lu))
    for n in [1,2,3,6,12]:
      for ncols in [1, n]:
        for scale in [0.0, 1e-6, 1e-2, 0.3, 1.0, 3.0, 10., 50.]:
          for kind in ["randn","stable","companion"]:
            if kind=="randn":
                A = rng.normal(size=(n,n)); 
            elif kind=="stable":
                A = rng.normal(size=(n,n)); A = -(A@A.T) 
            else:
                A = onp.diag(onp.ones(n-1),1); A[-1,:] = -rng.uniform(0.5,2,size=n)
            nr = onp.linalg.norm(A,1)
            A = A/ (nr if nr>0 else 1)*scale
            B = rng.normal(size=(n,ncols))
            eA, L = alg(jnp.asarray(A,dtype=dtype), jnp.asarray(B,dtype=dtype))
            assert eA.dtype==dtype and L.dtype==dtype, (eA.dtype, L.dtype)
            Phi, G = ref_exp_gram(onp.asarray(jnp.asarray(A,dtype=dtype)), onp.asarray(jnp.asarray(B,dtype=dtype)))
            e1 = rel(onp.asarray(eA,dtype=float), Phi); Ld = onp.asarray(L,dtype=float); e2 = rel(Ld@Ld.T, G)
            tri = float(jnp.abs(jnp.triu(L,1)).max()) if n>1 else 0.
            key=(str(dtype.__name__),q)
            w = worst.get(key,(0,0,None))
            if max(e1,e2)>max(w[0],w[1]) or not onp.isfinite(e1+e2): worst[key]=(e1,e2,(n,ncols,scale,kind))
            if tri>1e-5: print("not tril",key,n,ncols,scale,kind,tri)
for k,v in worst.items(): print(k,v)
