"""C04 (MLE calibration): solver_mle(constraint_init=...) returns a NaN output scale (and NaN
covariances) when the coefficient constrained at t0 is known exactly (default is_exact=True).

The whitened residual of the initial constraint is 0/0 (zero residual, zero variance) and is
averaged into the running quasi-MLE, which poisons the estimate of ALL steps.
solver / solver_dynamic handle the same configuration (they use a least-squares solve at t0).

Expected: finite quasi-MLE = RMS of the whitened residuals of the steps (identical to the value
obtained without constraint_init, because conditioning an exact state on a consistent noise-free
constraint changes nothing), finite calibrated standard deviations.
Observed: output_scale = nan, std = nan (all three factorisations).
"""
import sys, warnings
import jax, jax.numpy as jnp, numpy as onp
jax.config.update("jax_enable_x64", True)
warnings.filterwarnings("ignore")
import probdiffeq
from probdiffeq import probdiffeq as pdq, ivpsolve
print("library:", probdiffeq.__file__)

def vf(u, *, t):
    return jnp.stack([0.5 * u[0] - 0.2 * u[0] * u[1], -0.5 * u[1] + 0.2 * u[0] * u[1]])
u0 = jnp.asarray([2.0, 1.5])
grid = jnp.linspace(0.0, 1.0, 6)
bad = False
for name, fac in [("dense", pdq.state_space_model_dense), ("isotropic", pdq.state_space_model_isotropic), ("blockdiag", pdq.state_space_model_blockdiag)]:
    ssm = fac()
    ode = pdq.ode(vf)
    tc, _ = pdq.jetexpand_ode_padded_scan(num=2)(ode, (u0,), t=0.0)
    prior = ssm.prior_wiener_integrated(tc)          # exact Taylor coefficients (default)
    cons = ssm.constraint_ode_ts0(ode)
    out = {}
    for label, kw in [("without constraint_init", {}), ("with constraint_init   ", {"constraint_init": cons})]:
        solver = pdq.solver_mle(strategy=pdq.strategy_filter(), constraint=cons, **kw)
        sol = ivpsolve.solve_fixed_grid(solver=solver)(prior, grid=grid)
        sc = onp.asarray(sol.output_scale[-1]); sd = onp.asarray(sol.u.std[0][-1]); mn = onp.asarray(sol.u.mean[0][-1])
        print(f"{name:9s} solver_mle {label}: mean u(1) = {mn}, std u(1) = {sd}, output_scale = {sc}")
        out[label] = sc
    if not onp.all(onp.isfinite(out["with constraint_init   "])):
        bad = True
if bad:
    print("DEFECT PRESENT: NaN output scale / covariances (expected: the finite values of the first row of each pair)")
    sys.exit(1)
print("no defect")
