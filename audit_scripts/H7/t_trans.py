import sys
import jax, jax.numpy as jnp, numpy as onp, scipy.linalg as sla, math
X64 = sys.argv[1]=="64"
jax.config.update("jax_enable_x64", X64)
from probdiffeq import probdiffeq as pdq
from hunt.ref import ref_exp_gram
dtype = jnp.float64 if X64 else jnp.float32
rng = onp.random.default_rng(1)

def sde_matrices(bottom, n, d, lam):
    F = onp.kron(onp.diag(onp.ones(n-1),1), onp.eye(d)); F[-d:,:] = bottom
    L = onp.zeros((n*d,d)); L[-d:,:] = onp.diag(lam)
    return F, L

def precon(n, d, h):
    pw = onp.arange(n-1,-1,-1.0)
    p = h**pw/ onp.array([math.factorial(int(k)) for k in pw])
    return onp.repeat(p,d)

def check(prior, F, L, n, d, h, tag):
    cond = jax.jit(lambda dt: prior.transition(dt=dt, output_scale=jnp.ones((),dtype=dtype)))(jnp.asarray(h,dtype=dtype))
    # preconditioned comparison
    p = precon(n,d,h)
    Ap = h * (F*p[None,:])/p[:,None]
    Bp = onp.sqrt(h)*L/p[:,None]
    Phi, G = ref_exp_gram(Ap, Bp)
    A_lib = onp.asarray(cond.A, dtype=float); C = onp.asarray(cond.noise.cholesky_flat,dtype=float)
    G_lib = C@C.T
    e1 = onp.linalg.norm(A_lib-Phi)/onp.linalg.norm(Phi); e2 = onp.linalg.norm(G_lib-G)/onp.linalg.norm(G)
    # check to_observed/to_latent
    e3 = onp.abs(onp.asarray(cond.to_observed,dtype=float)/p-1).max(); e4 = onp.abs(onp.asarray(cond.to_latent,dtype=float)*p-1).max()
    nrm = onp.linalg.norm(Ap,1)
    return max(e1,e2,e3,e4), (e1,e2,e3,e4,nrm)

worst=(0,None)
ssm = pdq.state_space_model_dense()
for n in [1,2,3,5,8,11]:
  for d in [1,2,5]:
    if n*d>33: continue
    for h in [1e-6,1e-3,0.1,1.0,7.0,100.0]:
      for drift in [0.0, 0.5, 50.0]:
        for kind in ["ioup","matern","general"]:
          lam = rng.uniform(0.1,3,size=d)
          u0 = jnp.asarray(rng.normal(size=(d,)),dtype=dtype)
          tc = [u0]*n
          if kind=="ioup":
              M = rng.normal(size=(d,d)); M = M/ max(onp.linalg.norm(M,1),1e-30) * drift / h
              Mj = jnp.asarray(M,dtype=dtype)
              prior = ssm.prior_ornstein_uhlenbeck_integrated(lambda x: Mj@x, tc, output_scale=jnp.asarray(lam,dtype=dtype))
              bottom = onp.zeros((d,n*d)); bottom[:,-d:] = M
          elif kind=="matern":
              if drift==0.0: continue
              ell = h/ drift * 3
              prior = ssm.prior_matern(ell, tc, output_scale=jnp.asarray(lam,dtype=dtype))
              z = onp.sqrt(2*(n-0.5))/ell
              bottom = onp.concatenate([-math.comb(n,i)*z**(n-i)*onp.eye(d) for i in range(n)],axis=1)
          else:
              Ms = [rng.normal(size=(d,d)) for _ in range(n)]
              Ms = [m/onp.linalg.norm(m,1)*(drift/h)**(n-i) for i,m in enumerate(Ms)]
              Mj = [jnp.asarray(m,dtype=dtype) for m in Ms]
              f = lambda *us: sum(m@u for m,u in zip(Mj,us))
              ode = pdq.ode_autonomous_order_arbitrary(f, num_tcoeffs_in_args=n)
              prior = ssm.prior_exponential(ode, tc, output_scale=jnp.asarray(lam,dtype=dtype))
              bottom = onp.concatenate(Ms,axis=1)
          F, L = sde_matrices(bottom, n, d, lam)
          err, parts = check(prior, F, L, n, d, h, kind)
          if parts[-1]>100 or not onp.isfinite(err): continue
          if not onp.isfinite(err) or err>worst[0]: worst=(err,(n,d,h,drift,kind,parts))
          if not onp.isfinite(err) or err > (1e-9 if X64 else 1e-3): print("BAD", n,d,h,drift,kind,parts)
print("worst",worst)
