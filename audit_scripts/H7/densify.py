import jax, jax.numpy as jnp, numpy as onp

def rv_dense(rv):
    m, C = rv.to_multivariate_normal()
    return onp.asarray(m), onp.asarray(C)

def cond_dense(ssm_name, cond, d):
    """cond: single (unbatched) latent cond. Return A,b,Q with x_out = A x_in + N(b,Q), flat index = i*d+j."""
    c = cond.preconditioner_apply()
    b, Q = rv_dense(c.noise)
    A = onp.asarray(c.A)
    if ssm_name=="iso":
        A = onp.kron(A, onp.eye(d))
    elif ssm_name=="bd":
        dd, no, ni = A.shape
        F = onp.zeros((no*dd, ni*dd))
        for a in range(dd):
            for i in range(no):
                for j in range(ni):
                    F[i*dd+a, j*dd+a] = A[a,i,j]
        A = F
    return A, b, Q

def joint_from_markov(ssm_name, markov, d):
    """markov: MarkovSequence (reverse=True), marginal = rv at t_N, conditionals k=0..N-1 (x_k | x_{k+1}).
    Returns mean (N+1, D), cov ((N+1)D, (N+1)D) ordered by time index 0..N."""
    mN, CN = rv_dense(markov.marginal)
    D = mN.size
    N = jax.tree_util.tree_leaves(markov.conditional)[0].shape[0]
    means = [None]*(N+1); means[N] = mN
    # T[k] : x_k = T_k x_N + sum noise
    cov = onp.zeros(((N+1)*D,(N+1)*D))
    cov[N*D:, N*D:] = CN
    for k in range(N-1,-1,-1):
        ck = jax.tree_util.tree_map(lambda s: s[k], markov.conditional)
        A,b,Q = cond_dense(ssm_name, ck, d)
        means[k] = A@means[k+1] + b
        # cov(x_k, x_j) for j>k : A cov(x_{k+1}, x_j)
        row = A @ cov[(k+1)*D:(k+2)*D, :]
        cov[k*D:(k+1)*D, :] = row
        cov[:, k*D:(k+1)*D] = row.T
        cov[k*D:(k+1)*D, k*D:(k+1)*D] = A@cov[(k+1)*D:(k+2)*D,(k+1)*D:(k+2)*D]@A.T + Q
    return onp.stack(means), cov
