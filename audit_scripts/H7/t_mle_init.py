import warnings
import jax, jax.numpy as jnp, numpy as onp
jax.config.update("jax_enable_x64", True)
warnings.filterwarnings("ignore")
from probdiffeq import probdiffeq as pdq, ivpsolve
from hunt.common import *
for ssm_name in ["dense","iso","bd"]:
  for sn in ["solver","mle","dyn"]:
    for diffuse in [0, 1]:
        ssm = SSMS[ssm_name]()
        ode = pdq.ode(vf_lv, jacobian=pdq.jacobian_materialize())
        tc,_ = pdq.jetexpand_ode_padded_scan(num=2)(ode,(U0,),t=0.)
        prior = ssm.prior_wiener_integrated(tc, diffuse_derivatives=diffuse)
        cons = ssm.constraint_ode_ts0(ode)
        solver = SOLVERS[sn](strategy=pdq.strategy_filter(), constraint=cons, constraint_init=cons)
        sol = ivpsolve.solve_fixed_grid(solver=solver)(prior, grid=jnp.linspace(0,1,6))
        print(ssm_name, sn, "diffuse", diffuse, "u(1)", onp.asarray(sol.u.mean[0][-1]), "std", onp.asarray(sol.u.std[0][-1]), "scale", onp.asarray(sol.output_scale[-1]))
