import sys, warnings, math
import jax, jax.numpy as jnp, numpy as onp
jax.config.update("jax_enable_x64", True)
warnings.filterwarnings("ignore")
from probdiffeq import probdiffeq as pdq, ivpsolve
from hunt.kf import iwp_sde, with_bottom
from hunt import hp
from hunt.densify import rv_dense
rng = onp.random.default_rng(5)

d = 2
def f_np(x, t):  # first order, x (d,)
    return onp.array([0.5*x[0]-0.2*x[0]*x[1] + 0.1*onp.sin(t), -0.5*x[1]+0.2*x[0]*x[1]])
def jac_np(x, t):
    return onp.array([[0.5-0.2*x[1], -0.2*x[0]],[0.2*x[1], -0.5+0.2*x[0]]])
def vf(u, *, t):
    return jnp.stack([0.5*u[0]-0.2*u[0]*u[1] + 0.1*jnp.sin(t), -0.5*u[1]+0.2*u[0]*u[1]])
# second-order ODE
def f2_np(x, t):
    u, du = x[:d], x[d:]
    return onp.array([-u[0] + 0.1*du[1]*u[1], -2*u[1] - 0.3*du[0] + onp.cos(t)])
def jac2_np(x, t):
    u, du = x[:d], x[d:]
    return onp.array([[-1, 0.1*du[1], 0, 0.1*u[1]],[0,-2,-0.3,0]])
def vf2(u, du, *, t):
    return jnp.stack([-u[0] + 0.1*du[1]*u[1], -2*u[1] - 0.3*du[0] + jnp.cos(t)])

def relerr(a,b,floor=0):
    a=onp.asarray(a);b=onp.asarray(b)
    return float(onp.max(onp.abs(a-b))/(onp.max(onp.abs(b))+floor+1e-300))

def lib_full(rv):
    # batched rv -> means (N,D), covs (N,D,D)
    m, C = rv.to_multivariate_normal()
    return onp.asarray(m), onp.asarray(C)

worst = {}
ssm = pdq.state_space_model_dense()
only = [int(a) for a in sys.argv[2:]]
for trial in range(int(sys.argv[1])):
    order = int(rng.integers(1,3))
    ntc = int(rng.integers(order+1, 6))   # number of taylor coefficients
    diffuse = int(rng.integers(0,2)) if ntc<5 else 0
    prior_kind = ["iwp","ioup","matern","general"][int(rng.integers(0,4))]
    lam = 10.0**rng.uniform(-2,2,size=d) if rng.uniform()<0.7 else None
    exact_kind = ["true","false","list"][int(rng.integers(0,3))]
    eps = 10.0**rng.uniform(-6,-1)
    deps = 10.0**rng.uniform(-2,1)
    mode = ["solver","mle","dyn"][int(rng.integers(0,3))]
    ts = int(rng.integers(0,2))
    strat = ["filter","fi"][int(rng.integers(0,2))]
    relin = bool(rng.integers(0,2))
    corr = bool(rng.integers(0,2))
    t0 = 0.3
    grid = onp.concatenate([[t0], t0+onp.cumsum(10.0**rng.uniform(-1.3,-0.3,size=int(rng.integers(2,6))))])
    # ---- library
    if order==1:
        ode = pdq.ode(vf, jacobian=pdq.jacobian_materialize()); inits=(jnp.asarray([2.0,1.5]),)
        fnp, jnp_ = f_np, jac_np
    else:
        ode = pdq.ode_order_two(vf2, jacobian=pdq.jacobian_materialize()); inits=(jnp.asarray([1.0,-0.5]), jnp.asarray([0.2,0.7]))
        fnp, jnp_ = f2_np, jac2_np
    tcoeffs, _ = pdq.jetexpand_ode_padded_scan(num=ntc-order)(ode, inits, t=t0)
    assert len(tcoeffs)==ntc
    kw = {}
    if lam is not None: kw["output_scale"] = jnp.asarray(lam)
    lam_ = onp.ones(d) if lam is None else lam
    if exact_kind=="true": kw["is_exact"]=True; std0 = [onp.zeros(d)]*ntc
    elif exact_kind=="false": kw["is_exact"]=False; kw["inexact_eps"]=eps; std0=[eps*onp.ones(d)]*ntc
    else:
        flags = [rng.integers(0,2,size=d).astype(bool) if rng.uniform()<0.5 else bool(rng.integers(0,2)) for _ in range(ntc)]
        kw["is_exact"] = [jnp.asarray(fl) for fl in flags]; kw["inexact_eps"]=eps
        std0 = [onp.where(onp.broadcast_to(fl,(d,)), 0.0, eps) for fl in flags]
    if diffuse: kw["diffuse_derivatives"]=diffuse; kw["diffuse_eps"]=deps
    n = ntc + diffuse
    std0 = std0 + [deps*onp.ones(d)]*diffuse
    m0 = onp.concatenate([onp.asarray(t) for t in tcoeffs] + [onp.zeros(d)]*diffuse)
    P0 = onp.diag(onp.concatenate(std0)**2)
    F, L = iwp_sde(n, d, lam_)
    if prior_kind=="iwp":
        prior = ssm.prior_wiener_integrated(tcoeffs, **kw)
    elif prior_kind=="ioup":
        M = rng.normal(size=(d,d))*10.0**rng.uniform(-1,1.5)
        Mj = jnp.asarray(M)
        prior = ssm.prior_ornstein_uhlenbeck_integrated(lambda x: Mj@x, tcoeffs, **kw)
        bottom = onp.zeros((d,n*d)); bottom[:,-d:] = M; F = with_bottom(F,bottom)
    elif prior_kind=="matern":
        ell = 10.0**rng.uniform(-0.5,1)
        prior = ssm.prior_matern(ell, tcoeffs, **kw)
        z = onp.sqrt(2*(n-0.5))/ell
        bottom = onp.concatenate([-math.comb(n,i)*z**(n-i)*onp.eye(d) for i in range(n)],axis=1); F = with_bottom(F,bottom)
    else:
        Ms = [rng.normal(size=(d,d))*10.0**rng.uniform(-1,0.7) for _ in range(n)]
        Mj = [jnp.asarray(mm) for mm in Ms]
        odep = pdq.ode_autonomous_order_arbitrary(lambda *us: sum(mm@u for mm,u in zip(Mj,us)), num_tcoeffs_in_args=n)
        prior = ssm.prior_exponential(odep, tcoeffs, **kw)
        F = with_bottom(F, onp.concatenate(Ms,axis=1))
    cons = ssm.constraint_ode_ts0(ode) if ts==0 else ssm.constraint_ode_ts1(ode)
    strategy = pdq.strategy_filter() if strat=="filter" else pdq.strategy_smoother_fixedinterval()
    if mode=="solver": solver = pdq.solver(strategy=strategy, constraint=cons)
    elif mode=="mle": solver = pdq.solver_mle(strategy=strategy, constraint=cons, correct_asymptotic_underconfidence=corr)
    else: solver = pdq.solver_dynamic(strategy=strategy, constraint=cons, re_linearize_after_calibration=relin)
    sol = jax.jit(ivpsolve.solve_fixed_grid(solver=solver))(prior, grid=jnp.asarray(grid))
    # ---- reference
    if only and trial not in only: continue
    ref = hp.run_filter(F, L, m0, P0, grid, fnp, jnp_, d, k=order, mode=mode, ts=ts, smooth=(strat=="fi"))
    ml, Cl = lib_full(sol.u)
    if strat=="fi": mr, Pr = ref["sm"], ref["sP"]
    else: mr, Pr = ref["m"], ref["P"]
    sc = 1.0
    if mode=="mle":
        sc = ref["scale_raw"]/(onp.sqrt(ref["nsteps"]) if corr else 1.0)
        e_sc = relerr(onp.asarray(sol.output_scale), sc*onp.ones(len(grid)-1))
    elif mode=="dyn":
        e_sc = relerr(onp.asarray(sol.output_scale)[1:], ref["scales"])
    else:
        e_sc = relerr(onp.asarray(sol.output_scale), onp.ones(len(grid)-1))
    e_m = relerr(ml, mr)
    e_P = relerr(Cl, Pr*sc**2)
    tag = dict(order=order, ntc=ntc, diffuse=diffuse, prior=prior_kind, lam=lam is not None, exact=exact_kind, mode=mode, ts=ts, strat=strat, relin=relin, corr=corr, nsteps=len(grid)-1)
    flag = not (e_m<1e-6 and e_P<1e-5 and e_sc<1e-6)
    if flag and "-v" in sys.argv[0:1]+[__import__("os").environ.get("V","")]:
        onp.set_printoptions(linewidth=200)
        print("grid", grid, "diff", onp.diff(grid)); print("lam", lam, "eps", eps, "std0", std0)
        print("scale lib", onp.asarray(sol.output_scale)); print("scale ref", ref.get("scales", ref.get("scale_raw")))
        print("mean err per step", onp.abs(ml-mr).max(axis=1), "meanmax", onp.abs(mr).max(axis=1))
        print("cov err per step", onp.abs(Cl-Pr*sc**2).max(axis=(1,2)), onp.abs(Pr*sc**2).max(axis=(1,2)))
        if prior_kind=="ioup": print("M", M)
    print(("BAD " if flag else "ok  ")+"%3d e_m %.1e e_P %.1e e_sc %.1e"%(trial,e_m,e_P,e_sc), tag if flag else "", flush=True)
