import sys, warnings, math
import jax, jax.numpy as jnp, numpy as onp
jax.config.update("jax_enable_x64", True)
warnings.filterwarnings("ignore")
from probdiffeq import probdiffeq as pdq, ivpsolve
from hunt.kf import iwp_sde
from hunt import hp
rng = onp.random.default_rng(8)
d = 2
def f_np(x, t): return onp.array([0.5*x[0]-0.2*x[0]*x[1] + 0.1*onp.sin(t), -0.5*x[1]+0.2*x[0]*x[1]])
def vf(u, *, t): return jnp.stack([0.5*u[0]-0.2*u[0]*u[1] + 0.1*jnp.sin(t), -0.5*u[1]+0.2*u[0]*u[1]])
def relerr(a,b): a=onp.asarray(a);b=onp.asarray(b); return float(onp.max(onp.abs(a-b))/(onp.max(onp.abs(b))+1e-300))
for trial in range(int(sys.argv[1])):
    ssm_name = ["bd","iso"][trial%2]
    ssm = pdq.state_space_model_blockdiag() if ssm_name=="bd" else pdq.state_space_model_isotropic()
    ntc = int(rng.integers(2,5)); diffuse=int(rng.integers(0,2)); deps=10.0**rng.uniform(-2,1)
    mode = ["solver","mle","dyn"][int(rng.integers(0,3))]
    strat = ["filter","fi"][int(rng.integers(0,2))]
    corr = bool(rng.integers(0,2)); relin=bool(rng.integers(0,2))
    exact = bool(rng.integers(0,2)); eps = 10.0**rng.uniform(-5,-1)
    if ssm_name=="bd": lam = 10.0**rng.uniform(-3,3,size=d); lam_j = jnp.asarray(lam)
    else: c = 10.0**rng.uniform(-3,3); lam = c*onp.ones(d); lam_j = jnp.asarray(c)
    t0=0.2
    grid = onp.concatenate([[t0], t0+onp.cumsum(10.0**rng.uniform(-1.3,-0.3,size=int(rng.integers(2,6))))])
    ode = pdq.ode(vf); tcoeffs,_ = pdq.jetexpand_ode_padded_scan(num=ntc-1)(ode, (jnp.asarray([2.0,1.5]),), t=t0)
    kw = dict(output_scale=lam_j, is_exact=exact, inexact_eps=eps)
    if diffuse: kw.update(diffuse_derivatives=diffuse, diffuse_eps=deps)
    prior = ssm.prior_wiener_integrated(tcoeffs, **kw)
    cons = ssm.constraint_ode_ts0(ode)
    strategy = pdq.strategy_filter() if strat=="filter" else pdq.strategy_smoother_fixedinterval()
    if mode=="solver": solver = pdq.solver(strategy=strategy, constraint=cons)
    elif mode=="mle": solver = pdq.solver_mle(strategy=strategy, constraint=cons, correct_asymptotic_underconfidence=corr)
    else: solver = pdq.solver_dynamic(strategy=strategy, constraint=cons, re_linearize_after_calibration=relin)
    sol = jax.jit(ivpsolve.solve_fixed_grid(solver=solver))(prior, grid=jnp.asarray(grid))
    n = ntc+diffuse
    m0 = onp.concatenate([onp.asarray(t) for t in tcoeffs]+[onp.zeros(d)]*diffuse)
    std0 = [ (0.0 if exact else eps)*onp.ones(d)]*ntc + [deps*onp.ones(d)]*diffuse
    P0 = onp.diag(onp.concatenate(std0)**2)
    F, L = iwp_sde(n,d,lam)
    perdim = ssm_name=="bd"
    ref = hp.run_filter(F,L,m0,P0,grid,f_np,None,d,k=1,mode=mode,ts=0,smooth=(strat=="fi"),perdim=perdim)
    ml, Cl = sol.u.to_multivariate_normal(); ml=onp.asarray(ml); Cl=onp.asarray(Cl)
    mr, Pr = (ref["sm"],ref["sP"]) if strat=="fi" else (ref["m"],ref["P"])
    if mode=="mle":
        sc = ref["scale_raw"]/(onp.sqrt(ref["nsteps"]) if corr else 1.0)
        e_sc = relerr(onp.asarray(sol.output_scale), onp.ones((len(grid)-1,)+onp.shape(sc))*sc)
        Dg = onp.diag(onp.tile(onp.broadcast_to(sc,(d,)), n))
        Pr = Dg@Pr@Dg
    elif mode=="dyn": e_sc = relerr(onp.asarray(sol.output_scale)[1:], ref["scales"])
    else: e_sc = relerr(onp.asarray(sol.output_scale), onp.ones_like(onp.asarray(sol.output_scale)))
    e_m = relerr(ml,mr); e_P = relerr(Cl,Pr)
    flag = not (e_m<1e-6 and e_P<1e-5 and e_sc<1e-6)
    print(("BAD " if flag else "ok  ")+"%3d e_m %.1e e_P %.1e e_sc %.1e"%(trial,e_m,e_P,e_sc), dict(ssm=ssm_name,ntc=ntc,diffuse=diffuse,mode=mode,strat=strat,corr=corr,relin=relin,exact=exact,lam=lam) if flag else "", flush=True)
