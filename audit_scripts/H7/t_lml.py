import sys, warnings
import jax, jax.numpy as jnp, numpy as onp, scipy.stats
jax.config.update("jax_enable_x64", True)
warnings.filterwarnings("ignore")
from probdiffeq import probdiffeq as pdq, ivpsolve
from hunt.common import *
from hunt.densify import *
rng = onp.random.default_rng(3)
def mvn_logpdf(y, m, S):
    S = 0.5*(S+S.T)
    w = onp.linalg.eigvalsh(S); cnd = abs(w).max()/max(abs(w).min(),1e-300)
    try:
        L = onp.linalg.cholesky(S)
    except onp.linalg.LinAlgError:
        return float('nan'), cnd
    z = onp.linalg.solve(L, y-m)
    return -0.5*z@z - onp.log(onp.diag(L)).sum() - 0.5*len(y)*onp.log(2*onp.pi), cnd


def vf_tree(u, *, t):
    a, b = u["a"], u["b"]
    return {"a": jnp.stack([0.5*a[0]-0.2*a[0]*a[1], -0.5*a[1]+0.2*a[0]*b]), "b": -0.3*b + 0.1*a[0]*jnp.cos(t)}
U0T = {"a": jnp.asarray([2.0,1.5]), "b": jnp.asarray(0.7)}

def flat_time(data_tree, N):
    # (N, d) with d ordering = ravel_pytree of a single
    leaves = jax.tree_util.tree_leaves(data_tree)
    return onp.concatenate([onp.asarray(l).reshape(N,-1) for l in leaves],axis=1)

worst = 0
for ssm_name in ["dense","iso","bd"]:
  for path in ["fixed-fi","saveat-fp","fixed-fp"]:
    for solver_name in ["solver","mle","dyn"]:
      for exact in [True, False]:
        for tree_state in [False, True]:
            vf, u0 = (vf_tree, U0T) if tree_state else (vf_lv, U0)
            d = 3 if tree_state else 2
            num = 3
            strat = path.split("-")[1]
            pk = {"is_exact": exact}
            ssm, prior, solver, error = setup(ssm_name, strat, solver_name, "ts0", num=num, vf=vf, u0=u0, prior_kw=pk)
            Npts = int(rng.integers(2, 8))
            if path.startswith("fixed"):
                grid = jnp.asarray(onp.sort(onp.concatenate([[0.,1.], rng.uniform(0,1,size=Npts-2)])))
                sol = jax.jit(ivpsolve.solve_fixed_grid(solver=solver))(prior, grid=grid)
            else:
                grid = jnp.asarray(onp.sort(onp.concatenate([[0.,1.], rng.uniform(0,1,size=Npts-2)])))
                sol = jax.jit(lambda p: ivpsolve.solve_adaptive_save_at(solver=solver,error=error)(p, save_at=grid, atol=1e-3, rtol=1e-3))(prior)
            post = sol.solution_full.posterior
            means, cov = joint_from_markov(ssm_name, post.remove_filtering_distributions(), d)
            D = means.shape[1]; N1 = means.shape[0]
            assert N1 == Npts
            # sanity: marginals agree with sol.u
            um = onp.concatenate([flat_time(c, N1) for c in sol.u.mean], axis=1)
            e_marg = onp.max(onp.abs(um - means))/onp.max(onp.abs(means))
            sd_joint = onp.sqrt(onp.clip(onp.diag(cov),0,None)).reshape(N1, D)
            if ssm_name=="iso":
                us = onp.stack([onp.repeat(onp.asarray(c)[:,None], d, axis=1) for c in sol.u.std],axis=1).reshape(N1,-1)
            else:
                us = onp.concatenate([flat_time(c, N1) for c in sol.u.std], axis=1)
            e_std = onp.max(onp.abs(us - sd_joint))/onp.max(sd_joint)
            for idx in range(num+1):
              for avg in [True, False]:
                stdlevel = 10.0**rng.uniform(-6, 3)
                if ssm_name=="iso":
                    std = jnp.asarray(stdlevel*rng.uniform(0.5,2,size=(N1,)))
                    std_flat = onp.repeat(onp.asarray(std)[:,None], d, axis=1)
                else:
                    std = jax.tree_util.tree_map(lambda s: jnp.asarray(stdlevel*rng.uniform(0.5,2,size=(N1,)+s.shape)), u0)
                    std_flat = flat_time(std, N1)
                # data near the mean at level of total std
                H = onp.zeros((d, D)); H[:, idx*d:(idx+1)*d] = onp.eye(d)
                Hbig = onp.kron(onp.eye(N1), H)
                my = Hbig@means.reshape(-1)
                Sy = Hbig@cov@Hbig.T + onp.diag(std_flat.reshape(-1)**2)
                Sy = 0.5*(Sy+Sy.T)
                y = rng.multivariate_normal(my, Sy)
                ref, cnd = mvn_logpdf(y, my, Sy)
                if avg: ref = ref/N1
                # build data pytree
                y2 = y.reshape(N1,d)
                if tree_state:
                    data = {"a": jnp.asarray(y2[:,:2]), "b": jnp.asarray(y2[:,2])}
                else:
                    data = jnp.asarray(y2)
                loss = pdq.loss_lml_timeseries(average_pdfs=avg, tcoeff_index=idx)
                val = float(jax.jit(lambda dd, ss: loss(dd, posterior=post, std=ss))(data, std))
                err = abs(val-ref)/max(1.0,abs(ref))
                worst = max(worst, err) if onp.isfinite(err) else float("nan")
                if not err < 1e-7 + 1e-15*cnd:
                    print("BAD", ssm_name, path, solver_name, exact, tree_state, idx, avg, "std~%.1e"%stdlevel, "N=",N1, val, ref, "cond %.1e"%cnd)
                # terminal value loss
                lossT = pdq.loss_lml_terminal_values(tcoeff_index=idx)
                uT = jax.tree_util.tree_map(lambda s: s[-1], data)
                sT = jax.tree_util.tree_map(lambda s: s[-1], std)
                margT = jax.tree_util.tree_map(lambda s: s[-1], sol.u)
                valT = float(lossT(uT, marginals=margT, std=sT))
                mT = H@means[-1]; ST = H@cov[-D:,-D:]@H.T + onp.diag(std_flat[-1]**2)
                refT, cndT = mvn_logpdf(y2[-1], mT, ST)
                errT = abs(valT-refT)/max(1.0,abs(refT))
                if not errT<1e-7+1e-15*cndT: print("BADT", ssm_name, path, solver_name, exact, tree_state, idx, "std~%.1e"%stdlevel, valT, refT)
            print("done", ssm_name, path, solver_name, exact, tree_state, "N=",N1, "e_marg %.1e e_std %.1e"%(e_marg, e_std), flush=True)
print("worst", worst)
