"""C09 (minor / input handling): prior_exponential silently drops the constant part of an affine
drift and silently linearises a non-linear drift at the initial mean.

For dx = theta (mu - x) dt + dW the exact transition over h is
    x(h) | x(0) ~ N( e^{-theta h} x(0) + mu (1 - e^{-theta h}),  (1 - e^{-2 theta h}) / (2 theta) ).
The library returns a transition with zero offset (noise mean 0), i.e. the transition of
dx = -theta x dt + dW, without any warning or error.
"""
import sys
import jax, jax.numpy as jnp, numpy as onp
jax.config.update("jax_enable_x64", True)
import probdiffeq
from probdiffeq import probdiffeq as pdq
print("library:", probdiffeq.__file__)
theta, mu, h = 2.0, 5.0, 0.5
ssm = pdq.state_space_model_dense()
ode = pdq.ode_autonomous(lambda u: theta * (mu - u))
prior = ssm.prior_exponential(ode, [jnp.asarray([1.0])])
c = prior.transition(dt=h, output_scale=1.0).preconditioner_apply()
A = float(c.A[0, 0]); b = float(c.noise.mean_flat[0]); q = float(c.noise.cholesky_flat[0, 0] ** 2)
print("observed: A = %.6f, offset = %.6f, Q = %.6f" % (A, b, q))
print("expected: A = %.6f, offset = %.6f, Q = %.6f" % (onp.exp(-theta * h), mu * (1 - onp.exp(-theta * h)), (1 - onp.exp(-2 * theta * h)) / (2 * theta)))
if abs(b - mu * (1 - onp.exp(-theta * h))) > 1e-8:
    print("DEFECT PRESENT: affine part of the drift is silently ignored")
    sys.exit(1)
print("no defect")
