import sys, warnings, math
import jax, jax.numpy as jnp, numpy as onp
jax.config.update("jax_enable_x64", True)
warnings.filterwarnings("ignore")
from probdiffeq import probdiffeq as pdq, ivpsolve
from probdiffeq.backend import flow, tree
from hunt.kf import iwp_sde, with_bottom
from hunt import hp
rng = onp.random.default_rng(int(sys.argv[2]) if len(sys.argv)>2 else 4)
d=2
def f_np(x, t): return onp.array([0.5*x[0]-0.2*x[0]*x[1] + 0.1*onp.sin(t), -0.5*x[1]+0.2*x[0]*x[1]])
def jac_np(x, t): return onp.array([[0.5-0.2*x[1], -0.2*x[0]],[0.2*x[1], -0.5+0.2*x[0]]])
def vf(u, *, t): return jnp.stack([0.5*u[0]-0.2*u[0]*u[1] + 0.1*jnp.sin(t), -0.5*u[1]+0.2*u[0]*u[1]])
def relerr(a,b): a=onp.asarray(a);b=onp.asarray(b); return float(onp.max(onp.abs(a-b))/(onp.max(onp.abs(b))+1e-300))
ssm = pdq.state_space_model_dense()
for trial in range(int(sys.argv[1])):
    ntc=int(rng.integers(2,5)); mode=["solver","mle","dyn"][trial%3]; ts=int(rng.integers(0,2))
    strat = ["fp","filter"][int(rng.integers(0,2))]
    prior_kind=["iwp","ioup"][int(rng.integers(0,2))]
    lam = 10.0**rng.uniform(-1,1,size=d)
    t0=0.1
    save_at = onp.concatenate([[t0], t0+onp.cumsum(10.0**rng.uniform(-1.5,-0.3,size=int(rng.integers(2,6))))])
    ode = pdq.ode(vf, jacobian=pdq.jacobian_materialize()); tc,_=pdq.jetexpand_ode_padded_scan(num=ntc-1)(ode,(jnp.asarray([2.0,1.5]),),t=t0)
    F,L = iwp_sde(ntc,d,lam)
    if prior_kind=="iwp": prior = ssm.prior_wiener_integrated(tc, output_scale=jnp.asarray(lam))
    else:
        M = rng.normal(size=(d,d))*3; Mj=jnp.asarray(M)
        prior = ssm.prior_ornstein_uhlenbeck_integrated(lambda x: Mj@x, tc, output_scale=jnp.asarray(lam))
        b = onp.zeros((d,ntc*d)); b[:,-d:]=M; F = with_bottom(F,b)
    cons = ssm.constraint_ode_ts0(ode) if ts==0 else ssm.constraint_ode_ts1(ode)
    strategy = pdq.strategy_smoother_fixedpoint() if strat=="fp" else pdq.strategy_filter()
    solver = {"solver":pdq.solver,"mle":pdq.solver_mle,"dyn":pdq.solver_dynamic}[mode](strategy=strategy, constraint=cons)
    err = pdq.error_residual_std(constraint=cons)
    atol, rtol = 10.0**rng.uniform(-5,-2), 10.0**rng.uniform(-4,-1)
    sol = jax.jit(lambda p: ivpsolve.solve_adaptive_save_at(solver=solver, error=err)(p, save_at=jnp.asarray(save_at), atol=atol, rtol=rtol, dt0=0.1))(prior)
    # replicate the loop in python to learn the accepted steps
    loop = ivpsolve.RejectionLoop(solver=solver, clip_dt=False, control=ivpsolve.control_integral(), error=err, while_loop=flow.while_loop)
    s0 = solver.init(t=jnp.asarray(save_at[0]), u=prior, damp=0.0)
    state = loop.init(s0, dt=0.1)
    lp = jax.jit(lambda st, t1: loop.loop(st, t1=t1, atol=atol, rtol=rtol, eps=1e-8, damp=0.0))
    steps=set(); sols=[]
    for tn in save_at[1:]:
        first=True
        while first or float(state.step_from.t)+1e-8 < tn:
            s, state = lp(state, jnp.asarray(tn)); steps.add(float(state.step_from.t)); first=False
        sols.append(s)
    rep = solver.userfriendly_output(solution0=s0, solution=tree.tree_array_stack(sols), solution1=state.step_from)
    e_rep = max(relerr(a,b) for a,b in zip(jax.tree_util.tree_leaves(rep.u), jax.tree_util.tree_leaves(sol.u)))
    pts = sorted(set(list(steps)+list(save_at)))
    is_obs = [p in steps for p in pts]
    # points beyond the last obs? none since final step_from.t >= save_at[-1]
    m0 = onp.concatenate([onp.asarray(t) for t in tc]); P0 = onp.zeros((ntc*d,ntc*d))
    ref = hp.run_general(F,L,m0,P0,pts,is_obs,f_np,jac_np,d,k=1,mode=mode,ts=ts)
    idx = [pts.index(float(t)) for t in save_at]
    ml,Cl = sol.u.to_multivariate_normal(); ml=onp.asarray(ml); Cl=onp.asarray(Cl)
    mr,Pr = (ref["sm"][idx],ref["sP"][idx]) if strat=="fp" else (ref["m"][idx],ref["P"][idx])
    sc=1.0; e_sc=0.
    if mode=="mle": sc = ref["scale_raw"]/onp.sqrt(ref["nsteps"]); e_sc = relerr(onp.asarray(sol.output_scale), sc*onp.ones(len(save_at)-1))
    e_m=relerr(ml,mr); e_P=relerr(Cl,Pr*sc**2)
    flag = not (e_m<1e-6 and e_P<1e-5 and e_sc<1e-6 and e_rep<1e-10)
    print(("BAD " if flag else "ok  ")+"%3d e_rep %.1e e_m %.1e e_P %.1e e_sc %.1e nsteps %d ncheck %d"%(trial,e_rep,e_m,e_P,e_sc,len(steps),len(save_at)-1), dict(ntc=ntc,mode=mode,ts=ts,prior=prior_kind,strat=strat), flush=True)
