import jax, jax.numpy as jnp, numpy as onp
jax.config.update("jax_enable_x64", True)
from probdiffeq import probdiffeq as pdq
ssm = pdq.state_space_model_dense()
M = jnp.asarray([[ -1.0, 2.0],[0.5,-3.0]])
def linop(x):
    # x = {"a": (1,), "b": (1,)}
    v = jnp.concatenate([x["a"], x["b"]])
    w = M@v
    return {"a": w[:1], "b": w[1:]}
for a0 in [jnp.asarray([1.0]), jnp.asarray([1])]:
    u0 = {"a": a0, "b": jnp.asarray([0.5])}
    du0 = {"a": jnp.asarray([2.0]), "b": jnp.asarray([0.25])}
    for tc in ([u0, du0], [du0, u0]):
        try:
            prior = ssm.prior_ornstein_uhlenbeck_integrated(linop, tc)
            print(a0.dtype, [t["a"].dtype for t in tc], "\n", prior.A)
        except Exception as e:
            print("ERR", type(e), str(e)[:200])
