import sys, warnings
import jax, jax.numpy as jnp, numpy as onp
jax.config.update("jax_enable_x64", True)
warnings.filterwarnings("ignore")
from probdiffeq import probdiffeq as pdq, ivpsolve
from hunt.common import *
rng = onp.random.default_rng(11)
def full(rv):
    m, C = rv.to_multivariate_normal(); return onp.asarray(m), onp.asarray(C)
def rel(a,b,fl=0.): 
    a=onp.asarray(a); b=onp.asarray(b); return float(onp.max(onp.abs(a-b))/(onp.max(onp.abs(b))+fl+1e-300))

def vf3(u, *, t):
    return jnp.stack([0.5*u[0]-0.2*u[0]*u[1]+0.1*jnp.sin(3*t), -0.5*u[1]+0.2*u[0]*u[2], -0.1*u[2]*u[0]])
U3 = jnp.asarray([2.0,1.5,-0.7])
for trial in range(int(sys.argv[1])):
    num = int(rng.integers(1,6))
    c = float(10.0**rng.uniform(-4,4)) if rng.uniform()<0.7 else None
    exact = [True, False, "list"][int(rng.integers(0,3))]
    eps = float(10.0**rng.uniform(-5,-1))
    diffuse = int(rng.integers(0,3)); deps = float(10.0**rng.uniform(-2,1))
    solver_name = ["solver","mle","dyn"][int(rng.integers(0,3))]
    strat = ["filter","fi","fp"][int(rng.integers(0,3))]
    adaptive = strat!="fi" and rng.uniform()<0.5
    if strat=="fp" and not adaptive: strat="fi"
    d=3
    res = {}
    flags = [bool(rng.integers(0,2)) for _ in range(num+1)]
    for ssm_name in ["dense","iso","bd"]:
        pk = {}
        if exact=="list":
            pk["is_exact"] = [jnp.asarray(f) for f in flags] if ssm_name=="iso" else [jnp.asarray(f)*jnp.ones((d,),dtype=bool) if i%2 else jnp.asarray(f) for i,f in enumerate(flags)]
            pk["inexact_eps"]=eps
        else:
            pk["is_exact"]=exact; pk["inexact_eps"]=eps
        if diffuse: pk["diffuse_derivatives"]=diffuse; pk["diffuse_eps"]=deps
        cc = None if c is None else base_scale(ssm_name, c, d=d)
        ssm, prior, solver, error = setup(ssm_name, strat, solver_name, "ts0", num=num, c=cc, vf=vf3, u0=U3, prior_kw=pk)
        if adaptive:
            if ssm_name=="bd": continue
            save_at = jnp.linspace(0,1.5,5)
            sol = jax.jit(lambda p: ivpsolve.solve_adaptive_save_at(solver=solver,error=error)(p, save_at=save_at, atol=1e-3, rtol=1e-3, dt0=0.05))(prior)
        else:
            grid = jnp.asarray(onp.concatenate([[0.],onp.cumsum(10.0**rng.uniform(-1.5,-0.5,size=5))])) if ssm_name=="dense" else grid
            sol = jax.jit(ivpsolve.solve_fixed_grid(solver=solver))(prior, grid=grid)
        res[ssm_name] = sol
    md, Cd = full(res["dense"].u); mi, Ci = full(res["iso"].u)
    out = {}
    fl = 1e-9*onp.abs(Cd).max()
    out["iso_m"] = rel(mi, md); out["iso_C"] = rel(Ci, Cd, fl); out["iso_s"] = rel(res["iso"].output_scale, res["dense"].output_scale)
    out["iso_n"] = float(onp.max(onp.abs(onp.asarray(res["iso"].num_steps)-onp.asarray(res["dense"].num_steps))))
    if "bd" in res:
        mb, Cb = full(res["bd"].u)
        if solver_name in ["solver","mle"]: out["bd_m"] = rel(mb, md)
        if solver_name=="solver": out["bd_C"] = rel(Cb, Cd, fl)
        if solver_name=="mle":
            sb = onp.asarray(res["bd"].output_scale); sd = onp.asarray(res["dense"].output_scale)
            out["bd_s"] = rel(onp.sqrt((sb**2).mean(axis=-1)), sd)
    bad = {k:v for k,v in out.items() if not v<1e-7}
    tag = dict(num=num,c=c,exact=exact,eps=eps,diffuse=diffuse,deps=deps,solver=solver_name,strat=strat,adaptive=adaptive)
    if bad:
        n_=mi.shape[1]//d
        print("per-coeff rel err iso-vs-dense", [rel(mi[:,i*d:(i+1)*d], md[:,i*d:(i+1)*d]) for i in range(n_)])
        print("t", onp.asarray(res["dense"].t), "nsteps", onp.asarray(res["dense"].num_steps))
    print("BAD" if bad else "ok", trial, bad, tag if bad else "", flush=True)
