import warnings
import jax, jax.numpy as jnp, numpy as onp
jax.config.update("jax_enable_x64", True)
from probdiffeq import probdiffeq as pdq, ivpsolve
def vf(u, *, t): return jnp.stack([0.5*u[0]-0.05*u[0]*u[1], -0.5*u[1]+0.05*u[0]*u[1]])
grid = jnp.linspace(0,1,11)
for u0 in [jnp.asarray([20.0, 20.0]), jnp.asarray([20, 20])]:
    for name, fac in [("dense",pdq.state_space_model_dense),("iso",pdq.state_space_model_isotropic),("bd",pdq.state_space_model_blockdiag)]:
        ssm = fac(); ode = pdq.ode(vf)
        tc,_ = pdq.jetexpand_ode_padded_scan(num=3)(ode,(u0,),t=0.0)
        prior = ssm.prior_wiener_integrated(tc)
        solver = pdq.solver(strategy=pdq.strategy_filter(), constraint=ssm.constraint_ode_ts0(ode))
        try:
            sol = ivpsolve.solve_fixed_grid(solver=solver)(prior, grid=grid)
            print(u0.dtype, name, [t.dtype for t in tc], "u(1)=", onp.asarray(sol.u.mean[0][-1]), "du(1)=", onp.asarray(sol.u.mean[1][-1]))
        except Exception as e:
            print(u0.dtype, name, "ERR", type(e).__name__, str(e)[:150])
