import sys, itertools, warnings
import jax, jax.numpy as jnp, numpy as onp
jax.config.update("jax_enable_x64", True)
warnings.filterwarnings("ignore")
from probdiffeq import probdiffeq as pdq, ivpsolve
from hunt.common import *

def tl(x): return jax.tree_util.tree_leaves(x)
def relmax(a,b,floor=0.):
    a=onp.asarray(a); b=onp.asarray(b)
    if not a.size: return 0.
    m = onp.maximum(onp.abs(a),onp.abs(b))
    return float(onp.max(onp.abs(a-b)/(1e-300+m+1e-7*m.max()+floor)))

def run(path, ssm_name, strat, solver_name, cons, c, prior_kind):
    cc = None if c is None else base_scale(ssm_name, c)
    ssm, prior, solver, error = setup(ssm_name, strat, solver_name, cons, c=cc, prior_kind=prior_kind)
    if path=="fixed":
        grid = jnp.asarray([0., 0.1, 0.25, 0.3, 0.6, 1.0])
        sol = jax.jit(ivpsolve.solve_fixed_grid(solver=solver))(prior, grid=grid)
        extra=None
        if solver.is_suitable_for_offgrid_marginals:
            ts = jnp.asarray([0.05, 0.27, 0.8])
            extra = jax.vmap(lambda t: solver.offgrid_marginals(t, solution=sol))(ts)
        return sol, extra
    if path=="saveat":
        save_at = jnp.linspace(0,1,7)
        sol = jax.jit(lambda p: ivpsolve.solve_adaptive_save_at(solver=solver,error=error,warn=False)(p, save_at=save_at, atol=1e-4, rtol=1e-3, dt0=0.1))(prior)
        return sol, None
    if path=="term":
        sol = jax.jit(lambda p: ivpsolve.solve_adaptive_terminal_values(solver=solver,error=error)(p, t0=0., t1=1., atol=1e-4, rtol=1e-3, dt0=0.1))(prior)
        return sol, None

def compare(sol1, sol2, c, solver_name, tag):
    # sol1: c=1 (explicit), sol2: c
    out = {}
    out["t"] = relmax(sol1.t, sol2.t)
    out["nsteps"] = float(onp.max(onp.abs(onp.asarray(sol1.num_steps)-onp.asarray(sol2.num_steps))))
    out["mean"] = max(relmax(a,b) for a,b in zip(tl(sol1.u.mean), tl(sol2.u.mean)))
    f = c if solver_name=="solver" else 1.0
    fl = 1e-7*max(float(onp.max(onp.abs(b))) for b in tl(sol2.u.std))
    out["std"] = max(relmax(onp.asarray(a)*f,b,fl) for a,b in zip(tl(sol1.u.std), tl(sol2.u.std)))
    g = 1.0 if solver_name=="solver" else 1.0/c
    s1, s2 = onp.asarray(sol1.output_scale), onp.asarray(sol2.output_scale)
    if solver_name=="dyn" and sol1.t.ndim>0 and s1.ndim>0 and s1.shape[0]==sol1.t.shape[0]: s1, s2 = s1[1:], s2[1:]
    out["scale"] = relmax(s1*g, s2)
    return out

paths = sys.argv[1].split(",")
prior_kinds = sys.argv[2].split(",")
cs = [1e-6, 1e-3, 37.0, 1e6]
for path in paths:
  for prior_kind in prior_kinds:
    for ssm_name in (["dense"] if prior_kind!="iwp" else ["dense","iso","bd"]):
      for strat in ["filter","fp","fi"]:
        if path!="fixed" and strat=="fi": continue
        if path=="fixed" and strat=="fp": continue
        for solver_name in ["solver","mle","dyn"]:
          for cons in ["ts0","ts1"]:
            try:
                ref, rex = run(path, ssm_name, strat, solver_name, cons, 1.0, prior_kind)
            except Exception as e:
                print("ERR", path, prior_kind, ssm_name, strat, solver_name, cons, type(e).__name__, str(e)[:100]); continue
            for c in cs:
                sol, ex = run(path, ssm_name, strat, solver_name, cons, c, prior_kind)
                o = compare(ref, sol, c, solver_name, None)
                if ex is not None:
                    f = c if solver_name=="solver" else 1.0
                    o["off_mean"] = max(relmax(a,b) for a,b in zip(tl(rex.mean), tl(ex.mean)))
                    fl = 1e-7*max(float(onp.max(onp.abs(b))) for b in tl(ex.std))
                    o["off_std"] = max(relmax(onp.asarray(a)*f,b,fl) for a,b in zip(tl(rex.std), tl(ex.std)))
                bad = {k:v for k,v in o.items() if not (v<1e-6)}
                tag = (path, prior_kind, ssm_name, strat, solver_name, cons, c)
                if bad: print("BAD", tag, bad)
            print("done", path, prior_kind, ssm_name, strat, solver_name, cons, flush=True)
