"""C04 (dynamic calibration): solver_dynamic returns NaN (means, stds, output scales) whenever the
per-step local scale estimate is exactly zero, i.e. whenever the local residual vanishes.

(a) block-diagonal model (per-dimension scales): ANY constant component, e.g. a parameter that is
    carried along as a state, x' = p x (1 - x), p' = 0.
(b) dense / isotropic model: solutions that the prior represents exactly, e.g. u' = t or u' = const.

Expected (property C04): reported scale = local quasi-MLE = 0 for those steps/dimensions, returned
covariance = unit-scale covariance * 0^2 = 0, posterior mean = the (exact) solution; this is what
solver_mle returns (scale 0, std 0, correct mean) and what solver returns (correct mean).
Observed: NaN everywhere.
"""
import sys, warnings
import jax, jax.numpy as jnp, numpy as onp
jax.config.update("jax_enable_x64", True)
warnings.filterwarnings("ignore")
import probdiffeq
from probdiffeq import probdiffeq as pdq, ivpsolve
print("library:", probdiffeq.__file__)
bad = False
grid = jnp.linspace(0.0, 1.0, 11)

# ---------------- (a) block-diagonal, constant component
def vf(u, *, t):
    return jnp.stack([u[1] * u[0] * (1 - u[0]), 0.0 * u[1]])
u0 = jnp.asarray([0.1, 2.0])
ssm = pdq.state_space_model_blockdiag()
ode = pdq.ode(vf)
tc, _ = pdq.jetexpand_ode_padded_scan(num=3)(ode, (u0,), t=0.0)
prior = ssm.prior_wiener_integrated(tc)
cons = ssm.constraint_ode_ts0(ode)
for name, factory in [("solver", pdq.solver), ("solver_mle", pdq.solver_mle), ("solver_dynamic", pdq.solver_dynamic)]:
    solver = factory(strategy=pdq.strategy_filter(), constraint=cons)
    sol = ivpsolve.solve_fixed_grid(solver=solver)(prior, grid=grid)
    m, s, sc = onp.asarray(sol.u.mean[0][-1]), onp.asarray(sol.u.std[0][-1]), onp.asarray(sol.output_scale[-1])
    print(f"(a) blockdiag {name:15s}: u(1) = {m}, std = {s}, output_scale = {sc}")
    if name == "solver_dynamic" and not onp.all(onp.isfinite(m)):
        bad = True
print("    expected for solver_dynamic: u(1) ~ [0.4509, 2.], finite std, output_scale = [>0, 0.]")

# ---------------- (b) dense / isotropic, u' = t (solution 1 + t^2/2 is reproduced exactly by the prior)
def vf1(u, *, t):
    return t * jnp.ones_like(u)
for mname, mfac in [("dense", pdq.state_space_model_dense), ("isotropic", pdq.state_space_model_isotropic)]:
    ssm = mfac()
    ode1 = pdq.ode(vf1)
    tc, _ = pdq.jetexpand_ode_padded_scan(num=2)(ode1, (jnp.asarray([1.0, 2.0]),), t=0.0)
    prior = ssm.prior_wiener_integrated(tc)
    cons = ssm.constraint_ode_ts0(ode1)
    for name, factory in [("solver", pdq.solver), ("solver_mle", pdq.solver_mle), ("solver_dynamic", pdq.solver_dynamic)]:
        solver = factory(strategy=pdq.strategy_filter(), constraint=cons)
        sol = ivpsolve.solve_fixed_grid(solver=solver)(prior, grid=grid)
        m, s, sc = onp.asarray(sol.u.mean[0][-1]), onp.asarray(sol.u.std[0][-1]), onp.asarray(sol.output_scale[-1])
        print(f"(b) {mname:9s} {name:15s}: u(1) = {m}, std = {s}, output_scale = {sc}")
        if name == "solver_dynamic" and not onp.all(onp.isfinite(m)):
            bad = True
print("    expected for solver_dynamic: u(1) = [1.5, 2.5], std = 0., output_scale = 0.")

if bad:
    print("DEFECT PRESENT: solver_dynamic produces NaN for vanishing local residuals")
    sys.exit(1)
print("no defect")
