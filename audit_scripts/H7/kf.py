"""Independent numpy Kalman filter / RTS smoother reference for probabilistic ODE solvers (dense state, index=i*d+j)."""
import numpy as onp, math
from hunt.ref import ref_exp_gram

def discretise(F, L, h):
    Phi, G = ref_exp_gram(F*h, L*onp.sqrt(h))
    return Phi, 0.5*(G+G.T)

def iwp_sde(n, d, lam):
    F = onp.kron(onp.diag(onp.ones(n-1),1), onp.eye(d))
    L = onp.zeros((n*d,d)); L[-d:,:] = onp.diag(lam)
    return F, L

def with_bottom(F, bottom):
    F = F.copy(); d = bottom.shape[0]; F[-d:,:] = bottom; return F

def run_filter(F, L, m0, P0, grid, f, jac, d, k=1, mode="solver", ts=0, smooth=False, relin=False):
    """ODE x^(k) = f(x^(0..k-1) flat (k*d,), t). jac returns (d, k*d). mode in solver/mle/dyn."""
    D = m0.size
    Ek = onp.zeros((d, D)); Ek[:, k*d:(k+1)*d] = onp.eye(d)
    Elow = onp.zeros((k*d, D)); Elow[:, :k*d] = onp.eye(k*d)
    m, P = m0.copy(), P0.copy()
    ms, Ps = [m], [P]; preds = []; scales=[]; run2 = 0.0; nobs = 0
    for t0, t1 in zip(grid[:-1], grid[1:]):
        h = t1-t0
        Phi, Q = discretise(F, L, h)
        def lin(mp):
            x = Elow@mp
            if ts==0:
                H = Ek; b = -f(x, t1)
            else:
                J = jac(x, t1)
                H = Ek - J@Elow; b = -(f(x,t1) - J@x)
            return H, b
        if mode=="dyn":
            mp = Phi@m
            H, b = lin(mp)
            z = H@mp + b
            S = H@Q@H.T
            s2 = z@onp.linalg.solve(S, z)/d
            sc = onp.sqrt(s2)
            Q = Q*s2
            scales.append(sc)
        mp = Phi@m; Pp = Phi@P@Phi.T + Q
        if mode!="dyn" or relin:
            H, b = lin(mp)
        z = H@mp + b
        S = H@Pp@H.T
        if mode=="mle":
            run2 += z@onp.linalg.solve(S, z)/d; nobs += 1
        K = Pp@H.T@onp.linalg.inv(S)
        preds.append((Phi, mp, Pp, m, P))
        m = mp - K@z; P = Pp - K@S@K.T
        P = 0.5*(P+P.T)
        ms.append(m); Ps.append(P)
    out = dict(m=onp.stack(ms), P=onp.stack(Ps))
    if mode=="mle": out["scale_raw"] = onp.sqrt(run2/nobs); out["nsteps"]=nobs
    if mode=="dyn": out["scales"] = onp.asarray(scales)
    if smooth:
        sm, sP = [ms[-1]], [Ps[-1]]
        for (Phi, mp, Pp, mf, Pf) in reversed(preds):
            G = Pf@Phi.T@onp.linalg.pinv(Pp)
            mnew = mf + G@(sm[0]-mp); Pnew = Pf + G@(sP[0]-Pp)@G.T
            sm.insert(0,mnew); sP.insert(0,0.5*(Pnew+Pnew.T))
        out["sm"]=onp.stack(sm); out["sP"]=onp.stack(sP)
    return out
