import jax, jax.numpy as jnp, numpy as onp
from probdiffeq import probdiffeq as pdq, ivpsolve

SSMS = {"dense": pdq.state_space_model_dense, "iso": pdq.state_space_model_isotropic, "bd": pdq.state_space_model_blockdiag}
STRATS = {"filter": pdq.strategy_filter, "fp": pdq.strategy_smoother_fixedpoint, "fi": pdq.strategy_smoother_fixedinterval}
SOLVERS = {"solver": pdq.solver, "mle": pdq.solver_mle, "dyn": pdq.solver_dynamic}

def vf_lv(u, *, t):
    return jnp.stack([0.5*u[0]-0.05*u[0]*u[1]*4, -0.5*u[1]+0.05*u[0]*u[1]*4])
U0 = jnp.asarray([2.0, 1.5])

def base_scale(ssm_name, c, d=2):
    if ssm_name=="iso": return jnp.asarray(c)
    return c*jnp.ones((d,)) if jnp.ndim(c)==0 else jnp.asarray(c)

def setup(ssm_name, strat, solver_name, cons="ts0", num=3, c=None, prior_kind="iwp", vf=vf_lv, u0=U0, prior_kw=None, solver_kw=None, t0=0.0):
    ssm = SSMS[ssm_name]()
    ode = pdq.ode(vf, jacobian=pdq.jacobian_materialize())
    tcoeffs, _ = pdq.jetexpand_ode_padded_scan(num=num)(ode, (u0,), t=t0)
    kw = dict(prior_kw or {})
    if c is not None: kw["output_scale"] = c
    if prior_kind=="iwp":
        prior = ssm.prior_wiener_integrated(tcoeffs, **kw)
    elif prior_kind=="ioup":
        M = jnp.asarray([[-0.3,0.2],[0.1,-0.4]])
        prior = ssm.prior_ornstein_uhlenbeck_integrated(lambda x: M@x, tcoeffs, **kw)
    elif prior_kind=="matern":
        prior = ssm.prior_matern(1.3, tcoeffs, **kw)
    if cons=="ts0": constraint = ssm.constraint_ode_ts0(ode)
    else: constraint = ssm.constraint_ode_ts1(ode)
    solver = SOLVERS[solver_name](strategy=STRATS[strat](), constraint=constraint, **(solver_kw or {}))
    error = pdq.error_residual_std(constraint=constraint)
    return ssm, prior, solver, error
