"""Debug: posterior std of the highest derivative, isotropic/blockdiag TS1, K=n+1."""
import sys
from math import factorial
import jax, jax.numpy as jnp, numpy as onp
jax.config.update("jax_enable_x64", True)
from probdiffeq import probdiffeq as pdq
from probdiffeq.backend import linalg

d = 3


def f3(u, du, ddu, t):
    return jnp.stack([ddu[1] * u[2] - t * du[0], u[0] * ddu[2] + t * t * du[1], ddu[0] * du[1] * u[2] - t / 3])


n, K = 3, 4
rng = onp.random.default_rng(3)
M = rng.normal(size=(K, d))
ode = pdq.ode_order_arbitrary(lambda *a, t: f3(*a, t), num_tcoeffs_in_args=n, jacobian=pdq.jacobian_materialize())
for fact in ("isotropic", "blockdiag", "dense"):
    ssm = getattr(pdq, f"state_space_model_{fact}")()
    prior = ssm.prior_wiener_integrated([jnp.asarray(m) for m in M])
    cons = ssm.constraint_ode_ts1(ode)
    for dt in (0.3, 0.03, 0.003):
        tr = prior.transition(dt=dt, output_scale=jnp.ones_like(prior.init.prototype_output_scale_calibrated()))
        rv = tr.apply_flat(prior.init.mean_flat)
        lin, _ = cons.linearize(rv, cons.init_linearization(), damp=0.0, t=0.5)
        zeros = jax.tree.map(jnp.zeros_like, lin.noise.mean)
        osc, cond = lin.bayes_rule_and_residual_whitened_rms_tree(zeros, rv, solve_triu=linalg.solve_triu)
        std_lib = onp.asarray(jax.flatten_util.ravel_pytree(cond.std[K - 1])[0])
        # reference in long double
        LD = onp.longdouble
        q = K - 1
        Q = onp.zeros((K, K), dtype=LD)
        for i in range(K):
            for j in range(K):
                p = 2 * q + 1 - i - j
                Q[i, j] = LD(dt) ** p / (p * factorial(q - i) * factorial(q - j))
        if fact == "isotropic":
            h = onp.asarray(lin.A, dtype=LD)[0]
            s = h @ Q @ h
            P = Q - onp.outer(Q @ h, h @ Q) / s
            ref = onp.sqrt(P[K - 1, K - 1])
            print(fact, dt, "lib", std_lib, "ref(longdouble)", float(ref), "rel", float(abs(std_lib[0] - ref) / ref), " P_nn/Q_nn", float(P[K - 1, K - 1] / Q[K - 1, K - 1]))
        elif fact == "blockdiag":
            out = []
            for i in range(d):
                h = onp.asarray(lin.A, dtype=LD)[i, 0]
                s = h @ Q @ h
                P = Q - onp.outer(Q @ h, h @ Q) / s
                out.append(float(onp.sqrt(P[K - 1, K - 1])))
            print(fact, dt, "lib", std_lib, "ref", out, "rel", onp.abs(std_lib - out) / out)
        else:
            H = onp.asarray(lin.A, dtype=LD)
            Qf = onp.kron(Q, onp.eye(d, dtype=LD))
            S = H @ Qf @ H.T
            # solve in long double via Gaussian elimination
            Sinv = onp.array(onp.linalg.inv(S.astype(float)), dtype=LD)
            for _ in range(3):
                Sinv = Sinv + Sinv @ (onp.eye(d, dtype=LD) - S @ Sinv)
            P = Qf - Qf @ H.T @ Sinv @ H @ Qf
            out = onp.sqrt(onp.diag(P).astype(float)).reshape(K, d)[K - 1]
            print(fact, dt, "lib", std_lib, "ref", out, "rel", onp.abs(std_lib - out) / out)
