import sys
sys.path.insert(0, "/repo/hunt")
import jax, jax.numpy as jnp, numpy as onp
jax.config.update("jax_enable_x64", True)
from probdiffeq import probdiffeq as pdq


def f(u, *, t):
    return jnp.stack([u[1] * u[2] - t * u[0], 0.5 * u[0] ** 2 + t * t, u[0] * u[1] * u[2] - u[1] / 3 + t ** 3])


ode = pdq.ode(f)
u0 = jnp.asarray([0.5, -1 / 3, 2.0])
for num in (2, 4, 6, 8, 10):
    ref, _ = pdq.jetexpand_ode_unroll(num=num)(ode, [u0], t=0.75)
    res = pdq.residual_from_ode(ode).jet_lift(lift_by=num - 1)
    tc, info = pdq.jetexpand_residual(num=num)(res, [u0], t=0.75)
    err = max(float(jnp.max(jnp.abs(a - b) / (1 + jnp.abs(b)))) for a, b in zip(tc, ref))
    print(num, "iters", int(info["iters"]), "relerr", err, "|final c|", float(jnp.linalg.norm(info["final_constraint"])), "max|ref|", float(jnp.max(jnp.abs(ref[-1]))))
