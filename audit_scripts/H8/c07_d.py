"""error_residual_std with jet-lifted constraints: shape check in each factorisation."""
import jax, jax.numpy as jnp, numpy as onp
jax.config.update("jax_enable_x64", True)
from probdiffeq import probdiffeq as pdq


def run(fact, d, L, lin):
    def f(u, *, t):
        return -u * jnp.arange(1.0, d + 1.0) + jnp.sin(t)

    ode = pdq.ode(f, jacobian=pdq.jacobian_materialize())
    K = 2 + L + 1
    tc, _ = pdq.jetexpand_ode_unroll(num=K - 1)(ode, [jnp.linspace(1.0, 2.0, d)], t=0.0)
    ssm = getattr(pdq, f"state_space_model_{fact}")()
    prior = ssm.prior_wiener_integrated(tc)
    lifted = ode.jet_lift(lift_by=L)
    cons = ssm.constraint_ode_ts0(lifted) if lin == "ts0" else ssm.constraint_ode_ts1(lifted)
    solver = pdq.solver(strategy=pdq.strategy_filter(), constraint=cons)
    s0 = solver.init(t=jnp.asarray(0.0), u=prior, damp=0.0)
    s1 = solver.step(state=s0, dt=0.1, damp=0.0)
    E = pdq.error_residual_std(constraint=cons)
    try:
        val, _ = E.estimate_error_norm(E.init_error(), s0, s1, dt=0.1, atol=1e-4, rtol=1e-4, damp=0.0)
        return f"ACCEPTED -> {float(val):.6g}"
    except ValueError as e:
        return "ValueError: " + str(e)[:70]


for fact in ("dense", "blockdiag", "isotropic"):
    for d, L in ((2, 1), (3, 1), (3, 2), (4, 2), (2, 2)):
        print(fact, f"d={d} lift_by={L} (L+1 {'==' if L + 1 == d else '!='} d):", run(fact, d, L, "ts0"))
