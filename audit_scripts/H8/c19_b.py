import jax, jax.numpy as jnp, numpy as onp
jax.config.update("jax_enable_x64", True)
from probdiffeq import probdiffeq as pdq

rng = onp.random.default_rng(1)
bad = 0
for trial in range(150):
    D = int(rng.integers(2, 11)); k = int(rng.integers(1, D))
    J = rng.normal(size=(k, D)); b = rng.normal(size=k)
    T = rng.normal(size=(k, D, D)) * 0.05
    m = rng.normal(size=D)
    L = rng.normal(size=(D, D))
    if trial % 3 == 1:
        r = int(rng.integers(k, D + 1)); L = rng.normal(size=(D, r)) @ rng.normal(size=(r, D)) / onp.sqrt(r)
    if trial % 3 == 2:
        L = onp.diag(10 ** rng.uniform(-3, 1, size=D))
    con = lambda x: jnp.asarray(J) @ x + jnp.asarray(b) + jnp.einsum("kij,i,j->k", jnp.asarray(T), x, x)
    tol = float(10 ** rng.uniform(-12, -4)); maxiter = int(rng.integers(1, 51))
    x, info = pdq.lstsq_constrained_gauss_newton(maxiter=maxiter, tol=tol)(con, jnp.asarray(m), jnp.asarray(m), jnp.asarray(L))
    x = onp.asarray(x); it = int(info["iters"])
    c = onp.asarray(con(jnp.asarray(x))); dx = onp.asarray(info["final_increment"])
    rms_c = onp.linalg.norm(c) / onp.sqrt(k); rms_dx = onp.linalg.norm(dx) / onp.sqrt(D)
    truthful = onp.max(onp.abs(c - onp.asarray(info["final_constraint"])))
    Jx = onp.asarray(jax.jacfwd(con)(jnp.asarray(x)))
    B = L @ L.T @ Jx.T
    coef, *_ = onp.linalg.lstsq(B, x - m, rcond=None)
    opt = onp.linalg.norm(B @ coef - (x - m))
    ok_term = (rms_c <= tol) or (it == maxiter) or (rms_dx <= tol)
    # optimality up to size of last increment: allow constant 10*|dx|*|x-m| relative + rounding
    ok_opt = opt <= 10 * onp.linalg.norm(dx) * (1 + onp.linalg.norm(x - m)) + 1e-9
    if not (ok_term and ok_opt and truthful < 1e-12) or not onp.all(onp.isfinite(x)):
        bad += 1
        print(f"trial {trial} D={D} k={k} it={it}/{maxiter} tol={tol:.1e} rms_c={rms_c:.2e} rms_dx={rms_dx:.2e} opt={opt:.2e} truthful={truthful:.1e}")
    elif it < maxiter and rms_c > tol:
        print(f"  note: trial {trial} stalled: it={it}/{maxiter} rms_c={rms_c:.2e} > tol={tol:.1e} rms_dx={rms_dx:.2e}")
print("bad", bad)
