import sys, traceback
import jax, jax.numpy as jnp, numpy as onp
jax.config.update("jax_enable_x64", True)
from probdiffeq import probdiffeq as pdq


@pdq.residual_velocity
def diff(u, du, *, t):
    return du - u ** 2 * t


@pdq.residual_position
def alg(u, *, t):
    return jnp.sum(u ** 2, keepdims=True) - t


jc = [jnp.array([1.0, 2.0]), jnp.array([0.5, -1.0]), jnp.array([0.3, 0.2]), jnp.array([0.1, 0.7]), jnp.array([-1.0, 0.4])]
t = 0.5


def tryit(name, fn):
    try:
        out = fn()
        print(name, "OK ->", jax.tree.map(lambda x: onp.round(onp.asarray(x), 4).tolist(), out))
    except Exception as e:
        print(name, "EXC", type(e).__name__, str(e)[:200])


# 1. stack of unlifted
st = pdq.residual_from_stack(diff, alg)
print("stack nargs", st.num_tcoeffs_in_args)
tryit("stack eval", lambda: st.residual_function(jet_coords=jc[:2], t=t))
# 2. lift the stack
tryit("stack.jet_lift(0)", lambda: st.jet_lift(lift_by=0).residual_function(jet_coords=jc[:2], t=t))
tryit("stack.jet_lift(1)", lambda: st.jet_lift(lift_by=1).residual_function(jet_coords=jc[:3], t=t))
tryit("stack.jet_lift_max(4)", lambda: st.jet_lift_max(num_tcoeffs=4).residual_function(jet_coords=jc[:4], t=t))
# single-element stack lifted
st1 = pdq.residual_from_stack(diff)
tryit("stack1.jet_lift(1)", lambda: st1.jet_lift(lift_by=1).residual_function(jet_coords=jc[:3], t=t))
tryit("diff.jet_lift(1)", lambda: diff.jet_lift(lift_by=1).residual_function(jet_coords=jc[:3], t=t))
# 3. lift then stack
st2 = pdq.residual_from_stack(diff.jet_lift(lift_by=1), alg.jet_lift(lift_by=2))
print("st2 nargs", st2.num_tcoeffs_in_args)
tryit("lift-then-stack", lambda: st2.residual_function(jet_coords=jc[:3], t=t))
# with more coords supplied than needed
tryit("lift-then-stack(5 coords)", lambda: st2.residual_function(jet_coords=jc[:5], t=t))
# 4. double lift
tryit("diff.lift(1).lift(0)", lambda: diff.jet_lift(lift_by=1).jet_lift(lift_by=0).residual_function(jet_coords=jc[:3], t=t))
tryit("diff.lift(1).lift(1)", lambda: diff.jet_lift(lift_by=1).jet_lift(lift_by=1).residual_function(jet_coords=jc[:4], t=t))
# 5. integer time
tryit("diff.lift(2) int t", lambda: diff.jet_lift(lift_by=2).residual_function(jet_coords=jc[:4], t=1))
tryit("diff.lift(2) float t=1.", lambda: diff.jet_lift(lift_by=2).residual_function(jet_coords=jc[:4], t=1.0))
# 6. bool / numpy int lift_by
tryit("lift_by=True", lambda: diff.jet_lift(lift_by=True).residual_function(jet_coords=jc[:3], t=t))
tryit("lift_by=np.int64(1)", lambda: diff.jet_lift(lift_by=onp.int64(1)).residual_function(jet_coords=jc[:3], t=t))
tryit("lift_by=1.0", lambda: diff.jet_lift(lift_by=1.0).residual_function(jet_coords=jc[:3], t=t))
# 7. too few coords for unlifted
tryit("diff with 1 coord lift 0", lambda: diff.jet_lift(lift_by=0).residual_function(jet_coords=jc[:1], t=t))
# 8. under jit with traced t
tryit("jit", lambda: jax.jit(lambda tt: diff.jet_lift(lift_by=2).residual_function(jet_coords=jc[:4], t=tt))(0.5))

# ODE
@pdq.ode_order_two
def vf(u, du, *, t):
    return -u * t + du ** 2


tryit("ode.jet_lift_max(num_tcoeffs=2)", lambda: vf.jet_lift_max(num_tcoeffs=2))
tryit("ode.jet_lift_max(num_tcoeffs=2) call", lambda: vf.jet_lift_max(num_tcoeffs=2).vector_field(jet_coords=jc[:2], t=t))
tryit("ode.jet_lift(-1) attrs", lambda: (vf.jet_lift(lift_by=-1).num_tcoeffs_in_args, vf.jet_lift(lift_by=-1).tcoeff_indices_output))
tryit("ode lifted twice", lambda: vf.jet_lift(lift_by=1).jet_lift(lift_by=1))
tryit("ode lifted(0) twice", lambda: vf.jet_lift(lift_by=0).jet_lift(lift_by=1).tcoeff_indices_output)
