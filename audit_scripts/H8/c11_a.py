import sys
sys.path.insert(0, "/repo/hunt")
import jax, jax.numpy as jnp, numpy as onp
jax.config.update("jax_enable_x64", True)
from probdiffeq import probdiffeq as pdq
from fractions import Fraction as Fr
from math import factorial
from ref_series import S
import random

random.seed(1)
d = 3


def to_tree(v):
    return {"a": v[0], "b": (jnp.stack([v[1], v[2]]),)}


def from_tree(p):
    return [p["a"], p["b"][0][0], p["b"][0][1]]


def half(x):
    return x * 0.5 if not isinstance(x, S) else x * Fr(1, 2)


# residuals of differential order 0, 1, 2 with explicit t
def r0(u, t):
    return [u[0] * u[1] - t * u[2], u[2] ** 3 + t * t, u[0] - u[1] * t]


def r1(u, du, t):
    return [du[0] * u[1] - t * u[2], du[2] ** 2 * u[0] + t * t * du[1], u[0] - du[1] * t * u[2]]


def r2(u, du, ddu, t):
    return [ddu[0] * u[1] - t * du[2], ddu[2] ** 2 * u[0] + t * t * du[1], u[0] * ddu[1] - du[1] * t * u[2] + t ** 3]


def ref_lift(r, nargs, coeffs, t0, m):
    """coeffs: list of K lists of d Fractions (unnormalised derivatives). Return 0..m total derivatives of r along curve."""
    N = len(coeffs) - 1
    us = [S([coeffs[k][i] / factorial(k) for k in range(N + 1)], N) for i in range(d)]
    args = []
    cur = us
    for _ in range(nargs):
        args.append(cur)
        cur = [x.deriv() for x in cur]
    out = r(*args, S([t0, 1], N))
    return [[out[i].c[k] * factorial(k) for i in range(d)] for k in range(m + 1)]


def rand_coeffs(K):
    return [[Fr(random.randint(-6, 6), random.randint(1, 4)) for _ in range(d)] for _ in range(K)]


bad = 0
t0 = Fr(2, 3)
for pytree in (False, True):
    for (r, nargs, ctor) in ((r0, 1, pdq.residual_position), (r1, 2, pdq.residual_velocity), (r2, 3, pdq.residual_acceleration)):
        if pytree:
            def fun(*a, t, r=r):
                return to_tree(r(*[from_tree(x) for x in a], t))
        else:
            def fun(*a, t, r=r):
                return jnp.stack(r(*[list(x) for x in a], t))
        res = ctor(fun)
        for m in range(0, 6):
            for extra in (0, 2):  # supply more coefficients than needed
                K = nargs + m + extra
                cf = rand_coeffs(K)
                # NOTE: reference must only use first nargs+m coeffs; truncated series of order N=K-1
                # total derivative k<=m of r depends on u^(j), j<=nargs-1+k <= nargs+m-1. OK.
                ref = ref_lift(r, nargs, cf, t0, m)
                ref = onp.array([[float(x) for x in row] for row in ref])
                if pytree:
                    jc = [to_tree([jnp.asarray(float(x)) for x in c]) for c in cf]
                else:
                    jc = [jnp.asarray([float(x) for x in c]) for c in cf]
                lifted = res.jet_lift(lift_by=m)
                out = lifted.residual_function(jet_coords=jc, t=float(t0))
                assert len(out) == m + 1, (len(out), m)
                if pytree:
                    got = onp.array([[float(x) for x in from_tree(o)] for o in out])
                else:
                    got = onp.array(out)
                err = onp.max(onp.abs(got - ref) / (1 + onp.abs(ref)))
                if err > 1e-10:
                    bad += 1
                    print("MISMATCH", pytree, nargs, m, extra, err)
                # jet_lift_max
                lm = res.jet_lift_max(num_tcoeffs=K - extra)
                out2 = lm.residual_function(jet_coords=jc[: K - extra], t=float(t0))
                assert len(out2) == m + 1
            # inadmissible: lift_by too large for supplied
            K = nargs + m
            cf = rand_coeffs(K)
            jc = [jnp.asarray([float(x) for x in c]) for c in cf] if not pytree else [to_tree([jnp.asarray(float(x)) for x in c]) for c in cf]
            for lb in (m + 1, m + 3, -1):
                try:
                    o = res.jet_lift(lift_by=lb).residual_function(jet_coords=jc, t=float(t0))
                    print("ACCEPTED inadmissible lift_by", lb, "with", K, "coeffs nargs", nargs, "-> len", len(o)); bad += 1
                except ValueError as e:
                    pass
print("residual lifting bad:", bad)

# ODE lifting
def f1(u, t):
    return [u[1] * u[2] - t * u[0], half(u[0] ** 2) + t * t, u[0] * u[1] * u[2] + t ** 3]


def f2(u, du, t):
    return [du[1] * u[2] - t * u[0] + du[0] ** 2, half(u[0] ** 2 * du[2]) + t * t, u[0] * du[1] * u[2] + t]


for pytree in (False, True):
    for (f, n) in ((f1, 1), (f2, 2), (r2, 3)):
        if pytree:
            def fun(*a, t, f=f):
                return to_tree(f(*[from_tree(x) for x in a], t))
        else:
            def fun(*a, t, f=f):
                return jnp.stack(f(*[list(x) for x in a], t))
        ode = {1: pdq.ode, 2: pdq.ode_order_two}.get(n, lambda g: pdq.ode_order_arbitrary(g, num_tcoeffs_in_args=3))(fun)
        for m in range(0, 5):
            K = n + m + 1
            cf = rand_coeffs(K)
            ref = onp.array([[float(x) for x in row] for row in ref_lift(f, n, cf, t0, m)])
            jc = [jnp.asarray([float(x) for x in c]) for c in cf] if not pytree else [to_tree([jnp.asarray(float(x)) for x in c]) for c in cf]
            lifted = ode.jet_lift(lift_by=m)
            assert lifted.num_tcoeffs_in_args == n + m and lifted.tcoeff_indices_output == list(range(n, n + m + 1)), (lifted.num_tcoeffs_in_args, lifted.tcoeff_indices_output)
            out = lifted.vector_field(jet_coords=jc[: n + m], t=float(t0))
            got = onp.array(out) if not pytree else onp.array([[float(x) for x in from_tree(o)] for o in out])
            err = onp.max(onp.abs(got - ref) / (1 + onp.abs(ref)))
            if err > 1e-10:
                print("ODE MISMATCH", pytree, n, m, err)
            lm = ode.jet_lift_max(num_tcoeffs=K)
            assert lm.tcoeff_indices_output == lifted.tcoeff_indices_output
            # residual from lifted ode
            rr = pdq.residual_from_ode(lifted)
            o = rr.residual_function(jet_coords=jc, t=float(t0))
            got = onp.array(o) if not pytree else onp.array([[float(x) for x in from_tree(oo)] for oo in o])
            cfa = onp.array([[float(x) for x in c] for c in cf])
            err = onp.max(onp.abs(got - (cfa[n:] - ref)))
            if err > 1e-9:
                print("ODE-residual MISMATCH", pytree, n, m, err)
print("ode lifting done")
