import sys
import jax, jax.numpy as jnp, numpy as onp
jax.config.update("jax_enable_x64", True)
from probdiffeq import probdiffeq as pdq


def f(u, *, t):
    return jnp.stack([u[1] * u[0] - t * u[0], 0.5 * u[0] ** 2 + t * t])


def g(u, du, *, t):
    return jnp.stack([du[1] * u[0] - t * u[0], 0.5 * u[0] ** 2 * du[0] + t * t])


ode1 = pdq.ode(f)
ode2 = pdq.ode_order_two(g)
ref1, _ = pdq.jetexpand_ode_unroll(num=3)(ode1, [jnp.asarray([1.0, 2.0])], t=1.0)
ref2, _ = pdq.jetexpand_ode_unroll(num=3)(ode2, [jnp.asarray([1.0, 2.0]), jnp.asarray([3.0, -1.0])], t=1.0)
print("ref1", [onp.asarray(r).tolist() for r in ref1])


def run(name, alg, ode, inits, t, ref):
    try:
        tc, _ = alg(ode, inits, t=t)
        err = max(float(jnp.max(jnp.abs(jnp.asarray(a, dtype=float) - b))) for a, b in zip(tc, ref))
        print(f"{name:28s} dtypes={[str(jnp.asarray(c).dtype) for c in tc]} maxerr={err:.2e}", "<<<<" if err > 1e-9 or len(tc) != len(ref) else "")
    except Exception as e:
        print(f"{name:28s} EXC {type(e).__name__}: {str(e)[:140]}")


algs = {"scan": pdq.jetexpand_ode_padded_scan(num=3), "unroll": pdq.jetexpand_ode_unroll(num=3), "jvp": pdq.jetexpand_ode_via_jvp(num=3)}
for tname, t in (("t=1 (int)", 1), ("t=1.0", 1.0), ("t=jnp int", jnp.asarray(1))):
    for iname, i1, i2 in (("float inits", [jnp.asarray([1.0, 2.0])], [jnp.asarray([1.0, 2.0]), jnp.asarray([3.0, -1.0])]),
                          ("int inits", [jnp.asarray([1, 2])], [jnp.asarray([1, 2]), jnp.asarray([3, -1])]),
                          ("list inits", [[1.0, 2.0]], [[1.0, 2.0], [3.0, -1.0]])):
        for an, alg in algs.items():
            run(f"o1 {an} {tname} {iname}", alg, ode1, i1, t, ref1)
            run(f"o2 {an} {tname} {iname}", alg, ode2, i2, t, ref2)
        run(f"o1 doubling {tname} {iname}", pdq.jetexpand_ode_doubling_unroll(num_doublings=1), ode1, i1, t, ref1[:3])
        r1 = pdq.residual_from_ode(ode1).jet_lift(lift_by=2)
        r2 = pdq.residual_from_ode(ode2).jet_lift(lift_by=2)
        run(f"o1 residual {tname} {iname}", pdq.jetexpand_residual(num=3), r1, i1, t, ref1)
        run(f"o2 residual {tname} {iname}", pdq.jetexpand_residual(num=3), r2, i2, t, ref2)
