"""[C07] error_residual_std silently accepts a jet-lifted ODE constraint in the isotropic model when lift_by + 1 == d.

error_residual_std refuses jet-lifted ("jet-extended") constraints: the residual then has (lift_by+1) parts and the
estimator raises 'The error-estimate and reference have different shapes ... e.g., DAEs or jet-extended ODEs'.
This happens for the dense and block-diagonal models for every (d, lift_by), and for the isotropic model whenever
lift_by + 1 != d.  If lift_by + 1 == d, however, the isotropic model's residual standard deviation has shape
(lift_by+1,) == (d,), the shape check `error.shape not in [(1,), reference.shape]` passes by coincidence, and the
std of the l-th time-derivative of the residual is divided by the tolerance scale atol + rtol*|u_l| of the l-th STATE
COMPONENT.  The acceptance quantity is then not the documented tolerance-weighted RMS norm of the residual std
referenced to max(|u_prev|, |u_new|): it changes when the state components are permuted, although the isotropic
residual std is permutation invariant.
"""
import sys
import jax, jax.numpy as jnp, numpy as onp

jax.config.update("jax_enable_x64", True)
import probdiffeq
from probdiffeq import probdiffeq as pdq

print("using", probdiffeq.__file__)


def acceptance(fact, u0, rates, lift_by, atol, rtol):
    d = len(u0)

    def f(u, *, t):
        return -rates * u  # decoupled linear ODE: the isotropic model is exact for it

    ode = pdq.ode(f, jacobian=pdq.jacobian_materialize())
    K = 2 + lift_by + 1
    tc, _ = pdq.jetexpand_ode_unroll(num=K - 1)(ode, [u0], t=0.0)
    ssm = getattr(pdq, f"state_space_model_{fact}")()
    prior = ssm.prior_wiener_integrated(tc)
    cons = ssm.constraint_ode_ts0(ode.jet_lift(lift_by=lift_by))
    solver = pdq.solver(strategy=pdq.strategy_filter(), constraint=cons)
    s0 = solver.init(t=jnp.asarray(0.0), u=prior, damp=0.0)
    s1 = solver.step(state=s0, dt=0.1, damp=0.0)
    E = pdq.error_residual_std(constraint=cons)
    val, _ = E.estimate_error_norm(E.init_error(), s0, s1, dt=0.1, atol=atol, rtol=rtol, damp=0.0)
    return float(val)


defect = False
print("Expected: ValueError for every jet-lifted constraint (as documented in the error message).")
for fact in ("dense", "blockdiag", "isotropic"):
    for d, L in ((2, 1), (3, 1), (3, 2), (4, 2)):
        u0 = jnp.linspace(1.0, 2.0, d)
        rates = jnp.ones(d)
        try:
            v = acceptance(fact, u0, rates, L, 1e-4, 1e-4)
            print(f"  {fact:9s} d={d} lift_by={L}: ACCEPTED, acceptance quantity = {v:.6g}   <-- no error raised")
            defect = True
        except ValueError as e:
            print(f"  {fact:9s} d={d} lift_by={L}: ValueError ({str(e)[:62]}...)")

# The accepted value pairs residual-derivative index with state-component index:
# permuting the state components of a decoupled, identical-rate problem must not change
# an RMS norm over state components -- but it does.
u0 = jnp.asarray([1.0, 1000.0])
rates = jnp.asarray([1.0, 1.0])
try:
    a = acceptance("isotropic", u0, rates, 1, 1e-10, 1e-3)
    b = acceptance("isotropic", u0[::-1], rates[::-1], 1, 1e-10, 1e-3)
    print(f"isotropic d=2 lift_by=1, u0=[1,1000]: {a:.6g};  same problem with components swapped: {b:.6g}")
    print("Expected: identical values (RMS over components is permutation invariant). Observed ratio:", a / b)
    if abs(a / b - 1) > 1e-6:
        defect = True
except ValueError:
    pass

sys.exit(1 if defect else 0)
