"""Independent reference: exact Taylor coefficients of ODE solutions via truncated power series over Fractions."""
from fractions import Fraction as Fr
from math import factorial


class S:
    """Truncated power series sum_k c[k] s^k (normalised), s = t - t0."""

    def __init__(self, c, N):
        c = [Fr(x) for x in c][: N + 1]
        self.c = c + [Fr(0)] * (N + 1 - len(c))
        self.N = N

    def _lift(self, o):
        return o if isinstance(o, S) else S([o], self.N)

    def __add__(self, o):
        o = self._lift(o)
        return S([a + b for a, b in zip(self.c, o.c)], self.N)

    __radd__ = __add__

    def __neg__(self):
        return S([-a for a in self.c], self.N)

    def __sub__(self, o):
        return self + (-self._lift(o))

    def __rsub__(self, o):
        return self._lift(o) - self

    def __mul__(self, o):
        o = self._lift(o)
        out = [Fr(0)] * (self.N + 1)
        for i, a in enumerate(self.c):
            if a == 0:
                continue
            for j, b in enumerate(o.c):
                if i + j > self.N:
                    break
                out[i + j] += a * b
        return S(out, self.N)

    __rmul__ = __mul__

    def __pow__(self, n):
        out = S([1], self.N)
        for _ in range(n):
            out = out * self
        return out

    def deriv(self):
        return S([(k + 1) * self.c[k + 1] for k in range(self.N)] + [Fr(0)], self.N)


def solve(f, inits, t0, K):
    """Exact derivatives u, u', ..., u^(K) at t0 for u^(n) = f(u, ..., u^(n-1), t).

    f takes lists of S (one list per positional argument, each of length d) and t (an S)
    and returns a list of d S's. inits: list of n lists of d rationals.
    Returns list of K+1 lists (unnormalised derivatives).
    """
    n = len(inits)
    d = len(inits[0])
    N = K
    # normalised coeffs
    c = [[Fr(inits[k][i]) / factorial(k) for k in range(n)] for i in range(d)]
    tS = S([t0, 1], N)
    while len(c[0]) < K + 1:
        m = len(c[0])  # next coefficient index to find
        us = [S(c[i], N) for i in range(d)]
        args = []
        cur = us
        for _ in range(n):
            args.append(cur)
            cur = [x.deriv() for x in cur]
        fx = f(*args, tS)
        # u^(n) = fx -> coefficient (m-n) of fx = (m)!/(m-n)! c_m
        for i in range(d):
            num = fx[i].c[m - n]
            fac = Fr(factorial(m), factorial(m - n))
            c[i].append(num / fac)
    return [[c[i][k] * factorial(k) for i in range(d)] for k in range(K + 1)]


if __name__ == "__main__":
    # u' = u, u(0)=1
    print(solve(lambda u, t: [u[0]], [[1]], 0, 4))
    # u'' = -u, u(0)=0,u'(0)=1 -> 0,1,0,-1,0,1
    print(solve(lambda u, du, t: [-u[0]], [[0], [1]], 0, 5))
    # u' = t, u(1)=0 -> 0,1,1,0
    print(solve(lambda u, t: [t], [[0]], 1, 3))
