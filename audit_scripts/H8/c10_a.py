import sys, traceback
sys.path.insert(0, "/repo/hunt")
import jax, jax.numpy as jnp, numpy as onp
jax.config.update("jax_enable_x64", True)
import probdiffeq
from probdiffeq import probdiffeq as pdq
from fractions import Fraction as Fr
from ref_series import solve
print(probdiffeq.__file__)


# polynomial fields on 3 components (generic ops)
def f1(u, t):
    return [u[1] * u[2] - t * u[0], Fr(1, 2) * u[0] ** 2 + t * t, u[0] * u[1] * u[2] - Fr(1, 3) * u[1] + t ** 3]


def f2(u, du, t):
    return [du[1] * u[2] - t * u[0] + du[0] ** 2, Fr(1, 2) * u[0] ** 2 * du[2] + t * t, u[0] * du[1] * u[2] - Fr(1, 3) * du[1] + t]


def f3(u, du, ddu, t):
    return [ddu[1] * u[2] - t * du[0], u[0] * ddu[2] + t * t * du[1], ddu[0] * du[1] * u[2] - Fr(1, 3) * t]


def tofl(x):
    return x if not isinstance(x, Fr) else float(x)


class FlWrap:
    pass


def to_tree(v):  # list of 3 -> pytree
    return {"a": v[0], "b": (jnp.stack([v[1], v[2]]),)}


def from_tree(p):
    return [p["a"], p["b"][0][0], p["b"][0][1]]


def mk_jax(f):
    # replace Fractions by floats: wrap via python operations; Fractions * jnp fails so convert
    import re, inspect
    def g(*args_and_t):
        *args, t = args_and_t
        return f(*args, t)
    return g


# Fraction * tracer fails -> patch Fraction constants by evaluating f with floats:
class FF(float):
    pass

import ref_series
def run(f, n, inits_fr, t0, K, pytree):
    ref = solve(f, inits_fr, t0, K)
    ref = onp.array([[float(x) for x in r] for r in ref])
    # float version of f: monkeypatch Fr in this module's globals
    g = globals()
    def f_float(*a):
        old = g["Fr"]
        g["Fr"] = lambda p, q=1: p / q
        try:
            return f(*a)
        finally:
            g["Fr"] = old

    if pytree:
        def vf(*args, t):
            out = f_float(*[from_tree(a) for a in args], t)
            return to_tree(out)
        inits = [to_tree([jnp.asarray(float(x)) for x in i]) for i in inits_fr]
    else:
        def vf(*args, t):
            return jnp.stack(f_float(*[list(a) for a in args], t))
        inits = [jnp.asarray([float(x) for x in i]) for i in inits_fr]
    if n == 1:
        ode = pdq.ode(vf)
    elif n == 2:
        ode = pdq.ode_order_two(vf)
    else:
        ode = pdq.ode_order_arbitrary(vf, num_tcoeffs_in_args=n)
    num = K - n + 1
    algs = {"scan": pdq.jetexpand_ode_padded_scan(num=num), "unroll": pdq.jetexpand_ode_unroll(num=num), "jvp": pdq.jetexpand_ode_via_jvp(num=num)}
    if n == 1 and K in (2, 6):
        algs["doubling"] = pdq.jetexpand_ode_doubling_unroll(num_doublings={2: 1, 6: 2}[K])
    res = pdq.residual_from_ode(ode)
    algs["residual"] = pdq.jetexpand_residual(num=num)
    for name, alg in algs.items():
        try:
            if name == "residual":
                tc, info = alg(res.jet_lift(lift_by=num - 1) if num > 1 else res, inits, t=float(t0))
            else:
                tc, info = alg(ode, inits, t=float(t0))
            if pytree:
                arr = onp.array([[float(x) for x in from_tree(c)] for c in tc])
            else:
                arr = onp.array(tc)
            err = onp.max(onp.abs(arr - ref) / (1 + onp.abs(ref)))
            flag = "" if err < 1e-8 else "  <<<<<<<< MISMATCH"
            print(f"n={n} K={K} pytree={pytree} {name:9s} len={len(tc)} relerr={err:.2e}{flag}")
            if flag:
                print(" ref", ref[-3:]); print(" got", arr[-3:])
        except Exception as e:
            print(f"n={n} K={K} pytree={pytree} {name:9s} EXC {type(e).__name__}: {str(e)[:150]}")


i1 = [[Fr(1, 2), Fr(-1, 3), Fr(2)]]
i2 = i1 + [[Fr(1), Fr(1, 4), Fr(-1, 2)]]
i3 = i2 + [[Fr(0), Fr(1, 5), Fr(1)]]
t0 = Fr(3, 4)
only = sys.argv[1:]
for pytree in (False, True):
    for (f, n, ini) in ((f1, 1, i1), (f2, 2, i2), (f3, 3, i3)):
        for K in (n - 1, n, n + 1, 6):
            run(f, n, ini, t0, K, pytree)
