"""Linearised constraints: value + Jacobian in dense / blockdiag / isotropic / matfree for lifted residuals of higher-order ODEs with pytree states."""
import sys
import jax, jax.numpy as jnp, numpy as onp
jax.config.update("jax_enable_x64", True)
from probdiffeq import probdiffeq as pdq

d = 3


def to_tree(v):
    return {"a": v[0], "b": (jnp.stack([v[1], v[2]]),)}


def from_tree(p):
    return jnp.stack([p["a"], p["b"][0][0], p["b"][0][1]])


def f2(u, du, t):
    return jnp.stack([du[1] * u[2] - t * u[0] + du[0] ** 2, 0.5 * u[0] ** 2 * du[2] + t * t, u[0] * du[1] * u[2] + t])


def f3(u, du, ddu, t):
    return jnp.stack([ddu[1] * u[2] - t * du[0], u[0] * ddu[2] + t * t * du[1], ddu[0] * du[1] * u[2] - t / 3])


rng = onp.random.default_rng(0)
t = 0.7
jac = pdq.jacobian_materialize()
for pytree in (False, True):
    for (f, n) in ((f2, 2), (f3, 3)):
        if pytree:
            fun = lambda *a, t, f=f: to_tree(f(*[from_tree(x) for x in a], t))
        else:
            fun = lambda *a, t, f=f: f(*a, t)
        ode = pdq.ode_order_arbitrary(fun, num_tcoeffs_in_args=n, jacobian=jac)
        for L in (0, 1, 2):
            for extra in (0, 1):
                K = n + 1 + L + extra
                X = rng.normal(size=(K, d))
                tc = [jnp.asarray(x) for x in X] if not pytree else [to_tree(list(jnp.asarray(x))) for x in X]
                lifted = ode.jet_lift(lift_by=L)
                res = pdq.residual_from_ode(lifted)

                # independent reference of residual as function of (K,d) array
                def rfun(Xa):
                    tcs = [Xa[k] for k in range(K)] if not pytree else [to_tree(list(Xa[k])) for k in range(K)]
                    out = res.residual_function(jet_coords=tcs[: n + L + 1], t=t)
                    return jnp.stack([o if not pytree else from_tree(o) for o in out])  # (L+1, d)

                r0 = onp.asarray(rfun(jnp.asarray(X)))
                # finite-difference Jacobian (polynomial degree<=3: central FD with h=1e-4 has error O(h^2)~1e-8)
                h = 1e-4
                Jfd = onp.zeros((L + 1, d, K, d))
                for k in range(K):
                    for i in range(d):
                        E = onp.zeros((K, d)); E[k, i] = h
                        Jfd[:, :, k, i] = (onp.asarray(rfun(jnp.asarray(X + E))) - onp.asarray(rfun(jnp.asarray(X - E)))) / (2 * h)

                for name in ("dense", "blockdiag", "isotropic", "matfree"):
                    try:
                        if name == "matfree":
                            ssm = pdq.state_space_model_matfree(key=jax.random.PRNGKey(1), num_ensembles=K + 3)
                        else:
                            ssm = getattr(pdq, f"state_space_model_{name}")()
                        prior = ssm.prior_wiener_integrated(tc, is_exact=False, inexact_eps=0.1)
                        rv = prior.init
                        cons = ssm.constraint_ode_ts1(lifted)
                        st = cons.init_linearization()
                        cond, _ = cons.linearize(rv, st, damp=0.0, t=t)
                        if name == "dense":
                            A = onp.asarray(cond.A).reshape(L + 1, d, K, d)
                            b = onp.asarray(cond.noise.mean_flat).reshape(L + 1, d)
                            val = onp.einsum("ldki,ki->ld", A, X) + b
                            eJ = onp.max(onp.abs(A - Jfd)); eV = onp.max(onp.abs(val - r0))
                        elif name == "blockdiag":
                            A = onp.asarray(cond.A)  # (d, L+1, K)
                            b = onp.asarray(cond.noise.mean_flat)  # (d, L+1)
                            Jref = onp.einsum("liki->ilk", Jfd)
                            val = onp.einsum("ilk,ki->il", A, X) + b
                            eJ = onp.max(onp.abs(A - Jref)); eV = onp.max(onp.abs(val.T - r0))
                        elif name == "isotropic":
                            A = onp.asarray(cond.A)  # (L+1, K)
                            b = onp.asarray(cond.noise.mean_flat)  # (L+1, d)
                            Jref = onp.einsum("liki->lk", Jfd) / d
                            val = A @ X + b
                            eJ = onp.max(onp.abs(A - Jref)); eV = onp.max(onp.abs(val - r0))
                        else:
                            # matfree: mean of marginal must be r0; linop is full jacobian
                            b = onp.asarray(cond.noise.mean_flat)
                            Am, _ = cond.A.matvec_nd(jnp.asarray(X), jvp_cached=None)
                            val = onp.asarray(Am).reshape(-1) + b.reshape(-1)
                            eV = onp.max(onp.abs(val.reshape(-1) - r0.reshape(-1)))
                            V = rng.normal(size=(K, d))
                            Av, _ = cond.A.matvec_nd(jnp.asarray(V), jvp_cached=None)
                            eJ = onp.max(onp.abs(onp.asarray(Av).reshape(-1) - onp.einsum("ldki,ki->ld", Jfd, V).reshape(-1)))
                        flag = "" if (eJ < 1e-6 and eV < 1e-10) else "   <<<<<<"
                        if flag or (L == 2 and extra == 1):
                            print(f"pytree={pytree} n={n} L={L} extra={extra} {name:9s} errJ={eJ:.1e} errV={eV:.1e}{flag}")
                    except Exception as e:
                        print(f"pytree={pytree} n={n} L={L} extra={extra} {name:9s} EXC {type(e).__name__}: {str(e)[:160]}")
