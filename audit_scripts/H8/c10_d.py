import jax, jax.numpy as jnp, numpy as onp
jax.config.update("jax_enable_x64", True)
from probdiffeq import probdiffeq as pdq


def f(u, *, t):
    return {"a": u["b"][0][0] * u["b"][0][1] - t * u["a"], "b": (jnp.stack([0.5 * u["a"] ** 2 + t * t, u["a"] * u["b"][0][0] - u["b"][0][1] / 3 + t ** 3]),)}


ode = pdq.ode(f)
u0 = {"a": jnp.asarray(0.5), "b": (jnp.asarray([-1 / 3, 0.2]),)}
for nd in (0, 1, 2, 3):
    tc, _ = pdq.jetexpand_ode_doubling_unroll(num_doublings=nd)(ode, [u0], t=0.75)
    K = len(tc)
    ref, _ = pdq.jetexpand_ode_unroll(num=K - 1)(ode, [u0], t=0.75)
    ref2, _ = pdq.jetexpand_ode_via_jvp(num=min(K - 1, 7))(ode, [u0], t=0.75)
    err = max(float(jnp.max(jnp.abs(jax.flatten_util.ravel_pytree(a)[0] - jax.flatten_util.ravel_pytree(b)[0]) / (1 + jnp.abs(jax.flatten_util.ravel_pytree(b)[0])))) for a, b in zip(tc, ref))
    err2 = max(float(jnp.max(jnp.abs(jax.flatten_util.ravel_pytree(a)[0] - jax.flatten_util.ravel_pytree(b)[0]) / (1 + jnp.abs(jax.flatten_util.ravel_pytree(b)[0])))) for a, b in zip(ref2, ref))
    print("doublings", nd, "len", K, "relerr vs unroll", err, "jvp vs unroll", err2)

# implicit second-order residual, nonlinear in highest derivative
@pdq.residual_acceleration
def r(u, du, ddu, *, t):
    return (1 + u ** 2) * ddu + 0.1 * ddu ** 3 + du - t


# reference: solve for ddu by Newton then differentiate implicitly via jetexpand on explicit ode defined by root-finding
def explicit(u, du, *, t):
    # solve (1+u^2) z + 0.1 z^3 + du - t = 0 for z by Newton (unrolled; differentiable through)
    z = jnp.zeros_like(u)
    for _ in range(30):
        z = z - ((1 + u ** 2) * z + 0.1 * z ** 3 + du - t) / ((1 + u ** 2) + 0.3 * z ** 2)
    return z


ode2 = pdq.ode_order_two(explicit)
inits = [jnp.asarray([0.3, -0.2]), jnp.asarray([1.0, 0.5])]
for num in (1, 2, 4):
    ref, _ = pdq.jetexpand_ode_unroll(num=num)(ode2, inits, t=0.2)
    for tol in (1e-6, 1e-13):
        tc, info = pdq.jetexpand_residual(num=num, nlstsq=pdq.lstsq_constrained_gauss_newton(tol=tol, maxiter=30))(r.jet_lift(lift_by=num - 1), inits, t=0.2)
        err = max(float(jnp.max(jnp.abs(a - b))) for a, b in zip(tc, ref))
        print("implicit num", num, "tol", tol, "iters", int(info["iters"]), "abs err", err)
