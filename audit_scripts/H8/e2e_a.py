"""End-to-end adaptive solves of a second-order ODE with pytree state."""
import sys, itertools
import jax, jax.numpy as jnp, numpy as onp
jax.config.update("jax_enable_x64", True)
from probdiffeq import probdiffeq as pdq, ivpsolve


def vf(u, du, *, t):
    # u = {"x": (2,), "y": ()}: x'' = -W x ; y'' = -4y - 0.1 y'  + cos(t)
    return {"x": -jnp.asarray([1.0, 9.0]) * u["x"], "y": -4.0 * u["y"] - 0.1 * du["y"] + jnp.cos(t)}


def exact_x(t):
    # x0 = [1, 0.5], dx0 = [0, 1]
    return jnp.stack([jnp.cos(t), 0.5 * jnp.cos(3 * t) + jnp.sin(3 * t) / 3])


from scipy.integrate import solve_ivp


def rhs(t, z):
    x1, x2, y, dx1, dx2, dy = z
    return [dx1, dx2, dy, -x1, -9 * x2, -4 * y - 0.1 * dy + onp.cos(t)]


t0, t1 = 0.0, 3.0
ref = solve_ivp(rhs, (t0, t1), [1, 0.5, 0.3, 0, 1, -0.2], rtol=1e-12, atol=1e-12, method="DOP853").y[:, -1]

u0 = {"x": jnp.asarray([1.0, 0.5]), "y": jnp.asarray(0.3)}
du0 = {"x": jnp.asarray([0.0, 1.0]), "y": jnp.asarray(-0.2)}
ode = pdq.ode_order_two(vf, jacobian=pdq.jacobian_materialize())
tc, _ = pdq.jetexpand_ode_padded_scan(num=3)(ode, [u0, du0], t=t0)
which = sys.argv[1]
ssm = getattr(pdq, f"state_space_model_{which}")()
prior = ssm.prior_wiener_integrated(tc)
for lin, sname, strat, est, per_unit in itertools.product(("ts0", "ts1"), ("solver_mle", "solver_dynamic", "solver"), ("filter", "fixedpoint"), ("residual", "state"), (False, True)):
    if sname == "solver" and (strat == "fixedpoint" or per_unit):
        continue
    cons = ssm.constraint_ode_ts0(ode) if lin == "ts0" else ssm.constraint_ode_ts1(ode)
    strategy = pdq.strategy_filter() if strat == "filter" else pdq.strategy_smoother_fixedpoint()
    solver = getattr(pdq, sname)(strategy=strategy, constraint=cons)
    E = (pdq.error_residual_std if est == "residual" else pdq.error_state_std)(constraint=cons, error_per_unit_step=per_unit)
    solve = ivpsolve.solve_adaptive_save_at(solver=solver, error=E)
    out = []
    for tol in (1e-3, 1e-6):
        sol = jax.jit(lambda p, tol=tol: solve(p, save_at=jnp.asarray([t0, 1.0, 2.0, t1]), atol=tol * 1e-2, rtol=tol, dt0=0.01))(prior)
        m = sol.u.mean[0]
        got = onp.concatenate([onp.asarray(m["x"][-1]), [float(m["y"][-1])]])
        err = onp.max(onp.abs(got - ref[:3]))
        std = sol.u.std[0]
        s = onp.asarray(std[-1]).reshape(-1) if which == "isotropic" else onp.concatenate([onp.asarray(std["x"][-1]).reshape(-1), onp.asarray(std["y"][-1]).reshape(-1)])
        out.append((err, int(sol.num_steps[-1]), float(onp.max(s))))
    flag = "" if (out[1][0] < out[0][0] and out[1][0] < 1e-3 and onp.isfinite(out[1][0])) else "  <<<<"
    print(f"{which:9s} {lin} {sname:14s} {strat:10s} {est:8s} perunit={per_unit!s:5s} " + " | ".join(f"err={e:.1e} steps={n} std={s:.1e}" for e, n, s in out) + flag)
