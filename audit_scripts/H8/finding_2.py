"""[C11] jet_lift / jet_lift_max of a stacked (or already lifted) JetResidual crashes with an unrelated unpack error,
even for the always-admissible lift order 0.

`residual_from_stack(r1, r2)` returns a JetResidual and therefore offers `.jet_lift(lift_by=...)` and
`.jet_lift_max(num_tcoeffs=...)`.  Expected (property C11): the lifted function returns the 0th..m-th total time
derivatives of every part of the stack along the supplied Taylor coefficients (the same numbers one gets from
lifting the parts first and stacking afterwards), and only inadmissible lift orders are rejected.
Observed: `ValueError: too many values to unpack (expected 1)` for every lift order (including 0), raised from
`JetAbstract.lift` (`[out_like] = func.eval_shape(fun, ...)`), which assumes that the un-lifted function returns a
one-element list.  The same happens when a lifted residual is lifted again (lift_by=0 included).
The exception type (ValueError) is the one used to signal an inadmissible lift order.
"""
import sys
import jax, jax.numpy as jnp, numpy as onp

jax.config.update("jax_enable_x64", True)
import probdiffeq
from probdiffeq import probdiffeq as pdq

print("using", probdiffeq.__file__)


@pdq.residual_velocity
def diff(u, du, *, t):
    return du - u**2 * t


@pdq.residual_position
def alg(u, *, t):
    return jnp.sum(u**2, keepdims=True) - t


jc = [jnp.array([1.0, 2.0]), jnp.array([0.5, -1.0]), jnp.array([0.3, 0.2]), jnp.array([0.1, 0.7])]
t = 0.5

# Reference: lift the parts, then stack (this order works and was checked against exact power-series arithmetic)
ref = pdq.residual_from_stack(diff.jet_lift(lift_by=1), alg.jet_lift(lift_by=2)).residual_function(jet_coords=jc[:3], t=t)
print("expected (lift-then-stack):", jax.tree.map(lambda x: onp.round(onp.asarray(x), 6).tolist(), ref))

defect = False
stack = pdq.residual_from_stack(diff, alg)
for label, make in (
    ("stack.jet_lift(lift_by=0)", lambda: stack.jet_lift(lift_by=0).residual_function(jet_coords=jc[:2], t=t)),
    ("stack.jet_lift(lift_by=1)", lambda: stack.jet_lift(lift_by=1).residual_function(jet_coords=jc[:3], t=t)),
    ("stack.jet_lift_max(num_tcoeffs=3)", lambda: stack.jet_lift_max(num_tcoeffs=3).residual_function(jet_coords=jc[:3], t=t)),
    ("diff.jet_lift(1).jet_lift(0)", lambda: diff.jet_lift(lift_by=1).jet_lift(lift_by=0).residual_function(jet_coords=jc[:3], t=t)),
):
    try:
        out = make()
        print(f"observed {label}: OK ->", jax.tree.map(lambda x: onp.round(onp.asarray(x), 6).tolist(), out))
    except Exception as e:
        defect = True
        print(f"observed {label}: {type(e).__name__}: {e}")

sys.exit(1 if defect else 0)
