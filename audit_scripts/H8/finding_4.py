"""[C11, matrix-free model] jet-lifted residual constraints cannot be linearised in state_space_model_matfree.

The matrix-free model accepts any JetResidual in `constraint_residual` / `constraint_ode_ts1`, and handles
residuals with exactly d outputs (plain ODE residuals of any order, DAE stacks with d outputs; its posterior mean
agrees with a dense numpy reference to 1e-15).  For a jet-lifted residual (outputs (lift_by+1)*d), `linearize`
fails with an unrelated reshape error instead of producing the linearisation that the three other factorisations
produce (those reproduce value and Jacobian of the lifted residual to 1e-11).
Site: ssm_impl_matfree.py, MatfreeResidual.linearize:
    f0 = BlockDiagNormal.from_dirac([m_tree[self.residual.num_tcoeffs_in_args - 1]], damp=damp)
    fx = f0.tree_flatten.unflatten_array(fx.T)
assumes that the residual output has the shape of ONE Taylor coefficient (and MatfreeLinopResidualConstraint hard-codes n_out=1).
"""
import sys
import jax, jax.numpy as jnp, numpy as onp

jax.config.update("jax_enable_x64", True)
import probdiffeq
from probdiffeq import probdiffeq as pdq

print("using", probdiffeq.__file__)


def f(u, du, *, t):
    return -u * t + du**2


ode = pdq.ode_order_two(f, jacobian=pdq.jacobian_materialize())
tc = [jnp.asarray([1.0, 2.0, 3.0]) * (k + 1) for k in range(5)]
defect = False
for lift_by in (0, 1, 2):
    lifted = ode.jet_lift(lift_by=lift_by)
    for fact in ("dense", "blockdiag", "isotropic", "matfree"):
        ssm = pdq.state_space_model_matfree(key=jax.random.PRNGKey(1), num_ensembles=8) if fact == "matfree" else getattr(pdq, f"state_space_model_{fact}")()
        prior = ssm.prior_wiener_integrated(tc, is_exact=False)
        cons = ssm.constraint_ode_ts1(lifted)
        try:
            cond, _ = cons.linearize(prior.init, cons.init_linearization(), damp=0.0, t=0.3)
            print(f"lift_by={lift_by} {fact:9s}: linearised, bias shape {onp.shape(cond.noise.mean_flat)}")
        except Exception as e:
            defect = True
            print(f"lift_by={lift_by} {fact:9s}: {type(e).__name__}: {str(e)[:110]}")
sys.exit(1 if defect else 0)
