"""[C10] The ODE Taylor-coefficient routines reject pytree-shaped states for ODEs of order >= 3 with a bare ValueError.

Property C10: every routine returns the exact derivatives 'for any smooth vector field of first or higher order ...
and any pytree-shaped state'.  For a third-order ODE the three general routines (padded_scan, unroll, via_jvp) are
exact with flat states (checked against exact rational power-series arithmetic), but with a pytree state they raise
`ValueError()` without message from `_allow_pytree_inits` (jet_expansion_algorithms.py), which only implements
`num_tcoeffs_in_args in (1, 2)` (`else: raise ValueError`).  The residual-based routine handles the same problem.
"""
import sys
import jax, jax.numpy as jnp, numpy as onp

jax.config.update("jax_enable_x64", True)
import probdiffeq
from probdiffeq import probdiffeq as pdq

print("using", probdiffeq.__file__)


def f_flat(u, du, ddu, *, t):
    return jnp.stack([ddu[1] * u[2] - t * du[0], u[0] * ddu[2] + t * t * du[1], ddu[0] * du[1] * u[2] - t / 3])


def to_tree(v):
    return {"a": v[0], "b": (jnp.stack([v[1], v[2]]),)}


def from_tree(p):
    return jnp.stack([p["a"], p["b"][0][0], p["b"][0][1]])


def f_tree(u, du, ddu, *, t):
    return to_tree(f_flat(from_tree(u), from_tree(du), from_tree(ddu), t=t))


inits_flat = [jnp.asarray([0.5, -1 / 3, 2.0]), jnp.asarray([1.0, 0.25, -0.5]), jnp.asarray([0.0, 0.2, 1.0])]
inits_tree = [to_tree(x) for x in inits_flat]
ode_flat = pdq.ode_order_arbitrary(f_flat, num_tcoeffs_in_args=3)
ode_tree = pdq.ode_order_arbitrary(f_tree, num_tcoeffs_in_args=3)

defect = False
num = 3
for name, ctor in (("padded_scan", pdq.jetexpand_ode_padded_scan), ("unroll", pdq.jetexpand_ode_unroll), ("via_jvp", pdq.jetexpand_ode_via_jvp)):
    ref, _ = ctor(num=num)(ode_flat, inits_flat, t=0.75)
    print(f"{name}: expected (flat state) highest coefficient", onp.asarray(ref[-1]))
    try:
        tc, _ = ctor(num=num)(ode_tree, inits_tree, t=0.75)
        print(f"{name}: observed (pytree state)", onp.asarray(from_tree(tc[-1])))
    except Exception as e:
        defect = True
        print(f"{name}: observed (pytree state) {type(e).__name__}: '{e}'")

res = pdq.residual_from_ode(ode_tree).jet_lift(lift_by=num - 1)
tc, _ = pdq.jetexpand_residual(num=num)(res, inits_tree, t=0.75)
print("residual routine with the same pytree problem:", onp.asarray(from_tree(tc[-1])))
sys.exit(1 if defect else 0)
