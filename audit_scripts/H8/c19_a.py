import jax, jax.numpy as jnp, numpy as onp
jax.config.update("jax_enable_x64", True)
from probdiffeq import probdiffeq as pdq

rng = onp.random.default_rng(0)
bad = 0
tot = 0
for trial in range(300):
    D = int(rng.integers(2, 11))
    k = int(rng.integers(1, D))
    J = rng.normal(size=(k, D))
    b = rng.normal(size=k)
    m = rng.normal(size=D) * 10 ** rng.uniform(-3, 3)
    kind = trial % 5
    L = rng.normal(size=(D, D))
    if kind == 1:  # zero rows (exactly known components)
        nz = int(rng.integers(1, D - k + 1))
        idx = rng.choice(D, size=nz, replace=False)
        L[idx, :] = 0
    elif kind == 2:  # low-rank but rank >= k
        r = int(rng.integers(k, D + 1))
        L = rng.normal(size=(D, r)) @ rng.normal(size=(r, D))
    elif kind == 3:  # badly scaled diag
        L = onp.diag(10 ** rng.uniform(-6, 2, size=D))
    elif kind == 4:  # triangular, with scaling
        L = onp.tril(L) * 10 ** rng.uniform(-4, 1)
    C = L @ L.T
    S = J @ C @ J.T
    z = J @ m + b
    ref = m - C @ J.T @ onp.linalg.pinv(S, rcond=1e-13) @ z
    feasible_ref = onp.linalg.norm(J @ ref + b)
    tol = float(10 ** rng.uniform(-12, -4))
    maxiter = int(rng.integers(1, 51))
    nl = pdq.lstsq_constrained_gauss_newton(maxiter=maxiter, tol=tol)
    con = lambda x: jnp.asarray(J) @ x + jnp.asarray(b)
    x, info = nl(con, jnp.asarray(m), jnp.asarray(m), jnp.asarray(L))
    x = onp.asarray(x)
    tot += 1
    scale = onp.linalg.norm(m) + onp.linalg.norm(ref) + 1
    err = onp.linalg.norm(x - ref) / scale
    truthful = onp.linalg.norm(onp.asarray(info["final_constraint"]) - (J @ x + b))
    cnd = onp.linalg.cond(S)
    if err > 1e-7 or truthful > 1e-12 or (int(info["iters"]) != 1 and cnd < 1e8):
        bad += 1
        print(f"trial {trial} kind {kind} D={D} k={k} cond(S)={cnd:.1e} err={err:.2e} iters={int(info['iters'])}/{maxiter} tol={tol:.1e} |c(x)|={onp.linalg.norm(J@x+b):.2e} |c(ref)|={feasible_ref:.2e} truthful={truthful:.1e}")
print("total", tot, "bad", bad)
