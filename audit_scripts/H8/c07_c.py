"""Acceptance quantity vs textbook reference, higher-order ODEs with pytree states."""
import sys, itertools
from math import factorial
import jax, jax.numpy as jnp, numpy as onp
jax.config.update("jax_enable_x64", True)
from probdiffeq import probdiffeq as pdq

d = 3


def to_tree(v):
    return {"a": v[0], "b": (jnp.stack([v[1], v[2]]),)}


def from_tree(p):
    return jnp.stack([p["a"], p["b"][0][0], p["b"][0][1]])


def f2(u, du, t):
    return jnp.stack([du[1] * u[2] - t * u[0] + du[0] ** 2, 0.5 * u[0] ** 2 * du[2] + t * t, u[0] * du[1] * u[2] + t])


def f3(u, du, ddu, t):
    return jnp.stack([ddu[1] * u[2] - t * du[0], u[0] * ddu[2] + t * t * du[1], ddu[0] * du[1] * u[2] - t / 3])


def iwp(q, dt):
    A = onp.zeros((q + 1, q + 1)); Q = onp.zeros((q + 1, q + 1))
    for i in range(q + 1):
        for j in range(q + 1):
            if j >= i:
                A[i, j] = dt ** (j - i) / factorial(j - i)
            p = 2 * q + 1 - i - j
            Q[i, j] = dt ** p / (p * factorial(q - i) * factorial(q - j))
    return A, Q


def reference(fact, f, n, M, dt, t_new, lin, est, norm, per_unit, didx, atol, rtol, u1, lam, Hcached=None):
    """M: (K,d) previous mean. Returns acceptance quantity. lin in {ts0, ts1}. fact in dense/blockdiag/isotropic."""
    K = M.shape[0]; q = K - 1
    A, Q = iwp(q, dt)
    Mp = A @ M  # predicted mean (K,d)
    # linearisation of r(X) = X[n] - f(X[:n], t) at Mp: r ~ H vec(X) + b ; vec index (k,i)
    fx = onp.asarray(f(*[jnp.asarray(Mp[k]) for k in range(n)], t_new))
    if lin == "ts0":
        J = onp.zeros((d, n, d))
    else:
        J = onp.asarray(jax.jacfwd(lambda X: f(*[X[k] for k in range(n)], t_new))(jnp.asarray(Mp[:n])))  # (d, n, d)
    if fact == "dense":
        H = onp.zeros((d, K, d))
        H[:, n, :] = onp.eye(d); H[:, :n, :] -= J
        H2 = H.reshape(d, K * d)
        z = Mp[n] - fx  # H Mp + b where b = r(Mp) - H Mp -> value r(Mp)
        Qf = onp.kron(Q, onp.diag(lam ** 2))
        S = H2 @ Qf @ H2.T
        sig = onp.sqrt(z @ onp.linalg.solve(S, z) / d)
        if est == "residual":
            err = sig * onp.sqrt(onp.diag(S))
        else:
            P = Qf - Qf @ H2.T @ onp.linalg.solve(S, H2 @ Qf)
            err = sig * onp.sqrt(onp.clip(onp.diag(P), 0, None)).reshape(K, d)[didx]
    elif fact == "blockdiag":
        err = onp.zeros(d)
        for i in range(d):
            h = onp.zeros(K); h[n] = 1; h[:n] -= J[i, :, i]
            Qi = Q * lam[i] ** 2
            s = h @ Qi @ h
            z = Mp[n, i] - fx[i]
            sig = abs(z) / onp.sqrt(s)
            if est == "residual":
                err[i] = sig * onp.sqrt(s)
            else:
                P = Qi - onp.outer(Qi @ h, h @ Qi) / s
                err[i] = sig * onp.sqrt(max(P[didx, didx], 0))
    else:
        h = onp.zeros(K); h[n] = 1; h[:n] -= onp.einsum("iki->k", J) / d
        Qi = Q * lam[0] ** 2
        s = h @ Qi @ h
        # affine model: r ~ h @ X + b with b = r(Mp) - h@Mp -> value at Mp is r(Mp)
        z = Mp[n] - fx
        sig = onp.linalg.norm(z / onp.sqrt(s)) / onp.sqrt(d)
        if est == "residual":
            err = sig * onp.sqrt(s) * onp.ones(1)
        else:
            P = Qi - onp.outer(Qi @ h, h @ Qi) / s
            err = sig * onp.sqrt(max(P[didx, didx], 0)) * onp.ones(1)
    if est == "residual":
        nn = n; ref_idx = 0
    else:
        nn = didx; ref_idx = didx
    ref = onp.maximum(onp.abs(M[ref_idx]), onp.abs(u1[ref_idx]))
    if per_unit:
        nn += 1
    err_abs = err * dt ** nn / factorial(nn)
    if norm == "scale_then_rms":
        e = err_abs / (atol + rtol * ref)
        e = e * onp.ones(d) if e.shape == (1,) and onp.shape(ref) == (d,) else e
        val = onp.linalg.norm(e) / onp.sqrt(e.size)
    else:
        val = (onp.linalg.norm(err_abs) / onp.sqrt(err_abs.size)) / (atol + rtol * onp.linalg.norm(ref) / onp.sqrt(ref.size))
    return val ** (-1.0 / K)


rng = onp.random.default_rng(3)
jac = pdq.jacobian_materialize()
nbad = 0
count = 0
which = sys.argv[1] if len(sys.argv) > 1 else "dense"
for fact in [which]:
    for (f, n) in ((f2, 2), (f3, 3)):
        for extra in (1,):
            K = n + 1 + extra
            fun = lambda *a, t, f=f: to_tree(f(*[from_tree(x) for x in a], t))
            ode = pdq.ode_order_arbitrary(fun, num_tcoeffs_in_args=n, jacobian=jac)
            M0 = rng.normal(size=(K, d))
            tc = [to_tree(list(jnp.asarray(x))) for x in M0]
            ssm = getattr(pdq, f"state_space_model_{fact}")()
            for scale in (1.0,):
                if fact == "isotropic":
                    osc = jnp.asarray(scale); lam = onp.ones(d) * scale
                else:
                    osc = to_tree(list(jnp.ones(d) * scale)); lam = onp.ones(d) * scale
                prior = ssm.prior_wiener_integrated(tc, output_scale=osc)
                for lin in ("ts0", "ts1"):
                    cons = ssm.constraint_ode_ts0(ode) if lin == "ts0" else ssm.constraint_ode_ts1(ode)
                    for sname in ("solver", "solver_mle", "solver_dynamic"):
                        solver = getattr(pdq, sname)(strategy=pdq.strategy_filter(), constraint=cons)
                        t0 = 0.3
                        dt = float(10 ** rng.uniform(-3, -0.5))
                        s0 = solver.init(t=jnp.asarray(t0), u=prior, damp=0.0)
                        # take two steps so that 'previous' is a generic reachable state
                        s1 = solver.step(state=s0, dt=0.05, damp=0.0)
                        s2 = solver.step(state=s1, dt=dt, damp=0.0)
                        Mprev = onp.stack([onp.asarray(from_tree(c)) for c in s1.u.mean])
                        Mnew = onp.stack([onp.asarray(from_tree(c)) for c in s2.u.mean])
                        for est, normname, relin, per_unit in itertools.product(("residual", "state"), ("scale_then_rms",), (False, True), (False, True)):
                            for didx in ((0,) if est == "residual" else (0, 1, K - 1)):
                                atol = 10 ** rng.uniform(-8, -2, size=d); rtol = 10 ** rng.uniform(-8, -2, size=d)
                                nfun = pdq.error_norm_scale_then_rms() if normname == "scale_then_rms" else pdq.error_norm_rms_then_scale()
                                if est == "residual":
                                    E = pdq.error_residual_std(constraint=cons, error_norm=nfun, re_linearize_before_error=relin, error_per_unit_step=per_unit)
                                else:
                                    E = pdq.error_state_std(constraint=cons, error_norm=nfun, re_linearize_before_error=relin, error_per_unit_step=per_unit, derivative_idx=didx)
                                got, _ = E.estimate_error_norm(E.init_error(), s1, s2, dt=dt, atol=atol, rtol=rtol, damp=0.0)
                                exp = reference(fact, f, n, Mprev, dt, float(s2.t), lin, est, normname, per_unit, didx, atol, rtol, Mnew, lam)
                                if lin == "ts0" and est == "state" and didx == n: continue
                                count += 1
                                rel = abs(float(got) - exp) / abs(exp)
                                if not rel < 1e-6:
                                    nbad += 1
                                    if nbad < 40:
                                        print(f"MISMATCH {fact} n={n} K={K} scale={scale} {lin} {sname} {est} {normname} relin={relin} perunit={per_unit} didx={didx}: got {float(got):.8g} exp {exp:.8g} rel {rel:.2e} shape {onp.shape(got)}")
print(which, "checked", count, "bad", nbad)
