"""Matfree: stacked residual (DAE, total outputs == d) and plain 2nd/3rd-order ODE residuals: posterior mean vs dense numpy reference."""
import jax, jax.numpy as jnp, numpy as onp
jax.config.update("jax_enable_x64", True)
from probdiffeq import probdiffeq as pdq
from probdiffeq.backend import linalg

d = 3
rng = onp.random.default_rng(0)


@pdq.residual_velocity
def diff(u, du, *, t):
    return jnp.stack([du[0] + 2 * u[0] * u[1] - t, du[1] - 2 * u[0] * u[1] + 0.5 * u[1]])


@pdq.residual_position
def alg(u, *, t):
    return u[0] + u[1] + u[2] ** 2 - 1.0 - t


@pdq.residual_acceleration
def acc(u, du, ddu, *, t):
    return ddu + jnp.roll(u, 1) * du - t * u ** 2


cases = {"stack(diff,alg)": (pdq.residual_from_stack(diff, alg), 2), "acc": (acc, 3), "stack(alg,diff)": (pdq.residual_from_stack(alg, diff), 2)}
for name, (res, nargs) in cases.items():
    K = 4
    X = rng.normal(size=(K, d))
    tc = [jnp.asarray(x) for x in X]
    ssm = pdq.state_space_model_matfree(key=jax.random.PRNGKey(0), num_ensembles=K + 4)
    prior = ssm.prior_wiener_integrated(tc, is_exact=False, inexact_eps=0.3)
    tr = prior.transition(dt=0.2, output_scale=jnp.ones(d))
    rv = tr.marginalise(prior.init)
    cons = ssm.constraint_residual(res)
    try:
        cond, _ = cons.linearize(rv, cons.init_linearization(), damp=0.0, t=0.4)
        obs, rev = cond.revert(rv, solve_triu=linalg.solve_triu)
        post = onp.asarray(rev.noise.mean_flat)  # (d, K)
    except Exception as e:
        print(name, "EXC", type(e).__name__, str(e)[:200]); continue
    # reference
    m = onp.asarray(rv.mean_flat)  # (d, K)
    Lc = onp.asarray(rv.cholesky_flat)  # (d, K, K)
    mf = m.T.reshape(-1)  # index (k, i)
    C = onp.zeros((K * d, K * d))
    for i in range(d):
        Ci = Lc[i] @ Lc[i].T
        for a in range(K):
            for b in range(K):
                C[a * d + i, b * d + i] = Ci[a, b]

    def rflat(xf):
        Xa = xf.reshape(K, d)
        out = res.residual_function(jet_coords=[Xa[k] for k in range(nargs)], t=0.4)
        return jax.flatten_util.ravel_pytree(out)[0]

    r0 = onp.asarray(rflat(jnp.asarray(mf)))
    J = onp.asarray(jax.jacfwd(rflat)(jnp.asarray(mf)))
    ref = mf - C @ J.T @ onp.linalg.solve(J @ C @ J.T, r0)
    ref = ref.reshape(K, d).T
    print(name, "obs mean err", float(onp.max(onp.abs(onp.asarray(obs.mean_flat).reshape(-1) - r0))), "posterior mean max abs err", float(onp.max(onp.abs(post - ref))), "scale", float(onp.max(onp.abs(ref))))
