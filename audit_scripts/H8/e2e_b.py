"""End-to-end: MAP Taylor point + lifted residuals (dense) and matfree on a 2nd-order pytree ODE."""
import sys, itertools
import jax, jax.numpy as jnp, numpy as onp
jax.config.update("jax_enable_x64", True)
from probdiffeq import probdiffeq as pdq, ivpsolve
from scipy.integrate import solve_ivp


def vf(u, du, *, t):
    return {"x": -jnp.asarray([1.0, 9.0]) * u["x"] * (1 + 0.1 * u["y"] ** 2), "y": -4.0 * u["y"] - 0.1 * du["y"] + jnp.cos(t) * u["x"][0]}


def rhs(t, z):
    x1, x2, y, dx1, dx2, dy = z
    return [dx1, dx2, dy, -x1 * (1 + 0.1 * y * y), -9 * x2 * (1 + 0.1 * y * y), -4 * y - 0.1 * dy + onp.cos(t) * x1]


t0, t1 = 0.0, 2.0
ref = solve_ivp(rhs, (t0, t1), [1, 0.5, 0.3, 0, 1, -0.2], rtol=1e-12, atol=1e-12, method="DOP853").y[:, -1]
u0 = {"x": jnp.asarray([1.0, 0.5]), "y": jnp.asarray(0.3)}
du0 = {"x": jnp.asarray([0.0, 1.0]), "y": jnp.asarray(-0.2)}
ode = pdq.ode_order_two(vf, jacobian=pdq.jacobian_materialize())
K = 5
tc, _ = pdq.jetexpand_ode_padded_scan(num=K - 2)(ode, [u0, du0], t=t0)


def report(name, sol):
    m = sol.u.mean[0]
    got = onp.concatenate([onp.asarray(m["x"][-1]), [float(m["y"][-1])]])
    return f"err={onp.max(onp.abs(got - ref[:3])):.2e} steps={int(sol.num_steps[-1])}"


mode = sys.argv[1]
if mode == "dense":
    ssm = pdq.state_space_model_dense()
    prior = ssm.prior_wiener_integrated(tc)
    res = pdq.residual_from_ode(ode)
    for name, cons in (
        ("ts1", ssm.constraint_ode_ts1(ode)),
        ("ts1-MAP(1)", ssm.constraint_ode_ts1(ode, taylor_point=pdq.taylor_point_maximum_a_posteriori(pdq.lstsq_constrained_gauss_newton(maxiter=1)))),
        ("ts1-MAP(10)", ssm.constraint_ode_ts1(ode, taylor_point=pdq.taylor_point_maximum_a_posteriori())),
        ("lift1", ssm.constraint_ode_ts1(ode.jet_lift(lift_by=1))),
        ("liftmax", ssm.constraint_ode_ts1(ode.jet_lift_max(num_tcoeffs=K))),
        ("liftmax-MAP", ssm.constraint_residual(res.jet_lift_max(num_tcoeffs=K), taylor_point=pdq.taylor_point_maximum_a_posteriori())),
        ("ts0-liftmax", ssm.constraint_ode_ts0(ode.jet_lift_max(num_tcoeffs=K))),
    ):
        for sname in ("solver_mle", "solver_dynamic"):
            solver = getattr(pdq, sname)(strategy=pdq.strategy_filter(), constraint=cons)
            E = pdq.error_state_std(constraint=cons)
            solve = ivpsolve.solve_adaptive_save_at(solver=solver, error=E)
            out = []
            for tol in (1e-3, 1e-6):
                try:
                    sol = jax.jit(lambda p, tol=tol: solve(p, save_at=jnp.asarray([t0, 1.0, t1]), atol=tol * 1e-2, rtol=tol, dt0=0.01))(prior)
                    out.append(report(name, sol))
                except Exception as e:
                    out.append(f"EXC {type(e).__name__} {str(e)[:80]}")
            print(f"{name:12s} {sname:14s}", " | ".join(out), flush=True)
else:
    for seed in (1, 2):
        ssm = pdq.state_space_model_matfree(key=jax.random.PRNGKey(seed), num_ensembles=K + 3)
        prior = ssm.prior_wiener_integrated(tc)
        cons = ssm.constraint_ode_ts1(ode)
        for sname in ("solver_mle", "solver_dynamic"):
            solver = getattr(pdq, sname)(strategy=pdq.strategy_filter(), constraint=cons)
            for ename in ("state", "residual"):
                E = (pdq.error_state_std if ename == "state" else pdq.error_residual_std)(constraint=cons)
                solve = ivpsolve.solve_adaptive_save_at(solver=solver, error=E)
                out = []
                for tol in (1e-3, 1e-5):
                    try:
                        sol = jax.jit(lambda p, tol=tol: solve(p, save_at=jnp.asarray([t0, 1.0, t1]), atol=tol * 1e-2, rtol=tol, dt0=0.01))(prior)
                        out.append(report("matfree", sol))
                    except Exception as e:
                        out.append(f"EXC {type(e).__name__} {str(e)[:80]}")
                print(f"matfree seed={seed} {sname:14s} {ename}", " | ".join(out), flush=True)
