"""Stacked residuals (two d-dim parts of different differential order) as constraints in dense/blockdiag/isotropic."""
import jax, jax.numpy as jnp, numpy as onp
jax.config.update("jax_enable_x64", True)
from probdiffeq import probdiffeq as pdq

d = 3
jac = pdq.jacobian_materialize()


def to_tree(v):
    return {"a": v[0], "b": (jnp.stack([v[1], v[2]]),)}


def from_tree(p):
    return jnp.stack([p["a"], p["b"][0][0], p["b"][0][1]])


def r_acc(u, du, ddu, t):
    return ddu + jnp.roll(u, 1) * du - t * u ** 2


def r_pos(u, t):
    return u ** 3 - t * jnp.roll(u, -1)


rng = onp.random.default_rng(0)
t = 0.4
for pytree in (False, True):
    if pytree:
        A = pdq.residual_acceleration(lambda u, du, ddu, *, t: to_tree(r_acc(from_tree(u), from_tree(du), from_tree(ddu), t)), jacobian=jac)
        P = pdq.residual_position(lambda u, *, t: to_tree(r_pos(from_tree(u), t)), jacobian=jac)
    else:
        A = pdq.residual_acceleration(lambda u, du, ddu, *, t: r_acc(u, du, ddu, t), jacobian=jac)
        P = pdq.residual_position(lambda u, *, t: r_pos(u, t), jacobian=jac)
    for order, stack in (("(acc,pos)", pdq.residual_from_stack(A, P)), ("(pos,acc)", pdq.residual_from_stack(P, A))):
        K = 4
        X = rng.normal(size=(K, d))
        tc = [jnp.asarray(x) for x in X] if not pytree else [to_tree(list(jnp.asarray(x))) for x in X]

        def rfun(Xa):
            a = r_acc(Xa[0], Xa[1], Xa[2], t); p = r_pos(Xa[0], t)
            return jnp.stack([a, p] if order == "(acc,pos)" else [p, a])

        r0 = onp.asarray(rfun(jnp.asarray(X)))
        Jex = onp.asarray(jax.jacfwd(rfun)(jnp.asarray(X)))  # (2, d, K, d)
        for name in ("dense", "blockdiag", "isotropic"):
            ssm = getattr(pdq, f"state_space_model_{name}")()
            prior = ssm.prior_wiener_integrated(tc, is_exact=False, inexact_eps=0.1)
            cons = ssm.constraint_residual(stack)
            try:
                cond, _ = cons.linearize(prior.init, cons.init_linearization(), damp=0.0, t=t)
                if name == "dense":
                    Aa = onp.asarray(cond.A).reshape(2, d, K, d); b = onp.asarray(cond.noise.mean_flat).reshape(2, d)
                    val = onp.einsum("ldki,ki->ld", Aa, X) + b; eJ = onp.max(onp.abs(Aa - Jex)); eV = onp.max(onp.abs(val - r0))
                elif name == "blockdiag":
                    Aa = onp.asarray(cond.A); b = onp.asarray(cond.noise.mean_flat)
                    Jref = onp.einsum("liki->ilk", Jex); val = onp.einsum("ilk,ki->il", Aa, X) + b
                    eJ = onp.max(onp.abs(Aa - Jref)); eV = onp.max(onp.abs(val.T - r0))
                else:
                    Aa = onp.asarray(cond.A); b = onp.asarray(cond.noise.mean_flat)
                    Jref = onp.einsum("liki->lk", Jex) / d; val = Aa @ X + b
                    eJ = onp.max(onp.abs(Aa - Jref)); eV = onp.max(onp.abs(val - r0))
                print(f"pytree={pytree} {order} {name:9s} errJ={eJ:.1e} errV={eV:.1e}", "<<<<" if eJ > 1e-10 or eV > 1e-10 else "")
            except Exception as e:
                print(f"pytree={pytree} {order} {name:9s} EXC {type(e).__name__}: {str(e)[:150]}")
