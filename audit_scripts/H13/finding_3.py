"""Finding 3 (C16, minor): d std / d damp at the DEFAULT damping damp = 0 has arbitrary sign and magnitude.

For a noise-free ODE observation the posterior std of the observed Taylor coefficient
is c*|damp| (here c = 1): zero at damp = 0 with one-sided directional derivative +1.
The library evaluates it as |qr_r(row of a Cholesky factor)| where the row is not
exactly zero but a rounding residue (~1e-18) of either sign, so forward/reverse mode
return +-0.99 (sign and even the magnitude depend on the factorisation) instead of the
directional derivative +1 (or the subgradient 0). For damp = 1e-7 all agree on +1.
"""
import sys
import jax
jax.config.update("jax_enable_x64", True)
import jax.numpy as jnp, numpy as onp
import probdiffeq
from probdiffeq import probdiffeq as pd, ivpsolve
print("library:", probdiffeq.__file__)
grid = jnp.asarray([0.0, 0.1, 0.25, 0.45, 0.6])
def f(u, *, t): return jnp.asarray([0.9 * u[0] * u[1] - t, -u[0] ** 2 + 0.3 * u[1]])
defect = False
for name in ["dense", "isotropic", "blockdiag"]:
    def fun(damp):
        ssm = dict(dense=pd.state_space_model_dense, isotropic=pd.state_space_model_isotropic, blockdiag=pd.state_space_model_blockdiag)[name]()
        u0 = jnp.asarray([0.7, -0.4])
        prior = ssm.prior_wiener_integrated([u0, f(u0, t=0.0), jnp.zeros(2)])
        solver = pd.solver(strategy=pd.strategy_filter(), constraint=ssm.constraint_ode_ts0(pd.ode(f)))
        sol = ivpsolve.solve_fixed_grid(solver=solver)(prior, grid=grid, damp=damp)
        return jnp.ravel(jnp.asarray(sol.u.std[1]))[-1]  # std of u'(t_end), last component
    val, fwd = jax.jvp(fun, (0.0,), (1.0,))
    rev = jax.grad(fun)(0.0)
    fd = (fun(1e-7) - fun(0.0)) / 1e-7
    print(f"{name:10s}: std(u')(damp=0) = {float(val):.2e}; d/d damp forward = {float(fwd):+.4f}, reverse = {float(rev):+.4f}; "
          f"expected (one-sided directional derivative) = {float(fd):+.4f}; AD at damp=1e-7: {float(jax.grad(fun)(1e-7)):+.4f}")
    defect |= abs(float(fwd) - float(fd)) > 1e-3
print("DEFECT PRESENT" if defect else "no defect")
sys.exit(1 if defect else 0)
