import sys
import jax
jax.config.update("jax_enable_x64", True)
import jax.numpy as jnp, numpy as onp
import jax.scipy.linalg
from probdiffeq.backend import linalg
onp.set_printoptions(linewidth=200, precision=5, suppress=True)

@jax.custom_jvp
def qr_r_new(arr):
    return jnp.linalg.qr(arr, mode="r")
@qr_r_new.defjvp
def _jvp(primals, tangents):
    (M,), (M_dot,) = primals, tangents
    Q, R = jnp.linalg.qr(M, mode="reduced")
    B = Q.T @ M_dot
    if R.shape[0] != R.shape[1]:
        return R, B
    n = R.shape[0]
    ok = jnp.diagonal(R) != 0.0
    piv = jnp.where(ok, jnp.diagonal(R), 1.0)
    # column recursion: L[:, j] = mask_j * (B[:, j] - L[:, :j] @ R[:j, j]) / piv_j   (strictly lower part only matters)
    def body(j, L):
        col = (B[:, j] - L @ R[:, j] * 1.0 + L[:, j] * R[j, j]) / piv[j]
        col = jnp.where(jnp.arange(n) > j, col, 0.0) * ok[j]
        return L.at[:, j].set(col)
    L = jax.lax.fori_loop(0, n, body, jnp.zeros_like(R))
    R_dot = jnp.triu(B - (L - L.T) @ R)
    return R, R_dot

# monkeypatch
linalg.qr_r = qr_r_new
from probdiffeq.util import cholesky_util
exec(open("/verif/audit_scripts/H13/dbg5.py").read().split("onp.set_printoptions")[1].split("\n",1)[1])
