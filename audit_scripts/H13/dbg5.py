import jax
jax.config.update("jax_enable_x64", True)
import jax.numpy as jnp, numpy as onp
from probdiffeq.backend import linalg
from probdiffeq.util import cholesky_util
onp.set_printoptions(linewidth=200, precision=5, suppress=True)
# revert_conditional with a rank-deficient (but nonzero) R_X, regular R_YX: x ~ N(0, diag(0, e^2)), y = A x + N(0, Q)
A = jnp.asarray([[1.0, 0.3],[0.0, 1.0]])
Lq = jnp.asarray([[0.5, 0.0],[0.2, 0.4]])
def f(e):
    C = jnp.diag(jnp.asarray([0.0, 1.0]))*e      # left factor of cov(x)
    R_X = C.T; R_X_F = (A@C).T; R_YX = Lq.T
    R_Y, (R_XY, G) = cholesky_util.revert_conditional(R_X_F=R_X_F, R_X=R_X, R_YX=R_YX, solve_triu=linalg.solve_triu)
    return G, R_XY.T@R_XY, R_Y.T@R_Y
def ref(e):
    C = jnp.diag(jnp.asarray([0.0, 1.0]))*e
    P = C@C.T; S = A@P@A.T + Lq@Lq.T
    G = P@A.T@jnp.linalg.inv(S)
    return G, P - G@S@G.T, S
e0=1.3
out, jv = jax.jvp(f,(e0,),(1.0,))
outr, jvr = jax.jvp(ref,(e0,),(1.0,))
h=1e-6
fd = jax.tree_util.tree_map(lambda a,b:(a-b)/(2*h), f(e0+h), f(e0-h))
for nm,a,b,c,v,vr in zip(["gain","cov x|y","cov y"], jv, jvr, fd, out, outr):
    print(nm,"value err", float(jnp.max(jnp.abs(v-vr))))
    print(" jvp(lib)\n",onp.asarray(a)); print(" jvp(dense formula)\n",onp.asarray(b)); print(" fd(lib)\n", onp.asarray(c))
