"""Independent textbook EKF / RTS reference (covariance form, numpy float64)."""
import math
import numpy as onp
import scipy.linalg as sla


def iwp_mats_1d(q, dt):
    Phi = onp.zeros((q + 1, q + 1))
    Q = onp.zeros((q + 1, q + 1))
    for i in range(q + 1):
        for j in range(q + 1):
            if j >= i:
                Phi[i, j] = dt ** (j - i) / math.factorial(j - i)
            p = 2 * q + 1 - i - j
            Q[i, j] = dt**p / (p * math.factorial(q - i) * math.factorial(q - j))
    return Phi, Q


def iwp_mats(q, d, dt, Lambda):
    """Lambda: (d,d) base scale matrix (diffusion = Lambda Lambda^T)."""
    Phi, Q = iwp_mats_1d(q, dt)
    return onp.kron(Phi, onp.eye(d)), onp.kron(Q, Lambda @ Lambda.T)


def sde_mats(F, B, dt):
    """Van Loan discretisation of dx = F x dt + B dW."""
    n = F.shape[0]
    M = onp.block([[F, B @ B.T], [onp.zeros((n, n)), -F.T]]) * dt
    E = sla.expm(M)
    Phi = E[:n, :n]
    Q = E[:n, n:] @ Phi.T
    return Phi, 0.5 * (Q + Q.T)


def ekf(*, disc, m0, P0, lin, grid, damp, mode, init_lin=None, relin=False):
    """disc(dt)->(Phi,Q); lin(m,t)->(H,b) with residual z = H m + b.

    mode in {"none","mle","dynamic"}. Returns dict with means, covs (calibrated
    the way the library documents), scales.
    """
    m, P = onp.array(m0, float), onp.array(P0, float)
    sumsq, ndata = 0.0, 0
    if init_lin is not None:
        H, b = init_lin(m, grid[0])
        R = damp**2 * onp.eye(H.shape[0])
        z = H @ m + b
        S = H @ P @ H.T + R
        K = onp.linalg.lstsq(S, H @ P, rcond=None)[0].T
        if mode == "mle":
            sumsq += z @ onp.linalg.lstsq(S, z, rcond=None)[0] / z.size
            ndata += 1
        m = m - K @ z
        P = P - K @ S @ K.T
    ms, Ps, scales = [m], [P], [1.0]
    zs, Ss = [], []
    for t0, t1 in zip(grid[:-1], grid[1:]):
        dt = t1 - t0
        Phi, Q = disc(dt)
        mp = Phi @ m
        if mode == "dynamic":
            H, b = lin(mp, t1)
            R = damp**2 * onp.eye(H.shape[0])
            z = H @ mp + b
            S0 = H @ Q @ H.T + R
            s2 = z @ onp.linalg.solve(S0, z) / z.size
            s = onp.sqrt(s2)
        else:
            s = 1.0
        Pp = Phi @ P @ Phi.T + s**2 * Q
        H, b = lin(mp, t1)
        R = damp**2 * onp.eye(H.shape[0])
        z = H @ mp + b
        S = H @ Pp @ H.T + R
        K = onp.linalg.solve(S, H @ Pp).T
        if mode == "mle":
            sumsq += z @ onp.linalg.solve(S, z) / z.size
            ndata += 1
        m = mp - K @ z
        P = Pp - K @ S @ K.T
        P = 0.5 * (P + P.T)
        ms.append(m); Ps.append(P); scales.append(s); zs.append(z); Ss.append(S)
    ms, Ps, scales = onp.array(ms), onp.array(Ps), onp.array(scales)
    out = dict(mean=ms, cov_unit=Ps, scale_steps=scales, zs=onp.array(zs), Ss=onp.array(Ss))
    if mode == "mle":
        out["scale_rms"] = onp.sqrt(sumsq / ndata)
        out["ndata"] = ndata
    return out


def rts(*, disc, m0, P0, lin, grid, obs, damp, mode):
    """Filter + RTS smoother on `grid`; obs[j] tells whether grid[j] (j>=1) carries an ODE observation.

    Dynamic mode: the scale of an interval between two observed points is the local
    estimate of the full step; unobserved points inside use the same scale.
    Returns smoothed means/covs at all grid points (unit scale for mode=mle/none) and scales.
    """
    grid = onp.asarray(grid); n = len(grid)
    m, P = onp.array(m0, float), onp.array(P0, float)
    mf, Pf, mps, Pps, Phis = [m], [P], [None], [None], [None]
    last_obs = 0; m_last = m
    scales = onp.ones(n)
    # pass 1: scales (dynamic) via observed-only filter
    if mode == "dynamic":
        idx = [0] + [j for j in range(1, n) if obs[j]]
        R0 = ekf(disc=disc, m0=m0, P0=P0, lin=lin, grid=grid[idx], damp=damp, mode="dynamic")
        sc = R0["scale_steps"]
        for a in range(1, len(idx)):
            for j in range(idx[a - 1] + 1, idx[a] + 1):
                scales[j] = sc[a]
    sumsq, nd = 0.0, 0
    for j in range(1, n):
        dt = grid[j] - grid[j - 1]
        Phi, Q = disc(dt)
        mp = Phi @ m; Pp = Phi @ P @ Phi.T + scales[j] ** 2 * Q
        if obs[j]:
            H, b = lin(mp, grid[j]); Rm = damp**2 * onp.eye(H.shape[0])
            z = H @ mp + b; S = H @ Pp @ H.T + Rm
            K = onp.linalg.solve(S, H @ Pp).T
            sumsq += z @ onp.linalg.solve(S, z) / z.size; nd += 1
            m = mp - K @ z; P = Pp - K @ S @ K.T; P = 0.5 * (P + P.T)
        else:
            m, P = mp, Pp
        mf.append(m); Pf.append(P); mps.append(mp); Pps.append(Pp); Phis.append(Phi)
    ms, Ps = [None] * n, [None] * n
    ms[-1], Ps[-1] = mf[-1], Pf[-1]
    for j in range(n - 2, -1, -1):
        G = onp.linalg.lstsq(Pps[j + 1], Phis[j + 1] @ Pf[j], rcond=None)[0].T
        ms[j] = mf[j] + G @ (ms[j + 1] - mps[j + 1])
        Ps[j] = Pf[j] + G @ (Ps[j + 1] - Pps[j + 1]) @ G.T
    return dict(mean=onp.array(ms), cov=onp.array(Ps), scales=scales, scale_rms=onp.sqrt(sumsq / max(nd, 1)), nd=nd,
                mean_f=onp.array(mf), cov_f=onp.array(Pf))
