"""Finding 2 (C16): reverse-mode derivatives do not exist for exponential / OU / Matern priors.

`gram_util.exp_gram_cholesky` runs its doubling steps in a `lax.while_loop` whose trip
count depends on ||dt * A||. Every transition of a DenseExponential prior goes through
it, so jax.grad / jax.vjp / jax.jacrev of ANY solver output (means, stds, output scale,
LML losses) raises a ValueError, for every parameter (ODE parameter, prior base scale,
damping), even on a fixed grid. Forward mode works and matches finite differences.
Expected by the property: forward- and reverse-mode derivatives are finite and agree.
"""
import sys
import jax
jax.config.update("jax_enable_x64", True)
import jax.numpy as jnp
import probdiffeq
from probdiffeq import ivpsolve, probdiffeq as pd

print("library:", probdiffeq.__file__)
grid = jnp.linspace(0.0, 1.0, 6)


def terminal_mean(theta, prior_kind):
    base, par = theta
    ssm = pd.state_space_model_dense()
    u0 = jnp.asarray([0.7, -0.4])

    def f(u, *, t):
        return jnp.asarray([par * u[0] * u[1] - t, -u[0] ** 2 + 0.3 * u[1]])

    ode = pd.ode(f)
    tco = [u0, f(u0, t=0.0)]
    scale = base * jnp.ones(2)
    if prior_kind == "iwp":
        prior = ssm.prior_wiener_integrated(tco, output_scale=scale)
    elif prior_kind == "matern":
        prior = ssm.prior_matern(0.8, tco, output_scale=scale)
    elif prior_kind == "ou":
        prior = ssm.prior_ornstein_uhlenbeck_integrated(lambda s: -0.5 * s, tco, output_scale=scale)
    solver = pd.solver_mle(strategy=pd.strategy_filter(), constraint=ssm.constraint_ode_ts1(ode))
    sol = ivpsolve.solve_fixed_grid(solver=solver)(prior, grid=grid)
    return jnp.sum(sol.u.mean[0][-1]) + jnp.sum(sol.u.std[0][-1])


theta = jnp.asarray([0.7, 0.9])
defect = False
for kind in ["iwp", "matern", "ou"]:
    fwd = jax.jacfwd(terminal_mean)(theta, kind)
    h = 1e-6
    fd = jnp.asarray([(terminal_mean(theta.at[i].add(h), kind) - terminal_mean(theta.at[i].add(-h), kind)) / (2 * h) for i in range(2)])
    print(f"{kind}: forward mode {fwd}, central differences {fd}")
    try:
        rev = jax.grad(terminal_mean)(theta, kind)
        print(f"{kind}: reverse mode {rev}  (expected: equal to forward mode)")
        defect |= not bool(jnp.allclose(rev, fwd, rtol=1e-8))
    except Exception as err:
        print(f"{kind}: reverse mode RAISED {type(err).__name__}: {str(err)[:160]}")
        print("       expected: a finite gradient equal to the forward-mode one")
        defect = True
print("DEFECT PRESENT" if defect else "no defect")
sys.exit(1 if defect else 0)
