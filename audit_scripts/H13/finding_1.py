"""Finding 1 (C16): wrong (finite) forward/reverse derivatives through qr_r for
rank-deficient, NON-zero stacks.

`probdiffeq.backend.linalg.qr_r` switches its JVP globally to "Q is constant"
(R_dot = Q^T M_dot) as soon as ONE pivot of R is zero. That rule is only right
at the origin (M = 0). For a rank-deficient but nonzero M (e.g. a partially
exact initial covariance diag(0, 0, eps^2): exact initial values plus
`diffuse_derivatives`, or a per-leaf `is_exact`), the tangent it returns is not
upper triangular and its triangular part is not the derivative of R. The values
are right, the derivatives of the gain / backward conditional are wrong.

Part A: cholesky_util.revert_conditional, x ~ N(0, diag(0, e^2)), regular noise.
Part B: fixed-interval smoother, exact u(0), u'(0), one diffuse derivative:
        derivative of the smoothed marginal at t0 w.r.t. the prior's base output scale,
        the diffuse_eps, forward AND reverse mode, vs central differences.
"""
import sys
import jax

jax.config.update("jax_enable_x64", True)
import jax.numpy as jnp
import numpy as onp
import probdiffeq
from probdiffeq import ivpsolve
from probdiffeq import probdiffeq as pd
from probdiffeq.backend import linalg
from probdiffeq.util import cholesky_util

print("library:", probdiffeq.__file__)
onp.set_printoptions(precision=6, suppress=True, linewidth=160)
defect = False

# ---------------- Part A ----------------
A = jnp.asarray([[1.0, 0.3], [0.0, 1.0]])
Lq = jnp.asarray([[0.5, 0.0], [0.2, 0.4]])


def lib(e):
    C = jnp.diag(jnp.asarray([0.0, 1.0])) * e  # left factor of cov(x): rank 1
    R_Y, (R_XY, G) = cholesky_util.revert_conditional(
        R_X_F=(A @ C).T, R_X=C.T, R_YX=Lq.T, solve_triu=linalg.solve_triu
    )
    return G, R_XY.T @ R_XY


def dense(e):
    C = jnp.diag(jnp.asarray([0.0, 1.0])) * e
    P = C @ C.T
    S = A @ P @ A.T + Lq @ Lq.T
    G = P @ A.T @ jnp.linalg.inv(S)
    return G, P - G @ S @ G.T


e0, h = 1.3, 1e-6
val, jv = jax.jvp(lib, (e0,), (1.0,))
val_ref, jv_ref = jax.jvp(dense, (e0,), (1.0,))
fd = jax.tree_util.tree_map(lambda a, b: (a - b) / (2 * h), lib(e0 + h), lib(e0 - h))
for name, v, vr, a, b, c in zip(["gain G", "cov(x|y)"], val, val_ref, jv, jv_ref, fd):
    print(f"[A] {name}: |value - dense formula| = {float(jnp.max(jnp.abs(v - vr))):.1e}")
    print("    d/de, library jvp     :", onp.asarray(a).ravel())
    print("    d/de, dense-formula   :", onp.asarray(b).ravel())
    print("    d/de, central diff lib:", onp.asarray(c).ravel())
    err = float(jnp.max(jnp.abs(a - b)))
    print(f"    max |jvp - expected| = {err:.3e}  (expected ~1e-10)")
    defect |= err > 1e-6

# ---------------- Part B ----------------
grid = jnp.asarray([0.0, 0.1, 0.25, 0.45, 0.6])


def smoothed_t0(theta, ssm_name):
    base, deps = theta
    ssm = dict(dense=pd.state_space_model_dense, isotropic=pd.state_space_model_isotropic,
               blockdiag=pd.state_space_model_blockdiag)[ssm_name]()
    u0 = jnp.asarray([0.7, -0.4])

    def f(u, *, t):
        return jnp.asarray([0.9 * u[0] * u[1] - t, -u[0] ** 2 + 0.3 * u[1]])

    ode = pd.ode(f)
    scale = base if ssm_name == "isotropic" else base * jnp.ones(2)
    prior = ssm.prior_wiener_integrated(
        [u0, f(u0, t=0.0)], output_scale=scale, diffuse_derivatives=1, diffuse_eps=deps
    )
    solver = pd.solver(strategy=pd.strategy_smoother_fixedinterval(), constraint=ssm.constraint_ode_ts0(ode))
    sol = ivpsolve.solve_fixed_grid(solver=solver)(prior, grid=grid)
    # smoothed marginal of u''(t0): mean (d,) and std
    return jnp.concatenate([jnp.ravel(sol.u.mean[2][0]), jnp.ravel(sol.u.std[2][0])])


theta = jnp.asarray([0.7, 1.3])
for ssm_name in ["dense", "isotropic", "blockdiag"]:
    fun = lambda th: smoothed_t0(th, ssm_name)
    Jf = onp.asarray(jax.jacfwd(fun)(theta))
    Jr = onp.asarray(jax.jacrev(fun)(theta))
    for i, nm in enumerate(["base output scale", "diffuse_eps"]):
        fds = []
        for hh in [1e-4, 1e-5, 1e-6]:
            e = onp.zeros(2); e[i] = hh
            fds.append((onp.asarray(fun(theta + e)) - onp.asarray(fun(theta - e))) / (2 * hh))
        spread = onp.max(onp.abs(fds[0] - fds[2]))
        err = onp.max(onp.abs(Jf[:, i] - fds[1]))
        print(f"[B] {ssm_name}: d(smoothed mean/std of u''(t0))/d({nm})")
        print("    forward mode:", Jf[:, i])
        print("    reverse mode:", Jr[:, i])
        print("    central diff:", fds[1], f"(spread over h=1e-4..1e-6: {spread:.1e})")
        print(f"    max |AD - FD| = {err:.3e}")
        defect |= err > 1e-5

print("DEFECT PRESENT" if defect else "no defect")
sys.exit(1 if defect else 0)
