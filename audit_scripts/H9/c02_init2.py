from common import *
d = 2
def f(u, *, t):
    return u * (1 - u[::-1]) + t
grid = jnp.asarray([0.0, 0.1, 0.25, 0.3, 0.5])
ssm = pdq.state_space_model_dense()
vf = pdq.ode(f, jacobian=pdq.jacobian_materialize())
def run(theta, solver_factory, exact_coeffs, **kw):
    u0 = theta * jnp.asarray([0.4, -0.3])
    full, _ = pdq.jetexpand_ode_padded_scan(num=3)(vf, [u0], t=0.0)
    tc = full[:exact_coeffs]
    prior = ssm.prior_wiener_integrated(tc, is_exact=True, diffuse_derivatives=4 - exact_coeffs, diffuse_eps=2.0)
    c = ssm.constraint_ode_ts1(vf.jet_lift(lift_by=2))
    slv = solver_factory(strategy=pdq.strategy_filter(), constraint=c, constraint_init=c, **kw)
    sol = ivpsolve.solve_fixed_grid(solver=slv)(prior, grid=grid)
    return sol
for factory, kw in [(pdq.solver, {}), (pdq.solver_mle, {}), (pdq.solver_dynamic, {})]:
    for ex in [1, 2, 3, 4]:
        sol = run(1.0, factory, ex, **kw)
        def g(th):
            s = run(th, factory, ex, **kw)
            return jnp.sum(s.u.mean[0][-1]) , jnp.sum(s.u.std[0][-1])
        try:
            jf = jax.jacfwd(g)(1.0); jr = jax.jacrev(g)(1.0)
            h=1e-6; fd = [(a-b)/(2*h) for a, b in zip(g(1.0+h), g(1.0-h))]
        except Exception as e:
            jf = jr = fd = str(e)[:50]
        print(factory.__name__, "exact coeffs", ex, "mean0[t0][1]", onp.asarray(sol.u.mean[1][0]), "std(T)", onp.asarray(sol.u.std[0][-1]), "scale", onp.asarray(sol.output_scale[-1]), "| grads fwd", [float(x) for x in jf], "rev", [float(x) for x in jr], "fd", [float(x) for x in fd])
