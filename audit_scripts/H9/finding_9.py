"""C02 / C16: exactly vanishing residuals (ODE started at an equilibrium, or polynomial solutions
that the prior reproduces exactly) with exactly-known initial values:

 * solver_dynamic returns NaN for means, standard deviations and output scales (all factorisations;
   for the block-diagonal model one resting component suffices): the local scale is 0, the
   predicted covariance is 0, and the update divides 0 by 0 (linalg.solve_triu in
   cholesky_util.revert_conditional; solvers.py::solver_dynamic.step).
   A (pseudo-inverse) EKF returns the exact solution with zero covariance.
 * solver_mle returns the right means with zero scale (its derivatives of std / output scale are NaN
   there because `linalg.vector_norm(0)` / `np.hypot(0, 0)` are differentiated at the origin; not asserted).
 * solver (no calibration) is fine.
Exits 1 if the defect is present.
"""
import sys

import jax
import jax.numpy as jnp
import numpy as onp

jax.config.update("jax_enable_x64", True)
import probdiffeq  # noqa: E402
from probdiffeq import ivpsolve  # noqa: E402
from probdiffeq import probdiffeq as pdq  # noqa: E402

print("probdiffeq from", probdiffeq.__file__)
grid = jnp.asarray([0.0, 0.25, 0.5, 1.0])
failed = False
for ssm_factory in [pdq.state_space_model_dense, pdq.state_space_model_isotropic, pdq.state_space_model_blockdiag]:
    ssm = ssm_factory()
    for u0, label in [(jnp.asarray([0.0, 1.0]), "both components at rest"), (jnp.asarray([0.0, 0.5]), "first component at rest")]:
        for solver_factory in [pdq.solver, pdq.solver_mle, pdq.solver_dynamic]:

            def quantities(a, u0=u0, solver_factory=solver_factory):
                vf = pdq.ode(lambda u, *, t: a * u * (1 - u))  # logistic growth; u=0 and u=1 are equilibria
                tc, _ = pdq.jetexpand_ode_padded_scan(num=2)(vf, [u0], t=0.0)
                prior = ssm.prior_wiener_integrated(tc)
                ts0 = ssm.constraint_ode_ts0(vf)
                slv = solver_factory(strategy=pdq.strategy_filter(), constraint=ts0)
                sol = ivpsolve.solve_fixed_grid(solver=slv)(prior, grid=grid)
                return sol.u.mean[0][-1], jnp.ravel(jnp.asarray(sol.u.std[0][-1]))

            a0 = jnp.asarray(0.5)
            mean, std = quantities(a0)
            exact = u0 * jnp.exp(a0) / (1 + u0 * (jnp.exp(a0) - 1))
            g_rev = jax.grad(lambda a: jnp.sum(quantities(a)[0]))(a0)
            h = 1e-6
            g_fd = (jnp.sum(quantities(a0 + h)[0]) - jnp.sum(quantities(a0 - h)[0])) / (2 * h)
            bad = not (bool(jnp.all(jnp.isfinite(mean))) and bool(jnp.all(jnp.isfinite(std))) and bool(jnp.isfinite(g_rev)))
            failed |= bad
            print(f"{ssm_factory.__name__[18:]:10s} {label:25s} {solver_factory.__name__:15s}: u(1)={onp.asarray(mean)} (exact {onp.asarray(exact).round(6)}) std={onp.asarray(std)} "
                  f"d sum(u(1))/da: reverse={float(g_rev):.6f} FD={float(g_fd):.6f} {'<<<' if bad else ''}")

print("\nDEFECT PRESENT" if failed else "\nno defect")
sys.exit(1 if failed else 0)
