from common import *
import traceback

def attempt(name, fn):
    try:
        with warnings.catch_warnings(record=True) as w:
            warnings.simplefilter("always")
            out = fn()
        u = out.u.mean[0]
        print(f"ACCEPTED {name}: t.shape={out.t.shape}, u0.shape={u.shape}, finite={bool(jnp.all(jnp.isfinite(u)))}, warns={[str(x.message)[:60] for x in w]}")
        return out
    except Exception as e:
        print(f"raised   {name}: {type(e).__name__}: {str(e)[:100]}")

for ssm_name in ["dense", "isotropic", "blockdiag"]:
    print("=====", ssm_name)
    S = make(ssm_name)
    solve = ivpsolve.solve_fixed_grid(solver=S["solver"])
    p = S["prior"]
    attempt("grid ok", lambda: solve(p, grid=jnp.linspace(0, 1, 5)))
    attempt("grid 2d (5,1)", lambda: solve(p, grid=jnp.linspace(0, 1, 5)[:, None]))
    attempt("grid 2d (1,5)", lambda: solve(p, grid=jnp.linspace(0, 1, 5)[None, :]))
    attempt("grid 2d (2,5)", lambda: solve(p, grid=jnp.stack([jnp.linspace(0, 1, 5)]*2)))
    attempt("grid scalar", lambda: solve(p, grid=jnp.asarray(1.0)))
    attempt("grid len1", lambda: solve(p, grid=jnp.asarray([1.0])))
    attempt("grid list", lambda: solve(p, grid=[0., 0.5, 1.]))
    attempt("grid int dtype", lambda: solve(p, grid=jnp.arange(0, 3)))
    attempt("grid decreasing", lambda: solve(p, grid=jnp.linspace(1, 0, 5)))
    attempt("grid unsorted", lambda: solve(p, grid=jnp.asarray([0., 0.5, 0.25, 1.0])))
    attempt("grid duplicate", lambda: solve(p, grid=jnp.asarray([0., 0.5, 0.5, 1.0])))
    attempt("grid nan", lambda: solve(p, grid=jnp.asarray([0., jnp.nan, 1.0])))
    attempt("grid complex", lambda: solve(p, grid=jnp.asarray([0., 0.5, 1.0]) + 0j))
    attempt("grid bool", lambda: solve(p, grid=jnp.asarray([False, True])))
    attempt("damp vec", lambda: solve(p, grid=jnp.linspace(0, 1, 5), damp=jnp.ones(2)*0.1))
    attempt("damp neg", lambda: solve(p, grid=jnp.linspace(0, 1, 5), damp=-0.1))
    attempt("damp str", lambda: solve(p, grid=jnp.linspace(0, 1, 5), damp="a"))
    attempt("u = tcoeffs not prior", lambda: solve(S["tc"], grid=jnp.linspace(0, 1, 5)))
    attempt("u = init normal", lambda: solve(p.init, grid=jnp.linspace(0, 1, 5)))
