from common import *
from ekf_ref import ekf, iwp_1d
import sys, itertools

d = 2
def f3(u, du, ddu, *, t):
    return -ddu * u[::-1] + t * du - u + 0.3 * du * du[::-1]
f3_np = f3
def f1(u, *, t):
    return u * (1 - u[::-1]) + t
def f2(u, du, *, t):
    return -u * u[::-1] + 0.5 * du * t - du[::-1]

def make_lin(f, k, q, kind, jacmode):
    """kind: ts0/ts1. jacmode: dense/isotropic/blockdiag"""
    n = q + 1
    def lin(m, t):
        M = jnp.asarray(m).reshape(n, d)
        args = [M[i] for i in range(k)]
        fx = f(*args, t=t)
        Ek = onp.zeros((d, n*d)); Ek[:, k*d:(k+1)*d] = onp.eye(d)
        if kind == "ts0":
            return Ek, -onp.asarray(fx)
        Js = [onp.asarray(jax.jacfwd(lambda a, i=i: f(*[a if j == i else args[j] for j in range(k)], t=t))(args[i])) for i in range(k)]
        if jacmode == "isotropic":
            Js = [onp.trace(J)/d*onp.eye(d) for J in Js]
        elif jacmode == "blockdiag":
            Js = [onp.diag(onp.diag(J)) for J in Js]
        H = Ek.copy()
        for i in range(k):
            H[:, i*d:(i+1)*d] -= Js[i]
        b = (M[k] - onp.asarray(fx)) - H @ m
        return H, b
    return lin

def run_lib(ssm_name, f, k, q, kind, solver_name, grid, damp, is_exact=True, use_residual=False, constraint_init=False, relin=False, diffuse=0):
    ssm = {"dense": pdq.state_space_model_dense, "isotropic": pdq.state_space_model_isotropic, "blockdiag": pdq.state_space_model_blockdiag}[ssm_name]()
    vf = pdq.ode_order_arbitrary(f, num_tcoeffs_in_args=k, jacobian=pdq.jacobian_materialize())
    u0s = [jnp.asarray([0.4, -0.3]) * (i + 1) + 0.1 * i for i in range(k)]
    tc = list(u0s) + [f(*u0s, t=grid[0])]
    # fill remaining with zeros (not jet-consistent; EKF-equality should hold regardless)
    while len(tc) < q + 1 - diffuse:
        tc.append(0.1 * jnp.ones(d) * len(tc))
    tc = tc[: q + 1 - diffuse]
    if ssm_name == "isotropic" and not isinstance(is_exact, bool):
        pass
    prior = ssm.prior_wiener_integrated(tc, is_exact=is_exact, inexact_eps=0.3, diffuse_derivatives=diffuse, diffuse_eps=2.0)
    if use_residual:
        def res(*args, t):
            *a, last = args
            return last - f(*a, t=t)
        residual = pdq.JetResidual(lambda *, jet_coords, t: [res(*jet_coords, t=t)], jacobian=pdq.jacobian_materialize(), num_tcoeffs_in_args=k+1)
        c = ssm.constraint_residual(residual)
    elif kind == "ts0":
        c = ssm.constraint_ode_ts0(vf)
    else:
        c = ssm.constraint_ode_ts1(vf)
    kw = {}
    if constraint_init:
        kw["constraint_init"] = c
    if solver_name == "dynamic":
        kw["re_linearize_after_calibration"] = relin
    if solver_name == "mle":
        kw["correct_asymptotic_underconfidence"] = False
    slv = {"solver": pdq.solver, "mle": pdq.solver_mle, "dynamic": pdq.solver_dynamic}[solver_name](strategy=pdq.strategy_filter(), constraint=c, **kw)
    sol = ivpsolve.solve_fixed_grid(solver=slv)(prior, grid=jnp.asarray(grid), damp=damp)
    m, C = sol.u.to_multivariate_normal()
    m0, P0 = prior.init.to_multivariate_normal()
    return onp.asarray(m), onp.asarray(C), onp.asarray(m0), onp.asarray(P0), onp.asarray(sol.output_scale)

def compare(ssm_name, f, k, q, kind, solver_name, grid, damp, verbose=True, **kw):
    m, C, m0, P0, scale = run_lib(ssm_name, f, k, q, kind, solver_name, grid, damp, **kw)
    kind_ref = "ts1" if kw.get("use_residual") else kind
    lin = make_lin(f, k, q, kind_ref, ssm_name)
    mode = {"solver": "none", "mle": "mle", "dynamic": "dynamic"}[solver_name]
    out, sig = ekf(m0=m0, P0=P0, grid=grid, q=q, d=d, lin=lin, damp=damp, mode=mode, relin=kw.get("relin", False), lin_init=lin if kw.get("constraint_init") else None)
    mref = onp.stack([o[0] for o in out]); Cref = onp.stack([o[1] for o in out])
    if mode == "mle":
        Cref = Cref * sig**2
    em = onp.max(onp.abs(m - mref) / (1e-12 + onp.abs(mref).max(axis=0, keepdims=True)))
    ec = onp.max(onp.abs(C - Cref)) / max(onp.abs(Cref).max(), 1e-300)
    flag = "  <<<<<" if (em > 1e-7 or ec > 1e-6 or not onp.isfinite(em + ec)) else ""
    if verbose or flag:
        print(f"{ssm_name:9s} k={k} q={q} {kind} {solver_name:7s} damp={damp} {kw}: mean relerr={em:.2e} cov relerr={ec:.2e} scale={onp.asarray(scale).ravel()[-1]:.4g} ref={onp.ravel(sig)[-1]:.4g}{flag}")
    return em, ec

if __name__ == "__main__":
    grid = onp.array([0.0, 0.1, 0.25, 0.3, 0.5])
    for ssm_name in sys.argv[1:] or ["dense"]:
        for (f, k) in [(f3, 3), (f2, 2), (f1, 1)]:
            for q in [k, k + 2]:
                for kind in ["ts0", "ts1"]:
                    for solver_name in ["solver", "mle", "dynamic"]:
                        for damp in [0.0, 0.05]:
                            if ssm_name == "blockdiag" and solver_name != "solver":
                                continue  # per-dim calibration handled elsewhere
                            try:
                                compare(ssm_name, f, k, q, kind, solver_name, grid, damp, verbose=False)
                                if kind == "ts1":
                                    compare(ssm_name, f, k, q, kind, solver_name, grid, damp, verbose=False, use_residual=True)
                            except Exception as e:
                                print("EXC", ssm_name, k, q, kind, solver_name, damp, type(e).__name__, str(e)[:200])
    print("done")
