"""Re-run the gradient checks with a runtime-patched (numerically stable) qr_r JVP to look for OTHER root causes."""
import sys
from c16_fixed import *
from probdiffeq.backend import linalg
@jax.custom_jvp
def qr_r2(arr):
    return jnp.linalg.qr(arr, mode="r")
@qr_r2.defjvp
def _jvp(primals, tangents):
    (M,), (M_dot,) = primals, tangents
    Q, R = jnp.linalg.qr(M, mode="reduced")
    R_dot_singular = Q.T @ M_dot
    if R.shape[0] != R.shape[1]:
        return R, R_dot_singular
    is_regular = jnp.all(jnp.diagonal(R) != 0.0)
    R_safe = jnp.where(is_regular, R, jnp.eye(*R.shape, dtype=R.dtype))
    X = jax.scipy.linalg.solve_triangular(R_safe.T, R_dot_singular.T, lower=True).T
    L = jnp.tril(X, -1)
    R_dot_regular = jnp.triu(R_dot_singular - (L - L.T) @ R_safe)
    return R, jnp.where(is_regular, R_dot_regular, R_dot_singular)
linalg.qr_r = qr_r2
theta = {"a": jnp.asarray(0.7), "u0": jnp.asarray([0.3, 0.6]), "scale": jnp.asarray(1.3), "noise": jnp.asarray(0.2)}
ssm_name = sys.argv[1]
for solver_name in ["solver", "mle", "dynamic"]:
    jax.clear_caches()
    for is_exact in [True, False]:
        for damp in [0.0, 0.01]:
            check(build(ssm_name, solver_name, "fixedinterval", "ts1", is_exact, damp=damp), theta, f"PATCHED {ssm_name} {solver_name} fixedinterval ts1 exact={is_exact} damp={damp}", verbose=True, tol=1e-4)
