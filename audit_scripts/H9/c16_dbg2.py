from c16_fixed import *
import sys
from probdiffeq.backend import linalg
onp.set_printoptions(linewidth=250, precision=5, suppress=False)
mode = sys.argv[1]
if mode != "orig":
    @jax.custom_jvp
    def qr_r2(arr):
        return jnp.linalg.qr(arr, mode="r")
    @qr_r2.defjvp
    def _jvp(primals, tangents):
        (M,), (M_dot,) = primals, tangents
        Q, R = jnp.linalg.qr(M, mode="reduced")
        R_dot_singular = Q.T @ M_dot
        if R.shape[0] != R.shape[1]:
            return R, R_dot_singular
        dg = jnp.abs(jnp.diagonal(R))
        if mode == "thresh":
            is_regular = jnp.all(dg > 1e-10 * jnp.max(dg))
        elif mode == "report":
            is_regular = jnp.all(dg != 0.0)
            jax.debug.print("min/max diag ratio {x} shape {s}", x=jnp.min(dg)/jnp.max(dg), s=R.shape[0])
        R_safe = jnp.where(is_regular, R, jnp.eye(*R.shape, dtype=R.dtype))
        X = jax.scipy.linalg.solve_triangular(R_safe.T, R_dot_singular.T, lower=True).T
        L = jnp.tril(X, -1)
        R_dot_regular = (X - L + L.T) @ R_safe
        return R, jnp.where(is_regular, R_dot_regular, R_dot_singular)
    linalg.qr_r = qr_r2
theta = {"a": jnp.asarray(0.7), "u0": jnp.asarray([0.3, 0.6]), "scale": jnp.asarray(1.3), "noise": jnp.asarray(0.2)}
outputs = build("dense", "solver", "fixedinterval", "ts1", False)
flat, unravel = jax.flatten_util.ravel_pytree(theta)
def F(x):
    o = outputs(unravel(x))
    return o["std"].ravel()[:4]
if mode == "report":
    jax.jvp(F, (flat,), (jnp.ones_like(flat),))
    sys.exit()
Jf = onp.asarray(jax.jacfwd(F)(flat)); Jr = onp.asarray(jax.jacrev(F)(flat))
h = 1e-5
Jd = onp.stack([(onp.asarray(F(flat.at[i].add(h))) - onp.asarray(F(flat.at[i].add(-h)))) / (2*h) for i in range(flat.size)], axis=1)
print("fwd\n", Jf); print("rev\n", Jr); print("fd\n", Jd)
