from common import *
import sys, itertools

def build(ssm_name, solver_name, strategy_name, kind, is_exact, q=3, constraint_init=False, damp=0.0, dyn_relin=False):
    ssm = {"dense": pdq.state_space_model_dense, "isotropic": pdq.state_space_model_isotropic, "blockdiag": pdq.state_space_model_blockdiag}[ssm_name]()
    grid = jnp.asarray([0.0, 0.15, 0.4, 0.5, 0.8])
    N = len(grid)
    def outputs(theta):
        a, u0s, scale, noise = theta["a"], theta["u0"], theta["scale"], theta["noise"]
        def f(u, *, t):
            return a * u * (1 - u[::-1]) + jnp.sin(t) * a**2
        vf = pdq.ode(f, jacobian=pdq.jacobian_materialize())
        tc, _ = pdq.jetexpand_ode_padded_scan(num=q)(vf, [u0s], t=grid[0])
        if ssm_name == "isotropic":
            os_ = scale
        else:
            os_ = scale * jnp.asarray([1.0, 1.5])
        prior = ssm.prior_wiener_integrated(tc, is_exact=is_exact, inexact_eps=0.05, output_scale=os_)
        c = ssm.constraint_ode_ts0(vf) if kind == "ts0" else ssm.constraint_ode_ts1(vf)
        strat = {"filter": pdq.strategy_filter, "fixedpoint": pdq.strategy_smoother_fixedpoint, "fixedinterval": pdq.strategy_smoother_fixedinterval}[strategy_name]()
        kw = {}
        if constraint_init: kw["constraint_init"] = c
        if solver_name == "dynamic":
            kw["stop_gradient_through_calibration"] = False
            kw["re_linearize_after_calibration"] = dyn_relin
        slv = {"solver": pdq.solver, "mle": pdq.solver_mle, "dynamic": pdq.solver_dynamic}[solver_name](strategy=strat, constraint=c, **kw)
        with warnings.catch_warnings():
            warnings.simplefilter("ignore")
            sol = ivpsolve.solve_fixed_grid(solver=slv)(prior, grid=grid, damp=damp)
        out = {"mean": sol.u.mean[0], "mean1": sol.u.mean[1][-1], "std": sol.u.std[0][1:], "scale": sol.output_scale}
        if strategy_name != "filter":
            data = jnp.stack([jnp.cos(grid), jnp.sin(grid)], axis=1) * 0.3 + 0.2
            if ssm_name == "isotropic":
                std = noise * jnp.ones(N)
            else:
                std = noise * jnp.ones((N, 2)) * jnp.asarray([1.0, 2.0])
            out["lml"] = pdq.loss_lml_timeseries()(data, posterior=sol.solution_full.posterior, std=std)
        margT = jax.tree_util.tree_map(lambda s: s[-1], sol.u)
        stdT = noise if ssm_name == "isotropic" else noise * jnp.asarray([1.0, 2.0])
        out["lmlT"] = pdq.loss_lml_terminal_values()(jnp.asarray([0.4, 0.1]), marginals=margT, std=stdT)
        return out
    return outputs

def check(outputs, theta, label, tol=2e-5, verbose=False):
    flat, unravel = jax.flatten_util.ravel_pytree(theta)
    def F(x):
        return jax.flatten_util.ravel_pytree(outputs(unravel(x)))[0]
    y0 = F(flat)
    names = []
    o = outputs(theta)
    for k in sorted(o.keys()):
        names += [k] * int(onp.size(o[k]))
    # jax flatten sorts dict keys
    Jf = onp.asarray(jax.jacfwd(F)(flat))
    Jr = onp.asarray(jax.jacrev(F)(flat))
    h = 1e-5
    Jd = onp.stack([(onp.asarray(F(flat.at[i].add(h))) - onp.asarray(F(flat.at[i].add(-h)))) / (2*h) for i in range(flat.size)], axis=1)
    tnames = []
    for k in sorted(theta.keys()):
        tnames += [k] * int(onp.size(theta[k]))
    bad = []
    scale = onp.maximum(onp.abs(Jd), 1e-3*onp.abs(Jd).max(axis=1, keepdims=True) + 1e-8)
    for A, B, nm in [(Jf, Jr, "fwd-vs-rev"), (Jf, Jd, "fwd-vs-fd"), (Jr, Jd, "rev-vs-fd")]:
        if not onp.all(onp.isfinite(A)) or not onp.all(onp.isfinite(B)):
            idx = onp.argwhere(~onp.isfinite(A) | ~onp.isfinite(B))
            bad.append((nm, "NONFINITE", sorted(set((names[i], tnames[j]) for i, j in idx))))
            continue
        err = onp.abs(A - B) / scale
        thr = 1e-8 if nm == "fwd-vs-rev" else tol
        if err.max() > thr:
            idx = onp.argwhere(err > thr)
            bad.append((nm, float(err.max()), sorted(set((names[i], tnames[j]) for i, j in idx))[:8]))
    if not onp.all(onp.isfinite(y0)):
        bad.append(("value", "NONFINITE", sorted(set(names[i] for i in onp.argwhere(~onp.isfinite(onp.asarray(y0))).ravel()))))
    if bad or verbose:
        print(label, "BAD" if bad else "ok", bad)
    return bad

if __name__ == "__main__":
    theta = {"a": jnp.asarray(0.7), "u0": jnp.asarray([0.3, 0.6]), "scale": jnp.asarray(1.3), "noise": jnp.asarray(0.2)}
    ssm_name = sys.argv[1]
    solvers = sys.argv[2].split(",") if len(sys.argv) > 2 else ["solver", "mle", "dynamic"]
    damp = float(sys.argv[3]) if len(sys.argv) > 3 else 0.0
    for solver_name in solvers:
        for strategy_name in ["filter", "fixedinterval"]:
            for kind in ["ts0", "ts1"]:
                jax.clear_caches()
                for is_exact in [True, False]:
                    label = f"{ssm_name} {solver_name} {strategy_name} {kind} exact={is_exact} damp={damp}"
                    try:
                        check(build(ssm_name, solver_name, strategy_name, kind, is_exact, damp=damp), theta, label, verbose=True)
                    except Exception as e:
                        print(label, "EXC", type(e).__name__, str(e)[:200])
