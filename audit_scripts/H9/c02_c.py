from c02_third import *
import sys
grid = onp.array([0.0, 0.1, 0.25, 0.3, 0.5])
ssm_name = sys.argv[1]
for (f, k) in [(f3, 3), (f1, 1)]:
    for q in [k, k + 2]:
        jax.clear_caches()
        for kind in ["ts0", "ts1"]:
            for solver_name in ["solver", "mle", "dynamic"]:
                for damp in [0.0, 0.05]:
                    for (is_exact, diffuse) in [(False, 0), (True, 1), (False, 2)]:
                        for ci in [True, False]:
                            if ssm_name == "blockdiag" and solver_name != "solver":
                                continue
                            try:
                                compare(ssm_name, f, k, q, kind, solver_name, grid, damp, verbose=False, is_exact=is_exact, diffuse=diffuse, constraint_init=ci)
                            except Exception as e:
                                print("EXC", ssm_name, k, q, kind, solver_name, damp, is_exact, diffuse, ci, type(e).__name__, str(e)[:200])
print("done")
