"""C16: forward- and reverse-mode derivatives of smoothing solutions disagree with each
other and with finite differences (dense + TS1 + fixed-interval smoother, damp=0).

Root cause: probdiffeq/backend/linalg.py::qr_r_jvp, "regular" branch,
    R_dot_regular = (X - L + L.T) @ R_safe      with X = Q^T M_dot R^{-1}
forms X @ R = (Q^T M_dot R^{-1}) R.  After a noise-free update (damp=0) the filtering
covariance is rank-deficient, so the stacked matrix that revert_conditional triangularises
has pivots ~1e-17 (not exactly 0.0, so `is_regular` is True).  X then has entries ~1e17 and
X @ R loses all digits.  The algebraically identical
    R_dot = triu(Q^T M_dot - (L - L.T) @ R)
is stable for every row above the tiny pivot.

Exits 1 if the defect is present.
"""
import sys
import warnings

import jax
import jax.numpy as jnp
import numpy as onp

jax.config.update("jax_enable_x64", True)
import probdiffeq  # noqa: E402
from probdiffeq import ivpsolve  # noqa: E402
from probdiffeq import probdiffeq as pdq  # noqa: E402
from probdiffeq.backend import linalg  # noqa: E402

print("probdiffeq from", probdiffeq.__file__)
onp.set_printoptions(linewidth=200, precision=6)
failed = False

# ---------------------------------------------------------------- (a) micro level
rng = onp.random.default_rng(3)
k, n = 2, 4
A = jnp.asarray(rng.normal(size=(k, k)))
B = jnp.asarray(rng.normal(size=(n, k)))
Cm = rng.normal(size=(n, n))
Cm[:, 1] = 0.3 * Cm[:, 0]  # a rank-deficient Cholesky factor (like a noise-free posterior)
Cm, G, dB = jnp.asarray(Cm), jnp.asarray(rng.normal(size=(n, n))), jnp.asarray(rng.normal(size=(n, k)))


def stack(th):  # the block matrix of cholesky_util.revert_conditional
    return jnp.block([[A, jnp.zeros((k, n))], [B + th * dB, Cm @ (jnp.eye(n) + th * G)]])


def top(th):  # (R_Y, R12): unique (up to signs) and smooth in th
    R = linalg.qr_r(stack(th))
    return (R * jnp.sign(jnp.diagonal(R))[:, None])[:k, :]


print("pivots of R:", onp.diagonal(onp.asarray(linalg.qr_r(stack(0.0)))))
fwd = onp.asarray(jax.jacfwd(top)(0.0))
rev = onp.asarray(jax.jacrev(top)(0.0))
h = 1e-6
fd = onp.asarray((top(h) - top(-h)) / (2 * h))
print("d(R_Y,R12)/dtheta  forward-mode:\n", fwd, "\nreverse-mode:\n", rev, "\ncentral differences:\n", fd)
e = max(onp.abs(fwd - fd).max(), onp.abs(rev - fd).max())
print(f"micro test: max |AD - FD| = {e:.3e}  (expected <~1e-8; entries are O(1))")
failed |= bool(e > 1e-6)

# ---------------------------------------------------------------- (b) full solve
grid = jnp.asarray([0.0, 0.15, 0.4, 0.5, 0.8])
data = jnp.stack([jnp.cos(grid), jnp.sin(grid)], axis=1) * 0.3 + 0.2


def make_outputs(solver_factory, **solver_kw):
    def outputs(a):
        def f(u, *, t):
            return a * u * (1 - u[::-1]) + jnp.sin(t) * a**2

        vf = pdq.ode(f, jacobian=pdq.jacobian_materialize())
        tc, _ = pdq.jetexpand_ode_padded_scan(num=3)(vf, [jnp.asarray([0.3, 0.6])], t=0.0)
        ssm = pdq.state_space_model_dense()
        prior = ssm.prior_wiener_integrated(tc, is_exact=False, inexact_eps=0.05)
        ts1 = ssm.constraint_ode_ts1(vf)
        slv = solver_factory(strategy=pdq.strategy_smoother_fixedinterval(), constraint=ts1, **solver_kw)
        sol = ivpsolve.solve_fixed_grid(solver=slv)(prior, grid=grid)  # damp=0.0 (default)
        lml = pdq.loss_lml_timeseries()(data, posterior=sol.solution_full.posterior, std=0.2 * jnp.ones((5, 2)))
        return jnp.concatenate([sol.u.std[0][1:3].ravel(), sol.u.mean[0][1:3].ravel(), lml[None]])

    return outputs


names = ["std(t1)[0]", "std(t1)[1]", "std(t2)[0]", "std(t2)[1]", "mean(t1)[0]", "mean(t1)[1]", "mean(t2)[0]", "mean(t2)[1]", "lml"]
for label, factory, kw in [
    ("solver", pdq.solver, {}),
    ("solver_dynamic(stop_gradient_through_calibration=False)", pdq.solver_dynamic, {"stop_gradient_through_calibration": False}),
]:
    outputs = make_outputs(factory, **kw)
    a0 = jnp.asarray(0.7)
    with warnings.catch_warnings():
        warnings.simplefilter("ignore")
        _, fwd = jax.jvp(outputs, (a0,), (jnp.ones(()),))
        rev = jax.jacrev(outputs)(a0)
        fds = {h: (outputs(a0 + h) - outputs(a0 - h)) / (2 * h) for h in [1e-4, 1e-5]}
    print(f"\n{label}, dense, TS1, fixed-interval smoother, inexact initial state, damp=0; d/da of")
    print(f"{'quantity':14s} {'forward':>14s} {'reverse':>14s} {'FD h=1e-4':>14s} {'FD h=1e-5':>14s}")
    for i, nm in enumerate(names):
        print(f"{nm:14s} {float(fwd[i]):14.6e} {float(rev[i]):14.6e} {float(fds[1e-4][i]):14.6e} {float(fds[1e-5][i]):14.6e}")
    fd = onp.asarray(fds[1e-5])
    scale = onp.maximum(onp.abs(fd), 1e-6)
    e_fr = (onp.abs(onp.asarray(fwd) - onp.asarray(rev)) / scale).max()
    e_f = (onp.abs(onp.asarray(fwd) - fd) / scale).max()
    e_r = (onp.abs(onp.asarray(rev) - fd) / scale).max()
    print(f"max relative deviation: fwd-vs-rev {e_fr:.2e}, fwd-vs-FD {e_f:.2e}, rev-vs-FD {e_r:.2e}   (expected <~1e-6)")
    failed |= bool(max(e_fr, e_f, e_r) > 1e-4)

print("\nDEFECT PRESENT" if failed else "\nno defect")
sys.exit(1 if failed else 0)
