from common import *
from probdiffeq.backend import linalg
onp.set_printoptions(linewidth=200, precision=6)
rng = onp.random.default_rng(1)
n = 4
B = rng.normal(size=(n, n-1))
C = rng.normal(size=(n-1, n))
M0 = jnp.asarray(B @ C)   # rank n-1 in exact arithmetic
D = jnp.asarray(rng.normal(size=(n, n-1)) @ C)  # perturbation direction that keeps the rank deficiency
def g(th):
    R = linalg.qr_r(M0 + th * D)
    return R.T @ R
def g_true(th):
    M = M0 + th * D
    return M.T @ M
R = linalg.qr_r(M0); print("diag R:", onp.diagonal(onp.asarray(R)))
for fun, nm in [(g, "via qr_r"), (g_true, "direct")]:
    fwd = jax.jacfwd(fun)(0.0); rev = jax.jacrev(fun)(0.0)
    print(nm, "fwd\n", onp.asarray(fwd), "\nrev\n", onp.asarray(rev))
ref = onp.asarray(jax.jacfwd(g_true)(0.0))
print("max abs err fwd:", onp.abs(onp.asarray(jax.jacfwd(g)(0.0)) - ref).max(), " rev:", onp.abs(onp.asarray(jax.jacrev(g)(0.0)) - ref).max(), " scale:", onp.abs(ref).max())
