from common import *
grid = jnp.asarray([0.0, 0.1, 0.25, 0.3, 0.5])
ssm = pdq.state_space_model_dense()
def make(stds):
    def quantity(theta):
        def f(u, *, t):
            return theta * u * (1 - u[::-1]) + t
        vf = pdq.ode(f, jacobian=pdq.jacobian_materialize())
        u0 = theta * jnp.asarray([0.4, -0.3])
        z = jnp.zeros(2)
        prior = ssm.prior_wiener_integrated_diffuse([u0, z, z], [z, jnp.asarray(stds[0]), jnp.asarray(stds[1])])
        c = ssm.constraint_ode_ts1(vf)
        slv = pdq.solver(strategy=pdq.strategy_filter(), constraint=c, constraint_init=c)
        sol = ivpsolve.solve_fixed_grid(solver=slv)(prior, grid=grid)
        return jnp.sum(sol.u.mean[0][-1])
    return quantity
for stds in [([2.0, 2.0], [2.0, 2.0]), ([2.0, 3.0], [2.0, 2.0]), ([2.0, 2.0 + 1e-9], [2.0, 2.0])]:
    g = make(stds); th = jnp.asarray(1.1)
    print(stds, "fwd", float(jax.jvp(g, (th,), (jnp.ones(()),))[1]), "rev", float(jax.grad(g)(th)), "fd", float((g(th+1e-6)-g(th-1e-6))/2e-6))
