"""C02 (and C16): solver_mle + constraint_init returns NaN output scale / covariances when the
initial constraint is already satisfied exactly (exact, zero-covariance initial Taylor
coefficients, damp=0) -- although the update itself is made robust with lstsq_svd.

Textbook EKF with the pseudo-inverse convention (the convention that `solver.init` and
`solver_dynamic.init` implement through solve_triu=lstsq_svd): the initial observation has
residual 0 and covariance 0, the update is a no-op, and its whitened residual is 0.

Code site: probdiffeq/_probdiffeq/solvers.py::solver_mle.init ->
  fx_init.bayes_rule_and_residual_whitened_rms_tree(zeros, u_pred, solve_triu=linalg.lstsq_svd)
  -> ssm_impl_api.AbstractLatentCond.bayes_rule_and_residual_whitened_rms_tree
  -> observed.residual_whitened_rms_tree(data) -> linalg.solve_tril(cholesky=0, 0) = NaN
  (the `solve_triu` argument is not used for the whitening).

Exits 1 if the defect is present.
"""
import sys
from math import factorial

import jax
import jax.numpy as jnp
import numpy as onp

jax.config.update("jax_enable_x64", True)
import probdiffeq  # noqa: E402
from probdiffeq import ivpsolve  # noqa: E402
from probdiffeq import probdiffeq as pdq  # noqa: E402

print("probdiffeq from", probdiffeq.__file__)
d, q = 2, 3
grid = onp.array([0.0, 0.1, 0.25, 0.3, 0.5])


def f(u, *, t):
    return u * (1 - u[::-1]) + t


def reference_ekf_mle(m0, P0, with_init, per_dimension):
    """Covariance-form EKF0 with quasi-MLE calibration; pinv for the initial update."""
    n = q + 1
    E1 = onp.zeros((d, n * d))
    E1[:, d : 2 * d] = onp.eye(d)
    m, P, ssq, ndata = m0.copy(), P0.copy(), onp.zeros(d), 0
    if with_init:
        z = E1 @ m - onp.asarray(f(jnp.asarray(m[:d]), t=grid[0]))
        S = E1 @ P @ E1.T
        Sp = onp.linalg.pinv(S)
        K = P @ E1.T @ Sp
        ssq += z * (Sp @ z)  # S is diagonal for this (decoupled) linearisation
        ndata += 1
        m, P = m - K @ z, P - K @ S @ K.T
    out = [(m, P)]
    for t0, t1 in zip(grid[:-1], grid[1:]):
        h = t1 - t0
        A1 = onp.array([[h ** (j - i) / factorial(j - i) if j >= i else 0.0 for j in range(n)] for i in range(n)])
        Q1 = onp.array([[h ** (2 * q + 1 - i - j) / ((2 * q + 1 - i - j) * factorial(q - i) * factorial(q - j)) for j in range(n)] for i in range(n)])
        Am, Qm = onp.kron(A1, onp.eye(d)), onp.kron(Q1, onp.eye(d))
        mp, Pp = Am @ m, Am @ P @ Am.T + Qm
        z = E1 @ mp - onp.asarray(f(jnp.asarray(mp[:d]), t=t1))
        S = E1 @ Pp @ E1.T
        K = onp.linalg.solve(S, E1 @ Pp).T
        ssq += z * onp.linalg.solve(S, z)
        ndata += 1
        m, P = mp - K @ z, Pp - K @ S @ K.T
        out.append((m, P))
    s2 = ssq / ndata if per_dimension else onp.mean(ssq) / ndata * onp.ones(d)
    sig = onp.tile(onp.sqrt(s2), n)  # coefficient-major state ordering
    Cs = onp.stack([o[1] for o in out]) * sig[None, :, None] * sig[None, None, :]
    return onp.stack([o[0] for o in out]), Cs, onp.sqrt(s2) if per_dimension else onp.sqrt(s2[0])


failed = False
for ssm_factory in [pdq.state_space_model_dense, pdq.state_space_model_isotropic, pdq.state_space_model_blockdiag]:
    ssm = ssm_factory()
    vf = pdq.ode(f)
    u0 = jnp.asarray([0.4, -0.3])
    tc = [u0, f(u0, t=0.0), 0.2 * jnp.ones(d)]  # exactly known u, u', u''
    prior = ssm.prior_wiener_integrated(tc, is_exact=True, diffuse_derivatives=1, diffuse_eps=2.0)
    ts0 = ssm.constraint_ode_ts0(vf)
    m0, P0 = (onp.asarray(s) for s in prior.init.to_multivariate_normal())
    for with_init in [False, True]:
        kw = {"constraint_init": ts0} if with_init else {}
        slv = pdq.solver_mle(strategy=pdq.strategy_filter(), constraint=ts0, correct_asymptotic_underconfidence=False, **kw)
        sol = ivpsolve.solve_fixed_grid(solver=slv)(prior, grid=jnp.asarray(grid))
        m, C = (onp.asarray(s) for s in sol.u.to_multivariate_normal())
        mref, Cref, sref = reference_ekf_mle(m0, P0, with_init, per_dimension=isinstance(ssm, pdq.state_space_model_blockdiag))
        scale = onp.asarray(sol.output_scale)[-1]
        em = onp.abs(m - mref).max()
        ec = onp.abs(C - Cref).max() / onp.abs(Cref).max()
        print(f"{type(ssm).__name__:28s} constraint_init={with_init!s:5s}: output scale lib={onp.ravel(scale)} ref={sref}; "
              f"mean abs err={em:.2e}; cov rel err={ec:.2e}; any NaN in std: {bool(onp.isnan(onp.asarray(sol.u.std[0])).any())}")
        if with_init and (not onp.isfinite(ec) or ec > 1e-8):
            failed = True
    # the uncalibrated solver handles the same (singular) initial update without NaN:
    slv = pdq.solver(strategy=pdq.strategy_filter(), constraint=ts0, constraint_init=ts0)
    sol = ivpsolve.solve_fixed_grid(solver=slv)(prior, grid=jnp.asarray(grid))
    print(f"{'':28s} (solver, same constraint_init: all finite = {bool(jnp.all(jnp.isfinite(sol.u.std[0])))})")

print("\nDEFECT PRESENT" if failed else "\nno defect")
sys.exit(1 if failed else 0)
