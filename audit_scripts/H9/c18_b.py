from common import *
def f(u, *, t):
    return {"a": -jnp.sum(u["b"]), "b": u["a"] * jnp.ones_like(u["b"])}
vf = pdq.ode(f)
for u0 in [{"a": jnp.asarray(0.0), "b": jnp.zeros(2)}, {"a": jnp.asarray(1.0), "b": jnp.asarray([0.0, 2.0])}, {"a": jnp.asarray(1e-300), "b": jnp.asarray([1e300, 0.0])}]:
    h1 = ivpsolve.dt0(vf, [u0], t=0.0)
    h2 = ivpsolve.dt0_adaptive(vf, [u0], 0.0, error_contraction_rate=3, rtol=1e-4, atol=1e-6)
    print("dt0", float(h1), "dt0_adaptive", float(h2))
    for h in [h1, h2]:
        ssm = pdq.state_space_model_blockdiag()
        tc, _ = pdq.jetexpand_ode_padded_scan(num=2)(vf, [u0], t=0.0)
        prior = ssm.prior_wiener_integrated(tc)
        c = ssm.constraint_ode_ts0(vf)
        slv = pdq.solver_mle(strategy=pdq.strategy_filter(), constraint=c)
        err = pdq.error_residual_std(constraint=c)
        try:
            sol = ivpsolve.solve_adaptive_terminal_values(solver=slv, error=err)(prior, t0=0.0, t1=1.0, atol=1e-6, rtol=1e-4, dt0=h)
            print("   solve with dt0=%g: t=%g nsteps=%d u=%s" % (float(h), float(sol.t), int(sol.num_steps), jax.tree_util.tree_map(lambda s: onp.asarray(s).tolist(), sol.u.mean[0])))
        except Exception as e:
            print("   EXC", type(e).__name__, str(e)[:200])
