from common import *
grid = jnp.asarray([0.0, 0.15, 0.4, 0.5, 0.8])
def make(ssm_name, kind, solver_name, strategy):
    ssm = {"dense": pdq.state_space_model_dense, "isotropic": pdq.state_space_model_isotropic, "blockdiag": pdq.state_space_model_blockdiag}[ssm_name]()
    def f(u, *, t):
        return 0.7 * u * (1 - u[::-1]) + jnp.sin(t)
    vf = pdq.ode(f, jacobian=pdq.jacobian_materialize())
    tc, _ = pdq.jetexpand_ode_padded_scan(num=2)(vf, [jnp.asarray([0.3, 0.6])], t=0.0)
    prior = ssm.prior_wiener_integrated(tc, is_exact=False, inexact_eps=0.05)
    c = ssm.constraint_ode_ts0(vf) if kind == "ts0" else ssm.constraint_ode_ts1(vf)
    strat = pdq.strategy_smoother_fixedinterval() if strategy == "fixedinterval" else pdq.strategy_filter()
    kw = {"stop_gradient_through_calibration": False} if solver_name == "dynamic" else {}
    slv = {"solver": pdq.solver, "mle": pdq.solver_mle, "dynamic": pdq.solver_dynamic}[solver_name](strategy=strat, constraint=c, **kw)
    def q(damp):
        sol = ivpsolve.solve_fixed_grid(solver=slv)(prior, grid=grid, damp=damp)
        return jnp.stack([jnp.sum(sol.u.mean[0][-1]), jnp.sum(sol.u.std[0][-1]), jnp.sum(sol.output_scale[-1])])
    return q
for ssm_name in ["dense", "isotropic", "blockdiag"]:
    for kind in ["ts0", "ts1"]:
        for solver_name in ["solver", "mle", "dynamic"]:
            g = make(ssm_name, kind, solver_name, "filter")
            for d0 in [0.1, 0.0]:
                d0 = jnp.asarray(d0)
                fwd = onp.asarray(jax.jacfwd(g)(d0)); rev = onp.asarray(jax.jacrev(g)(d0))
                h = 1e-6
                fd = onp.asarray((g(d0 + h) - g(d0 - h))/(2*h)) if d0 > 0 else onp.asarray((g(d0 + h) - g(d0))/h)
                bad = not (onp.all(onp.isfinite(fwd)) and onp.all(onp.isfinite(rev)) and onp.allclose(fwd, rev, rtol=1e-6, atol=1e-10) and onp.allclose(fwd, fd, rtol=1e-3, atol=1e-6))
                print(ssm_name, kind, solver_name, "damp", float(d0), "fwd", fwd, "rev", rev, "fd", fd, "<<<" if bad else "")
    jax.clear_caches()
