from common import *
for ssm_name in ["dense", "isotropic", "blockdiag"]:
    S = make(ssm_name)
    solve = ivpsolve.solve_adaptive_save_at(solver=S["solver"], error=S["error"])
    sa = jnp.linspace(0, 3, 4)
    a_vec = jnp.asarray([1e-2, 1e-7])
    r = {}
    for name, atol, rtol in [("vec(d,)", a_vec, a_vec), ("col(d,1)", a_vec[:, None], a_vec[:, None]), ("(1,d)", a_vec[None, :], a_vec[None, :]), ("(d,d)", jnp.outer(a_vec, jnp.ones(2)), 1e-3), ("(3,1)", jnp.ones((3,1))*1e-3, 1e-3), ("(1,1,1)", jnp.ones((1,1,1))*1e-3, 1e-3), ("scalar 1e-3", 1e-3, 1e-3)]:
        try:
            sol = solve(S["prior"], save_at=sa, atol=atol, rtol=rtol)
            print(ssm_name, name, "ACCEPTED nsteps", onp.asarray(sol.num_steps).tolist(), "u(T)", onp.asarray(sol.u.mean[0][-1]).tolist())
        except Exception as e:
            print(ssm_name, name, "raised", type(e).__name__, str(e)[:80])
