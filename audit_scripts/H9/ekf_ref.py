"""Independent textbook EKF for IWP priors (covariance form, numpy float64 / mpmath-free)."""
import numpy as onp
from math import factorial

def iwp_1d(q, h):
    A = onp.zeros((q+1, q+1)); Q = onp.zeros((q+1, q+1))
    for i in range(q+1):
        for j in range(q+1):
            if j >= i:
                A[i, j] = h**(j-i)/factorial(j-i)
            e = 2*q+1-i-j
            Q[i, j] = h**e/(e*factorial(q-i)*factorial(q-j))
    return A, Q

def ekf(*, m0, P0, grid, q, d, lin, damp=0.0, mode="none", Lambda=None, relin=False, lin_init=None, pinv=onp.linalg.pinv):
    """State ordering: coefficient-major, x = [u(d), u'(d), ...].

    lin(m, t) -> (H, b): linearised constraint  z = H x + b  (H: (k, n*d)).
    mode: none | mle | dynamic
    returns list of (m, P) on grid, plus sigma(s)
    """
    n = q+1
    if Lambda is None:
        Lambda = onp.eye(d)
    m, P = m0.copy(), P0.copy()
    ssq, ndata = 0.0, 0
    if lin_init is not None:
        H, b = lin_init(m, grid[0])
        z = H @ m + b
        S = H @ P @ H.T + damp**2*onp.eye(len(z))
        Sinv = pinv(S)
        K = P @ H.T @ Sinv
        if mode == "mle":
            # whitened rms
            ssq += z @ Sinv @ z / len(z); ndata += 1
        m = m - K @ z
        P = P - K @ S @ K.T
    out = [(m, P)]; sig = [1.0]
    for t0, t1 in zip(grid[:-1], grid[1:]):
        h = t1 - t0
        A1, Q1 = iwp_1d(q, h)
        A = onp.kron(A1, onp.eye(d)); Q = onp.kron(Q1, Lambda @ Lambda.T)
        if mode == "dynamic":
            mp = A @ m
            H, b = lin(mp, t1)
            z = H @ mp + b
            S = H @ Q @ H.T + damp**2*onp.eye(len(z))
            s2 = z @ onp.linalg.solve(S, z)/len(z)
            Pp = A @ P @ A.T + s2*Q
            if relin:
                H, b = lin(mp, t1)
            sig.append(onp.sqrt(s2))
        else:
            mp = A @ m; Pp = A @ P @ A.T + Q
            H, b = lin(mp, t1)
        z = H @ mp + b
        S = H @ Pp @ H.T + damp**2*onp.eye(len(z))
        K = onp.linalg.solve(S, H @ Pp).T
        if mode == "mle":
            ssq += z @ onp.linalg.solve(S, z)/len(z); ndata += 1
        m = mp - K @ z
        P = Pp - K @ S @ K.T
        out.append((m, P))
    if mode == "mle":
        s2 = ssq/ndata
        return out, onp.sqrt(s2)
    return out, sig
