from c16_fixed import *
theta = {"a": jnp.asarray(0.7), "u0": jnp.asarray([0.3, 0.6]), "scale": jnp.asarray(1.3), "noise": jnp.asarray(0.2)}
outputs = build("dense", "dynamic", "filter", "ts0", False)
flat, unravel = jax.flatten_util.ravel_pytree(theta)
def F(x):
    return outputs(unravel(x))["std"].ravel()
Jf = onp.asarray(jax.jacfwd(F)(flat))
for h in [1e-3, 1e-4, 1e-5, 1e-6]:
    Jd = onp.stack([(onp.asarray(F(flat.at[i].add(h))) - onp.asarray(F(flat.at[i].add(-h)))) / (2*h) for i in range(flat.size)], axis=1)
    print(h, onp.abs(Jd - Jf).max(), onp.abs(Jf).max())
i, j = onp.unravel_index(onp.argmax(onp.abs(Jd - Jf)), Jf.shape)
print(i, j, Jf[i, j], Jd[i, j], Jf[i])
