"""C18: dt0_adaptive returns 0.0 or NaN (not a finite, strictly positive step) for badly scaled
vector fields, because its tolerance-scaled norms overflow.

probdiffeq/_ivpsolve/stepsize_initialisers.py::dt0_adaptive computes
    d0, d1 = linalg.vector_norm(y0 / scale), linalg.vector_norm(f0 / scale)
    d2 = linalg.vector_norm((f1 - f0) / scale) / dt0
with jnp.linalg.norm, which squares its argument: |f0/scale| > ~1.3e154 gives d1 = inf, then
  * y0 = 0  : dt0 = 1e-6, dt1 = (0.01/inf)**(..) = 0           -> returns 0.0
  * y0 != 0 : dt0 = 0.01*d0/inf = 0, d2 = 0/0 = NaN             -> returns NaN
although the Hairer-Norsett-Wanner value is a perfectly representable positive double.
(The sibling `dt0` was repaired for exactly this with _vector_norm_no_overflow; dt0_adaptive was not.)
Additionally the helper uses the Euclidean norm where HNW (II.4, eq. 4.11) uses the RMS norm, so for
d > 1 the proposal differs from the classical heuristic by up to d**(1/(2(p+1))) (reported, not asserted).

Exits 1 if the defect is present.
"""
import sys

import jax
import jax.numpy as jnp
import numpy as onp

jax.config.update("jax_enable_x64", True)
import probdiffeq  # noqa: E402
from probdiffeq import ivpsolve  # noqa: E402
from probdiffeq import probdiffeq as pdq  # noqa: E402

print("probdiffeq from", probdiffeq.__file__)


def safe_norm(x, rms):
    x = onp.asarray(x, dtype=float)
    m = onp.max(onp.abs(x))
    if m == 0 or not onp.isfinite(m):
        return m
    n = m * onp.sqrt(onp.sum((x / m) ** 2))
    return n / onp.sqrt(x.size) if rms else n


def hnw(f, y0, t0, p1, rtol, atol, rms):
    """Hairer-Norsett-Wanner II.4 starting step, overflow-safe norms."""
    y0 = onp.asarray(y0, dtype=float)
    sc = atol + onp.abs(y0) * rtol
    f0 = onp.asarray(f(y0, t0))
    d0, d1 = safe_norm(y0 / sc, rms), safe_norm(f0 / sc, rms)
    h0 = 1e-6 if (d0 < 1e-5 or d1 < 1e-5) else 0.01 * d0 / d1
    f1 = onp.asarray(f(y0 + h0 * f0, t0 + h0))
    d2 = safe_norm((f1 - f0) / sc, rms) / h0
    h1 = max(1e-6, h0 * 1e-3) if max(d1, d2) <= 1e-15 else (0.01 / max(d1, d2)) ** (1.0 / p1)
    return min(100 * h0, h1)


failed = False
print(f"{'u0':>8s} {'f(u0)':>8s} {'d':>2s} {'tol':>6s} {'rate':>4s} | {'library':>12s} {'HNW (safe norms, Euclid)':>26s}")
for u0v, fv, d, tol, rate in [
    (0.0, 1e300, 1, 1e-3, 4),
    (1e-300, 1e300, 3, 1.0, 1),
    (0.0, 1e150, 3, 1e-12, 12),
    (1.0, 1e150, 1, 1e-12, 4),
    (1.0, 1e300, 3, 1e-3, 1),
    (1.0, 1e160, 2, 1e-6, 4),
    (1e300, 1e300, 2, 1e-6, 4),  # fine: f is proportional to the state
    (1.0, 1.0, 2, 1e-6, 4),  # fine
]:
    vf = pdq.ode(lambda u, *, t, fv=fv: fv * jnp.ones_like(u))
    h = float(ivpsolve.dt0_adaptive(vf, [u0v * jnp.ones(d)], 0.0, error_contraction_rate=rate, rtol=tol, atol=tol))
    ref = hnw(lambda y, t: fv * onp.ones_like(y), u0v * onp.ones(d), 0.0, rate + 1, tol, tol, rms=False)
    bad = not (onp.isfinite(h) and h > 0)
    print(f"{u0v:8.0e} {fv:8.0e} {d:2d} {tol:6.0e} {rate:4d} | {h:12.4e} {ref:26.4e} {'<<< not finite & positive' if bad else ''}")
    failed |= bad

print("\nFor information: Euclidean (library) vs RMS (HNW eq. 4.11) norm on a well-scaled problem")
rng = onp.random.default_rng(0)
for d in [1, 10, 100]:
    A, y0 = rng.normal(size=(d, d)), rng.normal(size=d)
    vf = pdq.ode(lambda u, *, t, A=A: jnp.asarray(A) @ u + jnp.sin(t) - u**3)
    f_np = lambda y, t, A=A: A @ y + onp.sin(t) - y**3  # noqa: E731
    h = float(ivpsolve.dt0_adaptive(vf, [jnp.asarray(y0)], 0.3, error_contraction_rate=1, rtol=1e-3, atol=1e-4))
    print(f"  d={d:3d}: library {h:.6e}   HNW/Euclid {hnw(f_np, y0, 0.3, 2, 1e-3, 1e-4, False):.6e}   HNW/RMS {hnw(f_np, y0, 0.3, 2, 1e-3, 1e-4, True):.6e}")

print("\nDEFECT PRESENT" if failed else "\nno defect")
sys.exit(1 if failed else 0)
