from common import *
grid = jnp.asarray([0.0, 0.25, 0.5, 1.0])
for ssm_name in ["dense", "isotropic", "blockdiag"]:
    ssm = {"dense": pdq.state_space_model_dense, "isotropic": pdq.state_space_model_isotropic, "blockdiag": pdq.state_space_model_blockdiag}[ssm_name]()
    for solver_name in ["solver", "mle", "dynamic"]:
        for fname in ["const", "linear_t"]:
            def q(a):
                if fname == "const":
                    f = lambda u, *, t: a * jnp.ones_like(u)
                else:
                    f = lambda u, *, t: a * t * jnp.ones_like(u)
                vf = pdq.ode(f)
                tc, _ = pdq.jetexpand_ode_padded_scan(num=2)(vf, [jnp.asarray([0.5, 0.25]) * a], t=0.0)
                prior = ssm.prior_wiener_integrated(tc)
                c = ssm.constraint_ode_ts0(vf)
                kw = {"stop_gradient_through_calibration": False} if solver_name == "dynamic" else {}
                slv = {"solver": pdq.solver, "mle": pdq.solver_mle, "dynamic": pdq.solver_dynamic}[solver_name](strategy=pdq.strategy_filter(), constraint=c, **kw)
                sol = ivpsolve.solve_fixed_grid(solver=slv)(prior, grid=grid)
                return jnp.stack([jnp.sum(sol.u.mean[0][-1]), jnp.sum(sol.u.std[0][-1]), jnp.sum(sol.output_scale[-1])])
            a0 = jnp.asarray(0.5)
            print(ssm_name, solver_name, fname, "value", onp.asarray(q(a0)), "fwd", onp.asarray(jax.jacfwd(q)(a0)), "rev", onp.asarray(jax.jacrev(q)(a0)), "fd", onp.asarray((q(a0+1e-6)-q(a0-1e-6))/2e-6))
