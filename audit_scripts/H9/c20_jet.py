from common import *

def attempt(name, fn):
    try:
        with warnings.catch_warnings(record=True) as w:
            warnings.simplefilter("always")
            out = fn()
        print(f"ACCEPTED {name}: {jax.tree_util.tree_map(lambda s: onp.asarray(s).round(4).tolist(), out)} warns={[str(x.message)[:60] for x in w]}")
        return out
    except Exception as e:
        print(f"raised   {name}: {type(e).__name__}: {str(e)[:100]}")

u0 = jnp.asarray([0.5, 0.25]); du0 = jnp.asarray([1.0, -1.0]); ddu0 = jnp.asarray([3., 4.])
f1 = lambda u, *, t: u * (1 - u)
f2 = lambda u, du, *, t: -u + 0.1*du
vf1 = pdq.ode(f1); vf2 = pdq.ode_order_two(f2); vf2a = pdq.ode_order_arbitrary(f2, num_tcoeffs_in_args=2)
algs = {"scan": pdq.jetexpand_ode_padded_scan, "unroll": pdq.jetexpand_ode_unroll, "jvp": pdq.jetexpand_ode_via_jvp}
for name, alg in algs.items():
    print("==", name)
    attempt("ok1", lambda: alg(num=2)(vf1, [u0], t=0.0)[0])
    attempt("ok2", lambda: alg(num=2)(vf2, [u0, du0], t=0.0)[0])
    attempt("ok2a", lambda: alg(num=2)(vf2a, [u0, du0], t=0.0)[0])
    attempt("order-1 ode, 2 inits", lambda: alg(num=2)(vf1, [u0, du0], t=0.0)[0])
    attempt("order-2 ode, 1 init", lambda: alg(num=2)(vf2, [u0], t=0.0)[0])
    attempt("order-2(arbitrary) ode, 3 inits", lambda: alg(num=2)(vf2a, [u0, du0, ddu0], t=0.0)[0])
    attempt("order-2(arbitrary) ode, 1 inits", lambda: alg(num=2)(vf2a, [u0], t=0.0)[0])
    attempt("inits array not list", lambda: alg(num=2)(vf1, u0, t=0.0)[0])
    attempt("inits shapes differ", lambda: alg(num=2)(vf2, [u0, jnp.ones(3)], t=0.0)[0])
    attempt("inits shapes broadcastable", lambda: alg(num=2)(vf2, [u0, jnp.ones(())], t=0.0)[0])
    attempt("inits shapes broadcastable (1,)", lambda: alg(num=2)(vf2, [u0, jnp.ones((1,))], t=0.0)[0])
    attempt("num=-1", lambda: alg(num=-1)(vf1, [u0], t=0.0)[0])
    attempt("num=2.0", lambda: alg(num=2.0)(vf1, [u0], t=0.0)[0])
    attempt("num=True", lambda: alg(num=True)(vf1, [u0], t=0.0)[0])
    attempt("plain fn", lambda: alg(num=2)(f1, [u0], t=0.0)[0])
    attempt("residual instead of ode", lambda: alg(num=2)(pdq.residual_from_ode(vf1), [u0], t=0.0)[0])
    attempt("autonomous ode", lambda: alg(num=2)(pdq.ode_autonomous(lambda u: u), [u0], t=0.0)[0])
    attempt("t vector", lambda: alg(num=2)(vf1, [u0], t=jnp.zeros(2))[0])
    attempt("t int", lambda: alg(num=2)(vf1, [u0], t=0)[0])
    attempt("int u0", lambda: alg(num=2)(vf1, [jnp.asarray([1, 2])], t=0.)[0])
print("== doubling")
alg = pdq.jetexpand_ode_doubling_unroll
attempt("ok", lambda: alg(num_doublings=2)(vf1, [u0], t=0.0)[0])
attempt("plain fn", lambda: alg(num_doublings=2)(f1, [u0], t=0.0)[0])
attempt("order2", lambda: alg(num_doublings=2)(vf2, [u0, du0], t=0.0)[0])
attempt("num=-1", lambda: alg(num_doublings=-1)(vf1, [u0], t=0.0)[0])
attempt("num=1.5", lambda: alg(num_doublings=1.5)(vf1, [u0], t=0.0)[0])
attempt("residual", lambda: alg(num_doublings=1)(pdq.residual_from_ode(vf1), [u0], t=0.0)[0])
print("== residual")
alg = pdq.jetexpand_residual
res = pdq.residual_from_ode(vf1)
attempt("ok", lambda: alg(num=2)(res, [u0], t=0.0)[0])
attempt("plain fn", lambda: alg(num=2)(f1, [u0], t=0.0)[0])
attempt("ode instead of residual", lambda: alg(num=2)(vf1, [u0], t=0.0)[0])
attempt("num=-1", lambda: alg(num=-1)(res, [u0], t=0.0)[0])
attempt("residual needs 3 coeffs but only 1+1", lambda: alg(num=1)(pdq.residual_from_ode(vf2), [u0], t=0.0)[0])
