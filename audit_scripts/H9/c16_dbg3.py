from c16_fixed import *
import sys
from probdiffeq.backend import linalg
onp.set_printoptions(linewidth=250, precision=5, suppress=False)
mode = sys.argv[1]
if mode == "stable":
    @jax.custom_jvp
    def qr_r2(arr):
        return jnp.linalg.qr(arr, mode="r")
    @qr_r2.defjvp
    def _jvp(primals, tangents):
        (M,), (M_dot,) = primals, tangents
        Q, R = jnp.linalg.qr(M, mode="reduced")
        R_dot_singular = Q.T @ M_dot
        if R.shape[0] != R.shape[1]:
            return R, R_dot_singular
        is_regular = jnp.all(jnp.diagonal(R) != 0.0)
        R_safe = jnp.where(is_regular, R, jnp.eye(*R.shape, dtype=R.dtype))
        X = jax.scipy.linalg.solve_triangular(R_safe.T, R_dot_singular.T, lower=True).T
        L = jnp.tril(X, -1)
        R_dot_regular = jnp.triu(R_dot_singular - (L - L.T) @ R_safe)
        return R, jnp.where(is_regular, R_dot_regular, R_dot_singular)
    linalg.qr_r = qr_r2
theta = {"a": jnp.asarray(0.7), "u0": jnp.asarray([0.3, 0.6]), "scale": jnp.asarray(1.3), "noise": jnp.asarray(0.2)}
for cfg in [("dense", "solver", "fixedinterval", "ts1", False), ("dense", "dynamic", "fixedinterval", "ts1", False), ("dense", "mle", "fixedinterval", "ts1", False), ("dense", "solver", "fixedinterval", "ts1", True)]:
    check(build(*cfg), theta, str(cfg) + " " + mode, verbose=True)
