from c02_third import *
grid = onp.array([0.0, 0.1, 0.25, 0.3, 0.5])
compare("dense", f3, 3, 5, "ts1", "mle", grid, 0.05)
compare("dense", f3, 3, 3, "ts1", "dynamic", grid, 0.0, relin=True)
for ssm_name in ["isotropic", "blockdiag"]:
    for (f, k) in [(f3, 3), (f2, 2), (f1, 1)]:
        for q in [k, k + 2]:
            for kind in ["ts0", "ts1"]:
                for solver_name in ["solver", "mle", "dynamic"]:
                    for damp in [0.0, 0.05]:
                        if ssm_name == "blockdiag" and solver_name != "solver":
                            continue
                        try:
                            compare(ssm_name, f, k, q, kind, solver_name, grid, damp, verbose=False)
                            if kind == "ts1":
                                compare(ssm_name, f, k, q, kind, solver_name, grid, damp, verbose=False, use_residual=True)
                        except Exception as e:
                            print("EXC", ssm_name, k, q, kind, solver_name, damp, type(e).__name__, str(e)[:200])
print("done")
