from common import *
import sys

def attempt(name, fn):
    try:
        with warnings.catch_warnings(record=True) as w:
            warnings.simplefilter("always")
            out = fn()
        u = out.u.mean[0]
        print(f"ACCEPTED {name}: t={onp.asarray(out.t).tolist() if out.t.size<8 else out.t.shape}, u0.shape={u.shape}, finite={bool(jnp.all(jnp.isfinite(u)))}, nsteps={onp.asarray(out.num_steps).tolist()} warns={[str(x.message)[:60] for x in w]}")
        return out
    except Exception as e:
        print(f"raised   {name}: {type(e).__name__}: {str(e)[:100]}")

for ssm_name in sys.argv[1:] or ["dense"]:
    print("=====", ssm_name)
    S = make(ssm_name)
    solve = ivpsolve.solve_adaptive_save_at(solver=S["solver"], error=S["error"])
    p = S["prior"]
    kw = dict(atol=1e-3, rtol=1e-3)
    sa = jnp.linspace(0, 1, 4)
    attempt("ok", lambda: solve(p, save_at=sa, **kw))
    attempt("save_at (4,1)", lambda: solve(p, save_at=sa[:, None], **kw))
    attempt("save_at (1,4)", lambda: solve(p, save_at=sa[None, :], **kw))
    attempt("save_at scalar", lambda: solve(p, save_at=jnp.asarray(1.0), **kw))
    attempt("save_at len1", lambda: solve(p, save_at=jnp.asarray([1.0]), **kw))
    attempt("save_at list", lambda: solve(p, save_at=[0., 0.5, 1.], **kw))
    attempt("save_at int", lambda: solve(p, save_at=jnp.arange(0, 3), **kw))
    attempt("save_at bool", lambda: solve(p, save_at=jnp.asarray([False, True]), **kw))
    attempt("save_at decreasing", lambda: solve(p, save_at=sa[::-1], **kw))
    attempt("save_at unsorted", lambda: solve(p, save_at=jnp.asarray([0., 0.5, 0.25, 1.0]), **kw))
    attempt("save_at duplicate", lambda: solve(p, save_at=jnp.asarray([0., 0.5, 0.5, 1.0]), **kw))
    attempt("dt0 neg", lambda: solve(p, save_at=sa, dt0=-0.1, **kw))
    attempt("dt0 zero", lambda: solve(p, save_at=sa, dt0=0.0, **kw))
    attempt("dt0 vec(2)", lambda: solve(p, save_at=sa, dt0=jnp.asarray([0.1, 0.1]), **kw))
    attempt("dt0 vec(1)", lambda: solve(p, save_at=sa, dt0=jnp.asarray([0.1]), **kw))
    attempt("dt0 int", lambda: solve(p, save_at=sa, dt0=1, **kw))
    attempt("dt0 None", lambda: solve(p, save_at=sa, dt0=None, **kw))
    attempt("atol vec(2)=d", lambda: solve(p, save_at=sa, atol=jnp.asarray([1e-3, 1e-3]), rtol=1e-3))
    attempt("atol vec(3)", lambda: solve(p, save_at=sa, atol=jnp.asarray([1e-3, 1e-3, 1e-3]), rtol=1e-3))
    attempt("atol vec(1)", lambda: solve(p, save_at=sa, atol=jnp.asarray([1e-3]), rtol=1e-3))
    attempt("atol (2,1)", lambda: solve(p, save_at=sa, atol=jnp.asarray([[1e-3], [1e-3]]), rtol=1e-3))
    attempt("atol neg", lambda: solve(p, save_at=sa, atol=-1e-3, rtol=1e-3))
    attempt("atol=rtol=0", lambda: solve(p, save_at=sa, atol=0., rtol=0.) if False else (_ for _ in ()).throw(RuntimeError("skipped(would hang)")))
    attempt("rtol vec(3)", lambda: solve(p, save_at=sa, atol=1e-3, rtol=jnp.ones(3)*1e-3))
    attempt("eps vec", lambda: solve(p, save_at=sa, eps=jnp.ones(2)*1e-8, **kw))
    attempt("eps neg", lambda: solve(p, save_at=sa, eps=-1e-8, **kw))
    attempt("damp vec", lambda: solve(p, save_at=sa, damp=jnp.ones(2)*1e-8, **kw))
    print("--- terminal values")
    solve = ivpsolve.solve_adaptive_terminal_values(solver=S["solver"], error=S["error"])
    attempt("ok", lambda: solve(p, t0=0., t1=1., **kw))
    attempt("t1<t0", lambda: solve(p, t0=1., t1=0., **kw))
    attempt("t1==t0", lambda: solve(p, t0=1., t1=1., **kw))
    attempt("t0 vec", lambda: solve(p, t0=jnp.zeros(2), t1=jnp.ones(2), **kw))
    attempt("t0 int", lambda: solve(p, t0=0, t1=1, **kw))
    attempt("dt0 neg", lambda: solve(p, t0=0., t1=1., dt0=-0.1, **kw))
