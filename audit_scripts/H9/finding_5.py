"""C20: a vector field whose output has the wrong shape is broadcast silently instead of rejected.

State u in R^2, but the "ODE" returns shape (1,) or () (and, for TS1, (2,1)).
 * constraint_ode_ts1 (all factorisations, incl. matrix-free): problems.residual_from_ode forms
   `tree_map(lambda a, b: a - b, output, vf_eval)`, i.e. u' - f(u) with NumPy broadcasting; a scalar
   f is subtracted from every component, a (2,1) f yields a 2x2 "residual" (4 constraints).
 * constraint_ode_ts0 of the ISOTROPIC model: IsotropicOdeTs0.linearize builds a (1,1) bias that is
   broadcast against the (1,d) observation in IsotropicLatentCond (dense / block-diagonal TS0 raise).
The solve then returns finite numbers for a problem that was never well-posed.

Expected: an exception (as raised by the dense and block-diagonal TS0 constraints).
Exits 1 if the defect is present.
"""
import sys

import jax
import jax.numpy as jnp
import numpy as onp

jax.config.update("jax_enable_x64", True)
import probdiffeq  # noqa: E402
from probdiffeq import ivpsolve  # noqa: E402
from probdiffeq import probdiffeq as pdq  # noqa: E402
from probdiffeq.backend import random as prandom  # noqa: E402

print("probdiffeq from", probdiffeq.__file__)
grid = jnp.linspace(0.0, 1.0, 6)
u0 = jnp.asarray([0.5, 0.25])
good = pdq.ode(lambda u, *, t: u * (1 - u), jacobian=pdq.jacobian_materialize())
bad_fields = {
    "f(u).shape == (1,)": lambda u, *, t: jnp.sum(u)[None],
    "f(u).shape == ()": lambda u, *, t: jnp.sum(u),
    "f(u).shape == (2,1)": lambda u, *, t: u[:, None],
}
models = {
    "dense": pdq.state_space_model_dense(),
    "isotropic": pdq.state_space_model_isotropic(),
    "blockdiag": pdq.state_space_model_blockdiag(),
    "matfree": pdq.state_space_model_matfree(key=prandom.prng_key(seed=1), num_ensembles=10),
}
failed = False
for mname, ssm in models.items():
    tc, _ = pdq.jetexpand_ode_padded_scan(num=2)(good, [u0], t=0.0)
    prior = ssm.prior_wiener_integrated(tc)
    for cname in ["ts0", "ts1"]:
        if mname == "matfree" and cname == "ts0":
            continue
        for fname, fun in bad_fields.items():
            vf = pdq.ode(fun, jacobian=pdq.jacobian_materialize())
            try:
                c = ssm.constraint_ode_ts0(vf) if cname == "ts0" else ssm.constraint_ode_ts1(vf)
                solver = pdq.solver(strategy=pdq.strategy_filter(), constraint=c)
                sol = ivpsolve.solve_fixed_grid(solver=solver)(prior, grid=grid)
                uT = onp.asarray(sol.u.mean[0][-1])
                msg = f"ACCEPTED, u(1) = {uT.round(5).tolist()}   <<< expected an exception"
                failed = True
            except Exception as e:  # noqa: BLE001
                msg = f"raised {type(e).__name__}"
            print(f"{mname:10s} {cname}  {fname:20s}: {msg}")

print("\nDEFECT PRESENT" if failed else "\nno defect")
sys.exit(1 if failed else 0)
