from common import *
import sys
try:
    import equinox
    def wl(cond, body, init):
        return equinox.internal.while_loop(cond, body, init, kind="bounded", max_steps=32)
except ImportError:
    def wl(cond, body, init):
        # bounded scan-based while loop
        def step(c, _):
            return jax.lax.cond(cond(c), body, lambda s: s, c), None
        out, _ = jax.lax.scan(step, init, None, length=24)
        return out

def build(ssm_name, solver_name, strategy_name, kind, is_exact, q=3, damp=0.0, control=None):
    ssm = {"dense": pdq.state_space_model_dense, "isotropic": pdq.state_space_model_isotropic, "blockdiag": pdq.state_space_model_blockdiag}[ssm_name]()
    save_at = jnp.asarray([0.0, 0.3, 0.5, 1.0])
    N = len(save_at)
    def outputs(theta):
        a, u0s, scale, noise = theta["a"], theta["u0"], theta["scale"], theta["noise"]
        def f(u, *, t):
            return a * u * (1 - u[::-1]) + jnp.sin(t) * a**2
        vf = pdq.ode(f, jacobian=pdq.jacobian_materialize())
        tc, _ = pdq.jetexpand_ode_padded_scan(num=q)(vf, [u0s], t=save_at[0])
        os_ = scale if ssm_name == "isotropic" else scale * jnp.asarray([1.0, 1.5])
        prior = ssm.prior_wiener_integrated(tc, is_exact=is_exact, inexact_eps=0.05, output_scale=os_)
        c = ssm.constraint_ode_ts0(vf) if kind == "ts0" else ssm.constraint_ode_ts1(vf)
        strat = {"filter": pdq.strategy_filter, "fixedpoint": pdq.strategy_smoother_fixedpoint}[strategy_name]()
        slv = {"solver": pdq.solver, "mle": pdq.solver_mle, "dynamic": pdq.solver_dynamic}[solver_name](strategy=strat, constraint=c)
        err = pdq.error_residual_std(constraint=c)
        sol = ivpsolve.solve_adaptive_save_at(solver=slv, error=err, while_loop=wl, control=control)(prior, save_at=save_at, atol=1e-2, rtol=1e-2, damp=damp)
        out = {"mean": sol.u.mean[0], "std": sol.u.std[0][1:], "scale": sol.output_scale}
        if strategy_name != "filter":
            data = jnp.stack([jnp.cos(save_at), jnp.sin(save_at)], axis=1) * 0.3 + 0.2
            std = noise * jnp.ones(N) if ssm_name == "isotropic" else noise * jnp.ones((N, 2)) * jnp.asarray([1.0, 2.0])
            out["lml"] = pdq.loss_lml_timeseries()(data, posterior=sol.solution_full.posterior, std=std)
        margT = jax.tree_util.tree_map(lambda s: s[-1], sol.u)
        stdT = noise if ssm_name == "isotropic" else noise * jnp.asarray([1.0, 2.0])
        out["lmlT"] = pdq.loss_lml_terminal_values()(jnp.asarray([0.4, 0.1]), marginals=margT, std=stdT)
        out["nsteps"] = sol.num_steps.astype(float)
        return out
    return outputs

def check(outputs, theta, label):
    flat, unravel = jax.flatten_util.ravel_pytree(theta)
    o = outputs(theta)
    names = []
    for k in sorted(o.keys()):
        names += [k] * int(onp.size(o[k]))
    tnames = []
    for k in sorted(theta.keys()):
        tnames += [k] * int(onp.size(theta[k]))
    def F(x):
        return jax.flatten_util.ravel_pytree(outputs(unravel(x)))[0]
    Jf = onp.asarray(jax.jacfwd(F)(flat)); Jr = onp.asarray(jax.jacrev(F)(flat))
    bad = []
    if not (onp.all(onp.isfinite(Jf)) and onp.all(onp.isfinite(Jr))):
        idx = onp.argwhere(~onp.isfinite(Jf) | ~onp.isfinite(Jr))
        bad.append(("NONFINITE", sorted(set((names[i], tnames[j]) for i, j in idx))))
    else:
        scale = onp.maximum(onp.abs(Jf), 1e-3*onp.abs(Jf).max(axis=1, keepdims=True) + 1e-8)
        err = onp.abs(Jf - Jr)/scale
        if err.max() > 1e-7:
            idx = onp.argwhere(err > 1e-7)
            bad.append(("fwd-vs-rev", float(err.max()), sorted(set((names[i], tnames[j]) for i, j in idx))[:8]))
    print(label, "nsteps", onp.asarray(o["nsteps"]).tolist(), "BAD" if bad else "ok", bad)

if __name__ == "__main__":
    theta = {"a": jnp.asarray(0.7), "u0": jnp.asarray([0.3, 0.6]), "scale": jnp.asarray(1.3), "noise": jnp.asarray(0.2)}
    ssm_name = sys.argv[1]
    for solver_name in sys.argv[2].split(","):
        for strategy_name in ["filter", "fixedpoint"]:
            for kind in ["ts0", "ts1"]:
                jax.clear_caches()
                for is_exact in [True, False]:
                    label = f"{ssm_name} {solver_name} {strategy_name} {kind} exact={is_exact}"
                    try:
                        check(build(ssm_name, solver_name, strategy_name, kind, is_exact), theta, label)
                    except Exception as e:
                        print(label, "EXC", type(e).__name__, str(e)[:300])
