from common import *
from ekf_ref import iwp_1d
from probdiffeq.backend import random as prandom
d, q = 2, 2
def f(u, *, t):
    return u * (1 - u[::-1]) + t * u[::-1]**2
def lin_full(m, t):
    M = jnp.asarray(m).reshape(q+1, d)
    J = onp.asarray(jax.jacfwd(lambda a: f(a, t=t))(M[0]))
    H = onp.zeros((d, (q+1)*d)); H[:, d:2*d] = onp.eye(d); H[:, :d] = -J
    b = (M[1] - onp.asarray(f(M[0], t=t))) - H @ m
    return H, b
for damp in [0.0, 0.05]:
  for S_ in [10, 2000]:
    ssm = pdq.state_space_model_matfree(key=prandom.prng_key(seed=3), num_ensembles=S_)
    vf = pdq.ode(f)
    u0 = jnp.asarray([0.4, -0.3])
    tc = [u0, f(u0, t=0.0), 0.2*jnp.ones(d)]
    prior = ssm.prior_wiener_integrated(tc, is_exact=False, inexact_eps=0.3)
    c = ssm.constraint_ode_ts1(vf)
    for sname, fac in [("solver", pdq.solver), ("mle", pdq.solver_mle), ("dynamic", pdq.solver_dynamic)]:
        slv = fac(strategy=pdq.strategy_filter(), constraint=c)
        st0 = slv.init(t=0.0, u=prior, damp=damp)
        st1 = slv.step(st0, dt=0.2, damp=damp)
        m, C = st1.u.to_multivariate_normal()
        m0, P0 = (onp.asarray(s) for s in prior.init.to_multivariate_normal())
        A1, Q1 = iwp_1d(q, 0.2); A = onp.kron(A1, onp.eye(d)); Q = onp.kron(Q1, onp.eye(d))
        mp = A @ m0
        if sname == "dynamic":
            H, b = lin_full(mp, 0.2); z = H @ mp + b; Sm = H @ Q @ H.T + damp**2*onp.eye(d)
            # blockdiag calibration: per-dimension?
            s2 = z @ onp.linalg.solve(Sm, z) / d
        else:
            s2 = 1.0
        Pp = A @ P0 @ A.T + s2 * Q
        H, b = lin_full(mp, 0.2); z = H @ mp + b
        Sm = H @ Pp @ H.T + damp**2*onp.eye(d)
        K = onp.linalg.solve(Sm, H @ Pp).T
        mref = mp - K @ z; Pref = Pp - K @ Sm @ K.T
        # block-diagonal projection of Pref
        n = q+1
        mask = onp.kron(onp.ones((n, n)), onp.eye(d))
        print(f"damp={damp} S={S_} {sname}: mean err {onp.abs(onp.asarray(m)-mref).max():.2e} (|m|~{onp.abs(mref).max():.2f}); cov rel err vs blockdiag(P_ekf) {onp.abs(onp.asarray(C)-Pref*mask).max()/onp.abs(Pref).max():.2e}; scale lib {onp.asarray(st1.output_scale)} ref {onp.sqrt(s2):.4f}")
