from c16_fixed import *
onp.set_printoptions(linewidth=250, precision=5, suppress=False)
theta = {"a": jnp.asarray(0.7), "u0": jnp.asarray([0.3, 0.6]), "scale": jnp.asarray(1.3), "noise": jnp.asarray(0.2)}
outputs = build("dense", "solver", "fixedinterval", "ts1", False)
flat, unravel = jax.flatten_util.ravel_pytree(theta)
def F(x):
    o = outputs(unravel(x))
    return jnp.concatenate([o["mean"].ravel(), o["std"].ravel()])
Jf = onp.asarray(jax.jacfwd(F)(flat)); Jr = onp.asarray(jax.jacrev(F)(flat))
h = 1e-5
Jd = onp.stack([(onp.asarray(F(flat.at[i].add(h))) - onp.asarray(F(flat.at[i].add(-h)))) / (2*h) for i in range(flat.size)], axis=1)
print("theta order: a, noise, scale, u0[0], u0[1]")
print("fwd\n", Jf); print("rev\n", Jr); print("fd\n", Jd)
