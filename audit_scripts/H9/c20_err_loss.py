from common import *
import sys

def attempt(name, fn, show=None):
    try:
        with warnings.catch_warnings(record=True) as w:
            warnings.simplefilter("always")
            out = fn()
        s = show(out) if show else str(out)[:150]
        print(f"ACCEPTED {name}: {s} warns={[str(x.message)[:80] for x in w]}")
        return out
    except Exception as e:
        print(f"raised   {name}: {type(e).__name__}: {str(e)[:100]}")

def showsol(out):
    u = out.u.mean[0]
    return f"u[-1]={onp.asarray(u[-1]).round(5).tolist()} nsteps={onp.asarray(out.num_steps).tolist()}"

f1 = lambda u, *, t: u * (1 - u)
f2 = lambda u, du, *, t: -u
sa = jnp.linspace(0, 1, 3)
for ssm_name in sys.argv[1:] or ["dense", "isotropic", "blockdiag"]:
    print("=====", ssm_name)
    S = make(ssm_name); ssm = S["ssm"]; prior = S["prior"]; vf = S["vf"]; c = S["constraint"]
    vf2 = pdq.ode_order_two(f2)
    def run(error, solver=None, **kw):
        solver = solver or S["solver"]
        return ivpsolve.solve_adaptive_save_at(solver=solver, error=error, **kw)(prior, save_at=sa, atol=1e-3, rtol=1e-3)
    attempt("ok", lambda: run(pdq.error_residual_std(constraint=c)), showsol)
    attempt("error constraint=ode (not constraint)", lambda: run(pdq.error_residual_std(constraint=vf)), showsol)
    attempt("error constraint=None", lambda: run(pdq.error_residual_std(constraint=None)), showsol)
    attempt("error=None", lambda: run(None), showsol)
    attempt("error=constraint", lambda: run(c), showsol)
    attempt("error constraint from other ssm", lambda: run(pdq.error_residual_std(constraint=pdq.state_space_model_dense().constraint_ode_ts0(vf) if ssm_name != "dense" else pdq.state_space_model_blockdiag().constraint_ode_ts0(vf))), showsol)
    attempt("error constraint other ode order (cached)", lambda: run(pdq.error_residual_std(constraint=ssm.constraint_ode_ts0(vf2))), showsol)
    attempt("error constraint other ode order (relin)", lambda: run(pdq.error_residual_std(constraint=ssm.constraint_ode_ts0(vf2), re_linearize_before_error=True)), showsol)
    attempt("error ts1 w/ solver ts0 (cached)", lambda: run(pdq.error_residual_std(constraint=ssm.constraint_ode_ts1(vf))), showsol)
    attempt("error jet-lifted constraint (relin)", lambda: run(pdq.error_residual_std(constraint=ssm.constraint_ode_ts0(vf.jet_lift(lift_by=1)), re_linearize_before_error=True)), showsol)
    attempt("error scalar residual (relin)", lambda: run(pdq.error_residual_std(constraint=ssm.constraint_residual(pdq.residual_velocity(lambda u, du, *, t: jnp.sum(du-u)[None], jacobian=pdq.jacobian_materialize())), re_linearize_before_error=True)), showsol)
    attempt("error 3-residual (relin)", lambda: run(pdq.error_residual_std(constraint=ssm.constraint_residual(pdq.residual_velocity(lambda u, du, *, t: jnp.concatenate([du-u, du[:1]]), jacobian=pdq.jacobian_materialize())), re_linearize_before_error=True)), showsol)
    attempt("error_norm str", lambda: run(pdq.error_residual_std(constraint=c, error_norm="rms")), showsol)
    attempt("error_norm order 'x'", lambda: run(pdq.error_residual_std(constraint=c, error_norm=pdq.error_norm_scale_then_rms(norm_order="x"))), showsol)
    attempt("error_state_std ok", lambda: run(pdq.error_state_std(constraint=c)), showsol)
    attempt("error_state_std derivative_idx=7", lambda: run(pdq.error_state_std(constraint=c, derivative_idx=7)), showsol)
    attempt("error_state_std derivative_idx=-1", lambda: run(pdq.error_state_std(constraint=c, derivative_idx=-1)), showsol)
    attempt("error_state_std derivative_idx=1.0", lambda: run(pdq.error_state_std(constraint=c, derivative_idx=1.0)), showsol)
    attempt("control str", lambda: run(pdq.error_residual_std(constraint=c), control="pi"), showsol)
    attempt("control class not instance", lambda: run(pdq.error_residual_std(constraint=c), control=ivpsolve.control_integral), showsol)
    attempt("control PI ok", lambda: run(pdq.error_residual_std(constraint=c), control=ivpsolve.control_proportional_integral()), showsol)
    attempt("control safety vec", lambda: run(pdq.error_residual_std(constraint=c), control=ivpsolve.control_integral(safety=jnp.ones(2)*0.9)), showsol)
    attempt("control factor_min>factor_max", lambda: run(pdq.error_residual_std(constraint=c), control=ivpsolve.control_integral(factor_min=10., factor_max=0.2)), showsol)
    attempt("clip_dt str", lambda: run(pdq.error_residual_std(constraint=c), clip_dt="yes"), showsol)
    for st, nm in [(pdq.strategy_smoother_fixedinterval, "fixedinterval"), (pdq.strategy_smoother_fixedpoint, "fixedpoint")]:
        slv = pdq.solver(strategy=st(), constraint=c)
        attempt(f"save_at with {nm}", lambda: run(pdq.error_residual_std(constraint=c), solver=slv), showsol)
        attempt(f"fixed_grid with {nm}", lambda: ivpsolve.solve_fixed_grid(solver=slv)(prior, grid=sa), showsol)
        attempt(f"terminal with {nm}", lambda: jax.tree_util.tree_map(lambda s: s[None], ivpsolve.solve_adaptive_terminal_values(solver=slv, error=pdq.error_residual_std(constraint=c))(prior, t0=0., t1=1., atol=1e-3, rtol=1e-3)), showsol)
    attempt("solver strategy=class", lambda: run(pdq.error_residual_std(constraint=c), solver=pdq.solver(strategy=pdq.strategy_filter, constraint=c)), showsol)
    attempt("solver strategy=None", lambda: run(pdq.error_residual_std(constraint=c), solver=pdq.solver(strategy=None, constraint=c)), showsol)
    attempt("solver constraint=vf", lambda: run(pdq.error_residual_std(constraint=c), solver=pdq.solver(strategy=pdq.strategy_filter(), constraint=vf)), showsol)
    attempt("solver constraint_init=vf", lambda: run(pdq.error_residual_std(constraint=c), solver=pdq.solver(strategy=pdq.strategy_filter(), constraint=c, constraint_init=vf)), showsol)
    attempt("solver_mle correct_asymptotic='no'", lambda: run(pdq.error_residual_std(constraint=c), solver=pdq.solver_mle(strategy=pdq.strategy_filter(), constraint=c, correct_asymptotic_underconfidence="no")), showsol)
