"""C20: the Taylor-coefficient routines accept initial-value containers of the wrong length / shape.

(a) ode_order_arbitrary(f, num_tcoeffs_in_args=2) describes u'' = f(u, u').  Passing THREE initial
    values [u, u', u''] to jetexpand_ode_padded_scan / _unroll / _via_jvp is accepted: the routines
    take the ODE order from len(inits) (`num_arguments = len(inits)`), never compare it with
    vf.num_tcoeffs_in_args, and return f(u, u') in the slot of u''' (and garbage after it), while
    the user-supplied u'' contradicts the ODE.  ode_order_two rejects the same input.
(b) Initial values whose shapes differ but broadcast (u: (2,), u': () or (1,)) are accepted by the
    scan / unroll routines, which return a ragged coefficient list.

Code site: probdiffeq/_probdiffeq/jet_expansion_algorithms.py::jetexpand_ode_padded_scan.expand
(and the siblings), `num_arguments = len(inits)`.
Expected: exceptions.  Exits 1 if the defect is present.
"""
import sys

import jax
import jax.numpy as jnp
import numpy as onp

jax.config.update("jax_enable_x64", True)
import probdiffeq  # noqa: E402
from probdiffeq import probdiffeq as pdq  # noqa: E402

print("probdiffeq from", probdiffeq.__file__)
u, du, ddu = jnp.asarray([0.5, 0.25]), jnp.asarray([1.0, -1.0]), jnp.asarray([3.0, 4.0])


def f2(u, du, *, t):
    return -u + 0.1 * du


algs = {"padded_scan": pdq.jetexpand_ode_padded_scan, "unroll": pdq.jetexpand_ode_unroll, "via_jvp": pdq.jetexpand_ode_via_jvp}
failed = False
for name, alg in algs.items():
    vf_arb = pdq.ode_order_arbitrary(f2, num_tcoeffs_in_args=2)
    vf_two = pdq.ode_order_two(f2)
    ok, _ = alg(num=2)(vf_arb, [u, du], t=0.0)
    print(f"{name}: valid call         -> {[onp.asarray(c).round(4).tolist() for c in ok]}")
    for label, vf, inits in [
        ("order-2 ODE (ode_order_arbitrary), 3 inits", vf_arb, [u, du, ddu]),
        ("order-2 ODE (ode_order_two),       3 inits", vf_two, [u, du, ddu]),
        ("order-2 ODE, u' of shape ()               ", vf_two, [u, jnp.ones(())]),
        ("order-2 ODE, u' of shape (1,)             ", vf_two, [u, jnp.ones((1,))]),
    ]:
        try:
            out, _ = alg(num=2)(vf, inits, t=0.0)
            print(f"{name}: {label} -> ACCEPTED {[onp.asarray(c).round(4).tolist() for c in out]}   <<< expected an exception")
            failed = True
        except Exception as e:  # noqa: BLE001
            print(f"{name}: {label} -> raised {type(e).__name__}")
print("(true u'' = f(u, u') =", onp.asarray(f2(u, du, t=0.0)).tolist(), ", the accepted call reports it as u''' and keeps u'' = [3, 4])")
print("\nDEFECT PRESENT" if failed else "\nno defect")
sys.exit(1 if failed else 0)
