"""C02 (matrix-free model, observation damping): with damp > 0 the matrix-free state-space model is
not the (ensemble approximation of the) extended Kalman filter:

 * the Kalman gain uses R = damp^2 I (LSMR damping)                     -> means equal the EKF mean (OK)
 * the observed covariance is estimated as  H P H^T  (damp^2 missing)     -> MLE / dynamic output scales
   and error estimates ignore the damping (factor 10 at damp = 0.5 below)
 * the posterior covariance is estimated as (I-KH) P (I-KH)^T             -> the Joseph term K R K^T is
   missing, posterior standard deviations are too small (10% below), independent of the ensemble size.

Code site: probdiffeq/_probdiffeq/ssm_impl_matfree.py::MatfreeLatentCond.marginalise / .revert
(source comments: "TODO: we currently ignore the damping factor & the noise").
The deviations do not vanish with the number of ensemble members (S = 20000 used; sampling error ~1%).
Exits 1 if the defect is present.
"""
import sys
from math import factorial

import jax
import jax.numpy as jnp
import numpy as onp

jax.config.update("jax_enable_x64", True)
import probdiffeq  # noqa: E402
from probdiffeq import probdiffeq as pdq  # noqa: E402
from probdiffeq.backend import random as prandom  # noqa: E402

print("probdiffeq from", probdiffeq.__file__)
d, q, h = 2, 2, 0.2
n = q + 1


def f(u, *, t):
    return u * (1 - u[::-1]) + t * u[::-1] ** 2


u0 = jnp.asarray([0.4, -0.3])
tc = [u0, f(u0, t=0.0), 0.2 * jnp.ones(d)]
A1 = onp.array([[h ** (j - i) / factorial(j - i) if j >= i else 0.0 for j in range(n)] for i in range(n)])
Q1 = onp.array([[h ** (2 * q + 1 - i - j) / ((2 * q + 1 - i - j) * factorial(q - i) * factorial(q - j)) for j in range(n)] for i in range(n)])
A, Q = onp.kron(A1, onp.eye(d)), onp.kron(Q1, onp.eye(d))

failed = False
for damp in [0.0, 0.5]:
    ssm = pdq.state_space_model_matfree(key=prandom.prng_key(seed=3), num_ensembles=20000)
    prior = ssm.prior_wiener_integrated(tc, is_exact=False, inexact_eps=0.3)
    ts1 = ssm.constraint_ode_ts1(pdq.ode(f))
    m0, P0 = (onp.asarray(s) for s in prior.init.to_multivariate_normal())

    # reference EKF1 step (full Jacobian, block-diagonal prior covariance)
    mp, Pp = A @ m0, A @ P0 @ A.T + Q
    M = jnp.asarray(mp).reshape(n, d)
    J = onp.asarray(jax.jacfwd(lambda a: f(a, t=h))(M[0]))
    H = onp.zeros((d, n * d))
    H[:, d : 2 * d] = onp.eye(d)
    H[:, :d] = -J
    z = onp.asarray(M[1] - f(M[0], t=h))
    S = H @ Pp @ H.T + damp**2 * onp.eye(d)
    K = onp.linalg.solve(S, H @ Pp).T
    m_ref, P_ref = mp - K @ z, Pp - K @ S @ K.T
    scale_ref = onp.sqrt(z**2 / (onp.diag(H @ Q @ H.T) + damp**2))  # per-dimension dynamic calibration

    slv = pdq.solver(strategy=pdq.strategy_filter(), constraint=ts1)
    st = slv.step(slv.init(t=0.0, u=prior, damp=damp), dt=h, damp=damp)
    m, C = (onp.asarray(s) for s in st.u.to_multivariate_normal())
    slv_dyn = pdq.solver_dynamic(strategy=pdq.strategy_filter(), constraint=ts1)
    st_dyn = slv_dyn.step(slv_dyn.init(t=0.0, u=prior, damp=damp), dt=h, damp=damp)
    scale = onp.asarray(st_dyn.output_scale)

    std, std_ref = onp.sqrt(onp.diag(C))[:d], onp.sqrt(onp.diag(P_ref))[:d]
    e_std = onp.abs(std / std_ref - 1).max()
    e_scale = onp.abs(scale / scale_ref - 1).max()
    bad = e_std > 0.05 or e_scale > 0.05
    failed |= bad
    print(f"damp={damp}: mean error {onp.abs(m - m_ref).max():.1e} | posterior std(u): library {std}, EKF {std_ref} (rel. dev. {e_std:.3f}) | "
          f"dynamic output scale: library {scale}, EKF {scale_ref} (rel. dev. {e_scale:.3f}) {'<<<' if bad else ''}")

print("\nDEFECT PRESENT" if failed else "\nno defect")
sys.exit(1 if failed else 0)
