"""C20: atol / rtol of the wrong rank or length are broadcast silently by the adaptive solvers.

For a d=2 state, tolerances of shape (2,1), (1,2), (2,2), (3,1), (1,1,1) are all accepted by
solve_adaptive_save_at / solve_adaptive_terminal_values and produce numbers: the scaled error
`error_abs / (atol + rtol*|reference|)` is broadcast to a (.., 2) array and the RMS is taken over
ALL entries (probdiffeq/_probdiffeq/solvers.py::error_norm_scale_then_rms.normalize, no shape check;
called from error_residual_std.estimate_error_norm).  A (2,1) column silently changes the accepted
steps compared with the intended per-component (2,) tolerance; a (3,1) tolerance does not even have
the length of the state.  Only shapes that fail to broadcast, e.g. (3,), raise.

Expected: ValueError/TypeError for every atol/rtol whose shape is neither () nor the state's shape.
Exits 1 if the defect is present.
"""
import sys

import jax
import jax.numpy as jnp
import numpy as onp

jax.config.update("jax_enable_x64", True)
import probdiffeq  # noqa: E402
from probdiffeq import ivpsolve  # noqa: E402
from probdiffeq import probdiffeq as pdq  # noqa: E402

print("probdiffeq from", probdiffeq.__file__)


def f(u, *, t):
    return u * (1 - u)


failed = False
for ssm_factory in [pdq.state_space_model_dense, pdq.state_space_model_isotropic, pdq.state_space_model_blockdiag]:
    ssm = ssm_factory()
    vf = pdq.ode(f)
    u0 = jnp.asarray([0.1, 0.3])
    tc, _ = pdq.jetexpand_ode_padded_scan(num=3)(vf, [u0], t=0.0)
    prior = ssm.prior_wiener_integrated(tc)
    ts0 = ssm.constraint_ode_ts0(vf)
    solver = pdq.solver(strategy=pdq.strategy_filter(), constraint=ts0)
    error = pdq.error_residual_std(constraint=ts0)
    solve = ivpsolve.solve_adaptive_save_at(solver=solver, error=error)
    save_at = jnp.linspace(0.0, 3.0, 4)
    a = jnp.asarray([1e-2, 1e-7])
    cases = [
        ("valid   scalar", 1e-3, 1e-3, False),
        ("valid   (2,)  ", a, a, False),
        ("invalid (3,)  ", jnp.ones(3) * 1e-3, 1e-3, True),
        ("invalid (2,1) ", a[:, None], a[:, None], True),
        ("invalid (1,2) ", a[None, :], a[None, :], True),
        ("invalid (2,2) ", jnp.outer(a, jnp.ones(2)), 1e-3, True),
        ("invalid (3,1) ", jnp.ones((3, 1)) * 1e-3, 1e-3, True),
        ("invalid (1,1,1)", jnp.ones((1, 1, 1)) * 1e-3, 1e-3, True),
        ("invalid rtol (3,1)", 1e-3, jnp.ones((3, 1)) * 1e-3, True),
    ]
    print(f"--- {type(ssm).__name__}")
    for name, atol, rtol, must_raise in cases:
        try:
            sol = solve(prior, save_at=save_at, atol=atol, rtol=rtol)
            msg = f"ACCEPTED: num_steps={onp.asarray(sol.num_steps).tolist()}, u(T)={onp.asarray(sol.u.mean[0][-1]).round(8).tolist()}"
            if must_raise:
                msg += "   <<< expected an exception"
                failed = True
        except Exception as e:  # noqa: BLE001
            msg = f"raised {type(e).__name__}"
        print(f"  atol/rtol {name}: {msg}")

print("\nDEFECT PRESENT" if failed else "\nno defect")
sys.exit(1 if failed else 0)
