from common import *
from probdiffeq.backend import linalg
onp.set_printoptions(linewidth=200, precision=6)
rng = onp.random.default_rng(3)
k, n = 2, 4
A = jnp.asarray(rng.normal(size=(k, k))); B = jnp.asarray(rng.normal(size=(n, k)))
Cm = rng.normal(size=(n, n)); Cm[:, 1] = 0.3 * Cm[:, 0]      # rank n-1, dependent column in the middle
Cm = jnp.asarray(Cm); G = jnp.asarray(rng.normal(size=(n, n)))
dB = jnp.asarray(rng.normal(size=(n, k)))
def stack(th):
    return jnp.block([[A, jnp.zeros((k, n))], [B + th*dB, Cm @ (jnp.eye(n) + th * G)]])
def top(th):
    R = linalg.qr_r(stack(th))
    R = R * jnp.sign(jnp.diagonal(R))[:, None]   # fix signs
    return R[:k, :]            # (R_Y, R12): unique, smooth functions of the input
def top_ref(th):
    M = stack(th); Q, R = jnp.linalg.qr(M[:, :k]); s = jnp.sign(jnp.diagonal(R))
    return jnp.concatenate([R * s[:, None], (Q * s[None, :]).T @ M[:, k:]], axis=1)
R = linalg.qr_r(stack(0.0)); print("diag R", onp.diagonal(onp.asarray(R)))
fwd = onp.asarray(jax.jacfwd(top)(0.0)); rev = onp.asarray(jax.jacrev(top)(0.0))
h = 1e-6; fd = onp.asarray((top(h) - top(-h))/(2*h))
print("fwd\n", fwd, "\nrev\n", rev, "\nfd\n", fd, "\nreference (QR of the regular leading columns only), fwd\n", onp.asarray(jax.jacfwd(top_ref)(0.0)))
