from c16_fixed import *
theta = {"a": jnp.asarray(0.7), "u0": jnp.asarray([0.3, 0.6]), "scale": jnp.asarray(1.3), "noise": jnp.asarray(0.2)}
for damp in [1e-2, 1e-6]:
    check(build("dense", "solver", "fixedinterval", "ts1", False, damp=damp), theta, f"UNPATCHED dense solver fixedinterval ts1 inexact damp={damp}", verbose=True, tol=1e-4)
