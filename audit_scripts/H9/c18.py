from common import *
import itertools

def hnw(f, y0, t0, p1, rtol, atol, rms=True):
    y0 = onp.asarray(y0, dtype=float)
    sc = atol + onp.abs(y0)*rtol
    nrm = (lambda x: onp.sqrt(onp.mean((x/sc)**2))) if rms else (lambda x: onp.linalg.norm(x/sc))
    f0 = onp.asarray(f(y0, t0)); d0 = nrm(y0); d1 = nrm(f0)
    h0 = 1e-6 if (d0 < 1e-5 or d1 < 1e-5) else 0.01*d0/d1
    y1 = y0 + h0*f0; f1 = onp.asarray(f(y1, t0+h0))
    d2 = nrm(f1-f0)/h0
    h1 = max(1e-6, h0*1e-3) if max(d1, d2) <= 1e-15 else (0.01/max(d1, d2))**(1.0/p1)
    return min(100*h0, h1)

print("=== dt0 extremes")
for u0v, fv, d in itertools.product([0.0, 1e-300, 1.0, 1e300], [0.0, 1e-300, 1.0, 1e300], [1, 100, 10000]):
    vf = pdq.ode(lambda u, *, t, fv=fv: fv*jnp.ones_like(u))
    h = ivpsolve.dt0(vf, [u0v*jnp.ones(d)], t=0.0)
    ok = bool(jnp.isfinite(h) & (h > 0))
    if not ok: print("dt0 u0=%g f=%g d=%d -> %r %s" % (u0v, fv, d, float(h), "" if ok else "<<<<"))
print("=== dt0_adaptive extremes")
for u0v, fv, d, tol, rate in itertools.product([0.0, 1e-300, 1.0, 1e300], [0.0, 1e-300, 1.0, 1e150, 1e300], [1, 3], [1e-12, 1e-3, 1.0], [1, 4, 12]):
    vf = pdq.ode(lambda u, *, t, fv=fv: fv*jnp.ones_like(u))
    h = ivpsolve.dt0_adaptive(vf, [u0v*jnp.ones(d)], 0.0, error_contraction_rate=rate, rtol=tol, atol=tol)
    ok = bool(jnp.isfinite(h) & (h > 0))
    with onp.errstate(all="ignore"):
        ref = hnw(lambda y, t: fv*onp.ones_like(y), u0v*onp.ones(d), 0.0, rate+1, tol, tol, rms=True)
        ref2 = hnw(lambda y, t: fv*onp.ones_like(y), u0v*onp.ones(d), 0.0, rate+1, tol, tol, rms=False)
    if not ok: print("dt0_adaptive u0=%g f=%g d=%d tol=%g rate=%d -> %r (HNW rms %g, euclid %g) %s" % (u0v, fv, d, tol, rate, float(h), ref, ref2, "" if ok else "<<<<"))
print("=== dt0_adaptive vs HNW, moderately scaled")
rng = onp.random.default_rng(0)
worst = 0
for d in [1, 2, 10, 100]:
    A = rng.normal(size=(d, d))
    y0 = rng.normal(size=d)
    f_np = lambda y, t: A @ y + onp.sin(t) - y**3
    vf = pdq.ode(lambda u, *, t: jnp.asarray(A) @ u + jnp.sin(t) - u**3)
    for rate, tol in [(1, 1e-3), (3, 1e-6), (5, 1e-9)]:
        h = float(ivpsolve.dt0_adaptive(vf, [jnp.asarray(y0)], 0.3, error_contraction_rate=rate, rtol=tol, atol=tol*0.1))
        r1 = hnw(f_np, y0, 0.3, rate+1, tol, tol*0.1, rms=True); r2 = hnw(f_np, y0, 0.3, rate+1, tol, tol*0.1, rms=False)
        print(f"d={d} rate={rate} tol={tol}: lib={h:.6e} HNW(rms)={r1:.6e} euclid={r2:.6e}")
