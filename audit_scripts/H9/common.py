import jax, jax.numpy as jnp, numpy as onp
jax.config.update("jax_enable_x64", True)
import probdiffeq as _p
assert _p.__file__.startswith("/repo"), _p.__file__
from probdiffeq import ivpsolve, probdiffeq as pdq
import warnings

def make(ssm_name="dense", num=3, d=2, strategy="filter", solver="solver", constraint="ts0", is_exact=True, output_scale=None):
    ssm = {"dense": pdq.state_space_model_dense, "isotropic": pdq.state_space_model_isotropic, "blockdiag": pdq.state_space_model_blockdiag}[ssm_name]()
    def f(u, *, t):
        return u * (1 - u)
    vf = pdq.ode(f, jacobian=pdq.jacobian_materialize())
    u0 = jnp.linspace(0.1, 0.3, d)
    tc, _ = pdq.jetexpand_ode_padded_scan(num=num)(vf, [u0], t=0.0)
    prior = ssm.prior_wiener_integrated(tc, is_exact=is_exact, output_scale=output_scale)
    if constraint == "ts0":
        c = ssm.constraint_ode_ts0(vf)
    else:
        c = ssm.constraint_ode_ts1(vf)
    strat = {"filter": pdq.strategy_filter, "fixedpoint": pdq.strategy_smoother_fixedpoint, "fixedinterval": pdq.strategy_smoother_fixedinterval}[strategy]()
    slv = {"solver": pdq.solver, "mle": pdq.solver_mle, "dynamic": pdq.solver_dynamic}[solver](strategy=strat, constraint=c)
    err = pdq.error_residual_std(constraint=c)
    return dict(ssm=ssm, vf=vf, u0=u0, tc=tc, prior=prior, constraint=c, strategy=strat, solver=slv, error=err)
