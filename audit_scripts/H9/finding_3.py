"""C16: with `constraint_init`, derivatives of complete solves are NaN (forward AND reverse mode)
for the dense model with a first-order (TS1 / residual) linearisation, in the standard set-up
(exact u0 -- optionally exact u0' -- plus diffuse higher derivatives with a common diffuse_eps),
although the solution itself is finite and finite differences are well-defined.

The initial update goes through cholesky_util.revert_conditional(..., solve_triu=linalg.lstsq_svd)
 = jnp.linalg.lstsq(R_Y, R12).  The values are fine (that is why lstsq is used), but
jnp.linalg.lstsq differentiates through an SVD, whose derivative divides by differences of
singular values: R_Y has repeated singular values (isotropic diffuse prior => R_Y = c * I) or
zero singular values (exactly known constrained coefficients) -> 0 * inf = NaN.
(TS0 escapes only because its R_Y has a symbolically-zero tangent.)

Code site: probdiffeq/_probdiffeq/solvers.py::solver.init / solver_dynamic.init / solver_mle.init
(`solve_triu=linalg.lstsq_svd`), probdiffeq/backend/linalg.py::lstsq_svd.

Exits 1 if the defect is present.
"""
import sys

import jax
import jax.numpy as jnp
import numpy as onp

jax.config.update("jax_enable_x64", True)
import probdiffeq  # noqa: E402
from probdiffeq import ivpsolve  # noqa: E402
from probdiffeq import probdiffeq as pdq  # noqa: E402

print("probdiffeq from", probdiffeq.__file__)
grid = jnp.asarray([0.0, 0.1, 0.25, 0.3, 0.5])


def make(ssm_factory, solver_factory, kind, with_init, known_coeffs):
    ssm = ssm_factory()

    def quantity(theta):
        def f(u, *, t):
            return theta * u * (1 - u[::-1]) + t

        vf = pdq.ode(f, jacobian=pdq.jacobian_materialize())
        u0 = theta * jnp.asarray([0.4, -0.3])
        tc = [u0, f(u0, t=0.0)][:known_coeffs]  # exactly known
        prior = ssm.prior_wiener_integrated(tc, is_exact=True, diffuse_derivatives=3 - known_coeffs, diffuse_eps=2.0)
        c = ssm.constraint_ode_ts0(vf) if kind == "ts0" else ssm.constraint_ode_ts1(vf)
        kw = {"constraint_init": c} if with_init else {}
        if solver_factory is pdq.solver_dynamic:
            kw["stop_gradient_through_calibration"] = False
        slv = solver_factory(strategy=pdq.strategy_filter(), constraint=c, **kw)
        sol = ivpsolve.solve_fixed_grid(solver=slv)(prior, grid=grid)
        return jnp.sum(sol.u.mean[0][-1])

    return quantity


failed = False
print(f"{'model':10s} {'solver':15s} {'lin':4s} {'constraint_init':>15s} {'known':>6s} | {'value':>12s} {'forward':>12s} {'reverse':>12s} {'FD':>12s}")
for ssm_factory in [pdq.state_space_model_dense, pdq.state_space_model_isotropic, pdq.state_space_model_blockdiag]:
    for solver_factory in [pdq.solver, pdq.solver_dynamic]:
        for kind in ["ts0", "ts1"]:
            for with_init, known in [(False, 2), (True, 1), (True, 2)]:
                g = make(ssm_factory, solver_factory, kind, with_init, known)
                th = jnp.asarray(1.1)
                val = g(th)
                _, fwd = jax.jvp(g, (th,), (jnp.ones(()),))
                rev = jax.grad(g)(th)
                h = 1e-6
                fd = (g(th + h) - g(th - h)) / (2 * h)
                bad = not (onp.isfinite(fwd) and onp.isfinite(rev) and abs(fwd - fd) < 1e-5 * abs(fd) and abs(rev - fd) < 1e-5 * abs(fd))
                print(f"{ssm_factory.__name__[18:]:10s} {solver_factory.__name__:15s} {kind:4s} {with_init!s:>15s} {known:6d} | {float(val):12.6f} {float(fwd):12.6f} {float(rev):12.6f} {float(fd):12.6f} {'<<< MISMATCH' if bad else ''}")
                failed |= bad
    jax.clear_caches()


# ------------------------------------------------------------------ (b) the time-series LML loss
# loss_lml_timeseries(solve_triu=linalg.lstsq_svd) (the default) has the same problem
# for the dense model as soon as the observation-noise levels are EQUAL across dimensions.
print("\nloss_lml_timeseries (default solve_triu), dense, TS0, fixed-interval smoother; gradient w.r.t. (ODE parameter, noise level)")
data = jnp.stack([jnp.cos(grid), jnp.sin(grid)], axis=1) * 0.3 + 0.2


def make_lml(weights):
    ssm = pdq.state_space_model_dense()

    def lml(theta):
        a, noise = theta

        def f(u, *, t):
            return a * u * (1 - u[::-1]) + jnp.sin(t) * a**2

        vf = pdq.ode(f)
        tc, _ = pdq.jetexpand_ode_padded_scan(num=2)(vf, [jnp.asarray([0.3, 0.6])], t=0.0)
        prior = ssm.prior_wiener_integrated(tc)
        ts0 = ssm.constraint_ode_ts0(vf)
        slv = pdq.solver(strategy=pdq.strategy_smoother_fixedinterval(), constraint=ts0)
        sol = ivpsolve.solve_fixed_grid(solver=slv)(prior, grid=grid)
        std = noise * jnp.ones((5, 2)) * weights
        return pdq.loss_lml_timeseries()(data, posterior=sol.solution_full.posterior, std=std)

    return lml


th = jnp.asarray([0.7, 0.2])
for weights, label in [(jnp.asarray([1.0, 2.0]), "unequal noise levels (0.2, 0.4)"), (jnp.asarray([1.0, 1.0]), "equal noise levels   (0.2, 0.2)")]:
    g = make_lml(weights)
    fwd, rev = onp.asarray(jax.jacfwd(g)(th)), onp.asarray(jax.grad(g)(th))
    h = 1e-6
    fd = onp.asarray([(g(th.at[i].add(h)) - g(th.at[i].add(-h))) / (2 * h) for i in range(2)])
    bad = not (onp.all(onp.isfinite(fwd)) and onp.all(onp.isfinite(rev)) and onp.allclose(fwd, fd, rtol=1e-5) and onp.allclose(rev, fd, rtol=1e-5))
    print(f"{label}: value={float(g(th)):.6f} forward={fwd} reverse={rev} FD={fd} {'<<< MISMATCH' if bad else ''}")
    failed |= bad

print("\nDEFECT PRESENT" if failed else "\nno defect")
sys.exit(1 if failed else 0)
