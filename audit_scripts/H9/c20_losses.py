from common import *
import sys

def attempt(name, fn):
    try:
        with warnings.catch_warnings(record=True) as w:
            warnings.simplefilter("always")
            out = fn()
        print(f"ACCEPTED {name}: {out} warns={[str(x.message)[:80] for x in w]}")
        return out
    except Exception as e:
        print(f"raised   {name}: {type(e).__name__}: {str(e)[:120]}")

N = 5
grid = jnp.linspace(0, 1, N)
for ssm_name in sys.argv[1:] or ["dense", "isotropic", "blockdiag"]:
    print("=====", ssm_name)
    S = make(ssm_name, strategy="fixedinterval"); prior = S["prior"]
    sol = ivpsolve.solve_fixed_grid(solver=S["solver"])(prior, grid=grid)
    data = sol.u.mean[0] + 0.01
    d = data.shape[1]
    std_ok = 0.1*jnp.ones(N) if ssm_name == "isotropic" else 0.1*jnp.ones((N, d))
    post = sol.solution_full.posterior
    L = pdq.loss_lml_timeseries()
    print("-- timeseries")
    attempt("ok", lambda: L(data, posterior=post, std=std_ok))
    attempt("std scalar", lambda: L(data, posterior=post, std=0.1))
    attempt("std (N,) vs (N,d)", lambda: L(data, posterior=post, std=0.1*jnp.ones(N)))
    attempt("std (N,d)", lambda: L(data, posterior=post, std=0.1*jnp.ones((N, d))))
    attempt("std (N,1)", lambda: L(data, posterior=post, std=0.1*jnp.ones((N, 1))))
    attempt("std (N-1,..)", lambda: L(data, posterior=post, std=std_ok[:-1]))
    attempt("std list", lambda: L(data, posterior=post, std=[std_ok]))
    attempt("std int dtype", lambda: L(data, posterior=post, std=jnp.ones_like(std_ok, dtype=int)))
    attempt("std bool dtype", lambda: L(data, posterior=post, std=jnp.ones_like(std_ok, dtype=bool)))
    attempt("data (N-1,d)", lambda: L(data[:-1], posterior=post, std=std_ok[:-1]))
    attempt("data (N+1,d)", lambda: L(jnp.concatenate([data, data[:1]]), posterior=post, std=jnp.concatenate([std_ok, std_ok[:1]])))
    attempt("data (N,1)", lambda: L(data[:, :1], posterior=post, std=std_ok))
    attempt("data (N,)", lambda: L(data[:, 0], posterior=post, std=std_ok))
    attempt("data (N,d,1)", lambda: L(data[..., None], posterior=post, std=std_ok))
    attempt("data (d,N)", lambda: L(data.T, posterior=post, std=std_ok))
    attempt("data list", lambda: L([data], posterior=post, std=std_ok))
    attempt("data int", lambda: L(jnp.ones_like(data, dtype=int), posterior=post, std=std_ok))
    attempt("posterior = full solution", lambda: L(data, posterior=sol.solution_full, std=std_ok))
    attempt("posterior = marginals", lambda: L(data, posterior=sol.u, std=std_ok))
    attempt("tcoeff_index=9", lambda: pdq.loss_lml_timeseries(tcoeff_index=9)(data, posterior=post, std=std_ok))
    attempt("tcoeff_index=-1", lambda: pdq.loss_lml_timeseries(tcoeff_index=-1)(data, posterior=post, std=std_ok))
    attempt("tcoeff_index=1.0", lambda: pdq.loss_lml_timeseries(tcoeff_index=1.0)(data, posterior=post, std=std_ok))
    attempt("tcoeff_index=1 ok", lambda: pdq.loss_lml_timeseries(tcoeff_index=1)(data, posterior=post, std=std_ok))
    print("-- terminal")
    LT = pdq.loss_lml_terminal_values()
    marg = jax.tree_util.tree_map(lambda s: s[-1], sol.u)
    std1 = std_ok[-1]
    attempt("ok", lambda: LT(data[-1], marginals=marg, std=std1))
    attempt("std scalar", lambda: LT(data[-1], marginals=marg, std=0.1))
    attempt("std (d,)", lambda: LT(data[-1], marginals=marg, std=0.1*jnp.ones(d)))
    attempt("std (1,)", lambda: LT(data[-1], marginals=marg, std=0.1*jnp.ones(1)))
    attempt("std (d,1)", lambda: LT(data[-1], marginals=marg, std=0.1*jnp.ones((d,1))))
    attempt("std int", lambda: LT(data[-1], marginals=marg, std=jnp.ones_like(std1, dtype=int)))
    attempt("data (1,)", lambda: LT(data[-1][:1], marginals=marg, std=std1))
    attempt("data ()", lambda: LT(data[-1][0], marginals=marg, std=std1))
    attempt("data (d,1)", lambda: LT(data[-1][:, None], marginals=marg, std=std1))
    attempt("data (d+1,)", lambda: LT(jnp.ones(d+1), marginals=marg, std=std1))
    attempt("data (N,d) full series", lambda: LT(data, marginals=marg, std=std1))
    attempt("marginals = batched", lambda: LT(data[-1], marginals=sol.u, std=std1))
    attempt("marginals = posterior", lambda: LT(data[-1], marginals=post, std=std1))
    attempt("tcoeff_index=9", lambda: pdq.loss_lml_terminal_values(tcoeff_index=9)(data[-1], marginals=marg, std=std1))
    attempt("tcoeff_index=-1", lambda: pdq.loss_lml_terminal_values(tcoeff_index=-1)(data[-1], marginals=marg, std=std1))
