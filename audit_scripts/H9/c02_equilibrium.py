from common import *
grid = jnp.asarray([0.0, 0.25, 0.5, 1.0])
for ssm_name in ["dense", "isotropic", "blockdiag"]:
    ssm = {"dense": pdq.state_space_model_dense, "isotropic": pdq.state_space_model_isotropic, "blockdiag": pdq.state_space_model_blockdiag}[ssm_name]()
    for solver_name in ["solver", "mle", "dynamic"]:
        for kind in ["ts0", "ts1"]:
            def q(a, u0=jnp.asarray([0.0, 1.0])):
                f = lambda u, *, t: a * u * (1 - u)
                vf = pdq.ode(f, jacobian=pdq.jacobian_materialize())
                tc, _ = pdq.jetexpand_ode_padded_scan(num=2)(vf, [u0], t=0.0)
                prior = ssm.prior_wiener_integrated(tc)
                c = ssm.constraint_ode_ts0(vf) if kind == "ts0" else ssm.constraint_ode_ts1(vf)
                slv = {"solver": pdq.solver, "mle": pdq.solver_mle, "dynamic": pdq.solver_dynamic}[solver_name](strategy=pdq.strategy_filter(), constraint=c)
                sol = ivpsolve.solve_fixed_grid(solver=slv)(prior, grid=grid)
                return jnp.concatenate([sol.u.mean[0][-1], sol.u.std[0][-1].ravel(), sol.output_scale[-1].ravel()])
            a0 = jnp.asarray(0.5)
            print(ssm_name, solver_name, kind, "mean,std,scale", onp.asarray(q(a0)), "rev grad of mean sum", float(jax.grad(lambda a: jnp.sum(q(a)[:2]))(a0)))
