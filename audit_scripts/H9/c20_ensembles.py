from common import *
from probdiffeq.backend import random as prandom
def f(u, *, t):
    return u * (1 - u)
u0 = jnp.asarray([0.5, 0.25])
vf = pdq.ode(f)
tc, _ = pdq.jetexpand_ode_padded_scan(num=2)(vf, [u0], t=0.0)
for S_ in [0, 1, 2, 3, 4, 5, -3, 2.0]:
    for bias in [False, True]:
        for sname, fac in [("solver", pdq.solver), ("dynamic", pdq.solver_dynamic)]:
            try:
                ssm = pdq.state_space_model_matfree(key=prandom.prng_key(seed=1), num_ensembles=S_, bias=bias)
                prior = ssm.prior_wiener_integrated(tc)
                c = ssm.constraint_ode_ts1(vf)
                slv = fac(strategy=pdq.strategy_filter(), constraint=c)
                sol = ivpsolve.solve_fixed_grid(solver=slv)(prior, grid=jnp.linspace(0, 1, 6))
                print(f"S={S_} bias={bias} {sname}: ACCEPTED u(1)={onp.asarray(sol.u.mean[0][-1])} std={onp.asarray(sol.u.std[0][-1])}")
            except Exception as e:
                print(f"S={S_} bias={bias} {sname}: raised {type(e).__name__}: {str(e)[:90]}")
