from common import *
from ekf_ref import iwp_1d
from probdiffeq.backend import random as prandom
d, q = 2, 2
def f(u, *, t):
    return u * (1 - u[::-1]) + t * u[::-1]**2
u0 = jnp.asarray([0.4, -0.3]); tc = [u0, f(u0, t=0.0), 0.2*jnp.ones(d)]
A1, Q1 = iwp_1d(q, 0.2); A = onp.kron(A1, onp.eye(d)); Q = onp.kron(Q1, onp.eye(d))
for damp in [0.0, 0.05, 0.5]:
    ssm = pdq.state_space_model_matfree(key=prandom.prng_key(seed=3), num_ensembles=20000)
    prior = ssm.prior_wiener_integrated(tc, is_exact=False, inexact_eps=0.3)
    c = ssm.constraint_ode_ts1(pdq.ode(f))
    slv = pdq.solver_dynamic(strategy=pdq.strategy_filter(), constraint=c)
    st1 = slv.step(slv.init(t=0.0, u=prior, damp=damp), dt=0.2, damp=damp)
    m0, P0 = (onp.asarray(s) for s in prior.init.to_multivariate_normal())
    mp = A @ m0; M = jnp.asarray(mp).reshape(q+1, d)
    J = onp.asarray(jax.jacfwd(lambda a: f(a, t=0.2))(M[0]))
    H = onp.zeros((d, (q+1)*d)); H[:, d:2*d] = onp.eye(d); H[:, :d] = -J
    z = onp.asarray(M[1] - f(M[0], t=0.2))
    S0 = H @ Q @ H.T
    print(f"damp={damp}: lib scale {onp.asarray(st1.output_scale)}; per-dim ref without damp {onp.sqrt(z**2/onp.diag(S0))}; per-dim ref with damp {onp.sqrt(z**2/(onp.diag(S0)+damp**2))}")
    # blockdiag model for comparison
    ssmb = pdq.state_space_model_blockdiag(); priorb = ssmb.prior_wiener_integrated(tc, is_exact=False, inexact_eps=0.3)
    cb = ssmb.constraint_ode_ts1(pdq.ode(f, jacobian=pdq.jacobian_materialize()))
    slvb = pdq.solver_dynamic(strategy=pdq.strategy_filter(), constraint=cb)
    sb = slvb.step(slvb.init(t=0.0, u=priorb, damp=damp), dt=0.2, damp=damp)
    print("     blockdiag model scale", onp.asarray(sb.output_scale))
