from common import *
import sys
from probdiffeq.backend import random as prandom

def attempt(name, fn, show=None):
    try:
        with warnings.catch_warnings(record=True) as w:
            warnings.simplefilter("always")
            out = fn()
        s = show(out) if show else type(out).__name__
        print(f"ACCEPTED {name}: {s} warns={[str(x.message)[:60] for x in w]}")
        return out
    except Exception as e:
        print(f"raised   {name}: {type(e).__name__}: {str(e)[:100]}")

def showsol(out):
    u = out.u.mean[0]
    return f"u[-1]={onp.asarray(u[-1]).round(5).tolist()} std[-1]={onp.asarray(out.u.std[0][-1]).round(7).tolist()}"

f1 = lambda u, *, t: u * (1 - u)
f2 = lambda u, du, *, t: -u
grid = jnp.linspace(0, 1, 6)
for ssm_name in sys.argv[1:] or ["dense", "isotropic", "blockdiag", "matfree"]:
    print("=====", ssm_name)
    if ssm_name == "matfree":
        ssm = pdq.state_space_model_matfree(key=prandom.prng_key(seed=1), num_ensembles=10)
    else:
        ssm = make(ssm_name)["ssm"]
    vf1 = pdq.ode(f1, jacobian=pdq.jacobian_materialize()); vf2 = pdq.ode_order_two(f2, jacobian=pdq.jacobian_materialize())
    u0 = jnp.asarray([0.5, 0.25])
    tc, _ = pdq.jetexpand_ode_padded_scan(num=3)(vf1, [u0], t=0.0)
    tc2, _ = pdq.jetexpand_ode_padded_scan(num=2)(vf2, [u0, u0], t=0.0)
    prior = ssm.prior_wiener_integrated(tc)
    prior2 = ssm.prior_wiener_integrated(tc2)
    prior_short = ssm.prior_wiener_integrated(tc[:2])
    prior_1 = ssm.prior_wiener_integrated(tc[:1])
    def run(constraint, prior=prior, solver=pdq.solver, strategy=pdq.strategy_filter, **kw):
        slv = solver(strategy=strategy(), constraint=constraint, **kw)
        return ivpsolve.solve_fixed_grid(solver=slv)(prior, grid=grid)
    mk = {}
    if ssm_name != "matfree":
        mk["ts0"] = ssm.constraint_ode_ts0
    mk["ts1"] = ssm.constraint_ode_ts1
    for cname, c in mk.items():
        print("--", cname)
        attempt("ok", lambda: run(c(vf1)), showsol)
        attempt("plain fn", lambda: run(c(f1)), showsol)
        attempt("residual passed as ode", lambda: run(c(pdq.residual_from_ode(vf1))), showsol)
        attempt("autonomous ode", lambda: run(c(pdq.ode_autonomous(lambda u: u*(1-u)))), showsol)
        attempt("order-2 ode on state from order-1 (4 coeffs)", lambda: run(c(vf2)), showsol)
        attempt("order-1 ode, state with 1 coeff", lambda: run(c(vf1), prior=prior_1), showsol)
        attempt("order-2 ode, state with 2 coeffs", lambda: run(c(vf2), prior=prior_short), showsol)
        attempt("vf output wrong shape (3,)", lambda: run(c(pdq.ode(lambda u, *, t: jnp.ones(3), jacobian=pdq.jacobian_materialize()))), showsol)
        attempt("vf output scalar ()", lambda: run(c(pdq.ode(lambda u, *, t: jnp.sum(u), jacobian=pdq.jacobian_materialize()))), showsol)
        attempt("vf output (1,)", lambda: run(c(pdq.ode(lambda u, *, t: jnp.sum(u)[None], jacobian=pdq.jacobian_materialize()))), showsol)
        attempt("vf output (2,1)", lambda: run(c(pdq.ode(lambda u, *, t: u[:, None], jacobian=pdq.jacobian_materialize()))), showsol)
        attempt("vf output list", lambda: run(c(pdq.ode(lambda u, *, t: [u], jacobian=pdq.jacobian_materialize()))), showsol)
        attempt("vf output dict", lambda: run(c(pdq.ode(lambda u, *, t: {"a": u}, jacobian=pdq.jacobian_materialize()))), showsol)
        attempt("jet_lift(-1)", lambda: run(c(vf1.jet_lift(lift_by=-1))), showsol)
        attempt("jet_lift(5) too large", lambda: run(c(vf1.jet_lift(lift_by=5))), showsol)
        attempt("jet_lift(2) ok", lambda: run(c(vf1.jet_lift(lift_by=2))), showsol)
        attempt("jet_lift(3)", lambda: run(c(vf1.jet_lift(lift_by=3))), showsol)
        attempt("jet_lift(1.0)", lambda: run(c(vf1.jet_lift(lift_by=1.0))), showsol)
        attempt("jet_lift(True)", lambda: run(c(vf1.jet_lift(lift_by=True))), showsol)
        attempt("jet_lift_max(num_tcoeffs=1)", lambda: run(c(vf1.jet_lift_max(num_tcoeffs=1))), showsol)
        attempt("jet_lift_max(num_tcoeffs=9)", lambda: run(c(vf1.jet_lift_max(num_tcoeffs=9))), showsol)
    print("-- residual")
    attempt("ok", lambda: run(ssm.constraint_residual(pdq.residual_from_ode(vf1))), showsol)
    attempt("plain fn", lambda: run(ssm.constraint_residual(f1)), showsol)
    attempt("ode", lambda: run(ssm.constraint_residual(vf1)), showsol)
    attempt("taylor_point str", lambda: run(ssm.constraint_residual(pdq.residual_from_ode(vf1), taylor_point="prior")), showsol)
    attempt("residual needs more coeffs than state", lambda: run(ssm.constraint_residual(pdq.residual_from_ode(vf1)), prior=prior_1), showsol)
    attempt("residual acceleration w/ 2-coeff state", lambda: run(ssm.constraint_residual(pdq.residual_acceleration(lambda u, du, ddu, *, t: ddu + u)), prior=prior_short), showsol)
    attempt("residual jet_lift(-1)", lambda: run(ssm.constraint_residual(pdq.residual_from_ode(vf1).jet_lift(lift_by=-1))), showsol)
    attempt("residual jet_lift(5)", lambda: run(ssm.constraint_residual(pdq.residual_from_ode(vf1).jet_lift(lift_by=5))), showsol)
    attempt("residual jet_lift(2)", lambda: run(ssm.constraint_residual(pdq.residual_from_ode(vf1).jet_lift(lift_by=2))), showsol)
    attempt("residual jet_lift(3)", lambda: run(ssm.constraint_residual(pdq.residual_from_ode(vf1).jet_lift(lift_by=3))), showsol)
    attempt("residual jet_lift_max(9)", lambda: run(ssm.constraint_residual(pdq.residual_from_ode(vf1).jet_lift_max(num_tcoeffs=9))), showsol)
    attempt("residual position shape (3,)", lambda: run(ssm.constraint_residual(pdq.residual_velocity(lambda u, du, *, t: jnp.concatenate([du - u, du[:1]]), jacobian=pdq.jacobian_materialize()))), showsol)
    attempt("residual scalar ()", lambda: run(ssm.constraint_residual(pdq.residual_velocity(lambda u, du, *, t: jnp.sum(du - u), jacobian=pdq.jacobian_materialize()))), showsol)
    attempt("residual (1,)", lambda: run(ssm.constraint_residual(pdq.residual_velocity(lambda u, du, *, t: jnp.sum(du - u)[None], jacobian=pdq.jacobian_materialize()))), showsol)
