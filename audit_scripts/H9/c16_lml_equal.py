from common import *
import sys
grid = jnp.asarray([0.0, 0.15, 0.4, 0.5, 0.8])
data = jnp.stack([jnp.cos(grid), jnp.sin(grid)], axis=1) * 0.3 + 0.2
def make(ssm_name, kind, is_exact, equal, which, solver_name="solver", strategy="fixedinterval"):
    ssm = {"dense": pdq.state_space_model_dense, "isotropic": pdq.state_space_model_isotropic, "blockdiag": pdq.state_space_model_blockdiag}[ssm_name]()
    def quantity(theta):
        a, noise = theta
        def f(u, *, t):
            return a * u * (1 - u[::-1]) + jnp.sin(t) * a**2
        vf = pdq.ode(f, jacobian=pdq.jacobian_materialize())
        tc, _ = pdq.jetexpand_ode_padded_scan(num=2)(vf, [jnp.asarray([0.3, 0.6])], t=0.0)
        prior = ssm.prior_wiener_integrated(tc, is_exact=is_exact, inexact_eps=0.05)
        c = ssm.constraint_ode_ts0(vf) if kind == "ts0" else ssm.constraint_ode_ts1(vf)
        strat = pdq.strategy_smoother_fixedinterval() if strategy == "fixedinterval" else pdq.strategy_filter()
        kw = {"stop_gradient_through_calibration": False} if solver_name == "dynamic" else {}
        slv = {"solver": pdq.solver, "mle": pdq.solver_mle, "dynamic": pdq.solver_dynamic}[solver_name](strategy=strat, constraint=c, **kw)
        sol = ivpsolve.solve_fixed_grid(solver=slv)(prior, grid=grid)
        w = jnp.ones(2) if equal else jnp.asarray([1.0, 2.0])
        if which == "timeseries":
            std = noise * jnp.ones(5) if ssm_name == "isotropic" else noise * jnp.ones((5, 2)) * w
            return pdq.loss_lml_timeseries()(data, posterior=sol.solution_full.posterior, std=std)
        margT = jax.tree_util.tree_map(lambda s: s[-1], sol.u)
        std = noise if ssm_name == "isotropic" else noise * w
        return pdq.loss_lml_terminal_values()(data[-1], marginals=margT, std=std)
    return quantity
th = jnp.asarray([0.7, 0.2])
for ssm_name in sys.argv[1:]:
    for which in ["timeseries", "terminal"]:
        for kind in ["ts0", "ts1"]:
            for is_exact in [True, False]:
                for equal in [True, False]:
                    if ssm_name == "isotropic" and not equal: continue
                    g = make(ssm_name, kind, is_exact, equal, which)
                    fwd = onp.asarray(jax.jacfwd(g)(th)); rev = onp.asarray(jax.grad(g)(th))
                    h = 1e-6; fd = onp.asarray([(g(th.at[i].add(h)) - g(th.at[i].add(-h)))/(2*h) for i in range(2)])
                    bad = not (onp.all(onp.isfinite(fwd)) and onp.all(onp.isfinite(rev)) and onp.allclose(fwd, fd, rtol=1e-4) and onp.allclose(rev, fd, rtol=1e-4))
                    print(f"{ssm_name} {which} {kind} exact={is_exact} equal_noise={equal}: value={float(g(th)):.5f} fwd={fwd} rev={rev} fd={fd} {'<<<' if bad else ''}")
