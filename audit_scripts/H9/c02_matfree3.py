from common import *
from ekf_ref import iwp_1d
from probdiffeq.backend import random as prandom
d, q = 2, 2
def f(u, *, t):
    return u * (1 - u[::-1]) + t * u[::-1]**2
u0 = jnp.asarray([0.4, -0.3]); tc = [u0, f(u0, t=0.0), 0.2*jnp.ones(d)]
A1, Q1 = iwp_1d(q, 0.2); A = onp.kron(A1, onp.eye(d)); Q = onp.kron(Q1, onp.eye(d))
n = q+1; mask = onp.kron(onp.ones((n, n)), onp.eye(d))
for damp in [0.0, 0.5]:
  for S_ in [2000, 20000]:
    ssm = pdq.state_space_model_matfree(key=prandom.prng_key(seed=3), num_ensembles=S_)
    prior = ssm.prior_wiener_integrated(tc, is_exact=False, inexact_eps=0.3)
    c = ssm.constraint_ode_ts1(pdq.ode(f))
    slv = pdq.solver(strategy=pdq.strategy_filter(), constraint=c)
    st1 = slv.step(slv.init(t=0.0, u=prior, damp=damp), dt=0.2, damp=damp)
    m, C = (onp.asarray(s) for s in st1.u.to_multivariate_normal())
    m0, P0 = (onp.asarray(s) for s in prior.init.to_multivariate_normal())
    mp = A @ m0; Pp = A @ P0 @ A.T + Q; M = jnp.asarray(mp).reshape(q+1, d)
    J = onp.asarray(jax.jacfwd(lambda a: f(a, t=0.2))(M[0]))
    H = onp.zeros((d, (q+1)*d)); H[:, d:2*d] = onp.eye(d); H[:, :d] = -J
    z = onp.asarray(M[1] - f(M[0], t=0.2))
    Sm = H @ Pp @ H.T + damp**2*onp.eye(d); K = onp.linalg.solve(Sm, H @ Pp).T
    Pref = Pp - K @ Sm @ K.T
    Pnoterm = (onp.eye(n*d) - K @ H) @ Pp @ (onp.eye(n*d) - K @ H).T   # Joseph form WITHOUT the K R K^T term
    print(f"damp={damp} S={S_}: mean err {onp.abs(m - (mp - K @ z)).max():.1e}; std(u) lib {onp.sqrt(onp.diag(C))[:d]}, EKF {onp.sqrt(onp.diag(Pref))[:d]}, (I-KH)P(I-KH)^T only {onp.sqrt(onp.diag(Pnoterm))[:d]}")
