from common import *
S = make("dense", num=3, d=2)
u0 = S["u0"]
exact = lambda t: u0*jnp.exp(t)/(1 + u0*(jnp.exp(t) - 1))  # logistic
solve = ivpsolve.solve_adaptive_terminal_values(solver=S["solver"], error=S["error"])
for t0, t1 in [(0.0, 2.0), (0.0, -2.0)]:
    sol = solve(S["prior"], t0=t0, t1=t1, atol=1e-6, rtol=1e-6)
    print("terminal values t0", t0, "t1", t1, "->t", float(sol.t), "u", onp.asarray(sol.u.mean[0]), "std", onp.asarray(sol.u.std[0]), "num_steps", int(sol.num_steps), "exact", onp.asarray(exact(t1 - t0)))
# taylor polynomial of the initial state
tc = S["tc"]; h = -2.0
print("Taylor polynomial of the initial jet at h=-2:", onp.asarray(sum(c*h**i/__import__("math").factorial(i) for i, c in enumerate(tc))))
solve = ivpsolve.solve_adaptive_save_at(solver=S["solver"], error=S["error"])
sol = solve(S["prior"], save_at=jnp.asarray([0.0, -1.0, -2.0]), atol=1e-6, rtol=1e-6)
print("save_at decreasing: t", onp.asarray(sol.t), "u", onp.asarray(sol.u.mean[0]).tolist(), "num_steps", onp.asarray(sol.num_steps), "exact", onp.asarray(exact(-2.0)))
sol = ivpsolve.solve_fixed_grid(solver=S["solver"])(S["prior"], grid=jnp.linspace(0, -2, 41))
print("fixed grid decreasing: u", onp.asarray(sol.u.mean[0][-1]))
