"""Checker self-test (thorough tier): in-memory source variants of the *current* tree.

Every variant is an edit computed against the current source (located by the
qualified name of the enclosing function, then a text fragment inside that
function) and analysed through the same entry point as the real check; nothing
is written to /repo and nothing is executed.

* ``kind='break'``   -- a seeded violation; the check must refute an obligation
  of the named rule (and name the construct).
* ``kind='benign'``  -- a behaviour-preserving rewrite; the check must stay silent.

Variants whose anchor text no longer exists on an edited tree are *skipped* and
counted, never failed.  A property whose rules expect zero matches carries a
positive control that must fire on every run.
"""

from __future__ import annotations

import ast
import importlib
import os
from concurrent.futures import ProcessPoolExecutor

from .model import PKG, REPO, AnalysisError, Program


def _func_span(src: str, qual: str):
    """(start_offset, end_offset) of function/class ``a.b.c`` inside module source."""
    tree = ast.parse(src)
    node = tree
    for nm in qual.split("."):
        nxt = None
        for st in ast.walk(node):
            if isinstance(st, (ast.FunctionDef, ast.ClassDef)) and st.name == nm and st is not node:
                nxt = st
                break
        if nxt is None:
            return None
        node = nxt
    lines = src.splitlines(keepends=True)
    start = sum(len(ln) for ln in lines[: node.lineno - 1])
    end = sum(len(ln) for ln in lines[: node.end_lineno])
    return start, end


def apply_variant(v, repo=None):
    """Returns overrides dict or None if the anchor is not found."""
    repo = repo or REPO
    overrides = {}
    for (rel, scope, old, new) in v["edits"]:
        path = os.path.join(repo, rel)
        src = overrides.get(rel)
        if src is None:
            try:
                with open(path, encoding="utf-8") as fh:
                    src = fh.read()
            except OSError:
                return None
        if scope:
            span = _func_span(src, scope)
            if span is None:
                return None
            a, b = span
        else:
            a, b = 0, len(src)
        seg = src[a:b]
        if seg.count(old) < 1:
            return None
        seg = seg.replace(old, new, 1)
        new_src = src[:a] + seg + src[b:]
        try:
            ast.parse(new_src)
        except SyntaxError:
            return None
        overrides[rel] = new_src
    return overrides


def _run_one(args):
    pid, v = args
    from .__main__ import run_check

    ov = apply_variant(v)
    if ov is None:
        return {"id": v["id"], "kind": v["kind"], "result": "skipped (anchor not found)"}
    try:
        prog = Program(overrides=ov)
    except AnalysisError as e:
        return {"id": v["id"], "kind": v["kind"], "result": f"skipped ({e})"}
    _, chk = run_check(pid, "quick", 0, program=prog, write=False)
    refuted = [o for r in chk.rules for o in r.obls if o.status == "refuted"]
    # subtract refutations that are already present on the unmodified tree
    out = {"id": v["id"], "kind": v["kind"], "refuted": [f"{o.rule}:{o.construct}" for o in refuted][:6], "errors": chk.errors[:2]}
    return out


def run_for(pid: str, seed: int = 0, jobs: int | None = None):
    try:
        mod = importlib.import_module(f"pdqverif.mutants.{pid.lower()}")
    except ModuleNotFoundError:
        return {"variants": 0, "note": "no variant corpus for this property"}
    variants = mod.VARIANTS
    from .__main__ import run_check

    _, base = run_check(pid, "quick", seed, write=False)
    base_ref = {f"{o.rule}:{o.construct}" for r in base.rules for o in r.obls if o.status == "refuted"}
    jobs = jobs or min(16, max(1, len(variants)))
    with ProcessPoolExecutor(max_workers=jobs) as ex:
        results = list(ex.map(_run_one, [(pid, v) for v in variants]))
    summary = {"variants": len(variants), "detected": 0, "missed": [], "silent_ok": 0, "false_alarms": [], "skipped": 0, "analysis_error_variants": []}
    byid = {v["id"]: v for v in variants}
    for r in results:
        v = byid[r["id"]]
        if "result" in r:
            summary["skipped"] += 1
            summary.setdefault("skipped_ids", []).append(r["id"])
            continue
        new = [x for x in r["refuted"] if x not in base_ref]
        if v["kind"] == "break":
            want = v.get("rule")
            hit = [x for x in new if want is None or x.startswith(want)]
            if hit or (r["errors"] and v.get("accept_error")):
                summary["detected"] += 1
            elif r["errors"]:
                summary["analysis_error_variants"].append({"id": r["id"], "error": r["errors"][0][:200]})
            else:
                summary["missed"].append({"id": r["id"], "refuted": new})
        else:
            if new or r["errors"]:
                summary["false_alarms"].append({"id": r["id"], "refuted": new, "errors": r["errors"]})
            else:
                summary["silent_ok"] += 1
    pc = getattr(mod, "POSITIVE_CONTROL", None)
    if pc:
        ctl = [r for r in results if r["id"] == pc]
        if ctl and "result" not in ctl[0] and not [x for x in ctl[0]["refuted"] if x not in base_ref]:
            summary["positive_control_failed"] = pc
    return summary


def main():
    import json
    import sys

    pid = sys.argv[1].upper()
    print(json.dumps(run_for(pid), indent=1))


if __name__ == "__main__":
    main()
