"""Difference-bound (zone) store for time labels, in units of a symbolic eps >= 0.

A fact is  x - y <= k * eps  (strict or not) with integer k.  Because eps may be
zero, (k, strict) pairs are only partially ordered: (k', s') implies (k, s) iff
k' <= k and (s' or not s).  Each edge keeps its Pareto-optimal pairs; closure is
Floyd-Warshall over those sets (the graphs here have <= 6 nodes).
"""

from __future__ import annotations


def _dominates(a, b):
    """a implies b."""
    return a[0] <= b[0] and (a[1] or not b[1])


def _insert(s: set, p):
    if any(_dominates(q, p) for q in s):
        return False
    for q in [q for q in s if _dominates(p, q)]:
        s.discard(q)
    s.add(p)
    return True


class Zone:
    def __init__(self, eps_nonneg=True):
        self.d: dict = {}
        self.nodes: set = set()
        self.closed = False

    def add(self, x, y, k, strict):
        """x - y <= k*eps (or < if strict)."""
        self.nodes |= {x, y}
        _insert(self.d.setdefault((x, y), set()), (k, strict))
        self.closed = False

    def le(self, x, y):
        self.add(x, y, 0, False)

    def lt(self, x, y):
        self.add(x, y, 0, True)

    def eq(self, x, y):
        self.le(x, y)
        self.le(y, x)

    def lt_eps(self, x, y):
        """x + eps < y."""
        self.add(x, y, -1, True)

    def le_eps(self, x, y):
        """x <= y + eps."""
        self.add(x, y, 1, False)

    def close(self):
        if self.closed:
            return
        nodes = sorted(self.nodes)
        changed = True
        it = 0
        while changed and it < 50:
            changed = False
            it += 1
            for k in nodes:
                for i in nodes:
                    a = self.d.get((i, k))
                    if not a:
                        continue
                    for j in nodes:
                        b = self.d.get((k, j))
                        if not b:
                            continue
                        tgt = self.d.setdefault((i, j), set())
                        for (k1, s1) in list(a):
                            for (k2, s2) in list(b):
                                p = (k1 + k2, s1 or s2)
                                if p[0] < -8:
                                    p = (-8, p[1])
                                if _insert(tgt, p):
                                    changed = True
        self.closed = True

    def infeasible(self) -> bool:
        """Definitely no valuation (for any eps >= 0): a cycle with  0 < k*eps, k <= 0."""
        self.close()
        for n in self.nodes:
            for (k, s) in self.d.get((n, n), ()):
                if s and k <= 0:
                    return True
        return False

    def proves_le(self, x, y) -> bool:
        self.close()
        return x == y or any(k <= 0 for (k, s) in self.d.get((x, y), ()))

    def proves_lt(self, x, y) -> bool:
        self.close()
        return any(k <= 0 and s for (k, s) in self.d.get((x, y), ()))

    def proves_le_eps(self, x, y) -> bool:
        """x <= y + eps."""
        self.close()
        return x == y or any(k <= 1 for (k, s) in self.d.get((x, y), ()))
