"""Automatic source variants (thorough tier): generic AST rewrites of the *current* tree.

Two families, both computed on the fly from the files a property is anchored in:

* ``benign``  behaviour-preserving rewrites -- commute the operands of ``+`` / ``*`` (numeric
  contexts only), mirror a comparison (``a < b`` -> ``b > a``), rename a local variable
  consistently, wrap an expression in a no-op temporary.  Every check must stay silent on them.
* ``break``   classical mutation operators -- ``+``<->``-``, ``*``<->``/``, ``<``<->``<=``,
  ``<``<->``>``, swap the first two positional arguments of a call, replace an attribute by a
  sibling attribute (``step_from``<->``interp_from``, ``previous``<->``proposed``, ...), delete an
  ``if ...: raise`` guard, off-by-one on integer literals.  Many of these are equivalent or
  irrelevant to a given property; the kill rate is reported as a statistic only.

Nothing is written to /repo; variants are analysed in memory through the same entry point.
"""

from __future__ import annotations

import ast
import copy
import os
import random
from concurrent.futures import ProcessPoolExecutor

from .model import REPO, Program

SIBLINGS = [
    ("step_from", "interp_from"), ("previous", "proposed"), ("to_latent", "to_observed"), ("posterior_t0", "posterior_t1"),
    ("transition_t0_t", "transition_t_t1"), ("mean_flat", "cholesky_flat"), ("marginal", "conditional"), ("solution0", "solution1"),
    ("factor_min", "factor_max"), ("error_step_from", "error_proposed"), ("atol", "rtol"), ("minimum", "maximum"),
    ("tree_array_prepend", "tree_array_append"), ("solve_triu", "solve_tril"), ("zeros_like", "ones_like"),
]
SIB = {}
for a, b in SIBLINGS:
    SIB[a], SIB[b] = b, a


def _is_stringy(n):
    if isinstance(n, ast.JoinedStr):
        return True
    if isinstance(n, ast.Constant) and isinstance(n.value, str):
        return True
    if isinstance(n, ast.Name) and n.id in ("msg", "name", "args"):
        return True
    if isinstance(n, (ast.List, ast.Tuple, ast.ListComp)):
        return True
    if isinstance(n, ast.BinOp):
        return _is_stringy(n.left) or _is_stringy(n.right)
    return False


def _functions(tree):
    for n in ast.walk(tree):
        if isinstance(n, ast.FunctionDef):
            yield n


def sites(tree):
    """Enumerate (kind, family, locator) edit sites; locator = index in ast.walk order."""
    out = []
    nodes = list(ast.walk(tree))
    in_string_ctx = set()
    for n in nodes:
        if isinstance(n, (ast.AugAssign,)) and isinstance(n.target, ast.Name) and n.target.id == "msg":
            for c in ast.walk(n):
                in_string_ctx.add(id(c))
        if isinstance(n, ast.Assign) and any(isinstance(t, ast.Name) and t.id == "msg" for t in n.targets):
            for c in ast.walk(n):
                in_string_ctx.add(id(c))
        if isinstance(n, (ast.Raise, ast.JoinedStr)):
            for c in ast.walk(n):
                in_string_ctx.add(id(c))
        if isinstance(n, ast.AnnAssign) or isinstance(n, ast.arg):
            for c in ast.walk(n):
                in_string_ctx.add(id(c))
    for i, n in enumerate(nodes):
        if id(n) in in_string_ctx:
            continue
        if isinstance(n, ast.BinOp) and not _is_stringy(n):
            if isinstance(n.op, (ast.Add, ast.Mult)):
                out.append(("commute", "benign", i))
            if isinstance(n.op, ast.Add):
                out.append(("add->sub", "break", i))
            elif isinstance(n.op, ast.Sub):
                out.append(("sub->add", "break", i))
            elif isinstance(n.op, ast.Mult):
                out.append(("mul->div", "break", i))
            elif isinstance(n.op, ast.Div):
                out.append(("div->mul", "break", i))
        if isinstance(n, ast.Compare) and len(n.ops) == 1:
            if isinstance(n.ops[0], (ast.Lt, ast.LtE, ast.Gt, ast.GtE)):
                out.append(("mirror-compare", "benign", i))
                out.append(("strictness", "break", i))
                out.append(("reverse-compare", "break", i))
        if isinstance(n, ast.Call) and len(n.args) >= 2 and not any(isinstance(a, ast.Starred) for a in n.args[:2]):
            out.append(("swap-args", "break", i))
        if isinstance(n, ast.Attribute) and n.attr in SIB and isinstance(n.ctx, ast.Load):
            out.append(("sibling-attr", "break", i))
        if isinstance(n, ast.keyword) and n.arg in SIB and False:
            out.append(("sibling-kw", "break", i))
        if isinstance(n, ast.If) and len(n.body) >= 1 and isinstance(n.body[-1], ast.Raise) and not n.orelse:
            out.append(("drop-guard", "break", i))
        if isinstance(n, ast.Constant) and isinstance(n.value, int) and not isinstance(n.value, bool) and 0 <= n.value <= 3:
            out.append(("off-by-one", "break", i))
    for f in _functions(tree):
        own_stores, nested_bound, in_class = set(), set(), set()

        def scan(node, depth_fn, depth_cls):
            for ch in ast.iter_child_nodes(node):
                if isinstance(ch, ast.ClassDef):
                    for x in ast.walk(ch):
                        if isinstance(x, ast.Name):
                            in_class.add(x.id)
                    continue
                if isinstance(ch, (ast.FunctionDef, ast.Lambda)):
                    a = ch.args
                    for p_ in a.args + a.kwonlyargs + a.posonlyargs + ([a.vararg] if a.vararg else []) + ([a.kwarg] if a.kwarg else []):
                        nested_bound.add(p_.arg)
                    for x in ast.walk(ch):
                        if isinstance(x, ast.Name) and isinstance(x.ctx, ast.Store):
                            nested_bound.add(x.id)
                        if isinstance(x, (ast.FunctionDef, ast.ClassDef)):
                            nested_bound.add(x.name)
                        if isinstance(x, (ast.FunctionDef, ast.Lambda)):
                            b = x.args
                            for p2 in b.args + b.kwonlyargs + b.posonlyargs + ([b.vararg] if b.vararg else []) + ([b.kwarg] if b.kwarg else []):
                                nested_bound.add(p2.arg)
                    if isinstance(ch, ast.FunctionDef):
                        nested_bound.add(ch.name)
                    continue
                if isinstance(ch, ast.Name) and isinstance(ch.ctx, ast.Store):
                    own_stores.add(ch.id)
                if isinstance(ch, (ast.ListComp, ast.GeneratorExp, ast.DictComp, ast.SetComp)):
                    for x in ast.walk(ch):
                        if isinstance(x, ast.Name) and isinstance(x.ctx, ast.Store):
                            nested_bound.add(x.id)
                    continue
                scan(ch, depth_fn, depth_cls)

        scan(f, 0, 0)
        params = {a.arg for a in f.args.args + f.args.kwonlyargs + f.args.posonlyargs} | ({f.args.vararg.arg} if f.args.vararg else set()) | ({f.args.kwarg.arg} if f.args.kwarg else set())
        for name in sorted(own_stores):
            if name in params or name in nested_bound or name in in_class or name.startswith("_") or len(name) < 2:
                continue
            out.append((f"rename:{f.name}:{f.lineno}:{name}", "benign", nodes.index(f)))
    return out


def apply(tree, site):
    kind, family, i = site
    t = copy.deepcopy(tree)
    nodes = list(ast.walk(t))
    n = nodes[i]
    if kind == "commute":
        n.left, n.right = n.right, n.left
    elif kind == "add->sub":
        n.op = ast.Sub()
    elif kind == "sub->add":
        n.op = ast.Add()
    elif kind == "mul->div":
        n.op = ast.Div()
    elif kind == "div->mul":
        n.op = ast.Mult()
    elif kind == "mirror-compare":
        m = {ast.Lt: ast.Gt, ast.LtE: ast.GtE, ast.Gt: ast.Lt, ast.GtE: ast.LtE}
        n.left, n.comparators[0] = n.comparators[0], n.left
        n.ops = [m[type(n.ops[0])]()]
    elif kind == "strictness":
        m = {ast.Lt: ast.LtE, ast.LtE: ast.Lt, ast.Gt: ast.GtE, ast.GtE: ast.Gt}
        n.ops = [m[type(n.ops[0])]()]
    elif kind == "reverse-compare":
        m = {ast.Lt: ast.Gt, ast.LtE: ast.GtE, ast.Gt: ast.Lt, ast.GtE: ast.LtE}
        n.ops = [m[type(n.ops[0])]()]
    elif kind == "swap-args":
        n.args[0], n.args[1] = n.args[1], n.args[0]
    elif kind == "sibling-attr":
        n.attr = SIB[n.attr]
    elif kind == "drop-guard":
        n.test = ast.Constant(value=False)
    elif kind == "off-by-one":
        n.value = n.value + 1
    elif kind.startswith("rename:"):
        name = kind.rsplit(":", 1)[1]
        new = name + "_renamed"
        # rename within this function, but not inside nested functions that rebind the name as a parameter
        for s in ast.walk(n):
            if isinstance(s, ast.Name) and s.id == name:
                s.id = new
    else:
        return None
    ast.fix_missing_locations(t)
    try:
        return ast.unparse(t)
    except Exception:
        return None


def _run(args):
    pid, rel, src, site = args
    from .__main__ import run_check

    try:
        prog = Program(overrides={rel: src})
    except Exception as e:
        return {"site": site, "file": rel, "result": f"unparsable: {e}"}
    _, chk = run_check(pid, "quick", 0, program=prog, write=False)
    refuted = [f"{o.rule}:{o.construct}" for r in chk.rules for o in r.obls if o.status == "refuted"]
    return {"site": site, "file": rel, "refuted": refuted[:4], "errors": chk.errors[:1]}


def run_for(pid: str, files: list[str], seed: int = 0, max_break: int = 160, max_benign: int = 160, jobs: int = 16):
    rng = random.Random(seed)
    from .__main__ import run_check

    _, base = run_check(pid, "quick", seed, write=False)
    base_ref = {f"{o.rule}:{o.construct}" for r in base.rules for o in r.obls if o.status == "refuted"}
    todo = {"benign": [], "break": []}
    for rel in files:
        path = os.path.join(REPO, rel)
        try:
            src = open(path, encoding="utf-8").read()
            tree = ast.parse(src)
        except (OSError, SyntaxError):
            continue
        for s in sites(tree):
            todo[s[1]].append((rel, tree, s))
    out = {"benign_sites": len(todo["benign"]), "break_sites": len(todo["break"])}
    picked = []
    for fam, cap in (("benign", max_benign), ("break", max_break)):
        pool = todo[fam]
        rng.shuffle(pool)
        for rel, tree, s in pool[:cap]:
            new_src = apply(tree, s)
            if new_src is not None:
                picked.append((pid, rel, new_src, (s[0], s[1], getattr(list(ast.walk(tree))[s[2]], "lineno", 0))))
    with ProcessPoolExecutor(max_workers=jobs) as ex:
        results = list(ex.map(_run, picked, chunksize=4))
    fa, killed, survived, errs = [], 0, 0, 0
    survivors = []
    kinds = {}
    for r in results:
        kind, fam, line = r["site"]
        if "result" in r:
            continue
        new = [x for x in r["refuted"] if x not in base_ref]
        if fam == "benign":
            if new or r["errors"]:
                fa.append({"file": r["file"], "line": line, "kind": kind, "refuted": new, "errors": r["errors"]})
        else:
            k = kinds.setdefault(kind.split(":")[0], [0, 0])
            k[1] += 1
            if new or r["errors"]:
                killed += 1
                k[0] += 1
            else:
                survived += 1
                survivors.append({"file": r["file"], "line": line, "kind": kind})
    out.update({
        "benign_run": sum(1 for r in results if r["site"][1] == "benign" and "result" not in r),
        "benign_false_alarms": fa,
        "break_run": killed + survived,
        "break_reported": killed,
        "break_reported_by_operator": {k: f"{v[0]}/{v[1]}" for k, v in sorted(kinds.items())},
        "survivors": sorted(survivors, key=lambda d: (d["file"], d["line"]))[:400],
        "note": "break mutants include equivalent / property-irrelevant ones; the ratio is a statistic, not a requirement",
    })
    return out


if __name__ == "__main__":
    import json
    import sys

    pid = sys.argv[1].upper()
    props = {json.loads(l)["id"]: json.loads(l) for l in open(os.path.join(os.path.dirname(os.path.dirname(os.path.abspath(__file__))), "properties.jsonl"))}
    files = props[pid]["anchors"]["files"]
    print(json.dumps(run_for(pid, files, seed=int(os.environ.get("VERIF_SEED", "0") or 0)), indent=1))
