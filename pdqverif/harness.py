"""Shared scaffolding for the per-property rule modules.

Builds abstract arguments (records of atoms for the repository's dataclasses,
opaque atoms for interface-typed collaborators), runs repository functions in
the abstract interpreter, and offers small term utilities (substitution,
pattern accessors) used by several rules.
"""

from __future__ import annotations

from . import terms as T
from .interp import INLINED as _INLINED
from .interp import (
    BoundMethod, ClassV, Closure, Interp, PartialV, PrimV, RaiseSignal, Rec, WrappedFn, ite,  # noqa: F401
)
from .model import AnalysisError, Program

ADAPT = "probdiffeq._ivpsolve.solvers_via_adaptive_steps"
FIXED = "probdiffeq._ivpsolve.solvers_via_fixed_steps"
CTRL = "probdiffeq._ivpsolve.controllers"
SOLVERS = "probdiffeq._probdiffeq.solvers"
EST = "probdiffeq._probdiffeq.estimators_and_losses"
API = "probdiffeq._probdiffeq.ssm_impl_api"
DENSE = "probdiffeq._probdiffeq.ssm_impl_dense"
ISO = "probdiffeq._probdiffeq.ssm_impl_isotropic"
BLOCK = "probdiffeq._probdiffeq.ssm_impl_blockdiag"
MATFREE = "probdiffeq._probdiffeq.ssm_impl_matfree"
UTIL = "probdiffeq._probdiffeq.utilities"
PROBLEMS = "probdiffeq._probdiffeq.problems"
JETEXP = "probdiffeq._probdiffeq.jet_expansion_algorithms"
TPOINTS = "probdiffeq._probdiffeq.taylor_points"
JAC = "probdiffeq._probdiffeq.jacobians"
STEPINIT = "probdiffeq._ivpsolve.stepsize_initialisers"
CHOL = "probdiffeq.util.cholesky_util"
GRAM = "probdiffeq.util.gram_util"
TESTUTIL = "probdiffeq.util.test_util"

A = T.atom


class Session:
    """One program model + fresh interpreters on demand."""

    def __init__(self, program: Program | None = None):
        self.p = program or Program()
        self.interps = 0
        self.calls_resolved = 0
        self.calls_primitive = 0
        self.calls_opaque = 0
        self.prims: set = set()
        self.prims_referenced: set = set()
        self.prim_usage: dict = {}
        self._created: list = []
        self.unravel_applied: list = []

    def interp(self) -> Interp:
        self.interps += 1
        it = Interp(self.p)
        it._session = self
        self._created.append(it)
        return it

    def absorb_all(self):
        """Absorb every interpreter a rule created and did not hand back (what a check 'met' must not depend on a rule remembering to call absorb)."""
        for it in self._created:
            if not getattr(it, "_absorbed", False):
                self.absorb(it)

    def absorb(self, it: Interp):
        if getattr(it, "_absorbed", False):
            return
        it._absorbed = True
        self.calls_resolved += it.calls_resolved
        self.calls_primitive += it.calls_primitive
        self.calls_opaque += it.calls_opaque
        self.prims |= it.prim_used
        self.prims_referenced |= it.prim_referenced
        for k, shapes in it.prim_usage.items():
            self.prim_usage.setdefault(k, set()).update(shapes)
        self.unravel_applied.extend(it.unravel_applied)

    def stats(self):
        return {
            **self.p.stats(),
            "interpreter_runs": self.interps,
            "repo_calls_inlined": self.calls_resolved,
            "primitive_calls": self.calls_primitive,
            "opaque_calls": self.calls_opaque,
            "distinct_primitives": len(self.prims),
            "functions_interpreted": sorted(q for q in _INLINED if "<lambda>" not in q),
        }


def rec_of_atoms(it: Interp, qual: str, prefix: str, overrides=None) -> Rec:
    """A record of the dataclass ``qual`` whose fields are atoms ``prefix.field``."""
    cv = it.class_value(qual)
    r = Rec(cv)
    fields = it.dataclass_fields(cv)
    if not fields:
        raise AnalysisError(f"{qual} is not a dataclass with fields (anchor changed)")
    for name, _d, _s, _o in fields:
        r.fields[name] = A(f"{prefix}.{name}")
    for k, v in (overrides or {}).items():
        r.fields[k] = v
    return r


def method(it: Interp, obj, name):
    return it.getattr(obj, name, "<harness>")


def call(it: Interp, f, *args, **kwargs):
    return it.call(f, list(args), kwargs, "<harness>")


def subst(x, mapping: dict):
    """Replace terms (by identity) inside a value; rebuilds hash-consed terms."""
    cache = {}

    def go(v):
        if isinstance(v, T.Term):
            if v.uid in mapping:
                return mapping[v.uid]
            r = cache.get(v.uid)
            if r is None:
                if v.op == "atom":
                    r = v
                else:
                    r = T.mk(v.op, tuple(go(a) for a in v.args), {k: go(a) for k, a in v.kwargs.items()}, origin=v.origin)
                cache[v.uid] = r
            return r
        if isinstance(v, (list, tuple)):
            return type(v)(go(e) for e in v)
        if isinstance(v, dict):
            return {k: go(e) for k, e in v.items()}
        if isinstance(v, slice):
            return slice(go(v.start), go(v.stop), go(v.step))
        if isinstance(v, Rec):
            r = Rec(v.cls)
            r.fields = {k: go(e) for k, e in v.fields.items()}
            return r
        return v

    return go(x)


def push_attr(t):
    """attr(ite(c,a,b), n) -> ite(c, attr(a,n), attr(b,n)) etc. (used when comparing shapes)."""
    return t


def find_terms(x, pred):
    return [t for t in T.subterms(x) if pred(t)]


def mcalls(x, name, receiver=None):
    """All opaque method-call terms ``receiver.name(...)`` inside a value."""
    out = []
    for t in T.subterms(x):
        if t.op == "mcall" and t.args[1] == name and (receiver is None or t.args[0] is receiver):
            out.append(t)
    return out


def is_getitem(t, base=None, idx=None):
    return (
        isinstance(t, T.Term)
        and t.op == "getitem"
        and (base is None or t.args[0] is base)
        and (idx is None or t.args[1] == idx)
    )


def events(it: Interp, kind, fn_suffix=None):
    return [e for e in it.events if e["kind"] == kind and (fn_suffix is None or str(e.get("fn", "")).endswith(fn_suffix))]


def where_of(t, default="?"):
    if isinstance(t, T.Term) and t.origin:
        return t.origin
    return default


_SIGS = {
    # interface method -> names of the parameters that may be passed positionally (after self)
    "step": ["state"],
    "estimate_error_norm": ["state", "previous", "proposed"],
    "linearize": ["rv", "state"],
    "init": ["t", "u"],
    "interpolate_fwd": [],
    "interpolate_fwd_at_t1": [],
    "userfriendly_output": [],
}


def named(m, name=None):
    """Arguments of an opaque method call by parameter name, whether passed positionally or by keyword."""
    meth = m.args[1]
    params = _SIGS.get(meth, [])
    out = dict(m.kwargs)
    for p, v in zip(params, m.args[2:]):
        out.setdefault(p, v)
    return out if name is None else out.get(name)


class Filtered:
    """A view of a rule that keeps the obligations whose construct `keep(construct)` accepts and drops the others: lets a check call another check's rule
    function for the part that concerns it (where a borrow would be circular)."""

    def __init__(self, rule, keep):
        self.rule, self.keep = rule, keep

    def _fwd(self, name, construct, *a, **k):
        if self.rule is not None and self.keep(construct):
            return getattr(self.rule, name)(construct, *a, **k)
        return None

    def require(self, cond, construct, *a, **k):
        if self.rule is not None and self.keep(construct):
            return self.rule.require(cond, construct, *a, **k)
        return None

    def ok(self, construct, *a, **k):
        return self._fwd("ok", construct, *a, **k)

    def fail(self, construct, *a, **k):
        return self._fwd("fail", construct, *a, **k)

    def unknown(self, construct, *a, **k):
        return self._fwd("unknown", construct, *a, **k)


_RUNNING: list = []  # checks whose rules are being evaluated in this process, innermost last


class running:
    """Guard against circular dependencies between checks (a borrow, or a rule that evaluates another check's scenarios): re-entering a check that is
    being evaluated is an analysis error, never a hang."""

    def __init__(self, pid):
        self.pid = pid

    def __enter__(self):
        if self.pid in _RUNNING:
            raise AnalysisError(f"circular dependency between checks: {' -> '.join(_RUNNING + [self.pid])}")
        _RUNNING.append(self.pid)

    def __exit__(self, *exc):
        _RUNNING.pop()
        return False


def borrow(chk, S, into_rule, from_pid: str, select):
    """Import the obligations of another property's check that ``select(rule_id, construct)`` accepts into ``into_rule``.

    Properties overlap: a clause of one statement (e.g. "...and calibration mode" in C02) is decided by a rule that lives with another
    property (C04).  The lending check is run once per process on the same program model; its obligations keep their status, detail,
    location and configuration and are re-labelled with the borrowing rule.  Returns the number imported.
    """
    import importlib

    from . import report

    cache = getattr(S, "_borrow_cache", None)
    if cache is None:
        cache = S._borrow_cache = {}
    lender = cache.get(from_pid)
    if lender is None:
        mod = importlib.import_module(f"pdqverif.rules.{from_pid.lower()}")
        lender = report.Check(from_pid, "quick", 0, "", level="other")
        S2 = Session(S.p)
        S2._borrow_cache = cache  # lenders may borrow as well (no cycles in the table)
        cache[from_pid] = lender
        # The lender is analysed in its own term universe: terms are hash-consed and atoms with the same name share their metadata (array / rank
        # declarations), so a lender's `atom("u0", array=True)` would otherwise change what the borrower's -- or another lender's -- `atom("u0")` means.
        # Only the lender's obligations (texts and verdicts) survive; its terms are never mixed with the borrower's.
        from . import nf as _nf

        snap = (dict(T._TABLE), T._COUNTER[0], dict(_nf._CACHE))
        T.reset()
        _nf.reset()
        try:
            with running(from_pid):
                mod.run(lender, S2)
        except AnalysisError as e:
            lender.analysis_error(str(e))
        finally:
            S2.absorb_all()
            lender.prims_met = set(S2.prims)
            lender.prim_usage = {k: set(v) for k, v in S2.prim_usage.items()}
            T._TABLE.clear()
            T._TABLE.update(snap[0])
            T._COUNTER[0] = snap[1]
            _nf._CACHE.clear()
            _nf._CACHE.update(snap[2])
    n = 0
    for r in lender.rules:
        for o in r.obls:
            if select(o.rule, o.construct):
                into_rule._add(o.status, f"[{o.rule}] {o.construct}", o.detail, o.where, o.config, o.nontrivial)
                n += 1
    if lender.errors and n == 0:
        into_rule.unknown(f"obligations of {from_pid}", f"the lending check could not be analysed: {lender.errors[0][:200]}")
    return n
