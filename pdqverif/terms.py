"""Hash-consed symbolic terms: the value-number domain (V) of the abstract interpreter.

A term never holds an array value.  It is either an *atom* (an input root such
as ``state.step_from.t``) or an *application* ``op(args; kwargs)`` of a backend
primitive / Python operator to terms and Python statics.  Structurally equal
terms are the same object (hash-consing), so identity of terms is value-number
equality; ``nf.py`` adds algebraic normalisation on top.

Every term remembers the source location that first created it (``origin``),
which is what reports point at.  ``origin`` is not part of a term's identity.
"""

from __future__ import annotations

_TABLE: dict = {}
_COUNTER = [0]


class Term:
    __slots__ = ("op", "args", "kwargs", "key", "uid", "origin", "meta", "__weakref__")

    def __repr__(self) -> str:
        return show(self)

    # Terms are immutable and unique: default identity hash/eq is what we want.

    # Guard against accidental use as a Python truth value: a branch on an
    # abstract array must go through the interpreter's If handling.
    def __bool__(self) -> bool:  # pragma: no cover - defensive
        raise TypeError(f"truth value of abstract term {show(self)}")


def _freeze(x):
    """Map a Python static / term / container to a hashable key."""
    if isinstance(x, Term):
        return ("T", x.uid)
    if isinstance(x, (list, tuple)):
        return (type(x).__name__, tuple(_freeze(e) for e in x))
    if isinstance(x, dict):
        return ("dict", tuple(sorted((str(k), _freeze(v)) for k, v in x.items())))
    if isinstance(x, slice):
        return ("slice", _freeze(x.start), _freeze(x.stop), _freeze(x.step))
    if isinstance(x, float):
        return ("f", repr(x))
    if isinstance(x, bool):
        return ("b", x)
    if isinstance(x, int):
        return ("i", x)
    if x is None or isinstance(x, str):
        return ("s", x)
    if x is Ellipsis:
        return ("ellipsis",)
    fk = getattr(x, "freeze_key", None)
    if fk is not None:
        return fk()
    # Anything else (closures, class values, ...) is identified by object id;
    # the interpreter keeps such objects alive for the whole run.
    return ("obj", type(x).__name__, id(x))


def mk(op: str, args=(), kwargs=None, origin=None, meta=None) -> Term:
    args = tuple(args)
    kwargs = dict(kwargs or {})
    key = (op, tuple(_freeze(a) for a in args), tuple(sorted((k, _freeze(v)) for k, v in kwargs.items())))
    t = _TABLE.get(key)
    if t is None:
        t = Term()
        t.op = op
        t.args = args
        t.kwargs = kwargs
        t.key = key
        _COUNTER[0] += 1
        t.uid = _COUNTER[0]
        t.origin = origin
        t.meta = meta or {}
        _TABLE[key] = t
    elif meta:
        for k, v in meta.items():
            t.meta.setdefault(k, v)
    return t


def atom(name: str, **meta) -> Term:
    return mk("atom", (name,), meta=meta)


def is_atom(t) -> bool:
    return isinstance(t, Term) and t.op == "atom"


def atom_name(t: Term) -> str:
    return t.args[0]


def reset() -> None:
    _TABLE.clear()
    _COUNTER[0] = 0


def subterms(x, seen=None):
    """Yield every term reachable from a value (terms, containers, records)."""
    if seen is None:
        seen = set()
    stack = [x]
    while stack:
        v = stack.pop()
        if isinstance(v, Term):
            if v.uid in seen:
                continue
            seen.add(v.uid)
            yield v
            stack.extend(v.args)
            stack.extend(v.kwargs.values())
        elif isinstance(v, (list, tuple)):
            stack.extend(v)
        elif isinstance(v, dict):
            stack.extend(v.values())
        elif isinstance(v, slice):
            stack.extend((v.start, v.stop, v.step))
        else:
            ch = getattr(v, "children", None)
            if ch is not None:
                vid = ("o", id(v))
                if vid in seen:
                    continue
                seen.add(vid)
                stack.extend(ch())


def atoms_of(x) -> set:
    """Provenance (domain P): the names of the input roots a value depends on."""
    return {atom_name(t) for t in subterms(x) if t.op == "atom"}


def ops_of(x) -> set:
    return {t.op for t in subterms(x)}


def contains(x, needle: Term) -> bool:
    return any(t is needle for t in subterms(x))


def show(x, depth=6) -> str:
    if isinstance(x, Term):
        if x.op == "atom":
            return str(x.args[0])
        if depth <= 0:
            return f"{x.op}(...)"
        if x.op in _INFIX and len(x.args) == 2:
            return f"({show(x.args[0], depth - 1)} {_INFIX[x.op]} {show(x.args[1], depth - 1)})"
        if x.op == "neg":
            return f"(-{show(x.args[0], depth - 1)})"
        if x.op == "attr":
            return f"{show(x.args[0], depth - 1)}.{x.args[1]}"
        if x.op == "getitem":
            return f"{show(x.args[0], depth - 1)}[{show(x.args[1], depth - 1)}]"
        parts = [show(a, depth - 1) for a in x.args]
        parts += [f"{k}={show(v, depth - 1)}" for k, v in x.kwargs.items()]
        return f"{x.op}({', '.join(parts)})"
    if isinstance(x, tuple):
        return "(" + ", ".join(show(e, depth) for e in x) + ("," if len(x) == 1 else "") + ")"
    if isinstance(x, list):
        return "[" + ", ".join(show(e, depth) for e in x) + "]"
    if isinstance(x, slice):
        f = lambda v: "" if v is None else show(v, depth)  # noqa: E731
        return f"{f(x.start)}:{f(x.stop)}" + (f":{f(x.step)}" if x.step is not None else "")
    if isinstance(x, dict):
        return "{" + ", ".join(f"{k}: {show(v, depth)}" for k, v in x.items()) + "}"
    if x is Ellipsis:
        return "..."
    return repr(x)


_INFIX = {
    "add": "+",
    "sub": "-",
    "mul": "*",
    "div": "/",
    "pow": "**",
    "matmul": "@",
    "lt": "<",
    "le": "<=",
    "gt": ">",
    "ge": ">=",
    "eq": "==",
    "ne": "!=",
    "or": "|",
    "and": "&",
    "floordiv": "//",
    "mod": "%",
}


SHAPE_ONLY_OPS = {"np.ones_like", "np.zeros_like", "shape_struct", "np.shape", "np.ndim", "len", "np.empty_like", "unravel_of", "np.zeros", "np.ones", "np.eye", "treedef_depth_one"}


def value_subterms(x):
    """Sub-terms a value depends on *by value* (same traversal as value_atoms): nothing inside shape-only constructs -- an eval_shape result, the example
    or the recorded dtype of an unravel closure, `.shape` / `.dtype` of anything -- is computed with."""
    out, seen, stack = [], set(), [x]
    while stack:
        v = stack.pop()
        if isinstance(v, Term):
            if v.uid in seen:
                continue
            seen.add(v.uid)
            out.append(v)
            if v.op == "atom" or v.op in SHAPE_ONLY_OPS:
                continue
            if v.op == "attr" and v.args[1] in ("shape", "ndim", "size", "dtype"):
                continue
            if v.op == "tree.tree_map" and getattr(v.args[0], "name", None) in ("np.zeros_like", "np.ones_like"):
                continue
            stack.extend(v.args)
            stack.extend(v.kwargs.values())
        elif isinstance(v, (list, tuple)):
            stack.extend(v)
        elif isinstance(v, dict):
            stack.extend(v.values())
    return out


def value_atoms(x) -> set:
    """Atoms a value depends on *by value*: does not descend into shape-only
    constructs (ones_like / zeros_like / .shape / .ndim / .size / .dtype /
    tree_map of zeros_like or ones_like / eval_shape results)."""
    out, seen, stack = set(), set(), [x]
    while stack:
        v = stack.pop()
        if isinstance(v, Term):
            if v.uid in seen:
                continue
            seen.add(v.uid)
            if v.op == "atom":
                out.add(v.args[0])
                continue
            if v.op in SHAPE_ONLY_OPS:
                continue
            if v.op == "attr" and v.args[1] in ("shape", "ndim", "size", "dtype"):
                continue
            if v.op == "tree.tree_map" and getattr(v.args[0], "name", None) in ("np.zeros_like", "np.ones_like"):
                continue
            stack.extend(v.args)
            stack.extend(v.kwargs.values())
        elif isinstance(v, (list, tuple)):
            stack.extend(v)
        elif isinstance(v, dict):
            stack.extend(v.values())
        elif isinstance(v, slice):
            stack.extend((v.start, v.stop, v.step))
        else:
            ch = getattr(v, "children", None)
            if ch is not None and ("o", id(v)) not in seen:
                seen.add(("o", id(v)))
                stack.extend(ch())
    return out
