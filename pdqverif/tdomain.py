"""Domain T: Markov time typestate.

Types (time labels are *terms*, compared through the algebraic normal form):

    ('N', tau)            a Gaussian random variable at time tau
    ('P', tau)            a point / sample at time tau
    ('C', frm, to)        a conditional  p(x_to | x_frm)   (maps a variable at `frm` to one at `to`)
    ('CT', delta)         a prior transition over a step delta: C[tau -> tau + delta] for every tau
    ('S', ...)            scalars and everything without a time label (None)

Typing rules of the interface methods of the state-space layer (which are
opaque method calls at this level):

    cond.marginalise(rv)          needs rv @ frm              gives N @ to
    cond.revert(rv)               needs rv @ frm              gives (N @ to, C[to -> frm])
    outer.merge(inner)            needs to(inner) = frm(outer) gives C[frm(inner) -> to(outer)]
    rv.identity_conditional()                                   gives C[tau -> tau]
    cond.apply_flat(x)            needs x @ frm (if known)     gives N @ to
    lin.bayes_rule_*(data, rv)                                  gives N @ time(rv)
    lin.marginalise(rv)           (observation model)           gives N @ time(rv)
    x.rescale_cholesky / rescale_noise / preconditioner_apply    keep the type
    prior.transition(dt=d)                                       gives CT(d)

A violated premise is a *type error* with both labels; an unknown type is
propagated as None (inconclusive), never reported as an error.
"""

from __future__ import annotations

from . import nf
from . import terms as T
from .interp import Rec


class TypeErr:
    def __init__(self, what, term, have, want):
        self.what, self.term, self.have, self.want = what, term, have, want

    def __repr__(self):
        return f"{self.what}: have {show_label(self.have)}, need {show_label(self.want)} at {getattr(self.term, 'origin', None)}"


def show_label(x):
    if isinstance(x, T.Term):
        return nf.show(nf.norm(x))
    return str(x)


def show_type(t):
    if t is None:
        return "?"
    if t[0] in ("N", "P"):
        return f"{t[0]}@{show_label(t[1])}"
    if t[0] == "C":
        return f"C[{show_label(t[1])} -> {show_label(t[2])}]"
    if t[0] == "CT":
        return f"C[tau -> tau + {show_label(t[1])}]"
    if t[0] == "CI":
        return "C[tau -> tau] (identity)"
    return str(t)


def same(a, b) -> bool:
    if a is b:
        return True
    if a is None or b is None:
        return False
    try:
        return nf.equal(a, b)
    except Exception:
        return False


def add(a, b):
    return T.mk("add", (a, b))


class TEnv:
    def __init__(self):
        self.types: dict = {}  # term uid -> type
        self.errors: list[TypeErr] = []
        self.observation_models: set = set()  # uids of terms that are observation models (time-free linear maps)
        self.cache: dict = {}

    def declare(self, term, ty):
        self.types[term.uid] = ty

    def declare_obs(self, term):
        self.observation_models.add(term.uid)

    # ------------------------------------------------------------------
    def of(self, v):
        if isinstance(v, Rec):
            return None
        if not isinstance(v, T.Term):
            return None
        if v.uid in self.types:
            return self.types[v.uid]
        if v.uid in self.cache:
            return self.cache[v.uid]
        ty = self._of(v)
        self.cache[v.uid] = ty
        return ty

    def is_obs(self, v):
        """Observation models / linearisations: conditionals between variables at the *same* time."""
        if not isinstance(v, T.Term):
            return False
        if v.uid in self.observation_models:
            return True
        if v.op == "getitem" and isinstance(v.args[0], T.Term) and v.args[0].op == "mcall" and v.args[0].args[1] == "linearize" and v.args[1] == 0:
            return True
        if v.op == "attr" and v.args[1] == "fun_evals":
            return True
        if v.op == "mcall" and v.args[1] == "to_derivative":
            return True
        if v.op in ("tree.tree_map", "vmap_apply", "getitem", "scan_x") and v.args:
            return any(self.is_obs(a) for a in v.args if isinstance(a, T.Term))
        return False

    def _of(self, v: T.Term):
        op, a = v.op, v.args
        if op == "mcall":
            recv, name = a[0], a[1]
            rest = a[2:]
            if name == "transition":
                d = v.kwargs.get("dt", rest[0] if rest else None)
                return ("CT", d) if d is not None else None
            if name in ("rescale_cholesky", "rescale_noise", "preconditioner_apply"):
                return self.of(recv)
            if name == "identity_conditional":
                # the identity map with zero noise is the same object at every time: C[tau -> tau] for all tau
                return ("CI",)
            if name == "marginalise":
                rv = rest[0] if rest else None
                return self._push(v, recv, rv, "marginalise")
            if name == "apply_flat":
                x = rest[0] if rest else None
                return self._push(v, recv, x, "apply_flat", point_ok=True)
            if name in ("bayes_rule_tree",):
                rv = rest[1] if len(rest) > 1 else None
                t = self.of(rv)
                return ("N", t[1]) if t and t[0] == "N" else None
            if name == "merge":
                to_, ti = self.of(recv), self.of(rest[0]) if rest else None
                if to_ is not None and to_[0] == "CI":
                    return ti
                if ti is not None and ti[0] == "CI":
                    return to_
                if to_ is None or ti is None or to_[0] != "C" or ti[0] != "C":
                    if to_ and ti and to_[0] == "CT" and ti[0] == "C":
                        return ("C", ti[1], add(ti[2], to_[1]))
                    return None
                if not same(ti[2], to_[1]):
                    self.errors.append(TypeErr("merge: inner conditional's target is not the outer's source", v, ti[2], to_[1]))
                return ("C", ti[1], to_[2])
            if name == "sample_flat":
                t = self.of(recv)
                return ("P", t[1]) if t and t[0] == "N" else None
            return None
        if op == "getitem":
            base, idx = a
            if isinstance(base, T.Term) and base.op == "mcall":
                name = base.args[1]
                rest = base.args[2:]
                if name == "revert" and idx in (0, 1):
                    recv, rv = base.args[0], rest[0] if rest else None
                    n = self._push(base, recv, rv, "revert")
                    if n is None:
                        return None
                    if idx == 0:
                        return n
                    trv = self.of(rv)
                    return ("C", n[1], trv[1]) if trv and trv[0] in ("N", "P") else None
                if name in ("bayes_rule_and_logpdf_tree", "bayes_rule_and_residual_whitened_rms_tree") and idx == 1:
                    rv = rest[1] if len(rest) > 1 else None
                    t = self.of(rv)
                    return ("N", t[1]) if t and t[0] == "N" else None
            # indexing a batched object keeps the label of the element kind (sequence types are handled by the rules)
            return None
        if op == "ite":
            x, y = self.of(a[1]), self.of(a[2])
            if x is not None and y is not None and x[0] == y[0] and all(same(p, q) for p, q in zip(x[1:], y[1:])):
                return x
            return None
        if op in ("func.stop_gradient", "np.asarray") and a:
            return self.of(a[0])
        if op == "attr" and a[1] in ("mean_flat", "mean"):
            t = self.of(a[0])
            return ("P", t[1]) if t and t[0] in ("N", "P") else None
        return None

    def _push(self, site, cond, rv, what, point_ok=False):
        tc, tr = self.of(cond), self.of(rv)
        if self.is_obs(cond):
            return ("N", tr[1]) if tr and tr[0] in ("N", "P") else None
        if tc is None:
            return None
        if tc[0] == "CI":
            return ("N", tr[1]) if tr and tr[0] in ("N", "P") else None
        if tc[0] == "CT":
            if tr is None:
                return None
            return ("N", add(tr[1], tc[1]))
        if tc[0] != "C":
            return None
        if tr is not None and tr[0] in ("N", "P"):
            if not same(tr[1], tc[1]):
                self.errors.append(TypeErr(f"{what}: conditional applied to a variable at the wrong time", site, tr[1], tc[1]))
        return ("N", tc[2])
