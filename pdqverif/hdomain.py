"""Domain H -- degree of homogeneity of a value in a designated quantity (a unit analysis with one base unit).

``Hom(seeds).deg(term)`` is the rational degree d such that scaling the seeded quantities by c^(their degree) scales the value by c^d;
``"any"`` for exact zeros (polymorphic), ``"bool"`` for truth values, ``None`` when not derivable.  ``errors`` collects the constructs that
combine different degrees under +, -, max, min, comparison, selection or stacking.  Shape-only constructs (ones_like, zeros_like, shapes)
have degree 0 / "any"; linear data movement (ravel, stack, reshape, transpose, indexing, diagonal_matrix, concatenate) preserves the degree.
Used by C18 (state unit of the step-size heuristic) and C11 (the observation noise is linear in the damping).
"""

from __future__ import annotations

from fractions import Fraction

from . import terms as T

LINEAR_UNARY = ("np.abs", "linalg.vector_norm", "tree.ravel", "np.asarray", "np.squeeze", "np.reshape", "np.mean", "np.sum", "np.max", "np.amax", "np.transpose",
                "linalg.diagonal_matrix", "linalg.diagonal", "np.flip", "np.atleast_1d", "np.atleast_2d")


class Hom:
    """Degree of homogeneity in the unit of the state (y -> c*y, f -> c*f, atol -> c*atol leaves the heuristic's step unchanged).

    deg(t) is an integer/fraction, BOOL for truth values, or None when unknown; ``errors`` collects the constructs that
    combine quantities of different degree (an absolute constant compared with an unscaled norm, max of a scaled and an unscaled norm, ...).
    """

    BOOL = "bool"

    def __init__(self, seeds, default_atom_degree=None):
        self.seeds = dict(seeds)  # term -> degree
        self.default_atom_degree = default_atom_degree  # degree of atoms that are not seeded (None: unknown)
        self.memo = {}
        self.errors = []  # (term, message)
        self.unknown = []

    def deg(self, t):
        if not isinstance(t, T.Term):
            if isinstance(t, bool):
                return self.BOOL
            if isinstance(t, (int, float)):
                return "any" if t == 0 else 0
            if isinstance(t, (list, tuple)):
                ds = [self.deg(x) for x in t]
                ds_ = [d for d in ds if d != "any"]
                if any(d is None for d in ds_):
                    return None
                if not ds_:
                    return "any"
                return ds_[0] if all(d == ds_[0] for d in ds_) else None
            self.unknown.append(repr(t)[:60])
            return None
        if t.uid in self.memo:
            return self.memo[t.uid]
        d = self._deg(t)
        self.memo[t.uid] = d
        return d

    def same(self, t, ds, what):
        ds_ = [d for d in ds if d != "any"]
        if any(d is None for d in ds_):
            return None
        if any(d == self.BOOL for d in ds_):
            self.errors.append((t, f"{what} of a truth value"))
            return None
        if not ds_:
            return "any"
        if any(d != ds_[0] for d in ds_):
            self.errors.append((t, f"{what} combines quantities of degree {ds_} in the state unit: {T.show(t, 3)}"))
            return None
        return ds_[0]

    def _deg(self, t):
        if t in self.seeds:
            return self.seeds[t]
        op, a = t.op, t.args
        if op == "atom":
            if self.default_atom_degree is not None:
                return self.default_atom_degree
            self.unknown.append(T.show(t, 2))
            return None
        if op == "attr" and a[1] in ("shape", "ndim", "size", "dtype"):
            return 0
        if op in ("add", "sub", "np.maximum", "np.minimum"):
            return self.same(t, [self.deg(x) for x in a], op)
        if op in ("lt", "le", "gt", "ge", "eq", "ne"):
            self.same(t, [self.deg(x) for x in a], f"comparison {op}")
            return self.BOOL
        if op in ("and", "or", "not", "np.logical_and", "np.logical_or", "np.logical_not"):
            for x in a:
                self.deg(x)
            return self.BOOL
        if op in ("np.where", "ite"):
            self.deg(a[0])
            # zero-guard idiom  where(m > 0, m, c)  /  where(m == 0, c, m)  with a literal c != 0: the literal is used only where m vanishes,
            # and m = 0 is preserved by every rescaling, so the selection has the degree of m away from that null set
            c_, x_, y_ = a
            if isinstance(c_, T.Term) and c_.op in ("gt", "lt", "ne", "eq", "ge", "le") and len(c_.args) == 2:
                lhs, rhs = c_.args
                zero_l, zero_r = (isinstance(lhs, (int, float)) and lhs == 0), (isinstance(rhs, (int, float)) and rhs == 0)
                guarded = rhs if zero_l else (lhs if zero_r else None)
                for val, lit in ((x_, y_), (y_, x_)):
                    if guarded is not None and val is guarded and isinstance(lit, (int, float)) and not isinstance(lit, bool) and lit != 0:
                        return self.deg(val)
            return self.same(t, [self.deg(a[1]), self.deg(a[2])], "selection")
        if op in ("mul", "div"):
            ds = [self.deg(x) for x in a]
            if any(d is None or d == self.BOOL for d in ds):
                return None
            if op == "mul":
                if "any" in ds:
                    return "any"
                return sum(ds)
            if ds[0] == "any":
                return "any"
            if ds[1] == "any":
                return None
            return ds[0] - ds[1]
        if op == "neg":
            return self.deg(a[0])
        if op in ("pow", "np.power") and len(a) == 2:
            db, de = self.deg(a[0]), self.deg(a[1])
            if de not in (0, "any"):
                if de is not None:
                    self.errors.append((t, f"exponent of degree {de} in the state unit: {T.show(a[1], 3)}"))
                return None
            if db in (0, "any", None):
                return db
            if isinstance(a[1], (int, float)):
                return db * Fraction(a[1]).limit_denominator(64)
            self.errors.append((t, f"symbolic power of a quantity of degree {db} in the state unit: {T.show(t, 3)}"))
            return None
        if op in LINEAR_UNARY:
            return self.deg(a[0])
        if op == "attr" and a[1] == "T":
            return self.deg(a[0])
        if op in ("np.ones_like", "np.ones", "np.eye"):
            return 0
        if op in ("np.zeros_like", "np.zeros"):
            return "any"
        if op in ("np.stack", "np.concatenate", "np.block") and a and isinstance(a[0], (list, tuple)):
            flat = []
            for x in a[0]:
                flat.extend(x if isinstance(x, (list, tuple)) else [x])
            return self.same(t, [self.deg(x) for x in flat], op)
        if op == "matmul":
            ds = [self.deg(x) for x in a]
            if any(d is None or d == self.BOOL for d in ds):
                return None
            if "any" in ds:
                return "any"
            return sum(ds)
        if op == "np.sqrt":
            d = self.deg(a[0])
            return d if d in (None, "any") else Fraction(d) / 2
        if op == "call" and isinstance(a[0], T.Term) and a[0].op == "unravel_of":
            return self.deg(a[1])
        if op == "getitem":
            return self.deg(a[0])
        if op == "mcall" and len(a) >= 2 and a[1] == "vector_field":
            jc = t.kwargs.get("jet_coords")
            ds = [self.deg(x) for x in jc] if isinstance(jc, (tuple, list)) else [None]
            if any(d is None for d in ds):
                return None
            if any(d != 1 for d in ds):
                self.errors.append((t, f"vector field evaluated at a quantity of degree {ds} in the state unit (a state has degree 1)"))
                return None
            tt = t.kwargs.get("t")
            if tt is not None and self.deg(tt) not in (0, "any"):
                self.errors.append((t, f"vector field evaluated at a time of degree {self.deg(tt)} in the state unit"))
            return 1
        self.unknown.append(f"op {op}")
        return None



