"""Obligations, verdicts, evidence files, known findings, exit codes.

exit 0  every obligation discharged (known findings subtracted and printed)
exit 1  some obligation refuted: ``VIOLATION property=<id> replay=<path>``
exit 2  analysis could not be carried out: ``ANALYSIS-ERROR ...``
"""

from __future__ import annotations

import hashlib
import json
import os
import time

VERIF = os.path.dirname(os.path.dirname(os.path.abspath(__file__)))
EVIDENCE_DIR = os.environ.get("PDQVERIF_EVIDENCE_DIR") or os.path.join(VERIF, "evidence")  # scratch runs may redirect
REPLAY_DIR = os.path.join(EVIDENCE_DIR, "replay")
KNOWN = os.path.join(VERIF, "known_findings.json")


class Obligation:
    __slots__ = ("rule", "construct", "status", "detail", "where", "config", "nontrivial")

    def as_dict(self):
        return {
            "rule": self.rule,
            "construct": self.construct,
            "status": self.status,
            "detail": self.detail,
            "where": self.where,
            "config": self.config,
        }


class Rule:
    def __init__(self, check, rid, text, floor):
        self.check = check
        self.id = rid
        self.text = text
        self.floor = floor
        self.obls: list[Obligation] = []

    def _add(self, status, construct, detail, where, config, nontrivial):
        o = Obligation()
        o.rule = self.id
        o.construct = construct
        o.status = status
        o.detail = detail if isinstance(detail, str) else json.dumps(detail, default=str)
        o.where = where
        o.config = config
        o.nontrivial = nontrivial
        self.obls.append(o)
        return o

    def ok(self, construct, detail="", where=None, config=None, nontrivial=True):
        return self._add("discharged", construct, detail, where, config, nontrivial)

    def fail(self, construct, detail, where=None, config=None):
        return self._add("refuted", construct, detail, where, config, True)

    def unknown(self, construct, detail, where=None, config=None):
        return self._add("inconclusive", construct, detail, where, config, False)

    def require(self, cond, construct, detail_ok="", detail_fail="", where=None, config=None):
        """cond: True -> discharged, False -> refuted, None -> inconclusive."""
        if cond is True:
            return self.ok(construct, detail_ok, where, config)
        if cond is False:
            return self.fail(construct, detail_fail or detail_ok, where, config)
        return self.unknown(construct, detail_fail or detail_ok, where, config)

    def counts(self):
        c = {"instances": len(self.obls), "discharged": 0, "refuted": 0, "inconclusive": 0, "floor": self.floor}
        for o in self.obls:
            c[o.status] += 1
        return c


class Check:
    def __init__(self, pid: str, tier: str, seed: int, explanation: str, level: str = "other"):
        self.pid = pid
        self.tier = tier
        self.seed = seed
        self.level = level
        self.explanation = explanation
        self.rules: list[Rule] = []
        self.assumptions: list[str] = []
        self.trusted_base: list[str] = []
        self.samples: list = []
        self.extra: dict = {}
        self.t0 = time.time()
        self.errors: list[str] = []
        self.exhaustive = None

    def rule(self, rid, text, floor=1) -> Rule:
        r = Rule(self, rid, text, floor)
        self.rules.append(r)
        return r

    def assume(self, text):
        if text not in self.assumptions:
            self.assumptions.append(text)

    def trust(self, *names):
        for n in names:
            if n not in self.trusted_base:
                self.trusted_base.append(n)

    def sample(self, s):
        if len(self.samples) < 12:
            self.samples.append(s)

    def analysis_error(self, msg):
        self.errors.append(msg)

    def apply_floors(self):
        """Fail-closed policy: a rule that lost its instances, or an obligation the analysis cannot decide, is an analysis error -- never a pass."""
        if getattr(self, "_floors_applied", False):
            return
        self._floors_applied = True
        for r in self.rules:
            c = r.counts()
            if c["discharged"] + c["refuted"] < r.floor:
                self.errors.append(
                    f"rule {r.id}: {c['discharged']} discharged + {c['refuted']} refuted obligations, below the floor {r.floor} "
                    f"({c['inconclusive']} inconclusive) -- anchor vanished or idiom not recognised"
                )
            inc = [o for o in r.obls if o.status == "inconclusive"]
            if inc and not any(o.status == "refuted" for o in r.obls):
                o = inc[0]
                self.errors.append(
                    f"rule {r.id}: {len(inc)} obligation(s) could not be decided (every obligation is decided on the pinned tree), first: "
                    f"{o.construct} -- {o.detail[:200]}"
                )

    # ------------------------------------------------------------------ finish
    def finish(self, selftest=None) -> int:
        os.makedirs(REPLAY_DIR, exist_ok=True)
        known = load_known()
        all_obls = [o for r in self.rules for o in r.obls]
        refuted = [o for o in all_obls if o.status == "refuted"]
        new, matched = [], []
        for o in refuted:
            k = match_known(known, self.pid, o)
            if k is not None and k.get("status") == "known":
                matched.append((o, k))
            else:
                new.append(o)
        self.apply_floors()
        for o, k in matched:
            print(f"KNOWN-FINDING: property={self.pid} {k.get('what', o.construct)} [{o.rule} @ {o.construct}]")
        replay_paths = []
        for o in new:
            h = hashlib.sha1(f"{o.rule}|{o.construct}|{o.config}".encode()).hexdigest()[:10]
            path = os.path.join(REPLAY_DIR, f"{self.pid}-{o.rule}-{h}.json")
            with open(path, "w") as fh:
                json.dump({"property": self.pid, **o.as_dict()}, fh, indent=1, default=str)
            replay_paths.append(path)
            print(f"REFUTED {o.rule} {o.construct} at {o.where}: {o.detail}")
        wall = time.time() - self.t0
        distinct = len({(o.rule, o.construct, json.dumps(o.config, default=str)) for o in all_obls if o.nontrivial and o.status != "inconclusive"})
        cov = {
            "explanation": self.explanation,
            "obligations": len(all_obls),
            "discharged": sum(1 for o in all_obls if o.status == "discharged"),
            "refuted": len(refuted),
            "inconclusive": sum(1 for o in all_obls if o.status == "inconclusive"),
            "evaluations": len(all_obls),
            "distinct_nontrivial": distinct,
            "rule": "one evaluation = one obligation (rule, construct, configuration) derived from the current source; "
            "distinct_nontrivial counts distinct (rule, construct, configuration) triples that were decided (not inconclusive) "
            "and whose decision needed a derivation beyond the presence of the construct",
            "rules": {r.id: {**r.counts(), "text": r.text} for r in self.rules},
            "samples": self.samples or [o.as_dict() for o in all_obls[:5]],
            "checker_cmd": f"/venv/bin/python -m pdqverif check {self.pid} --tier {self.tier}",
            "trusted_base": self.trusted_base,
            "known_findings_printed": [k.get("what") for _, k in matched],
            "refuted_obligations": [o.as_dict() for o in refuted],
            "inconclusive_obligations": [o.as_dict() for o in all_obls if o.status == "inconclusive"][:20],
            "analysis_errors": self.errors,
            # every obligation that was decided: [rule, construct, status, location, configuration]
            "obligation_index": [[o.rule, o.construct, o.status, o.where if isinstance(o.where, (str, type(None))) else str(o.where), o.config] for o in all_obls],
        }
        if self.exhaustive is not None:
            cov["exhaustive"] = self.exhaustive
        if selftest is not None:
            cov["selftest"] = selftest
        cov.update(self.extra)
        ev = {
            "property_id": self.pid,
            "tier": self.tier,
            "seed": self.seed,
            "level": self.level,
            "coverage": cov,
            "assumptions": self.assumptions,
            "wall_s": round(wall, 3),
            "violations": len(new),
        }
        os.makedirs(EVIDENCE_DIR, exist_ok=True)
        with open(os.path.join(EVIDENCE_DIR, f"{self.pid}.json"), "w") as fh:
            json.dump(ev, fh, indent=1, default=str)
        for r in self.rules:
            c = r.counts()
            print(f"  {r.id}: {c['discharged']}/{c['instances']} discharged, {c['refuted']} refuted, {c['inconclusive']} inconclusive (floor {r.floor})")
        if self.errors:
            for e in self.errors:
                print(f"ANALYSIS-ERROR property={self.pid} {e}")
        if new:
            # a refuted obligation is a definite finding: it is reported even when other obligations could not be decided
            for p in replay_paths:
                print(f"VIOLATION property={self.pid} replay={p}")
            return 1
        if self.errors:
            return 2
        print(f"OK property={self.pid} obligations={cov['obligations']} discharged={cov['discharged']} known={len(matched)} wall={wall:.2f}s")
        return 0


def load_known():
    try:
        with open(KNOWN) as fh:
            return json.load(fh).get("findings", [])
    except FileNotFoundError:
        return []


def match_known(known, pid, o):
    for k in known:
        if k.get("property") == pid and k.get("rule") == o.rule and k.get("construct") == o.construct:
            return k
    return None
