"""Domain M -- affine matrix-word algebra for *value* identities between linear-Gaussian operations.

A (batched) vector or matrix expression is normalised to a linear combination of *words*; a word is a product of factors

    ("M", key)                       an (opaque) matrix symbol, applied by matrix multiplication
    ("D", ((sym, exponent), ...))    a diagonal scaling built from designated scaling vectors (elementwise products / reciprocals)
    ("V", key)                       a base vector (always the last factor of a vector word)

with rational coefficients.  Matrix multiplication concatenates words and distributes over sums, elementwise multiplication by a
scaling vector is a ("D", ...) factor on the left (``s * v``, ``s[:, None] * M``) or on the right (``M * s[None, :]``); adjacent scalings merge
and cancel (``to * (1/to)``), ``np.ones``/``ones_like`` scalings are the identity.  Anything the algebra cannot express (QR factors, triangular
solves, ...) becomes an opaque symbol keyed by the hash-consed term, so the *same* sub-computation is the *same* symbol wherever it is used.

Batching is handled per block: the block-diagonal model is a direct sum of identical per-block formulas, so ``vmap(f)(args)`` is evaluated as
``f(args)`` on the same symbols, ``einsum('ijk,ik->ij', M, v)`` and ``(M @ v[..., None])[..., 0]`` are M v.  An identity proven on block symbols holds
for every block.  Two expressions are equal iff their normal forms coincide; the algebra is sound (never equates different values) and
incomplete (expressions it cannot normalise make the obligation inconclusive, never refuted).
"""

from __future__ import annotations

from fractions import Fraction

from . import terms as T


class Opaque(Exception):
    pass


def _merge_d(a, b):
    d = dict(a)
    for s, e in b:
        d[s] = d.get(s, 0) + e
        if d[s] == 0:
            del d[s]
    return tuple(sorted(d.items()))


def _norm_word(w):
    out = []
    for f in w:
        if f[0] == "D":
            if not f[1]:
                continue
            if out and out[-1][0] == "D":
                m = _merge_d(out[-1][1], f[1])
                out.pop()
                if m:
                    out.append(("D", m))
                continue
        out.append(f)
    return tuple(out)


class Lin:
    __slots__ = ("t",)

    def __init__(self, t=None):
        self.t = {k: v for k, v in (t or {}).items() if v != 0}

    @staticmethod
    def word(*factors):
        return Lin({_norm_word(factors): Fraction(1)})

    def __add__(self, o):
        r = dict(self.t)
        for k, v in o.t.items():
            r[k] = r.get(k, 0) + v
        return Lin(r)

    def scale(self, c):
        return Lin({k: v * c for k, v in self.t.items()})

    def __sub__(self, o):
        return self + o.scale(-1)

    def __matmul__(self, o):
        r = {}
        for w1, c1 in self.t.items():
            if w1 and w1[-1][0] == "V":
                raise Opaque("vector on the left of a product")
            for w2, c2 in o.t.items():
                w = _norm_word(w1 + w2)
                r[w] = r.get(w, 0) + c1 * c2
        return Lin(r)

    def is_vector(self):
        return bool(self.t) and all(w and w[-1][0] == "V" for w in self.t)

    def is_scaling(self):
        return len(self.t) == 1 and all(len(w) <= 1 and all(f[0] == "D" for f in w) for w in self.t)

    def __eq__(self, o):
        return isinstance(o, Lin) and self.t == o.t

    def __hash__(self):
        return hash(frozenset(self.t.items()))

    def show(self):
        if not self.t:
            return "0"

        def fs(f):
            if f[0] == "D":
                return "D(" + "*".join(s if e == 1 else f"{s}^{e}" for s, e in f[1]) + ")"
            return f[1]

        parts = []
        for w, c in sorted(self.t.items(), key=lambda kv: repr(kv[0])):
            body = " ".join(fs(f) for f in w) or "I"
            parts.append(body if c == 1 else (f"-{body}" if c == -1 else f"{c}*{body}"))
        return " + ".join(parts)


class Algebra:
    def __init__(self, scalings, matrices=(), names=None):
        """scalings: atoms (terms) that are diagonal scaling vectors; matrices: atoms that are matrices; names: term -> display name."""
        self.names = dict(names or {})
        self.sym = {}
        self.memo = {}
        self.scal = {s: self._key(s) for s in scalings}
        self.mats = {m: self._key(m) for m in matrices if isinstance(m, T.Term)}

    # -- symbols
    def _key(self, t):
        if t in self.names:
            return self.names[t]
        if isinstance(t, T.Term) and t.op == "atom":
            return T.atom_name(t)
        k = self.sym.get(t.uid)
        if k is None:
            k = f"<{t.op}#{len(self.sym)}>"
            self.sym[t.uid] = k
        return k

    def as_matrix(self, t):
        return Lin.word(("M", self._key(t)))

    def as_vector(self, t):
        return Lin.word(("V", self._key(t)))

    # -- evaluation
    def ev(self, t, want=None):
        """want: 'M' when the value is used as the left operand of a product, 'V' otherwise (only matters for opaque symbols)."""
        if isinstance(t, (int, float)) and not isinstance(t, bool):
            raise Opaque("bare number")
        if not isinstance(t, T.Term):
            raise Opaque(repr(t)[:40])
        key = (t.uid, want)
        if key in self.memo:
            return self.memo[key]
        try:
            r = self._ev(t, want)
        except Opaque:
            r = self.as_matrix(t) if want == "M" else self.as_vector(t)
        self.memo[key] = r
        return r

    def scaling_of(self, t):
        """The ("D", ...) word of a scaling expression, or None."""
        if isinstance(t, (int, float)) and not isinstance(t, bool):
            return Lin({(): Fraction(t)}) if t != 0 else None
        if not isinstance(t, T.Term):
            return None
        if t in self.scal:
            return Lin.word(("D", ((self.scal[t], 1),)))
        if t.op in ("np.ones", "np.ones_like"):
            return Lin({(): Fraction(1)})
        if t.op == "getitem":
            # inserting axes does not change the scaling; the orientation is decided by the caller
            idx = t.args[1] if isinstance(t.args[1], tuple) else (t.args[1],)
            if all(i is None or i is Ellipsis or i == slice(None, None, None) for i in idx):
                return self.scaling_of(t.args[0])
            return None
        if t.op == "mul":
            a, b = self.scaling_of(t.args[0]), self.scaling_of(t.args[1])
            if a is not None and b is not None:
                return a @ b
            return None
        if t.op == "div":
            a, b = self.scaling_of(t.args[0]), self.scaling_of(t.args[1])
            if a is not None and b is not None and len(b.t) == 1:
                (w, c), = b.t.items()
                inv = tuple(("D", tuple((s, -e) for s, e in f[1])) for f in w)
                return a @ Lin({_norm_word(inv): 1 / c})
            return None
        return None

    @staticmethod
    def _orientation(t):
        """'left' if a scaling term is broadcast along the rows (None after its own axis), 'right' if along the columns, 'vec' if no axis was inserted."""
        if isinstance(t, T.Term) and t.op == "getitem":
            idx = t.args[1] if isinstance(t.args[1], tuple) else (t.args[1],)
            if None in idx:
                return "left" if idx[-1] is None else "right"
            return Algebra._orientation(t.args[0])
        if isinstance(t, T.Term) and t.op in ("mul", "div"):
            o = [Algebra._orientation(a) for a in t.args if isinstance(a, T.Term)]
            for k in ("left", "right"):
                if k in o:
                    return k
        return "vec"

    def _ev(self, t, want):
        op, a = t.op, t.args
        if t in self.mats:
            return Lin.word(("M", self.mats[t]))
        if t in self.scal:
            raise Opaque("scaling used as data")
        if op == "atom":
            return self.as_matrix(t) if want == "M" else self.as_vector(t)
        if op in ("add", "sub"):
            x, y = self.ev(a[0], want), self.ev(a[1], want)
            return x + y if op == "add" else x - y
        if op == "neg":
            return self.ev(a[0], want).scale(-1)
        if op == "matmul":
            return self.ev(a[0], "M") @ self.ev(a[1], want)
        if op in ("np.einsum", "linalg.einsum") and len(a) == 3 and isinstance(a[0], str):
            spec = a[0].replace(" ", "")
            ins, out = spec.split("->")
            i1, i2 = ins.split(",")
            # (batched) matrix-vector or matrix-matrix product: the last index of the first operand is contracted with the first non-batch index of the second
            batch = "".join(c for c in i1 if c in i2 and c in out)
            c1, c2, co = i1.replace("...", ""), i2.replace("...", ""), out.replace("...", "")
            core1, core2, coreo = [c for c in c1 if c not in batch], [c for c in c2 if c not in batch], [c for c in co if c not in batch]
            if len(core1) == 2 and core1[1] == core2[0] and coreo == [core1[0], *core2[1:]] and len(core2) in (1, 2):
                return self.ev(a[1], "M") @ self.ev(a[2], want)
            raise Opaque("einsum")
        if op == "getitem":
            idx = a[1] if isinstance(a[1], tuple) else (a[1],)
            # v[..., None] (column view) and (M @ col)[..., 0] (back to a vector): identity on words
            if idx == (Ellipsis, None):
                return self.ev(a[0], want)
            if idx == (Ellipsis, 0) and _is_column(a[0]):
                return self.ev(a[0], want)
            raise Opaque("index")
        if op in ("mul", "div"):
            x, y = a
            sx, sy = self.scaling_of(x), self.scaling_of(y)
            if op == "div":
                if sy is None:
                    raise Opaque("division by data")
                inv = self.scaling_of(T.mk("div", (1.0, y)))
                if inv is None:
                    raise Opaque("division")
                ori = self._orientation(y)
                val = self.ev(x, want)
                return val @ inv if ori == "right" else inv @ val
            if sx is not None and sy is not None:
                raise Opaque("pure scaling")
            if sx is None and sy is None:
                raise Opaque("product of data")
            s, st, other = (sx, x, y) if sx is not None else (sy, y, x)
            ori = self._orientation(st)
            val = self.ev(other, want)
            if ori == "right":
                if val.is_vector():
                    raise Opaque("right scaling of a vector")
                return val @ s
            return s @ val
        raise Opaque(op)


def _is_column(t):
    """Is this expression certainly a column view (built from ``v[..., None]`` by products on the left and sums)?"""
    if not isinstance(t, T.Term):
        return False
    if t.op == "getitem":
        idx = t.args[1] if isinstance(t.args[1], tuple) else (t.args[1],)
        return idx == (Ellipsis, None)
    if t.op == "matmul":
        return _is_column(t.args[1])
    if t.op in ("add", "sub"):
        return _is_column(t.args[0]) and _is_column(t.args[1])
    if t.op == "neg":
        return _is_column(t.args[0])
    return False


def equal(alg: Algebra, x, y):
    """True / False / None (an operand is entirely opaque)."""
    try:
        lx, ly = alg.ev(x), alg.ev(y)
    except Opaque:
        return None, "not expressible"
    return lx == ly, f"{lx.show()}  vs  {ly.show()}"
