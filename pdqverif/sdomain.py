"""Scale-degree domain (the sigma_b part of domain A at the solver level).

Every Gaussian object carries the degree of its Cholesky factor in the prior's
base output scale sigma_b (means have degree 0); scalars carry their own degree.
The interface methods of the state-space layer are typed by the signatures that
level 1 (C08/C09) derives from the factorisations:

    prior.transition(output_scale = s)      Cond of degree 1 + deg(s)
    cond.marginalise(rv) / revert(rv)        need deg(cond) == deg(rv)        -> that degree
    cond.apply_flat(point)                   Normal of degree deg(cond)
    lin.marginalise(rv) / bayes_rule_*(., rv)  (linearisation noise is zero/unit-free)  -> deg(rv)
    normal.residual_whitened_rms_*(.)        scalar of degree -deg(normal)
    x.rescale_cholesky(f) / rescale_noise(f) deg(x) + deg(f)
    outer.merge(inner)                       need equal degrees
    identity_conditional                     polymorphic (zero noise)

A program that type-checks scales as claimed under sigma_b -> c * sigma_b.
"""

from __future__ import annotations

from fractions import Fraction

from . import terms as T
from .interp import Rec

POLY = "poly"  # zero noise: any degree


class SErr:
    def __init__(self, what, term, detail):
        self.what, self.term, self.detail = what, term, detail

    def __repr__(self):
        return f"{self.what}: {self.detail} at {getattr(self.term, 'origin', None)}"


class SEnv:
    def __init__(self):
        self.deg: dict = {}
        self.errors: list = []
        self.cache: dict = {}

    def declare(self, term, d):
        self.deg[term.uid] = d

    def eq(self, a, b):
        return a == POLY or b == POLY or a == b

    def pick(self, a, b):
        return b if a == POLY else a

    def of(self, v):
        if isinstance(v, bool) or v is None:
            return None
        if isinstance(v, (int, float)):
            return Fraction(0)
        if not isinstance(v, T.Term):
            return None
        if v.uid in self.deg:
            return self.deg[v.uid]
        if v.uid in self.cache:
            return self.cache[v.uid]
        self.cache[v.uid] = None
        d = self._of(v)
        self.cache[v.uid] = d
        return d

    def is_lin(self, v):
        if not isinstance(v, T.Term):
            return False
        if v.op == "getitem" and isinstance(v.args[0], T.Term) and v.args[0].op == "mcall" and v.args[0].args[1] == "linearize" and v.args[1] == 0:
            return True
        if v.op == "attr" and v.args[1] == "fun_evals":
            return True
        if v.op == "atom" and str(v.args[0]).endswith(".fun_evals"):
            return True
        return v.meta.get("role") == "linearisation"

    def _of(self, v):
        op, a = v.op, v.args
        if op == "mcall":
            recv, name, rest = a[0], a[1], a[2:]
            if name == "transition":
                s = v.kwargs.get("output_scale", rest[1] if len(rest) > 1 else None)
                ds = self.of(s)
                return None if ds is None else 1 + ds
            if name in ("marginalise", "apply_flat"):
                x = rest[0] if rest else None
                if self.is_lin(recv):
                    return self.of(x)
                dc = self.of(recv)
                if name == "apply_flat":
                    return dc
                dx = self.of(x)
                if dc is None or dx is None:
                    return None
                if not self.eq(dc, dx):
                    self.errors.append(SErr("marginalise combines factors of different scale degree", v, f"conditional sigma^{dc} with variable sigma^{dx}"))
                return self.pick(dc, dx)
            if name in ("rescale_cholesky", "rescale_noise"):
                dx, df = self.of(recv), self.of(rest[0]) if rest else None
                if dx is None or df is None:
                    return None
                return dx if dx == POLY else dx + df
            if name in ("residual_whitened_rms_tree", "residual_whitened_rms_flat"):
                dx = self.of(recv)
                return None if dx is None or dx == POLY else -dx
            if name == "identity_conditional":
                return POLY
            if name == "merge":
                do, di = self.of(recv), self.of(rest[0]) if rest else None
                if do is None or di is None:
                    return None
                if not self.eq(do, di):
                    self.errors.append(SErr("merge of conditionals of different scale degree", v, f"sigma^{do} with sigma^{di}"))
                return self.pick(do, di)
            if name == "bayes_rule_tree":
                return self.of(rest[1]) if len(rest) > 1 else None
            if name == "prototype_output_scale_calibrated":
                return Fraction(0)
            return None
        if op == "getitem":
            base, idx = a
            if isinstance(base, T.Term) and base.op == "mcall":
                name, rest = base.args[1], base.args[2:]
                if name == "revert" and idx in (0, 1):
                    dc, dx = self.of(base.args[0]), self.of(rest[0]) if rest else None
                    if self.is_lin(base.args[0]):
                        return dx
                    if dc is None or dx is None:
                        return None
                    if not self.eq(dc, dx):
                        self.errors.append(SErr("revert combines factors of different scale degree", base, f"conditional sigma^{dc} with variable sigma^{dx}"))
                    return self.pick(dc, dx)
                if name in ("bayes_rule_and_residual_whitened_rms_tree", "bayes_rule_and_logpdf_tree"):
                    drv = self.of(rest[1]) if len(rest) > 1 else None
                    if idx == 1:
                        return drv
                    if idx == 0 and name.endswith("rms_tree"):
                        return None if drv is None or drv == POLY else -drv
                    return None
            d = self.of(base)
            return d
        if op in ("mul", "matmul"):
            x, y = self.of(a[0]), self.of(a[1])
            return None if x is None or y is None else (POLY if POLY in (x, y) else x + y)
        if op == "div":
            x, y = self.of(a[0]), self.of(a[1])
            return None if x is None or y is None else (POLY if POLY in (x, y) else x - y)
        if op in ("add", "sub", "np.hypot", "np.maximum", "np.minimum"):
            x, y = self.of(a[0]), self.of(a[1])
            if x is None or y is None:
                return None
            if not self.eq(x, y):
                self.errors.append(SErr("sum of quantities of different scale degree", v, f"sigma^{x} + sigma^{y}"))
            return self.pick(x, y)
        if op == "pow":
            x = self.of(a[0])
            e = a[1]
            if x is None:
                return None
            if x == 0 or x == POLY:
                return x
            if isinstance(e, (int, float)):
                return x * Fraction(e)
            return None
        if op == "np.sqrt":
            x = self.of(a[0])
            return None if x is None else (x if x == POLY else x / 2)
        if op in ("np.ones_like", "np.ones", "np.factorial", "len", "np.arange"):
            return Fraction(0)
        if op in ("np.zeros_like", "np.zeros"):
            return POLY
        if op in ("func.stop_gradient", "np.asarray", "np.abs", "neg", "tree.ravel", "np.reshape", "linalg.vector_norm", "tree.tree_leaves_depth_one") and a:
            return self.of(a[0])
        if op == "attr":
            if a[1] in ("mean", "mean_flat", "t", "num_steps", "size", "shape"):
                return Fraction(0)
            if a[1] in ("std", "cholesky_flat", "marginal", "conditional", "noise"):
                return self.of(a[0])
            return None
        if op == "tree.tree_map":
            key = a[0]
            if getattr(key, "name", None) in ("np.zeros_like",):
                return POLY
            if getattr(key, "name", None) in ("np.ones_like",):
                return Fraction(0)
            return self.of(a[-1])
        if op in ("ite", "np.where"):
            x, y = self.of(a[1]), self.of(a[2])
            if x is None or y is None:
                return None
            if not self.eq(x, y):
                self.errors.append(SErr("branches of different scale degree", v, f"sigma^{x} vs sigma^{y}"))
            return self.pick(x, y)
        if op == "call":
            # error norms: homogeneous of degree 0 in (error, reference)?  error_norm(e, ref, atol, rtol): degree of e must be 0
            return None
        if op == "tree_concat":
            ds = [self.of(x.args[0] if isinstance(x, T.Term) and x.op == "lift" else x) for x in a]
            if any(d is None for d in ds):
                return None
            base = ds[0]
            for d in ds[1:]:
                if not self.eq(base, d):
                    self.errors.append(SErr("stacking quantities of different scale degree", v, f"{ds}"))
                base = self.pick(base, d)
            return base
        if op in ("scan_ys", "scan_final", "while_final"):
            return None
        return None


def show(d):
    return "?" if d is None else ("sigma^*" if d == POLY else f"sigma^{d}")
