"""Domain J -- derivative-order typestate for Taylor-coefficient recursions (C10).

The solution u of  u^(k) = f(u, u', ..., u^(k-1), t)  is fixed but unknown.  ``D(j)`` is an atom that stands for the exact derivative
u^(j)(t0).  The vector field evaluated at (D0, ..., D_{k-1}; t0) *is* D(k); more generally ``FLOW(m; x, tau)`` stands for the m-th total time
derivative of f along the flow through the state x at time tau, and FLOW(m; D0..D_{k-1}, t0) is canonicalised to D(k + m).

Trusted semantics of the differentiation primitives (what JAX documents):

* ``jet(g, primals, series)`` (derivative convention): if g(primals) = FLOW(0; p, p_t), primal i is the state component u^(i) and its series
  lists that component's successive time derivatives, and time has the series (1, 0, ..., 0), then the j-th output coefficient is
  FLOW(j; p, p_t).  Output j depends on the input series up to order j only, so an inexact (padded / stale) entry at order l makes the
  outputs of order >= l garbage and leaves the lower ones exact.  All series must have the same length.
* ``jvp(g, primals, tangents)``: if g(primals) = FLOW(m; p, p_t) and the tangents are the time derivative of the primals along the flow
  ((p_1, ..., p_{k-1}, FLOW(0; p, p_t)), 1), the output tangent is FLOW(m + 1; p, p_t).
* ``scan(body, init, xs=None, length=n)`` with a static n is n applications of body.

A differentiated callable must be a function of its *arguments*: it is re-evaluated on fresh probe states and the result may not mention the
solution atoms (a closure over the initial values would give the right number at t0 and the wrong function).

The analysis never runs the library: it interprets the routines' source on these symbols for a finite grid of static parameters
(ODE order k, number of requested coefficients).
"""

from __future__ import annotations

from . import terms as T
from .interp import _MISSING, AnalysisError, HarnessFn, RaiseSignal


def strip(x):
    while isinstance(x, T.Term) and x.op in ("np.asarray", "np.array") and x.args:
        x = x.args[0]
    return x


class JEnv:
    def __init__(self, it, k, t0):
        self.it, self.k, self.t0 = it, k, t0
        self.n_garbage = 0
        self.notes = []  # (kind, detail, site)
        self.violations = []  # (what, detail, site)
        self.untyped = []  # constructs outside the typed fragment
        self.probe_depth = 0

    # ---- values
    def D(self, j):
        return T.atom(f"D{j}", array=True)

    def order_of(self, v):
        v = strip(v)
        if isinstance(v, T.Term) and v.op == "atom":
            n = T.atom_name(v)
            if n.startswith("D") and n[1:].isdigit():
                return int(n[1:])
        return None

    def garbage(self, why, site=None):
        self.n_garbage += 1
        self.notes.append(("garbage", why, site))
        return T.atom(f"GARBAGE{self.n_garbage}", array=True)

    def flow(self, m, state, tau):
        state = tuple(strip(s) for s in state)
        if len(state) == self.k and all(self.order_of(s) == i for i, s in enumerate(state)) and strip(tau) is self.t0:
            return self.D(self.k + m)
        return T.mk("FLOW", (m, state, strip(tau)), meta={"array": True})

    def as_flow(self, v):
        """(m, state, tau) if v denotes FLOW(m; state, tau) -- including the canonical D(k+m) at the solution point."""
        v = strip(v)
        if isinstance(v, T.Term) and v.op == "FLOW":
            return v.args[0], tuple(v.args[1]), v.args[2]
        j = self.order_of(v)
        if j is not None and j >= self.k:
            return j - self.k, tuple(self.D(i) for i in range(self.k)), self.t0
        return None

    def time_derivative(self, v, state, tau):
        """d/dt of a value along the flow through (state, tau), when it is expressible."""
        v = strip(v)
        for i, s in enumerate(state):
            if v is strip(s):
                return strip(state[i + 1]) if i + 1 < len(state) else self.flow(0, state, tau)
        fl = self.as_flow(v)
        if fl is not None and tuple(strip(s) for s in fl[1]) == tuple(strip(s) for s in state) and fl[2] is strip(tau):
            return self.flow(fl[0] + 1, state, tau)
        j = self.order_of(v)
        if j is not None and all(self.order_of(s) == i for i, s in enumerate(state)) and strip(tau) is self.t0:
            return self.D(j + 1)
        return None

    # ---- the user's vector field
    def vector_field(self):
        def fn(itp, a, kw, site):
            jc, tau = kw.get("jet_coords"), kw.get("t")
            if a or not isinstance(jc, (list, tuple)) or tau is None:
                self.violations.append(("vector-field call", f"called with positional arguments or without jet_coords/t: {T.show((a, kw), 3)}", site))
                return [self.garbage("malformed vector-field call", site)]
            if len(jc) != self.k:
                self.violations.append(("vector-field arity", f"{len(jc)} coefficients handed to a vector field of order {self.k}", site))
                return [self.garbage("arity", site)]
            return [self.flow(0, jc, tau)]

        return HarnessFn("vfield", fn)

    # ---- genericity of a differentiated callable
    def generic(self, g, n_state, site):
        """Evaluate g on fresh probe symbols; returns (m, ok, detail): g == FLOW(m; probes) as a function of its arguments."""
        self.probe_depth += 1
        probes = [T.atom(f"X{self.probe_depth}_{i}", array=True) for i in range(n_state)]
        tau = T.atom(f"tau{self.probe_depth}", array=True)
        try:
            v = self.it.call(g, [*probes, tau], {}, site)
        except (AnalysisError, RaiseSignal) as e:
            return None, False, f"cannot evaluate the differentiated callable on probes: {e}"
        v = strip(v)
        if isinstance(v, T.Term) and v.op == "FLOW" and tuple(v.args[1]) == tuple(probes) and v.args[2] is tau:
            return v.args[0], True, f"FLOW({v.args[0]}) of its arguments"
        return None, False, f"the differentiated callable evaluates to {T.show(v, 3)} on probe arguments: not a flow derivative of its own arguments"


def install(it, env: JEnv):
    def jet_hook(itp, args, kwargs, site):
        g = args[0]
        primals = args[1] if len(args) > 1 else kwargs.get("primals")
        series = args[2] if len(args) > 2 else kwargs.get("series")
        if kwargs.get("is_tcoeff", False):
            env.untyped.append(("jet with normalised coefficients", site))
            return _MISSING
        if not (isinstance(primals, (list, tuple)) and isinstance(series, (list, tuple)) and len(primals) == len(series) and len(primals) >= 2):
            env.violations.append(("jet arguments", f"primals / series are not matching static sequences: {T.show((primals, series), 2)}", site))
            return _MISSING
        *state, tau = list(primals)
        *sser, tser = list(series)
        if not all(isinstance(s, (list, tuple)) for s in [*sser, tser]):
            env.violations.append(("jet series", "series are not static lists", site))
            return _MISSING
        lens = {len(s) for s in [*sser, tser]}
        if len(lens) != 1:
            env.violations.append(("jet series lengths", f"series of different lengths {sorted(len(s) for s in [*sser, tser])}: jax.experimental.jet needs equal lengths", site))
            return _MISSING
        m_len = lens.pop()
        mg, ok, det = env.generic(g, len(state), site)
        if not ok or mg != 0:
            env.violations.append(("jet callable", det, site))
            return _MISSING
        if len(state) != env.k:
            env.violations.append(("jet arity", f"{len(state)} state primals for an ODE of order {env.k}", site))
            return _MISSING
        p_out = env.flow(0, state, tau)
        # exactness per order
        exact_upto = m_len
        why = None
        for l in range(1, m_len + 1):
            want_t = 1.0 if l == 1 else 0.0
            tv = tser[l - 1]
            if not (isinstance(tv, (int, float)) and float(tv) == want_t):
                exact_upto, why = l - 1, f"time series entry {l} is {T.show(tv, 2)}; expected {want_t}"
                break
            bad = None
            for i, s in enumerate(state):
                # l-th derivative of state component i along the flow
                cur = s
                for _ in range(l):
                    cur = env.time_derivative(cur, state, tau) if cur is not None else None
                if cur is None or strip(sser[i][l - 1]) is not strip(cur):
                    bad = (i, l, sser[i][l - 1], cur)
                    break
            if bad is not None:
                exact_upto = l - 1
                why = f"series of argument {bad[0]} holds {T.show(bad[2], 2)} at order {bad[1]}; the exact derivative there is {T.show(bad[3], 2)}"
                break
        s_out = []
        for j in range(1, m_len + 1):
            s_out.append(env.flow(j, state, tau) if j <= exact_upto else env.garbage(why or "inexact input series", site))
        env.notes.append(("jet", f"{m_len} series entries, exact up to order {exact_upto}" + (f" ({why})" if why else ""), site))
        return p_out, s_out

    def jvp_hook(itp, args, kwargs, site):
        g = args[0]
        primals = args[1] if len(args) > 1 else kwargs.get("primals")
        tangents = args[2] if len(args) > 2 else kwargs.get("tangents")
        if not (isinstance(primals, (list, tuple)) and isinstance(tangents, (list, tuple)) and len(primals) == len(tangents) and len(primals) >= 2):
            env.violations.append(("jvp arguments", f"primals / tangents are not matching static sequences: {T.show((primals, tangents), 2)}", site))
            return _MISSING
        *state, tau = list(primals)
        *tstate, ttau = list(tangents)
        mg, ok, det = env.generic(g, len(state), site)
        if not ok:
            env.violations.append(("jvp callable", det, site))
            return _MISSING
        if len(state) != env.k:
            env.violations.append(("jvp arity", f"{len(state)} state primals for an ODE of order {env.k}", site))
            return _MISSING
        one = strip(ttau)
        if not ((isinstance(one, (int, float)) and float(one) == 1.0) or (isinstance(one, T.Term) and one.op in ("np.ones_like", "np.ones") and not T.value_atoms(one))):
            env.violations.append(("jvp time tangent", f"the tangent of the time argument is {T.show(ttau, 3)}; d t / d t = 1 is required", site))
            return env.flow(mg, state, tau), env.garbage("time tangent", site)
        for i, s in enumerate(state):
            want = env.time_derivative(s, state, tau)
            if want is None or strip(tstate[i]) is not strip(want):
                env.violations.append(("jvp state tangent", f"the tangent of state argument {i} is {T.show(tstate[i], 3)}; its time derivative along the flow is {T.show(want, 3)}", site))
                return env.flow(mg, state, tau), env.garbage("state tangent", site)
        return env.flow(mg, state, tau), env.flow(mg + 1, state, tau)

    def scan_hook(itp, args, kwargs, site):
        step = args[0]
        init = args[1] if len(args) > 1 else kwargs.get("init")
        xs = args[2] if len(args) > 2 else kwargs.get("xs")
        n = kwargs.get("length")
        if xs is not None or not isinstance(n, int) or isinstance(n, bool) or n < 0 or n > 64:
            return _MISSING
        carry, ys = init, []
        for _ in range(n):
            out = itp.call(step, [carry, None], {}, site)
            if not isinstance(out, (tuple, list)) or len(out) != 2:
                raise AnalysisError(f"scan body at {site} does not return a pair")
            carry, y = out
            ys.append(y)
        return carry, ys

    it.hooks["func.jet"] = jet_hook
    it.hooks["func.jvp"] = jvp_hook
    it.hooks["flow.scan"] = scan_hook
