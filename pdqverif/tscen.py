"""Typed scenarios shared by the typestate rules (C02, C03, C05, C12, C13)."""

from __future__ import annotations

from . import tdomain as TD
from . import terms as T
from .harness import EST, SOLVERS, A, Rec, rec_of_atoms

PS = SOLVERS + ".ProbabilisticSolution"
MS = EST + ".MarkovSequence"
STRATEGIES = ["strategy_filter", "strategy_smoother_fixedpoint", "strategy_smoother_fixedinterval"]


def make_strategy(it, name):
    return it.instantiate(it.class_value(f"{EST}.{name}"), [], {}, "<harness>")


def make_solver(it, cls, strategy, **flags):
    st = make_strategy(it, strategy) if isinstance(strategy, str) else strategy
    kw = dict(strategy=st, constraint=A("constraint"))
    kw.update(flags)
    return it.instantiate(it.class_value(f"{SOLVERS}.{cls}"), [], kw, "<harness>")


def typed_solution(it, env: TD.TEnv, strategy: str, prefix: str, anchor=None, time=None):
    """A ProbabilisticSolution record of atoms with declared time types.

    filter:   solution_full : N @ t
    smoother: solution_full : MarkovSequence(marginal N @ t, conditional C[t -> anchor])
    """
    if strategy == "strategy_filter":
        sf = A(f"{prefix}.solution_full")
    else:
        sf = rec_of_atoms(it, MS, f"{prefix}.solution_full", {"reverse": True})
    sol = rec_of_atoms(it, PS, prefix, {"solution_full": sf})
    if time is not None:
        sol.fields["t"] = time
    t = sol.fields["t"]
    env.declare(sol.fields["u"], ("N", t))
    if isinstance(sf, Rec):
        env.declare(sf.fields["marginal"], ("N", t))
        env.declare(sf.fields["conditional"], ("C", t, anchor if anchor is not None else A(f"{prefix}.anchor")))
    else:
        env.declare(sf, ("N", t))
    return sol


def posterior_types(env, sf):
    """(type of marginal, type of conditional or None) of a solution_full value."""
    if isinstance(sf, Rec) and "marginal" in sf.fields:
        return env.of(sf.fields["marginal"]), env.of(sf.fields["conditional"])
    return env.of(sf), None


def markov_rank_oracle(t):
    """Rank of `.mean_flat` / `.noise.mean_flat` of Gaussian objects derived from rank-declared atoms
    through rank-preserving interface methods (rescale_*, marginalise of a single variable)."""
    if not (isinstance(t, T.Term) and t.op == "attr" and t.args[1] == "mean_flat"):
        return None
    base = t.args[0]
    key = "mean_flat"
    if isinstance(base, T.Term) and base.op == "attr" and base.args[1] == "noise":
        base, key = base.args[0], "noise.mean_flat"
    drop = 0
    for _ in range(8):
        if not isinstance(base, T.Term):
            return None
        if base.op == "tree.tree_map" and len(base.args) == 2 and isinstance(base.args[0], T.Term) and base.args[0].op == "lam" and base.args[0].args[0] == 1:
            # tree_map(lambda s: s[i, ...], x): every leaf loses its leading axis
            body = base.args[0].args[1]
            if isinstance(body, T.Term) and body.op == "getitem" and isinstance(body.args[0], T.Term) and body.args[0].op == "leaf_of" and body.args[0].args[0] is base.args[1]:
                idx = body.args[1] if isinstance(body.args[1], tuple) else (body.args[1],)
                if idx and isinstance(idx[0], int) and not isinstance(idx[0], bool) and all(i_ is Ellipsis for i_ in idx[1:]):
                    base, drop = base.args[1], drop + 1
                    continue
            return None
        if base.op == "mcall" and base.args[1] in ("rescale_cholesky", "rescale_noise"):
            base = base.args[0]
            continue
        if base.op == "mcall" and base.args[1] == "marginalise" and key == "mean_flat" and len(base.args) > 2:
            base = base.args[2]
            continue
        break
    d = base.meta.get("ndims") if isinstance(base, T.Term) else None
    r = d.get(key) if d else None
    return None if r is None else r - drop
