"""Domain B: sign / interval / symbolic-bound analysis over terms, with guard refinement.

For a real scalar term the analysis derives

* a numeric interval with strictness flags (from declared assumptions on the
  atoms, propagated through ``+ - * / ** sqrt abs min max where norm``), and
* sets of *symbolic* lower / upper bounds (terms known to bound the value:
  ``minimum(a, b) <= a, b``; ``maximum(a, b) >= a, b``; joins intersect).

``np.where(c, a, b)`` / ``ite`` evaluate ``a`` under ``c`` and ``b`` under
``not c``; comparisons of a term with a constant (or of two terms) refine the
environment.  An arm whose guard contradicts the environment is infeasible and
contributes nothing to the join.
"""

from __future__ import annotations

import math
from fractions import Fraction

from . import nf
from . import terms as T

INF = math.inf


class Iv:
    __slots__ = ("lo", "hi", "ls", "hs")

    def __init__(self, lo=-INF, hi=INF, ls=False, hs=False):
        self.lo, self.hi = lo, hi
        self.ls = ls or lo == -INF  # strict lower bound?
        self.hs = hs or hi == INF

    def __repr__(self):
        return f"{'(' if self.ls else '['}{self.lo}, {self.hi}{')' if self.hs else ']'}"

    @property
    def empty(self):
        return self.lo > self.hi or (self.lo == self.hi and (self.ls or self.hs))

    @property
    def pos(self):
        return self.lo > 0 or (self.lo == 0 and self.ls)

    @property
    def nonneg(self):
        return self.lo >= 0

    @property
    def lt1(self):
        return self.hi < 1 or (self.hi == 1 and self.hs)

    @property
    def ge1(self):
        return self.lo >= 1

    @property
    def finite_nonzero(self):
        return (self.pos or self.hi < 0 or (self.hi == 0 and self.hs))


TOP = Iv()


def point(c):
    c = float(c)
    return Iv(c, c)


def join(a: Iv, b: Iv) -> Iv:
    if a.empty:
        return b
    if b.empty:
        return a
    if a.lo < b.lo:
        lo, ls = a.lo, a.ls
    elif b.lo < a.lo:
        lo, ls = b.lo, b.ls
    else:
        lo, ls = a.lo, a.ls and b.ls
    if a.hi > b.hi:
        hi, hs = a.hi, a.hs
    elif b.hi > a.hi:
        hi, hs = b.hi, b.hs
    else:
        hi, hs = a.hi, a.hs and b.hs
    return Iv(lo, hi, ls, hs)


def meet(a: Iv, b: Iv) -> Iv:
    if a.lo > b.lo:
        lo, ls = a.lo, a.ls
    elif b.lo > a.lo:
        lo, ls = b.lo, b.ls
    else:
        lo, ls = a.lo, a.ls or b.ls
    if a.hi < b.hi:
        hi, hs = a.hi, a.hs
    elif b.hi < a.hi:
        hi, hs = b.hi, b.hs
    else:
        hi, hs = a.hi, a.hs or b.hs
    return Iv(lo, hi, ls, hs)


def iv_add(a, b):
    return Iv(a.lo + b.lo, a.hi + b.hi, a.ls or b.ls, a.hs or b.hs)


def iv_neg(a):
    return Iv(-a.hi, -a.lo, a.hs, a.ls)


def iv_mul(a, b):
    cands = []
    for (x, xs) in ((a.lo, a.ls), (a.hi, a.hs)):
        for (y, ys) in ((b.lo, b.ls), (b.hi, b.hs)):
            if (x in (INF, -INF) and y == 0) or (y in (INF, -INF) and x == 0):
                # the zero endpoint decides: product tends to 0 only if zero attained
                v, s = 0.0, (xs if x == 0 else ys)
            else:
                v = x * y
                s = xs or ys
                if v != v:
                    v, s = 0.0, True
            cands.append((v, s))
    lo = min(c[0] for c in cands)
    hi = max(c[0] for c in cands)
    ls = all(s for v, s in cands if v == lo)
    hs = all(s for v, s in cands if v == hi)
    return Iv(lo, hi, ls, hs)


def iv_recip(a):
    if a.pos:
        lo = 0.0 if a.hi == INF else 1.0 / a.hi
        hi = INF if a.lo == 0 else 1.0 / a.lo
        return Iv(lo, hi, a.hs if a.hi != INF else True, a.ls if a.lo != 0 else True)
    if a.hi < 0 or (a.hi == 0 and a.hs):
        return iv_neg(iv_recip(iv_neg(a)))
    return TOP


def iv_pow(a, e: Iv):
    """a ** e.  Exact for constant e; monotone reasoning for a>0 and e of one sign."""
    if e.lo == e.hi:
        c = e.lo
        if c == 0:
            return point(1)
        if float(c).is_integer() and c > 0:
            n = int(c)
            if n % 2 == 0:
                m = iv_abs(a)
                return Iv(m.lo**n, m.hi**n if m.hi != INF else INF, m.ls, m.hs)
            lo = a.lo**n if a.lo != -INF else -INF
            hi = a.hi**n if a.hi != INF else INF
            return Iv(lo, hi, a.ls, a.hs)
        if a.pos or (a.nonneg and c > 0):
            if c > 0:
                return Iv(a.lo**c, a.hi**c if a.hi != INF else INF, a.ls, a.hs)
            r = iv_pow(a, point(-c))
            return iv_recip(r)
        return TOP
    if a.pos and (e.pos or e.lo > 0):
        # a in (0,1) -> result in (0,1); a >= 1 -> result >= 1; in general > 0
        if a.lt1:
            return Iv(0.0, 1.0, True, True)
        if a.ge1:
            return Iv(1.0, INF, False, True)
        return Iv(0.0, INF, True, True)
    if a.pos and (e.hi < 0 or (e.hi == 0 and e.hs)):
        return iv_recip(iv_pow(a, iv_neg(e)))
    if a.pos:
        return Iv(0.0, INF, True, True)
    return TOP


def iv_abs(a):
    if a.nonneg:
        return a
    if a.hi <= 0:
        return iv_neg(a)
    hi, hs = (a.hi, a.hs) if a.hi > -a.lo else ((-a.lo, a.ls) if -a.lo > a.hi else (a.hi, a.hs and a.ls))
    return Iv(0.0, hi, False, hs)


def iv_min(a, b):
    lo, ls = (a.lo, a.ls) if a.lo < b.lo else ((b.lo, b.ls) if b.lo < a.lo else (a.lo, a.ls and b.ls))
    hi, hs = (a.hi, a.hs) if a.hi < b.hi else ((b.hi, b.hs) if b.hi < a.hi else (a.hi, a.hs or b.hs))
    return Iv(lo, hi, ls, hs)


def iv_max(a, b):
    lo, ls = (a.lo, a.ls) if a.lo > b.lo else ((b.lo, b.ls) if b.lo > a.lo else (a.lo, a.ls or b.ls))
    hi, hs = (a.hi, a.hs) if a.hi > b.hi else ((b.hi, b.hs) if b.hi > a.hi else (a.hi, a.hs and b.hs))
    return Iv(lo, hi, ls, hs)


class Env:
    """Assumptions: intervals for terms (by identity), plus proven orderings a<=b / a<b."""

    def __init__(self, base=None):
        self.iv: dict = dict(base.iv) if base else {}
        self.terms: dict = dict(base.terms) if base else {}
        self.order: set = set(base.order) if base else set()  # (uid_a, uid_b, strict)
        self.infeasible = base.infeasible if base else False

    def assume(self, t, iv: Iv):
        if isinstance(t, T.Term):
            cur = self.iv.get(t.uid, TOP)
            new = meet(cur, iv)
            self.iv[t.uid] = new
            self.terms[t.uid] = t
            if new.empty:
                self.infeasible = True

    def assume_le(self, a, b, strict=False):
        if isinstance(a, T.Term) and isinstance(b, T.Term):
            self.order.add((a.uid, b.uid, strict))
            self.terms[a.uid] = a
            self.terms[b.uid] = b


class Bounds:
    def __init__(self, env: Env | None = None, scalar_atoms=True):
        self.env = env or Env()
        self.unknown_ops: set = set()

    def sub(self, env):
        b = Bounds(env)
        b.unknown_ops = self.unknown_ops
        return b

    # --------------------------------------------------------------- interval
    def iv(self, x) -> Iv:
        if isinstance(x, bool):
            return point(int(x))
        if isinstance(x, (int, float)):
            return point(x)
        if isinstance(x, Fraction):
            return point(float(x))
        if not isinstance(x, T.Term):
            return TOP
        r = self._iv(x)
        ov = self.env.iv.get(x.uid)
        if ov is not None:
            r = meet(r, ov)
        return r

    def _iv(self, x: T.Term) -> Iv:
        op, a = x.op, x.args
        if op == "atom":
            return TOP
        if op == "add":
            return iv_add(self.iv(a[0]), self.iv(a[1]))
        if op == "sub":
            return iv_add(self.iv(a[0]), iv_neg(self.iv(a[1])))
        if op == "neg":
            return iv_neg(self.iv(a[0]))
        if op == "mul":
            return iv_mul(self.iv(a[0]), self.iv(a[1]))
        if op == "div":
            return iv_mul(self.iv(a[0]), iv_recip(self.iv(a[1])))
        if op in ("pow", "np.power"):
            return iv_pow(self.iv(a[0]), self.iv(a[1]))
        if op == "np.sqrt":
            return iv_pow(self.iv(a[0]), point(0.5))
        if op == "np.abs":
            return iv_abs(self.iv(a[0]))
        if op == "np.minimum":
            return iv_min(self.iv(a[0]), self.iv(a[1]))
        if op == "np.maximum":
            return iv_max(self.iv(a[0]), self.iv(a[1]))
        if op in ("linalg.vector_norm", "linalg.matrix_norm"):
            return Iv(0.0, INF, False, True)
        if op == "np.finfo_eps":
            # machine epsilon of a floating-point type: 0 < eps < 1
            return Iv(0.0, 1.0, True, True)
        if op in ("np.amax", "np.max", "np.amin", "np.min") and len(a) >= 1:
            # the largest / smallest entry lies within the bounds that hold for every entry
            return self.iv(a[0])
        if op in ("np.where", "ite"):
            c, t, f = a
            out = None
            for pol, v in ((True, t), (False, f)):
                for e2 in refine_dnf(self, c, pol):
                    if e2.infeasible:
                        continue
                    r = self.sub(e2).iv(v)
                    out = r if out is None else join(out, r)
            return out if out is not None else Iv(1.0, -1.0)
        if op == "switch":
            out = None
            for v in a[1:]:
                r = self.iv(v)
                out = r if out is None else join(out, r)
            return out
        if op in ("np.asarray", "func.stop_gradient") and len(a) >= 1:
            return self.iv(a[0])
        if op == "np.ones_like":
            return point(1)
        if op == "np.zeros_like":
            return point(0)
        if op == "np.hypot":
            x0, x1 = iv_abs(self.iv(a[0])), iv_abs(self.iv(a[1]))
            lo = math.hypot(x0.lo, x1.lo)
            hi = INF if INF in (x0.hi, x1.hi) else math.hypot(x0.hi, x1.hi)
            return Iv(lo, hi, x0.ls and x1.ls if lo > 0 else (x0.ls or x1.ls) and lo == 0 and False, x0.hs or x1.hs)
        if op == "np.exp":
            return Iv(0.0, INF, True, True)
        if op == "nf.poly":
            tot = point(0)
            for c, mono in a:
                m = point(float(Fraction(c)))
                for t, e in mono:
                    m = iv_mul(m, iv_pow(self.iv(t), point(float(Fraction(e)))))
                tot = iv_add(tot, m)
            return tot
        if op == "nf.const":
            return point(float(Fraction(a[0])))
        # Opaque *values* (collaborator results, raveled inputs, attributes) are free reals: TOP is exact.
        # Only an unmodelled numeric primitive makes a derived bound unreliable.
        if op.startswith(("np.", "linalg.", "func.", "flow.")):
            self.unknown_ops.add(op)
        return TOP

    # -------------------------------------------------------- symbolic bounds
    def prove_le(self, a, b, strict=False, depth=10) -> bool:
        """Prove a <= b (a < b if strict) structurally:

        max(x,y) <= b  iff both;  min(x,y) <= b  if either;
        a <= max(x,y)  if either; a <= min(x,y)  iff both;
        where/ite on either side: every feasible arm under its guard;
        base case: same normal form (non-strict), a recorded ordering fact
        (transitively), or separated numeric intervals.
        """
        if depth == 0:
            return False
        if isinstance(a, T.Term):
            op, x = a.op, a.args
            if op == "np.maximum":
                return self.prove_le(x[0], b, strict, depth - 1) and self.prove_le(x[1], b, strict, depth - 1)
            if op == "np.minimum" and (self.prove_le(x[0], b, strict, depth - 1) or self.prove_le(x[1], b, strict, depth - 1)):
                return True
            if op in ("np.where", "ite"):
                ok = True
                for pol, v in ((True, x[1]), (False, x[2])):
                    e2 = refine(self, x[0], pol)
                    if e2.infeasible:
                        continue
                    ok = ok and self.sub(e2).prove_le(v, b, strict, depth - 1)
                return ok
            if op in ("np.asarray", "func.stop_gradient"):
                return self.prove_le(x[0], b, strict, depth - 1)
        if isinstance(b, T.Term):
            op, y = b.op, b.args
            if op == "np.minimum":
                return self.prove_le(a, y[0], strict, depth - 1) and self.prove_le(a, y[1], strict, depth - 1)
            if op == "np.maximum" and (self.prove_le(a, y[0], strict, depth - 1) or self.prove_le(a, y[1], strict, depth - 1)):
                return True
            if op in ("np.where", "ite"):
                ok = True
                for pol, v in ((True, y[1]), (False, y[2])):
                    e2 = refine(self, y[0], pol)
                    if e2.infeasible:
                        continue
                    ok = ok and self.sub(e2).prove_le(a, v, strict, depth - 1)
                return ok
            if op in ("np.asarray", "func.stop_gradient"):
                return self.prove_le(a, y[0], strict, depth - 1)
        if not strict and nf.equal(a, b):
            return True
        if isinstance(a, T.Term) and isinstance(b, T.Term) and self._order_path(nf.canon(a).uid, nf.canon(b).uid, strict):
            return True
        ia, ib = self.iv(a), self.iv(b)
        if strict:
            return ia.hi < ib.lo or (ia.hi == ib.lo and (ia.hs or ib.ls))
        return ia.hi <= ib.lo

    def prove_lt(self, a, b) -> bool:
        return self.prove_le(a, b, strict=True)

    def _order_path(self, ua, ub, strict) -> bool:
        """Transitive closure of recorded orderings (keyed by canonical terms)."""
        edges = {}
        for (x, y, s) in self.env.order:
            cx, cy = nf.canon(self.env.terms[x]).uid, nf.canon(self.env.terms[y]).uid
            edges.setdefault(cx, []).append((cy, s))
        seen = {(ua, False)}
        stack = [(ua, False)]
        while stack:
            u, st = stack.pop()
            if u == ub and (st or not strict):
                return True
            for (v, s) in edges.get(u, ()):
                k = (v, st or s)
                if k not in seen:
                    seen.add(k)
                    stack.append(k)
        return False


def refine(b: Bounds, cond, polarity: bool) -> Env:
    """Environment in which ``cond`` has truth value ``polarity`` (conjunctive part only)."""
    env = Env(b.env)
    _refine(b, env, cond, polarity)
    return env


def refine_dnf(b: Bounds, cond, polarity: bool, limit=8) -> list:
    """Environments whose union covers ``cond == polarity`` (disjunctions are split)."""
    envs = [Env(b.env)]
    _refine_dnf(b, envs, cond, polarity, limit)
    return envs


def _refine_dnf(b, envs, cond, pol, limit):
    if isinstance(cond, T.Term):
        op, a = cond.op, cond.args
        if op in ("not", "invert", "np.logical_not"):
            return _refine_dnf(b, envs, a[0], not pol, limit)
        is_and = op in ("and", "np.logical_and")
        is_or = op in ("or", "np.logical_or")
        if (is_and and pol) or (is_or and not pol):
            _refine_dnf(b, envs, a[0], pol, limit)
            _refine_dnf(b, envs, a[1], pol, limit)
            return
        if (is_and and not pol) or (is_or and pol):
            if 2 * len(envs) > limit:
                return  # keep the over-approximation
            left = [Env(e) for e in envs]
            right = [Env(e) for e in envs]
            _refine_dnf(b, left, a[0], pol, limit)
            _refine_dnf(b, right, a[1], pol, limit)
            envs[:] = left + right
            return
    for e in envs:
        _refine(Bounds(e), e, cond, pol)


_FLIP = {"lt": "gt", "le": "ge", "gt": "lt", "ge": "le", "eq": "eq", "ne": "ne"}
_NEG = {"lt": "ge", "le": "gt", "gt": "le", "ge": "lt", "eq": "ne", "ne": "eq"}


def _refine(b: Bounds, env: Env, cond, pol: bool):
    if not isinstance(cond, T.Term):
        if bool(cond) != pol:
            env.infeasible = True
        return
    op, a = cond.op, cond.args
    if op in ("not", "invert", "np.logical_not"):
        return _refine(b, env, a[0], not pol)
    if op in ("and", "np.logical_and"):
        if pol:
            _refine(b, env, a[0], True)
            _refine(b, env, a[1], True)
        return
    if op in ("or", "np.logical_or"):
        if not pol:
            _refine(b, env, a[0], False)
            _refine(b, env, a[1], False)
        return
    if op in _FLIP:
        rel = op if pol else _NEG[op]
        x, y = a
        bx = Bounds(env)
        ix, iy = bx.iv(x), bx.iv(y)
        # refine x by y's interval and y by x's
        for (t, it, other, r) in ((x, ix, iy, rel), (y, iy, ix, _FLIP[rel])):
            if not isinstance(t, T.Term):
                continue
            if r == "lt":
                env.assume(t, Iv(-INF, other.hi, True, True))
            elif r == "le":
                env.assume(t, Iv(-INF, other.hi, True, other.hs))
            elif r == "gt":
                env.assume(t, Iv(other.lo, INF, True, True))
            elif r == "ge":
                env.assume(t, Iv(other.lo, INF, other.ls, True))
            elif r == "eq":
                env.assume(t, other)
            elif r == "ne" and other.lo == other.hi and not other.ls and not other.hs:
                # t != c for a point c: if t's interval ends at c (closed), that end becomes strict  (m >= 0 and m != 0  ==>  m > 0)
                c_ = other.lo
                if it.lo == c_ and not it.ls:
                    env.assume(t, Iv(c_, INF, True, True))
                if it.hi == c_ and not it.hs:
                    env.assume(t, Iv(-INF, c_, True, True))
        # definite contradiction from intervals
        if rel == "lt" and ix.lo >= iy.hi:
            env.infeasible = True
        if rel == "le" and (ix.lo > iy.hi or (ix.lo == iy.hi and (ix.ls or iy.hs))):
            env.infeasible = True
        if rel == "gt" and ix.hi <= iy.lo:
            env.infeasible = True
        if rel == "ge" and (ix.hi < iy.lo or (ix.hi == iy.lo and (ix.hs or iy.ls))):
            env.infeasible = True
        if rel == "eq" and (ix.hi < iy.lo or iy.hi < ix.lo or (ix.hi == iy.lo and (ix.hs or iy.ls)) or (iy.hi == ix.lo and (iy.hs or ix.ls))):
            env.infeasible = True
        if rel == "ne" and ix.lo == ix.hi == iy.lo == iy.hi and not (ix.ls or ix.hs or iy.ls or iy.hs):
            env.infeasible = True
        if isinstance(x, T.Term) and isinstance(y, T.Term):
            if rel in ("lt", "le"):
                env.assume_le(x, y, rel == "lt")
            elif rel in ("gt", "ge"):
                env.assume_le(y, x, rel == "gt")
        return


def select_under(b: Bounds, t):
    """Simplify a term under the environment: resolve where/ite/min/max whose outcome the environment decides."""
    if not isinstance(t, T.Term):
        return t
    if t.op in ("np.where", "ite"):
        c, x, y = t.args
        et, ef = refine(b, c, True), refine(b, c, False)
        if et.infeasible and not ef.infeasible:
            return select_under(b, y)
        if ef.infeasible and not et.infeasible:
            return select_under(b, x)
        return t
    if t.op in ("np.maximum", "np.minimum"):
        x, y = t.args
        if b.prove_le(x, y):
            return select_under(b, y if t.op == "np.maximum" else x)
        if b.prove_le(y, x):
            return select_under(b, x if t.op == "np.maximum" else y)
        return t
    return t
