"""Algebraic normal form on top of value numbering (domain V).

A scalar/elementwise expression is normalised to a polynomial with rational
coefficients whose indeterminates are *opaque bases* (atoms and applications of
primitives without algebraic meaning) raised to rational powers:

    sum_k  c_k * prod_j  base_{kj} ** e_{kj}

``+ - * / ** sqrt hypot power neg`` are interpreted; everything else is a base
whose arguments are themselves canonicalised.  The normal form is only used to
decide that two source expressions denote the same value, or that an expression
has a given shape.  ``@`` is kept as a non-commutative opaque product.
"""

from __future__ import annotations

from fractions import Fraction

from . import terms as T

ZERO: dict = {}


def _num(x):
    if isinstance(x, bool):
        return Fraction(int(x))
    if isinstance(x, int):
        return Fraction(x)
    if isinstance(x, float):
        if x != x or x in (float("inf"), float("-inf")):
            return None
        return Fraction(repr(x))
    if isinstance(x, Fraction):
        return x
    return None


def const(c):
    c = Fraction(c)
    return {(): c} if c != 0 else {}


def var(t, e=1):
    return {((t, Fraction(e)),): Fraction(1)}


def add(p, q, sign=1):
    r = dict(p)
    for m, c in q.items():
        v = r.get(m, 0) + sign * c
        if v == 0:
            r.pop(m, None)
        else:
            r[m] = v
    return r


def _mul_mono(a, b):
    d = {}
    for t, e in a + b:
        d[t] = d.get(t, 0) + e
    return tuple(sorted(((t, e) for t, e in d.items() if e != 0), key=lambda te: te[0].uid))


def mul(p, q):
    r = {}
    for m1, c1 in p.items():
        for m2, c2 in q.items():
            m = _mul_mono(m1, m2)
            v = r.get(m, 0) + c1 * c2
            if v == 0:
                r.pop(m, None)
            else:
                r[m] = v
    return r


def is_const(p):
    return all(m == () for m in p)


def const_value(p):
    return p.get((), Fraction(0)) if is_const(p) else None


def _frac_pow(c: Fraction, e: Fraction):
    """c**e for rational c, e if the result is rational, else None."""
    if e.denominator == 1:
        if c == 0 and e < 0:
            return None
        return c ** int(e)
    if c < 0:
        return None
    num, den = c.numerator, c.denominator

    def root(n, k):
        r = round(n ** (1.0 / k))
        for cand in (r - 1, r, r + 1):
            if cand >= 0 and cand**k == n:
                return cand
        return None

    rn, rd = root(num, e.denominator), root(den, e.denominator)
    if rn is None or rd is None:
        return None
    return Fraction(rn, rd) ** e.numerator if not (rn == 0 and e.numerator < 0) else None


def power(p, e: Fraction):
    e = Fraction(e)
    if e == 0:
        return const(1)
    if e == 1:
        return p
    if len(p) == 1:
        ((m, c),) = p.items()
        ce = _frac_pow(c, e)
        if ce is not None:
            return {tuple((t, x * e) for t, x in m): ce} if m else const(ce)
        # keep the irrational constant as a base: const(c) ** e
        base = T.mk("nf.const", (str(c),))
        mono = _mul_mono(tuple((t, x * e) for t, x in m), ((base, e),))
        return {mono: Fraction(1)}
    if e.denominator == 1 and 0 < e <= 4:
        r = const(1)
        for _ in range(int(e)):
            r = mul(r, p)
        return r
    # general: factor out content so that (c*x + c*y)**e == c**e * (x+y)**e
    g = None
    for c in p.values():
        g = abs(c) if g is None else _gcd_frac(g, abs(c))
    lead = p[min(p, key=_mono_key)]
    if lead < 0:
        g = -g
    q = {m: c / g for m, c in p.items()}
    base = from_poly(q)
    inner = {((base, e),): Fraction(1)}
    return mul(power(const(g), e), inner) if g != 1 else inner


def _gcd_frac(a: Fraction, b: Fraction):
    from math import gcd

    return Fraction(gcd(a.numerator * b.denominator, b.numerator * a.denominator), a.denominator * b.denominator)


def _mono_key(m):
    return tuple((t.uid, e) for t, e in m)


_CACHE: dict = {}


def norm(x):
    """Polynomial normal form of a term / python number."""
    n = _num(x)
    if n is not None:
        return const(n)
    if not isinstance(x, T.Term):
        return var(T.mk("nf.opaque", (x,)))
    r = _CACHE.get(x.uid)
    if r is not None:
        return r
    r = _expand(_norm(x))
    _CACHE[x.uid] = r
    return r


def _expand(p):
    """Re-expand canonical sub-polynomials that occur with a positive integer power (e.g. hypot(a, b) ** 2)."""
    if not any(t.op == "nf.poly" and e.denominator == 1 and e > 0 for m in p for t, e in m):
        return p
    out = {}
    for m, c in p.items():
        term = const(c)
        for t, e in m:
            if t.op == "nf.poly" and e.denominator == 1 and 0 < e <= 4:
                term = mul(term, power(norm(t), e))
            else:
                term = mul(term, {((t, e),): Fraction(1)})
        out = add(out, term)
    return out


def _norm(x: T.Term):
    op, a = x.op, x.args
    if op == "add":
        return add(norm(a[0]), norm(a[1]))
    if op == "sub":
        return add(norm(a[0]), norm(a[1]), -1)
    if op == "mul":
        return mul(norm(a[0]), norm(a[1]))
    if op == "neg":
        return mul(const(-1), norm(a[0]))
    if op == "div":
        return mul(norm(a[0]), power(norm(a[1]), -1))
    if op in ("pow", "np.power") and len(a) == 2:
        ep = norm(a[1])
        e = const_value(ep)
        if e is not None:
            return power(norm(a[0]), e)
        # symbolic exponent: fix the sign so that  b**(-e) == (b**e)**-1
        if ep and ep[min(ep, key=_mono_key)] < 0:
            pos = from_poly(mul(const(-1), ep))
            return power(var(T.mk("pow", (canon(a[0]), pos))), -1)
        return var(T.mk("pow", (canon(a[0]), from_poly(ep))))
    if op == "np.sqrt" and len(a) == 1:
        return power(norm(a[0]), Fraction(1, 2))
    if op == "np.hypot" and len(a) == 2:
        return power(add(power(norm(a[0]), 2), power(norm(a[1]), 2)), Fraction(1, 2))
    if op == "np.factorial" and len(a) == 1:
        v = const_value(norm(a[0]))
        if v is not None and v.denominator == 1 and 0 <= v <= 30:
            from math import factorial

            return const(factorial(int(v)))
    if op == "np.comb" and len(a) == 2 and all(isinstance(v, int) and not isinstance(v, bool) for v in a):
        from math import comb

        return const(comb(a[0], a[1]))
    if op == "np.asarray" and len(a) == 1 and not x.kwargs:
        return norm(a[0])
    if op == "atom":
        return var(x)
    if op == "nf.poly":
        r = {}
        for c, mono in a:
            m = const(Fraction(c))
            for t, e in mono:
                m = mul(m, power(norm(t), Fraction(e)))
            r = add(r, m)
        return r
    if op == "nf.const":
        return var(x)
    return var(canon_args(x))


def canon_args(x: T.Term) -> T.Term:
    def c(v):
        if isinstance(v, T.Term):
            return canon(v)
        if isinstance(v, (list, tuple)):
            return type(v)(c(e) for e in v)
        if isinstance(v, dict):
            return {k: c(e) for k, e in v.items()}
        if isinstance(v, slice):
            return slice(c(v.start), c(v.stop), c(v.step))
        return v

    return T.mk(x.op, tuple(c(v) for v in x.args), {k: c(v) for k, v in x.kwargs.items()}, origin=x.origin)


def from_poly(p) -> T.Term:
    items = []
    for m in sorted(p, key=_mono_key):
        items.append((str(p[m]), tuple((t, str(e)) for t, e in m)))
    if len(items) == 1 and items[0][0] == "1" and len(items[0][1]) == 1 and items[0][1][0][1] == "1":
        return items[0][1][0][0]
    return T.mk("nf.poly", tuple(items))


def canon(x) -> T.Term:
    """A canonical representative term of the normal form of ``x``."""
    if not isinstance(x, T.Term):
        n = _num(x)
        if n is None:
            return T.mk("nf.opaque", (x,))
        return T.mk("nf.poly", ((str(n), ()),)) if n != 0 else T.mk("nf.poly", ())
    return from_poly(norm(x))


def equal(a, b) -> bool:
    return norm(a) == norm(b)


def show(p) -> str:
    if not p:
        return "0"
    parts = []
    for m in sorted(p, key=_mono_key):
        c = p[m]
        fs = []
        for t, e in m:
            s = T.show(t, 3)
            fs.append(s if e == 1 else f"{s}^{e}")
        body = "*".join(fs)
        if not body:
            parts.append(str(c))
        elif c == 1:
            parts.append(body)
        else:
            parts.append(f"{c}*{body}")
    return " + ".join(parts)


def reset():
    _CACHE.clear()


# ---------------------------------------------------------------------------
# Rational functions: equality after clearing denominators.
def _den_poly(t, e):
    """base ** e for a positive integer e as an expanded polynomial."""
    p = norm(t) if t.op == "nf.poly" else var(t)
    r = const(1)
    for _ in range(int(e)):
        r = mul(r, p)
    return r


def clear_denominators(p):
    """(N, D): p == N / D with D a product of the bases that occur with negative integer exponents (canonical sub-polynomials are expanded).

    Bases with non-integer exponents stay where they are (they are opaque factors of the monomials)."""
    need: dict = {}
    for m in p:
        for t, e in m:
            if e < 0 and e.denominator == 1:
                need[t] = max(need.get(t, 0), int(-e))
    if not need:
        return _expand(p), const(1)
    num: dict = {}
    for m, c in p.items():
        term = const(c)
        have = {t: int(-e) for t, e in m if e < 0 and e.denominator == 1}
        rest = tuple((t, e) for t, e in m if not (e < 0 and e.denominator == 1))
        term = mul(term, {rest: Fraction(1)}) if rest else term
        for t, k in need.items():
            miss = k - have.get(t, 0)
            if miss:
                term = mul(term, _den_poly(t, miss))
        num = add(num, term)
    den = const(1)
    for t, k in need.items():
        den = mul(den, _den_poly(t, k))
    num, den = _expand(num), _expand(den)
    # the expansion may expose further denominators (nested fractions)
    if any(e < 0 and e.denominator == 1 for m in num for _t, e in m) or any(e < 0 and e.denominator == 1 for m in den for _t, e in m):
        n1, d1 = clear_denominators(num)
        n2, d2 = clear_denominators(den)
        return _expand(mul(n1, d2)), _expand(mul(n2, d1))
    return num, den


def rat_equal(p, q) -> bool:
    """p == q as rational functions of their bases."""
    if p == q:
        return True
    n1, d1 = clear_denominators(p)
    n2, d2 = clear_denominators(q)
    return _expand(mul(n1, d2)) == _expand(mul(n2, d1))
