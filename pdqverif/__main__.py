"""CLI:  python -m pdqverif check <ID> [--tier quick|thorough]   |   replay <path>   |   selftest <ID>"""

from __future__ import annotations

import argparse
import importlib
import json
import os
import sys
import traceback

from . import nf, report
from . import terms as T
from .harness import Session
from .model import AnalysisError, Program

PROPS = ["C02", "C03", "C04", "C05", "C06", "C07", "C08", "C09", "C10", "C11", "C12", "C13", "C14", "C15", "C16", "C17", "C18", "C19", "C20"]


def run_check(pid: str, tier: str, seed: int, program=None, quiet=False, write=True):
    """Run all rules of a property on the (given or current) tree. Returns (exit_code, Check)."""
    T.reset()
    nf.reset()
    from . import interp as _interp

    _interp.INLINED.clear()
    mod = importlib.import_module(f"pdqverif.rules.{pid.lower()}")
    chk = report.Check(pid, tier, seed, mod.EXPLANATION, level=getattr(mod, "LEVEL", "other"))
    try:
        S = Session(program or Program())
        from .harness import running

        with running(pid):
            mod.run(chk, S)
        S.absorb_all()
        chk.extra["analysed"] = S.stats()
        # trusted base, decided: every linear-algebra primitive the rules of this check met while interpreting (their own and their lenders') still forwards
        # what the domains assume about it
        from .rules import backend_contract as _bc

        # met = called while interpreting (by this check's rules or its lenders'), plus the primitives the rule module declares because the library hands
        # them on as *values* into code paths of this property (a default solve): those are never "called" by name
        met = set(S.prims) | {f"linalg.{n}" for n in getattr(mod, "TRUSTED_VALUE_PRIMITIVES", ())}
        usage = {k: set(v) for k, v in S.prim_usage.items()}
        for lender in getattr(S, "_borrow_cache", {}).values():
            met |= getattr(lender, "prims_met", set())
            for k, shapes in getattr(lender, "prim_usage", {}).items():
                usage.setdefault(k, set()).update(shapes)
        for n in getattr(mod, "TRUSTED_VALUE_PRIMITIVES", ()):
            usage[f"linalg.{n}"] = None  # handed on as a value: called by code this check does not follow, so every argument counts
        # layout closures (ravel_pytree's unravel) applied to new values while this check's own scenarios were interpreted
        if S.unravel_applied:
            from .rules import dtype_census as _dc

            rdc = chk.rule(f"R-{pid}-D", "pytree states with leaves of different dtypes: every unravel closure that is applied to a new value comes from an example whose leaves were cast to a "
                           "common dtype (ravel_pytree's unravel casts each leaf back to its own dtype)", floor=1)
            _dc.census_rules(chk, S, rdc)
        from .rules import backend_semantic as _bs

        cand = sorted(p for p in met if p.split(".", 1)[0] in _bs.MODULES)
        if cand:
            rtb = chk.rule(f"R-{pid}-TB", "trusted base, decided: every probdiffeq.backend wrapper this check met while interpreting computes, on symbolic arguments and with every library routine "
                           "uninterpreted, the same canonical value as the reference wrapper the domains were written against (usage-aware: options no code path of this property supplies stay at "
                           "their defaults on both sides)", floor=1)
            done = _bs.trusted_base_rules(chk, S, rtb, cand, usage)
            rtb.floor = max(1, len(done))
            chk.extra["analysed"]["backend_wrappers_decided"] = done
    except AnalysisError as e:
        chk.analysis_error(str(e))
    except RecursionError as e:  # pragma: no cover
        chk.analysis_error(f"recursion limit: {e}")
    except Exception as e:  # any internal failure is an analysis error, never a violation
        chk.analysis_error(f"internal error {type(e).__name__}: {e} :: {traceback.format_exc(limit=6).splitlines()[-3:]}")
    if not write:
        chk.apply_floors()
        return None, chk
    selftest = None
    if tier == "thorough" and not chk.errors:
        from . import selftest as st

        selftest = st.run_for(pid, seed)
        try:
            from . import automutate as am

            props = {}
            with open(os.path.join(report.VERIF, "properties.jsonl")) as fh:
                for line in fh:
                    d = json.loads(line)
                    props[d["id"]] = d
            files = [f for f in props[pid]["anchors"]["files"] if f.startswith("probdiffeq/")]
            selftest["auto"] = am.run_for(pid, files, seed=seed, max_break=120, max_benign=120)
        except Exception as e:  # the generic mutation statistics never change the verdict
            selftest["auto"] = {"error": f"{type(e).__name__}: {e}"}
    code = chk.finish(selftest=selftest)
    if selftest and selftest.get("positive_control_failed"):
        print(f"ANALYSIS-ERROR property={pid} positive control of the self-test did not fire: {selftest['positive_control_failed']}")
        code = 2
    return code, chk


def main(argv=None):
    ap = argparse.ArgumentParser(prog="pdqverif")
    sub = ap.add_subparsers(dest="cmd", required=True)
    c = sub.add_parser("check")
    c.add_argument("pid")
    c.add_argument("--tier", default=os.environ.get("VERIF_TIER", "quick"), choices=["quick", "thorough"])
    r = sub.add_parser("replay")
    r.add_argument("path")
    a = ap.parse_args(argv)
    seed = int(os.environ.get("VERIF_SEED", "0") or 0)
    sys.setrecursionlimit(20000)
    if a.cmd == "check":
        pid = a.pid.upper()
        if pid not in PROPS:
            print(f"ANALYSIS-ERROR unknown or unclaimed property {pid}")
            return 2
        code, _ = run_check(pid, a.tier, seed)
        return code
    if a.cmd == "replay":
        with open(a.path) as fh:
            rep = json.load(fh)
        pid = rep["property"]
        _, chk = run_check(pid, "quick", seed, write=False)
        if chk.errors:
            print(f"ANALYSIS-ERROR property={pid} {chk.errors[0]}")
            return 2
        for rl in chk.rules:
            for o in rl.obls:
                if o.rule == rep["rule"] and o.construct == rep["construct"] and json.dumps(o.config, default=str) == json.dumps(rep.get("config"), default=str):
                    print(f"replay {o.rule} {o.construct}: {o.status} -- {o.detail}")
                    if o.status == "refuted":
                        print(f"VIOLATION property={pid} replay={a.path}")
                        return 1
                    return 0
        print(f"ANALYSIS-ERROR property={pid} obligation {rep['rule']} / {rep['construct']} no longer exists")
        return 2
    return 2


if __name__ == "__main__":
    sys.exit(main())
